package an

import (
	"regexp"
	"testing"
)

func TestSearchLangEqual(t *testing.T) {
	ref := `^(Runtime|Function)\.[A-Z][a-zA-Z]+$`
	cases := []struct {
		a, b string
		eq   bool
	}{
		{ref, ref, true},
		{`(Runtime|Function)\.[A-Z][a-zA-Z]+`, ref, false},
		{`^(Runtime|Function)\.[A-Z][a-zA-z]+$`, ref, false},
		{`^(?:Function|Runtime)\.[A-Z][A-Za-z]{1,}$`, ref, true},
		{`^(Runtime|Function)\.[A-Z][a-zA-Z]*$`, ref, false},
		{`^(Runtime|Function)\.[A-Z][a-zA-Z]+`, ref, false},
		{`^(Runtime|Function).[A-Z][a-zA-Z]+$`, ref, false},
		{`\A(Runtime|Function)\.[A-Z][a-zA-Z]+\z`, ref, true},
	}
	for _, c := range cases {
		eq, w, n, err := SearchLangEqual(c.a, c.b)
		if err != nil {
			t.Fatalf("%q: %v", c.a, err)
		}
		if eq != c.eq {
			t.Errorf("%q vs ref: got equal=%v want %v (witness %q, %d states)", c.a, eq, c.eq, w, n)
		}
		if !eq {
			ma, _ := regexp.MatchString(c.a, w)
			mb, _ := regexp.MatchString(c.b, w)
			if ma == mb {
				t.Errorf("%q: witness %q does not distinguish (%v, %v)", c.a, w, ma, mb)
			}
			t.Logf("%q: witness %q (%d states)", c.a, w, n)
		}
	}
}
