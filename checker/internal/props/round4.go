package props

// Rules added after the fourth blind round of seeded changes (DESIGN 10.11).

import (
	"go/token"
	"go/types"
	"sort"
	"strings"

	"golang.org/x/tools/go/ssa"

	"verif/checker/internal/an"
	"verif/checker/internal/report"
)

// checkTransitionBeforeBody: the handlers of /response and /error make their state transition right after the id
// was validated, before the (possibly slow) request body is consumed: a submission that stalls on its body across
// a reset must not be able to transition the runtime of the NEXT invocation once the body finally arrives.
func checkTransitionBeforeBody(c *report.Ctx) {
	for _, h := range []struct{ fn, trans string }{
		{"(*invocationErrorHandler).ServeHTTP", "L/core.Runtime.InvocationErrorResponse"},
		{"(*invocationResponseHandler).ServeHTTP", "L/core.Runtime.InvocationResponse"},
	} {
		f := fn(c, "L/rapi/handler", h.fn)
		if f == nil {
			continue
		}
		tr := an.CallsTo(f, h.trans)
		isTr := map[ssa.Instruction]bool{}
		for _, t := range tr {
			isTr[t] = true
		}
		ord := an.NewOrder(f, func(in ssa.Instruction) uint64 {
			if isTr[in] {
				return 1
			}
			return 0
		})
		var early []string
		n := 0
		an.AllInstrs(f, func(in ssa.Instruction) {
			call, ok := in.(*ssa.Call)
			if !ok {
				return
			}
			cal := an.Callee(call)
			reads := oneOf(cal, "io.ReadAll", "io/ioutil.ReadAll", "L/rapi/handler.invocationErrorHandler.getErrorBody", "L/rapi/handler.invocationErrorHandler.getErrorBodyForErrorCauseContentType") ||
				strings.HasSuffix(cal, ".SendResponse") || strings.HasSuffix(cal, ".SendErrorResponse")
			if !reads {
				return
			}
			n++
			if must, _ := ord.Before(in); must&1 == 0 {
				early = append(early, cal)
			}
		})
		c.Check("R-ORDER", an.FuncName(f)+"/transition-before-body", "the state transition is made before the request body is read or handed on (it is made for the invocation whose id was just validated, not for whichever is current when a slow body finally arrives)", len(early) == 0 && len(tr) >= 1 && n >= 1, fpos(f), n, "body-consuming calls: %d; possibly before the transition: %v", n, early)
	}
}

// checkRegisteredAgentsSize: the number of parties the agents-ready barrier waits for is the number of extensions
// the platform knows (both registries' sizes), independent of how far each has got.
func checkRegisteredAgentsSize(c *report.Ctx) {
	f := fn(c, coreP, "(*registrationServiceImpl).GetRegisteredAgentsSize")
	if f == nil {
		return
	}
	ok := false
	for _, e := range an.Exits(f) {
		if len(e.Vals) != 1 {
			continue
		}
		bo, k := an.Strip(e.Vals[0], true).(*ssa.BinOp)
		if !k || bo.Op != token.ADD {
			continue
		}
		isSize := func(v ssa.Value, m string) bool {
			cl, _ := an.CallOf(an.Strip(v, true))
			return cl != nil && an.Callee(cl) == "L/core."+m+".Size"
		}
		ok = (isSize(bo.X, "ExternalAgentsMap") && isSize(bo.Y, "InternalAgentsMap")) || (isSize(bo.Y, "ExternalAgentsMap") && isSize(bo.X, "InternalAgentsMap"))
	}
	c.Check("R-WIRE", an.FuncName(f)+"/counts-every-known-extension", "the agents-ready count is the size of both extension registries (an extension that exists is waited for, whatever state it is in)", ok, fpos(f), 1, "returns externalAgents.Size() + internalAgents.Size(): %v", ok)
}

// checkInitResultAcked: whoever hands the init result to the server waits for its acknowledgement on every path
// (the server's awaitInitCompletion sends the ack and would block forever - and with it every later invocation's
// wait for init - if nobody received it).
func checkInitResultAcked(c *report.Ctx) {
	n, ok := 0, true
	var bad []string
	for _, name := range []string{"handleInit", "handleInitError"} {
		f := fn(c, "L/rapid", name)
		if f == nil {
			continue
		}
		isAck := func(in ssa.Instruction) bool {
			u, k := in.(*ssa.UnOp)
			if !k || u.Op != token.ARROW {
				return false
			}
			fr, k2 := an.AsField(an.Strip(u.X, false))
			return k2 && fr.Field == "Ack"
		}
		aft := an.NewAfter(f, func(in ssa.Instruction) uint64 {
			if isAck(in) {
				return 1
			}
			return 0
		}, false)
		an.AllInstrs(f, func(in ssa.Instruction) {
			s, k := in.(*ssa.Send)
			if !k || !oneOf(chanName(s.Chan), "initSuccessResponse", "initFailureResponse") {
				return
			}
			n++
			if aft.Following(in)&1 == 0 {
				ok = false
				bad = append(bad, name+": send on "+chanName(s.Chan)+" not followed by a receive of the acknowledgement on every path")
			}
		})
	}
	c.Check("R-PAIR", "L/rapid/init-result-acknowledged", "every hand-over of the init result is followed, on every path, by the receive of its acknowledgement", ok && n >= 2, token.NoPos, n, "hand-over sites: %d; problems: %v", n, bad)
}

// checkStartWiresConfiguration: rapid.Start copies every configuration field of the Sandbox that has a
// counterpart in the rapid context (a dropped line leaves the zero value: e.g. standaloneMode=false removes the
// deadline from the wait for extensions at shutdown).
func checkStartWiresConfiguration(c *report.Ctx) {
	f := fn(c, "L/rapid", "Start")
	if f == nil {
		return
	}
	sb := c.P.Named("L/rapid", "Sandbox")
	if sb == nil {
		c.Unresolved("ANCHOR", "L/rapid.Sandbox", "type not found")
		return
	}
	st := sb.Underlying().(*types.Struct)
	ctxFields := map[string]string{}
	for _, fv := range structFields(c, "L/rapid", "rapidContext") {
		ctxFields[strings.ToLower(fv.Name())] = fv.Name()
	}
	// a setting counts as copied when its value is stored somewhere while the context is assembled (directly into
	// the field of the same name, or into a wrapper struct that field holds)
	wired := map[string]bool{}
	an.AllInstrs(f, func(in ssa.Instruction) {
		s, ok := in.(*ssa.Store)
		if !ok {
			return
		}
		if src, k := an.AsField(an.Strip(s.Val, true)); k && src.Struct == "L/rapid.Sandbox" {
			if cf, has := ctxFields[strings.ToLower(src.Field)]; has {
				wired[cf] = true
			}
		}
	})
	var missing []string
	n := 0
	for i := 0; i < st.NumFields(); i++ {
		name := an.FieldName(sb, st.Field(i).Name())
		cf, has := ctxFields[strings.ToLower(name)]
		if !has {
			continue
		}
		n++
		if !wired[cf] {
			missing = append(missing, name)
		}
	}
	sort.Strings(missing)
	c.Check("R-WIRE", an.FuncName(f)+"/every-setting-wired", "every Sandbox setting that has a field of the same name in the rapid context is copied into it", len(missing) == 0 && n >= 5, fpos(f), n, "same-named settings: %d; not copied: %v", n, missing)
}

// checkExitWaitBounded: in clearExitedChannel the timeout case ends the wait: from the timer's case no path leads
// back into the loop (a `break` there would only leave the select, and the one-shot timer never fires again).
func checkExitWaitBounded(c *report.Ctx) {
	f := fn(c, "L/rapid", "(*shutdownContext).clearExitedChannel")
	if f == nil {
		return
	}
	facts := an.NewFacts(f)
	var sel *ssa.Select
	an.AllInstrs(f, func(in ssa.Instruction) {
		if s, ok := in.(*ssa.Select); ok && s.Blocking {
			sel = s
		}
	})
	ok := sel != nil
	detail := "no blocking select"
	if ok {
		tIdx := -1
		for i, st := range sel.States {
			if cl, _ := an.CallOf(st.Chan); cl != nil && an.Callee(cl) == "time.After" {
				tIdx = i
			}
		}
		ok = tIdx >= 0
		detail = "no time.After case"
		if ok {
			found := false
			for _, b := range f.Blocks {
				if s, idx := selectCase(facts, b); s == sel && idx == tIdx {
					found = true
					// no feasible path from b back to the select (a flag set in the case and tested by the loop
					// condition ends the loop just as a return does)
					if feasiblyReaches(b, sel.Block()) {
						ok = false
					}
				}
			}
			ok = ok && found
			detail = sprintf("timer case found: %v; leaves the loop for good: %v", found, ok)
		}
	}
	c.Check("R-GUARD", an.FuncName(f)+"/timeout-ends-the-wait", "when the fixed grace expires the wait for process exits ends (the timer case cannot re-enter the loop)", ok, fpos(f), 1, "%s", detail)
}

// checkOnlyOwnMiddleware: the API routers install only the repository's own middleware (request context, access
// log, runtime identity, extensions switch, id validators). Foreign middleware changes which requests reach the
// handlers - e.g. chi's GetHead makes HEAD run the GET handler and its state transition.
func checkOnlyOwnMiddleware(c *report.Ctx) {
	var foreign []string
	var pos token.Pos
	n := 0
	for _, f := range repoFuncs(c) {
		if !strings.HasPrefix(an.FuncName(f), "L/rapi.") {
			continue
		}
		for _, call := range an.CallsTo(f, "github.com/go-chi/chi.Mux.Use") {
			for _, a := range variadicValues(call.Common().Args[len(call.Common().Args)-1]) {
				n++
				v := an.Strip(a, true)
				name := ""
				if cl, _ := an.CallOf(v); cl != nil {
					name = an.Callee(cl)
				} else if fnv, ok := v.(*ssa.Function); ok {
					name = an.FuncName(fnv)
				} else if mc, ok := v.(*ssa.MakeClosure); ok {
					name = an.FuncName(mc.Fn.(*ssa.Function))
				}
				if !strings.HasPrefix(name, "L/rapi/middleware.") {
					foreign = append(foreign, an.FuncName(f)+": "+name)
					if pos == token.NoPos {
						pos = an.InstrPos(call)
					}
				}
			}
		}
	}
	c.Check("R-WHO", "L/rapi/middleware-installed", "only the repository's own middleware is installed on the API routers", len(foreign) == 0 && n >= 5, pos, n, "middleware installed: %d; foreign: %v", n, foreign)
}

// checkFeatureNamesTrimmed: the names in the registration feature header are compared after trimming blanks.
func checkFeatureNamesTrimmed(c *report.Ctx) {
	// anchored on the table of known features, wherever in the package it is consulted
	n, ok := 0, true
	pos := token.NoPos
	for _, f := range repoFuncs(c) {
		if !strings.HasPrefix(an.FuncName(f), "L/rapi/handler.") {
			continue
		}
		an.AllInstrs(f, func(in ssa.Instruction) {
			lk, k := in.(*ssa.Lookup)
			if !k || an.GlobalOf(lk.X) != "L/rapi/handler.allowedFeatures" {
				return
			}
			n++
			cl, _ := an.CallOf(an.Strip(lk.Index, true))
			if cl == nil || an.Callee(cl) != "strings.TrimSpace" {
				ok = false
				pos = an.InstrPos(in)
			}
		})
	}
	c.Check("R-WIRE", "L/rapi/handler.allowedFeatures/names-trimmed", "each feature name is looked up after strings.TrimSpace (\"a, accountId\" asks for accountId)", ok && n >= 1, pos, n, "lookups: %d, keyed by the trimmed name: %v", n, ok)
}

// checkInitFieldsToEnvArgs: the environment store functions receive handler, function name and function version
// from the init request's fields of those names (two adjacent string parameters are easy to swap).
func checkInitFieldsToEnvArgs(c *report.Ctx) {
	want := map[string]string{"handler": "Handler", "funcName": "FunctionName", "funcVer": "FunctionVersion", "customerEnv": "CustomerEnvironmentVariables", "awsKey": "AwsKey", "awsSecret": "AwsSecret", "awsSession": "AwsSession"}
	n, ok := 0, true
	var bad []string
	for _, f := range repoFuncs(c) {
		if !strings.HasPrefix(an.FuncName(f), "L/rapid.") {
			continue
		}
		for _, call := range an.CallsTo(f, envT+".StoreEnvironmentVariablesFromInit", envT+".StoreEnvironmentVariablesFromInitForInitCaching") {
			callee := call.Common().StaticCallee()
			if callee == nil {
				continue
			}
			for i, p := range callee.Params {
				w, has := want[p.Name()]
				if !has || i >= len(call.Common().Args) {
					continue
				}
				n++
				fr, k := an.AsField(an.Strip(call.Common().Args[i], true))
				if !k || fr.Struct != "L/interop.Init" || fr.Field != w {
					ok = false
					bad = append(bad, sprintf("%s: parameter %s receives %s", an.FuncName(f), p.Name(), an.Path(call.Common().Args[i])))
				}
			}
		}
	}
	c.Check("R-WIRE", "L/rapid/init-fields-to-environment", "handler, function name, function version and credentials reach the environment from the init request's fields of those names", ok && n >= 8, token.NoPos, n, "arguments checked: %d; mismatches: %v", n, bad)
}

// checkCancelClosesConnection: cancelling an upload closes the connection it arrives on (closing the request body
// instead waits for the read in progress - the very read the cancel is meant to abort).
func checkCancelClosesConnection(c *report.Ctx) {
	f := fn(c, "L/interop", "(*CancellableRequest).Cancel")
	if f == nil {
		return
	}
	ok := false
	for _, e := range an.Exits(f) {
		if len(e.Vals) != 1 {
			continue
		}
		cl, _ := an.CallOf(an.Strip(e.Vals[0], false))
		if cl == nil || an.Callee(cl) != "net.Conn.Close" {
			continue
		}
		recv, _ := an.CallOf(an.Strip(cl.Common().Value, true))
		ok = recv != nil && an.Callee(recv) == "L/interop.GetConn"
	}
	nbody := len(an.Calls(f, func(s string) bool { return strings.HasSuffix(s, "ReadCloser.Close") }))
	c.Check("R-CONST", an.FuncName(f)+"/closes-the-connection", "Cancel closes the request's network connection (GetConn(request).Close()), not its body", ok && nbody == 0, fpos(f), 1, "returns GetConn(...).Close(): %v; body closes: %d", ok, nbody)
}

// checkCredentialsLayerStartsEmpty: the credentials layer of the environment is empty until an init request fills it.
func checkCredentialsLayerStartsEmpty(c *report.Ctx) {
	f := fn(c, "L/rapidcore/env", "NewEnvironment")
	if f == nil {
		return
	}
	fw := fieldWrites(f, envT)
	c.Check("R-CONST", an.FuncName(f)+"/credentials-start-empty", "the credentials layer starts as an empty map (nothing of the emulator's own environment is taken over as credentials)", oneOf("make", fw["credentials"]...) && len(fw["credentials"]) == 1, fpos(f), 1, "constructor writes: %v", fw["credentials"])
}

// checkStartedMeansWatched: once the command has been started, Exec registers it and starts its watcher on every
// path - it cannot fail any more (a started process nobody waits for is never reaped and reports no exit).
func checkStartedMeansWatched(c *report.Ctx) {
	f := fn(c, supP, "(*LocalSupervisor).Exec")
	if f == nil {
		return
	}
	facts := an.NewFacts(f)
	start := an.CallsTo(f, "os/exec.Cmd.Start")
	started := func(b *ssa.BasicBlock) bool {
		return len(start) == 1 && facts.Holds(b, func(ft an.Fact) bool {
			return an.CmpNil(ft, true, func(v ssa.Value) bool { return an.Strip(v, false) == ssa.Value(start[0].Value()) }) ||
				an.CmpNil(ft, true, func(v ssa.Value) bool { // err captured by the watcher closure: a cell named err
					u, k := v.(*ssa.UnOp)
					if !k || u.Op != token.MUL {
						return false
					}
					a, k := u.X.(*ssa.Alloc)
					return k && len(start) == 1 && holdsValueOf(a, start[0].Value())
				})
		})
	}
	ord := an.NewOrder(f, func(in ssa.Instruction) uint64 {
		var r uint64
		if _, ok := in.(*ssa.MapUpdate); ok {
			r |= 1
		}
		if _, ok := in.(*ssa.Go); ok {
			r |= 2
		}
		return r
	})
	n, ok := 0, true
	for _, e := range an.Exits(f) {
		if !started(e.Ret.Block()) {
			continue
		}
		n++
		must, _ := ord.Before(e.Ret)
		if must&3 != 3 || (len(e.Vals) == 1 && !an.IsNil(e.Vals[0])) {
			ok = false
		}
	}
	c.Check("R-ORDER", an.FuncName(f)+"/started-means-registered-and-watched", "every exit after a successful Start has registered the process and started its watcher, and reports success", ok && n >= 1, fpos(f), n, "exits after a successful start: %d; all registered+watched+nil: %v", n, ok)
}

// checkRuntimeReleaseReturnedAsStored: the runtime identity string is handed out exactly as it was stored (its
// length was bounded when it was stored; any re-encoding on the way out can lengthen it).
func checkRuntimeReleaseReturnedAsStored(c *report.Ctx) {
	f := fn(c, "L/appctx", "GetRuntimeRelease")
	if f == nil {
		return
	}
	ok := false
	for _, e := range an.Exits(f) {
		if len(e.Vals) != 1 {
			continue
		}
		ta, k := an.Strip(e.Vals[0], false).(*ssa.TypeAssert)
		if !k {
			ok = false
			break
		}
		cl, _ := an.CallOf(ta.X)
		ok = cl != nil && strings.HasSuffix(an.Callee(cl), ".GetOrDefault")
	}
	c.Check("R-WIRE", an.FuncName(f)+"/returned-as-stored", "GetRuntimeRelease returns the stored string itself", ok, fpos(f), 1, "returns GetOrDefault(...).(string): %v", ok)
}

var _ = report.Discharged

// checkNoDeclaredLength: the renderers never declare a Content-Length themselves (net/http derives it from what
// is actually written; a length computed from the event as received is wrong as soon as the event is cut).
func checkNoDeclaredLength(c *report.Ctx) {
	var bad []string
	var pos token.Pos
	n := 0
	for _, f := range repoFuncs(c) {
		if !strings.HasPrefix(an.FuncName(f), "L/rapi/rendering.") {
			continue
		}
		for _, call := range an.CallsTo(f, "net/http.Header.Set", "net/http.Header.Add") {
			n++
			a := call.Common().Args
			if len(a) >= 2 {
				if k, isC := an.ConstString(a[1]); isC && strings.EqualFold(k, "Content-Length") {
					bad = append(bad, an.FuncName(f))
					if pos == token.NoPos {
						pos = an.InstrPos(call)
					}
				}
			}
		}
	}
	c.Check("R-WHO", "L/rapi/rendering/no-declared-content-length", "no renderer sets Content-Length by hand (the body actually written decides it, also when an oversized event was cut)", len(bad) == 0 && n >= 3, pos, n, "header writes in the renderers: %d; Content-Length set in: %v", n, bad)
}

// feasiblyReaches: is there a path from the start of block from to block target, when boolean joins that take a
// constant on the edge walked are remembered and the branches on them are decided accordingly? (A loop left
// through a flag - `done = true` in a case, `for ... && !done` - is left for good.)
func feasiblyReaches(from, target *ssa.BasicBlock) bool {
	type state struct {
		b     *ssa.BasicBlock
		known string
	}
	seen := map[state]bool{}
	var walk func(b, pred *ssa.BasicBlock, known map[*ssa.Phi]bool, depth int) bool
	key := func(known map[*ssa.Phi]bool) string {
		var ks []string
		for p, v := range known {
			ks = append(ks, sprintf("%s=%v", p.Name(), v))
		}
		sort.Strings(ks)
		return strings.Join(ks, ",")
	}
	resolve := func(v ssa.Value, known map[*ssa.Phi]bool) (bool, bool) {
		neg := false
		for i := 0; i < 8; i++ {
			if u, ok := v.(*ssa.UnOp); ok && u.Op == token.NOT {
				neg = !neg
				v = u.X
				continue
			}
			break
		}
		if b, ok := an.ConstBool(v); ok {
			return b != neg, true
		}
		if p, ok := v.(*ssa.Phi); ok {
			if k, has := known[p]; has {
				return k != neg, true
			}
		}
		return false, false
	}
	walk = func(b, pred *ssa.BasicBlock, known map[*ssa.Phi]bool, depth int) bool {
		if depth > 200 {
			return true
		}
		nk := map[*ssa.Phi]bool{}
		for p, v := range known {
			nk[p] = v
		}
		if pred != nil {
			idx := -1
			for i, p := range b.Preds {
				if p == pred {
					idx = i
				}
			}
			upd := map[*ssa.Phi]*bool{}
			for _, in := range b.Instrs {
				p, ok := in.(*ssa.Phi)
				if !ok {
					break
				}
				if idx < 0 || idx >= len(p.Edges) {
					upd[p] = nil
					continue
				}
				if v, ok := resolve(p.Edges[idx], known); ok {
					vv := v
					upd[p] = &vv
				} else {
					upd[p] = nil
				}
			}
			for p, v := range upd {
				if v == nil {
					delete(nk, p)
				} else {
					nk[p] = *v
				}
			}
		}
		if b == target && pred != nil {
			return true
		}
		st := state{b, key(nk)}
		if seen[st] {
			return false
		}
		seen[st] = true
		succs := b.Succs
		if iff, ok := b.Instrs[len(b.Instrs)-1].(*ssa.If); ok && len(b.Succs) == 2 {
			if v, ok := resolve(iff.Cond, nk); ok {
				if v {
					succs = b.Succs[:1]
				} else {
					succs = b.Succs[1:]
				}
			}
		}
		for _, s := range succs {
			if walk(s, b, nk, depth+1) {
				return true
			}
		}
		return false
	}
	return walk(from, nil, map[*ssa.Phi]bool{}, 0)
}
