// flipifs rewrites, in place, the non-test Go files of a scratch copy of the repository:
//
//	mode "else": every `if c { A } else { B }` (B a block) becomes `if !(c) { B } else { A }`
//	mode "guard": in a function body, the first `if c { ...; return }` (no else) followed by more statements becomes
//	              `if !(c) { <the rest of the body> } else { ...; return }`
//	mode "neg":  every `x == y` / `x != y` at the top of an if condition becomes `!(x != y)` / `!(x == y)`
//
// The result is the same program. It is a self-test aid for the checker (no rule may depend on which way round a
// condition is written), not a check.
package main

import (
	"fmt"
	"go/ast"
	"go/parser"
	"go/token"
	"os"
	"path/filepath"
	"sort"
	"strings"
)

type edit struct {
	start, end int
	repl       string
}

func main() {
	root, mode := os.Args[1], os.Args[2]
	n := 0
	for _, d := range []string{"lambda", "cmd"} {
		filepath.Walk(filepath.Join(root, d), func(p string, info os.FileInfo, err error) error {
			if err != nil || info.IsDir() || !strings.HasSuffix(p, ".go") || strings.HasSuffix(p, "_test.go") || strings.Contains(p, "/testdata/") {
				return nil
			}
			fset := token.NewFileSet()
			src, _ := os.ReadFile(p)
			f, err := parser.ParseFile(fset, p, src, parser.ParseComments)
			if err != nil {
				return nil
			}
			off := func(pos token.Pos) int { return fset.Position(pos).Offset }
			text := func(nd ast.Node) string { return string(src[off(nd.Pos()):off(nd.End())]) }
			var edits []edit
			if mode == "guard" {
				for _, dcl := range f.Decls {
					fd, ok := dcl.(*ast.FuncDecl)
					if !ok || fd.Body == nil {
						continue
					}
					named := false
					if fd.Type.Results != nil {
						for _, r := range fd.Type.Results.List {
							if len(r.Names) > 0 {
								named = true
							}
						}
					}
					if named {
						continue // a declaration moved into the new block could shadow a named result
					}
					list := fd.Body.List
					for i, st := range list {
						is, ok := st.(*ast.IfStmt)
						if !ok || is.Else != nil || is.Init != nil || i == len(list)-1 || len(is.Body.List) == 0 {
							continue
						}
						if _, isRet := is.Body.List[len(is.Body.List)-1].(*ast.ReturnStmt); !isRet {
							continue
						}
						hasRes := fd.Type.Results != nil && len(fd.Type.Results.List) > 0
						_, lastRet := list[len(list)-1].(*ast.ReturnStmt)
						if hasRes && !lastRet {
							continue
						}
						// labels or gotos in the rest: leave
						bad := false
						for _, r := range list[i+1:] {
							ast.Inspect(r, func(x ast.Node) bool {
								switch x.(type) {
								case *ast.LabeledStmt:
									bad = true
								}
								return true
							})
						}
						if bad {
							break
						}
						rest := string(src[off(list[i+1].Pos()):off(list[len(list)-1].End())])
						edits = append(edits, edit{off(is.Pos()), off(list[len(list)-1].End()),
							"if !(" + text(is.Cond) + ") {\n" + rest + "\n} else " + text(is.Body)})
						n++
						break
					}
				}
			}
			ast.Inspect(f, func(nd ast.Node) bool {
				is, ok := nd.(*ast.IfStmt)
				if !ok {
					return true
				}
				switch mode {
				case "else":
					eb, isBlock := is.Else.(*ast.BlockStmt)
					if !isBlock {
						return true
					}
					// only innermost rewrites per pass would be needed for nesting; here: skip if either branch contains another if-else we rewrite
					nested := false
					for _, blk := range []*ast.BlockStmt{is.Body, eb} {
						ast.Inspect(blk, func(x ast.Node) bool {
							if i2, ok := x.(*ast.IfStmt); ok {
								if _, isB := i2.Else.(*ast.BlockStmt); isB {
									nested = true
								}
							}
							return true
						})
					}
					if nested {
						return true
					}
					edits = append(edits, edit{off(is.Cond.Pos()), off(is.Cond.End()), "!(" + text(is.Cond) + ")"})
					edits = append(edits, edit{off(is.Body.Pos()), off(is.Body.End()), text(eb)})
					edits = append(edits, edit{off(eb.Pos()), off(eb.End()), text(is.Body)})
					n++
				case "neg":
					be, isBin := is.Cond.(*ast.BinaryExpr)
					if !isBin || (be.Op != token.EQL && be.Op != token.NEQ) {
						return true
					}
					op := "!="
					if be.Op == token.NEQ {
						op = "=="
					}
					edits = append(edits, edit{off(be.Pos()), off(be.End()), "!(" + text(be.X) + " " + op + " " + text(be.Y) + ")"})
					n++
				}
				return true
			})
			if len(edits) == 0 {
				return nil
			}
			sort.Slice(edits, func(i, j int) bool { return edits[i].start > edits[j].start })
			out := src
			for _, e := range edits {
				out = append(append(append([]byte(nil), out[:e.start]...), e.repl...), out[e.end:]...)
			}
			if err := os.WriteFile(p, out, 0o644); err != nil {
				panic(err)
			}
			return nil
		})
	}
	fmt.Printf("rewrote %d if statements (%s)\n", n, mode)
}
