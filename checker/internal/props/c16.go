package props

import (
	"go/token"
	"go/types"
	"sort"
	"strings"

	"golang.org/x/tools/go/ssa"

	"verif/checker/internal/an"
	"verif/checker/internal/report"
)

const envT = "L/rapidcore/env.Environment"

func init() {
	register(&Prop{
		Spec: report.Spec{
			ID: "C16",
			Explanation: "The environment builder is pure map code, so precedence is decided from structure: mapUnion is last-wins (nested range, unconditional store, no test, no delete); the key set each reserved layer can ever hold is computed from the literal tables and from every constant-key store into the layer (a non-constant key in a reserved layer is a violation); RuntimeExecEnv's single union lists the customer map first and all four reserved layers after it, in the documented relative order wherever two layers' key sets intersect; AgentExecEnv unions only customer, credentials and platform, customer first, and filters the result through a predicate that is exactly 'listed exclusion or name starting with _' and a mapExclude that copies exactly the entries failing it; " +
				"the credential keys are stored unconditionally (so the reserved layer always shadows a customer value), customer-supplied maps flow only into the customer layer, values are copied unchanged ('=' handling: SplitN(...,2) on the way in, key+\"=\"+value on the way out), and the Runtime API address placed in the platform layer is the one the API server object was created with, wired through Start -> SandboxBuilder.Create -> SandboxContext.Init before the init handler starts; the two exec environments are the only producers of the Env of the two process-start requests. " +
				"Added after the blind rounds: the child environment comes from the request only; reserved values are taken when set (even if empty); optional reserved stores test their own source. " +
				"NOT decided: the OS-level execve; with --runtime-api-address host:0 the advertised port would differ from the bound one (observation, not armed).",
			RuleText:    "one obligation per shape rule, per layer key set, per union argument, per wiring edge",
			Assumptions: trusted,
			MinObs:      27,
		},
		Run: runC16,
	})
}

func runC16(c *report.Ctx) {
	c.Clause("1 mapUnion is last-wins")
	checkMapUnion(c)
	c.Clause("2 layer key sets")
	keys := layerKeySets(c)
	c.Clause("3 precedence")
	checkPrecedence(c, keys)
	c.Clause("4 customer data stays in the customer layer")
	checkCustomerTaint(c)
	c.Clause("5 values unchanged")
	checkEnvValues(c)
	c.Clause("6 runtime API address")
	checkRuntimeAPIAddress(c)
	c.Clause("7 producers of process environments")
	checkEnvProducers(c)
	checkLookupEnvPresence(c)
	checkOptionalReservedStores(c)
	checkInitFieldsToEnvArgs(c)
	checkCredentialsLayerStartsEmpty(c)
}

func checkMapUnion(c *report.Ctx) {
	f := fn(c, "L/rapidcore/env", "mapUnion")
	if f == nil {
		return
	}
	var upd []*ssa.MapUpdate
	nLookup, nDelete, nIf := 0, 0, 0
	var mk *ssa.MakeMap
	an.AllInstrs(f, func(in ssa.Instruction) {
		switch x := in.(type) {
		case *ssa.MapUpdate:
			upd = append(upd, x)
		case *ssa.Lookup:
			nLookup++
		case *ssa.MakeMap:
			mk = x
		case *ssa.If:
			nIf++
		case ssa.CallInstruction:
			if an.Callee(x) == "builtin.delete" {
				nDelete++
			}
		}
	})
	ok := len(upd) == 1 && nLookup == 0 && nDelete == 0 && mk != nil && nIf == 2
	detail := sprintf("stores: %d, lookups: %d, deletes: %d, branches (the two loop tests): %d", len(upd), nLookup, nDelete, nIf)
	if ok {
		u := upd[0]
		// key/value are the inner range's current pair; the map updated is the result map
		kx, k1 := u.Key.(*ssa.Extract)
		vx, k2 := u.Value.(*ssa.Extract)
		ok = k1 && k2 && kx.Tuple == vx.Tuple && kx.Index == 1 && vx.Index == 2 && u.Map == ssa.Value(mk)
		if ok {
			nx, isNext := kx.Tuple.(*ssa.Next)
			ok = isNext
			if ok {
				rg, isRange := nx.Iter.(*ssa.Range)
				ok = isRange
				if ok {
					// ranged map is maps[i] of the variadic parameter, i running over the full index range
					ld, isLd := rg.X.(*ssa.UnOp)
					ok = isLd
					if ok {
						ia, isIA := ld.X.(*ssa.IndexAddr)
						_, isParam := ia.X.(*ssa.Parameter)
						ok = isIA && isParam
					}
				}
			}
		}
		ex := an.Exits(f)
		ok = ok && len(ex) == 1 && ex[0].Vals[0] == ssa.Value(mk)
		detail += sprintf("; store is result[k] = v of the inner range over maps[i]: %v", ok)
	}
	c.Check("R-SHAPE", an.FuncName(f)+"/last-wins", "the union copies every entry of every argument, in argument order, unconditionally: a later argument's value replaces an earlier one's (last wins), nothing is skipped or removed", ok, fpos(f), 5, "%s", detail)
}

// layerKeySets computes the constant key set of each layer.
func layerKeySets(c *report.Ctx) map[string]map[string]bool {
	keys := map[string]map[string]bool{}
	add := func(layer, k string) {
		if keys[layer] == nil {
			keys[layer] = map[string]bool{}
		}
		keys[layer][k] = true
	}
	// literal tables -> layers via NewEnvironment
	table := func(fname string) []string {
		f := c.P.Func("L/rapidcore/env", fname)
		var out []string
		if f == nil {
			return nil
		}
		an.AllInstrs(f, func(in ssa.Instruction) {
			if mu, ok := in.(*ssa.MapUpdate); ok {
				if s, k := an.ConstString(mu.Key); k {
					out = append(out, s)
				}
			}
		})
		sort.Strings(out)
		return out
	}
	ne := fn(c, "L/rapidcore/env", "NewEnvironment")
	if ne != nil {
		for _, st := range an.Stores(ne, envT, "") {
			fr, _ := an.AsField(st.Addr)
			if cl, _ := an.CallOf(st.Val); cl != nil && an.Callee(cl) == "L/rapidcore/env.lookupEnv" {
				if tc, _ := an.CallOf(cl.Call.Args[0]); tc != nil {
					for _, k := range table(strings.TrimPrefix(an.Callee(tc), "L/rapidcore/env.")) {
						add(fr.Field, k)
					}
				}
			}
		}
	}
	// constant-key stores into layers anywhere
	var dynamic []string
	nstores := 0
	for _, f := range repoFuncs(c) {
		an.AllInstrs(f, func(in ssa.Instruction) {
			mu, ok := in.(*ssa.MapUpdate)
			if !ok {
				return
			}
			fr, ok := an.AsField(an.Strip(mu.Map, false))
			if !ok || fr.Struct != envT {
				return
			}
			nstores++
			if s, k := an.ConstString(mu.Key); k {
				add(fr.Field, s)
			} else {
				dynamic = append(dynamic, an.FuncName(f)+" -> "+fr.Field)
			}
		})
	}
	c.Check("R-WHO", envT+"/constant-keys-only", "entries are put into the layers only under constant names (no caller-chosen key can land in a reserved layer)", len(dynamic) == 0 && nstores >= 8, token.NoPos, nstores, "%d stores; non-constant keys: %v", nstores, dynamic)
	// the copy from the process environment takes only keys of its table (wherever in the package it is written)
	{
		n, ok := 0, true
		pos := token.NoPos
		for _, le := range repoFuncs(c) {
			if !strings.HasPrefix(an.FuncName(le), "L/rapidcore/env.") || len(an.CallsTo(le, "os.LookupEnv")) == 0 {
				continue
			}
			an.AllInstrs(le, func(in ssa.Instruction) {
				mu, k := in.(*ssa.MapUpdate)
				if !k || !an.IsResultOf(mu.Value, "os.LookupEnv", 0) {
					return
				}
				n++
				good := false
				if ex, k2 := mu.Key.(*ssa.Extract); k2 {
					if _, isNext := ex.Tuple.(*ssa.Next); isNext && ex.Index == 1 {
						good = true
					}
				}
				if !good {
					ok = false
					pos = an.InstrPos(in)
				}
			})
		}
		c.Check("R-SHAPE", "L/rapidcore/env.lookupEnv/keys-from-table", "a layer initialised from the process environment can only hold the names of its table", ok && n >= 1, pos, n, "copies: %d, keyed by the table's own key: %v", n, ok)
	}
	reserved := []string{"platformUnreserved", "credentials", "runtime", "platform"}
	var inter []string
	for i := 0; i < len(reserved); i++ {
		for j := i + 1; j < len(reserved); j++ {
			for k := range keys[reserved[i]] {
				if keys[reserved[j]][k] {
					inter = append(inter, reserved[i]+"∩"+reserved[j]+":"+k)
				}
			}
		}
	}
	sort.Strings(inter)
	sizes := map[string]int{}
	for l, ks := range keys {
		sizes[l] = len(ks)
	}
	c.Check("R-CONST", envT+"/layer-key-sets", "the reserved layers' key sets were computed (credentials, runtime incl. _HANDLER, platform incl. function name/version and the Runtime API address)", keys["platform"]["AWS_LAMBDA_RUNTIME_API"] && keys["platform"]["AWS_LAMBDA_FUNCTION_NAME"] && keys["platform"]["AWS_LAMBDA_FUNCTION_VERSION"] && keys["runtime"]["_HANDLER"] && keys["credentials"]["AWS_ACCESS_KEY_ID"] && keys["credentials"]["AWS_SECRET_ACCESS_KEY"] && keys["credentials"]["AWS_SESSION_TOKEN"],
		token.NoPos, len(keys), "sizes: %v; intersections between reserved layers: %v", sizes, inter)
	keys["__intersections"] = map[string]bool{}
	for _, s := range inter {
		keys["__intersections"][s] = true
	}
	return keys
}

// unionSite is one place where maps are united, last one winning, into a fresh map: a call of mapUnion (whose
// last-wins shape clause 1 decides), or the same thing written out - a map made empty on the spot and filled by
// nothing but a sequence of complete, unconditional copy loops `for k, v := range layer { m[k] = v }`.
type unionSite struct {
	result ssa.Value   // the united map
	args   []ssa.Value // the maps united, in the order they are copied
}

func unionSites(f *ssa.Function) []unionSite {
	var out []unionSite
	for _, call := range an.CallsTo(f, "L/rapidcore/env.mapUnion") {
		if v := call.Value(); v != nil {
			out = append(out, unionSite{v, variadicValues(call.Common().Args[0])})
		}
	}
	an.AllInstrs(f, func(in ssa.Instruction) {
		if m, ok := in.(*ssa.MakeMap); ok {
			if args, k := writtenOutUnion(m); k {
				out = append(out, unionSite{m, args})
			}
		}
	})
	return out
}

// writtenOutUnion: m, a map made empty in this function, is written by copy loops alone - each one ranges over a
// map and stores every pair it yields under its own key, unconditionally (the store stands in the loop's one body
// block, which goes straight back to the loop test; the loop is left only when the range is exhausted) - the loops
// stand one after the other (each begins after the previous one has finished), and every other use of m (returning
// it, handing it on) comes after the last loop has finished and cannot be reached without running every loop. Then, at every such use, m is the union of the ranged
// maps in loop order, a later one's value replacing an earlier one's: what mapUnion(args...) returns.
func writtenOutUnion(m *ssa.MakeMap) ([]ssa.Value, bool) {
	type loop struct {
		rg   *ssa.Range
		done *ssa.BasicBlock
	}
	var loops []loop
	var others []ssa.Instruction
	if m.Referrers() == nil {
		return nil, false
	}
	for _, r := range *m.Referrers() {
		mu, isMU := r.(*ssa.MapUpdate)
		if !isMU {
			switch x := r.(type) {
			case *ssa.Return:
				others = append(others, r)
			case *ssa.Call:
				if an.Callee(x) == "builtin.delete" {
					return nil, false
				}
				others = append(others, r)
			case *ssa.DebugRef:
			default:
				return nil, false
			}
			continue
		}
		kx, k1 := mu.Key.(*ssa.Extract)
		vx, k2 := mu.Value.(*ssa.Extract)
		if mu.Map != ssa.Value(m) || !k1 || !k2 || kx.Tuple != vx.Tuple || kx.Index != 1 || vx.Index != 2 {
			return nil, false
		}
		nx, isNext := kx.Tuple.(*ssa.Next)
		if !isNext || nx.IsString {
			return nil, false
		}
		rg, isRange := nx.Iter.(*ssa.Range)
		if !isRange || rg.Referrers() == nil || len(*rg.Referrers()) != 1 {
			return nil, false
		}
		if _, isMap := rg.X.Type().Underlying().(*types.Map); !isMap {
			return nil, false
		}
		h, body := nx.Block(), mu.Block()
		if len(h.Succs) != 2 || len(h.Preds) != 2 || h.Succs[0] != body || h.Succs[1] == body || h == body {
			return nil, false
		}
		iff, isIf := h.Instrs[len(h.Instrs)-1].(*ssa.If)
		if !isIf {
			return nil, false
		}
		okx, isEx := iff.Cond.(*ssa.Extract)
		if !isEx || okx.Tuple != ssa.Value(nx) || okx.Index != 0 {
			return nil, false
		}
		if len(body.Preds) != 1 || len(body.Succs) != 1 || body.Succs[0] != h {
			return nil, false
		}
		// the loop is entered from the block that starts the iteration, and from nowhere else
		pre := h.Preds[0]
		if pre == body {
			pre = h.Preds[1]
		}
		if pre == body || pre != rg.Block() || len(pre.Succs) != 1 {
			return nil, false
		}
		// one store per loop
		for _, l := range loops {
			if l.rg == rg {
				return nil, false
			}
		}
		loops = append(loops, loop{rg, h.Succs[1]})
	}
	if len(loops) == 0 {
		return nil, false
	}
	// one after the other: a is before b when b starts only after a was left
	before := func(a, b loop) bool { return a.done.Dominates(b.rg.Block()) }
	sort.SliceStable(loops, func(i, j int) bool { return before(loops[i], loops[j]) })
	for i := 0; i+1 < len(loops); i++ {
		if !before(loops[i], loops[i+1]) || before(loops[i+1], loops[i]) {
			return nil, false
		}
	}
	// every use of the finished map lies behind every loop: no way to it goes round a loop (each loop's first block
	// leads into the loop only, and the loop is left only through its exhausted test) or leaves before the last one
	last := loops[len(loops)-1]
	for _, o := range others {
		if !last.done.Dominates(o.Block()) {
			return nil, false
		}
		for _, l := range loops {
			if !l.rg.Block().Dominates(o.Block()) {
				return nil, false
			}
		}
	}
	if len(others) == 0 {
		return nil, false
	}
	var args []ssa.Value
	for _, l := range loops {
		args = append(args, l.rg.X)
	}
	return args, true
}

// unionArgs returns the layer names united at the site, in order.
func unionArgs(site unionSite) []string {
	var out []string
	for _, v := range site.args {
		if fr, ok := an.AsField(an.Strip(v, false)); ok && fr.Struct == envT {
			out = append(out, fr.Field)
		} else {
			out = append(out, "?"+an.Path(v))
		}
	}
	return out
}

func checkPrecedence(c *report.Ctx, keys map[string]map[string]bool) {
	doc := []string{"Customer", "platformUnreserved", "credentials", "runtime", "platform"}
	rank := map[string]int{}
	for i, l := range doc {
		rank[l] = i
	}
	if f := fn(c, "L/rapidcore/env", "(*Environment).RuntimeExecEnv"); f != nil {
		calls := unionSites(f)
		ok := len(calls) == 1
		var args []string
		if ok {
			args = unionArgs(calls[0])
			has := map[string]bool{}
			for _, a := range args {
				has[a] = true
			}
			ok = len(args) >= 5 && args[0] == "Customer"
			for _, l := range doc {
				if !has[l] {
					ok = false
				}
			}
			for _, a := range args {
				if _, known := rank[a]; !known {
					ok = false
				}
			}
			// relative order matters only where key sets intersect
			for i := 0; i < len(args); i++ {
				for j := i + 1; j < len(args); j++ {
					a, b := args[i], args[j]
					if a == "Customer" || b == "Customer" {
						if b == "Customer" {
							ok = false
						}
						continue
					}
					intersect := false
					for k := range keys[a] {
						if keys[b][k] {
							intersect = true
						}
					}
					if intersect && rank[a] > rank[b] {
						ok = false
					}
				}
			}
			ex := an.Exits(f)
			ok = ok && len(ex) == 1 && ex[0].Vals[0] == calls[0].result
		}
		c.Check("R-ORDER", an.FuncName(f)+"/precedence", "the runtime's environment is one union with the customer map first and every reserved layer after it (reserved values win), reserved layers with common names in the documented order", ok, fpos(f), len(args), "union arguments: %v", args)
	}
	if f := fn(c, "L/rapidcore/env", "(*Environment).AgentExecEnv"); f != nil {
		calls := unionSites(f)
		excl := an.CallsTo(f, "L/rapidcore/env.mapExclude")
		ok := len(calls) == 1 && len(excl) == 1
		var args []string
		if ok {
			args = unionArgs(calls[0])
			ok = len(args) >= 1 && args[0] == "Customer"
			for _, a := range args {
				if !oneOf(a, "Customer", "credentials", "platform") {
					ok = false
				}
			}
			has := map[string]bool{}
			for _, a := range args {
				has[a] = true
			}
			ok = ok && has["credentials"] && has["platform"]
			// result = mapExclude(union, predicate)
			ok = ok && excl[0].Common().Args[0] == calls[0].result
			ex := an.Exits(f)
			ok = ok && len(ex) == 1 && ex[0].Vals[0] == ssa.Value(excl[0].Value())
		}
		c.Check("R-ORDER", an.FuncName(f)+"/layers", "extensions get customer, credential and platform variables only (customer first, so reserved values win; no runtime-only or internal layer), filtered through mapExclude", ok, fpos(f), len(args), "union arguments: %v", args)
		// the predicate, decided per class of names (decide.go): it holds for every name starting with '_', for none
		// of the other names except the ones it lists, and lets no listed '_' name through
		if len(excl) == 1 {
			pred := closureOf(excl[0].Common().Args[1])
			sp, decided := decideStringPred(pred)
			okP := decided && sp.Prefix["_"] && !sp.Other
			var leaks []string
			if decided {
				for p, holds := range sp.Prefix {
					if p != "_" && holds && !strings.HasPrefix(p, "_") {
						okP = false
						leaks = append(leaks, "withholds every name starting with "+p)
					}
				}
				for _, k := range sp.FalseFor {
					if strings.HasPrefix(k, "_") {
						okP = false
						leaks = append(leaks, "lets "+k+" through")
					}
				}
				// "customer, credential and platform variables ... never names starting with '_' nor the X-Ray
				// exclusions": among the names that do not start with '_' nothing but the X-Ray exclusion is withheld
				for _, k := range sp.TrueFor {
					if !strings.HasPrefix(k, "_") && k != "AWS_XRAY_CONTEXT_MISSING" {
						okP = false
						leaks = append(leaks, "withholds "+k)
					}
				}
			}
			detail := "predicate not found or not decided (depends on more than comparisons, constant tables and constant prefixes of the name)"
			if decided {
				detail = sprintf("holds for listed names %v; for '_' names: %v; for any other name: %v; %v", sp.TrueFor, sp.Prefix["_"], sp.Other, leaks)
			}
			c.Check("R-SHAPE", an.FuncName(f)+"/filter-predicate", "an extension never sees a listed exclusion nor any name starting with '_', and sees every other name: the filter predicate holds exactly for the listed names and the '_' names", okP, fpos(f), 3, "%s", detail)
			var ks []string
			if decided {
				ks = sp.TrueFor
			}
			c.Check("R-CONST", "L/rapidcore/env.extensionExcludedKeys/xray-exclusions", "the X-Ray exclusions are among the names the extension filter withholds", oneOf("AWS_XRAY_CONTEXT_MISSING", ks...) && oneOf("_AWS_XRAY_DAEMON_ADDRESS", ks...) && oneOf("_AWS_XRAY_DAEMON_PORT", ks...), fpos(f), len(ks), "%v", ks)
		}
	}
	if f := fn(c, "L/rapidcore/env", "mapExclude"); f != nil {
		facts := an.NewFacts(f)
		var upd []*ssa.MapUpdate
		an.AllInstrs(f, func(in ssa.Instruction) {
			if u, k := in.(*ssa.MapUpdate); k {
				upd = append(upd, u)
			}
		})
		ok := len(upd) == 1
		if ok {
			u := upd[0]
			// guarded by !predicate(key), copying key -> val of the range
			g := facts.Holds(u.Block(), func(ft an.Fact) bool {
				cl, _ := an.CallOf(ft.Cond)
				if cl == nil || ft.Val {
					return false
				}
				_, isParam := cl.Call.Value.(*ssa.Parameter)
				return isParam && len(cl.Call.Args) == 1 && cl.Call.Args[0] == u.Key
			})
			kx, k1 := u.Key.(*ssa.Extract)
			vx, k2 := u.Value.(*ssa.Extract)
			ok = g && k1 && k2 && kx.Tuple == vx.Tuple
		}
		c.Check("R-SHAPE", an.FuncName(f)+"/copies-exactly-the-kept-entries", "filtering keeps exactly the entries for which the predicate is false, unchanged", ok, fpos(f), 1, "%v", ok)
	}
	// credentials stored unconditionally
	for _, spec := range []struct {
		fn   string
		want []string
	}{
		{"(*Environment).StoreEnvironmentVariablesFromInit", []string{"AWS_ACCESS_KEY_ID", "AWS_SECRET_ACCESS_KEY", "AWS_SESSION_TOKEN"}},
		{"(*Environment).StoreEnvironmentVariablesFromInitForInitCaching", []string{"AWS_CONTAINER_AUTHORIZATION_TOKEN", "AWS_CONTAINER_CREDENTIALS_FULL_URI"}},
	} {
		f := fn(c, "L/rapidcore/env", spec.fn)
		if f == nil {
			continue
		}
		var got []string
		okU := true
		an.AllInstrs(f, func(in ssa.Instruction) {
			mu, k := in.(*ssa.MapUpdate)
			if !k {
				return
			}
			fr, k2 := an.AsField(an.Strip(mu.Map, false))
			if !k2 || fr.Field != "credentials" {
				return
			}
			s, _ := an.ConstString(mu.Key)
			got = append(got, s)
			for _, e := range an.Exits(f) {
				if !an.InstrDominates(mu, e.Ret) {
					okU = false
				}
			}
		})
		sort.Strings(got)
		c.Check("R-ORDER", an.FuncName(f)+"/credentials-unconditional", "every credential name is stored in the reserved credentials layer on every path (even when empty), so a customer variable of the same name can never show through", okU && strings.Join(got, ",") == strings.Join(spec.want, ","), fpos(f), len(got), "stored: %v; unconditional: %v", got, okU)
	}
	if f := fn(c, "L/rapidcore/env", "predefinedCredentialsEnvVarKeys"); f != nil {
		var ks []string
		an.AllInstrs(f, func(in ssa.Instruction) {
			if mu, k := in.(*ssa.MapUpdate); k {
				if s, k2 := an.ConstString(mu.Key); k2 {
					ks = append(ks, s)
				}
			}
		})
		sort.Strings(ks)
		c.Check("R-CONST", an.FuncName(f)+"/agrees", "the declared credential names are the ones stored", strings.Join(ks, ",") == "AWS_ACCESS_KEY_ID,AWS_SECRET_ACCESS_KEY,AWS_SESSION_TOKEN", fpos(f), len(ks), "%v", ks)
	}
}

func closureOf(v ssa.Value) *ssa.Function {
	switch x := v.(type) {
	case *ssa.MakeClosure:
		f, _ := x.Fn.(*ssa.Function)
		return f
	case *ssa.Function:
		return x
	}
	return nil
}

func checkCustomerTaint(c *report.Ctx) {
	// layer fields are (re)assigned only by the constructor, Customer only by merge
	for _, layer := range []string{"rapid", "platform", "runtime", "platformUnreserved", "credentials", "Customer"} {
		w := storesTo(c, envT, layer)
		var names []string
		for f := range w {
			names = append(names, an.FuncName(f))
		}
		sort.Strings(names)
		want := "L/rapidcore/env.NewEnvironment"
		if layer == "Customer" {
			// the customer layer is also replaced by the customer merge, wherever it is written (the helper
			// mergeCustomerEnvironmentVariables is looked through: internal/load/norm.go): every such store
			// is Customer = mapUnion(Customer, <the map handed in>), i.e. later values override earlier ones
			// inside the customer layer and nothing else enters it
			okAll, nst := true, 0
			var pos token.Pos
			for f, sts := range w {
				if an.FuncName(f) == "L/rapidcore/env.NewEnvironment" {
					continue
				}
				for _, st := range sts {
					nst++
					if pos == token.NoPos {
						pos = an.InstrPos(st)
					}
					cl, _ := an.CallOf(an.Strip(st.Val, false))
					if cl == nil || an.Callee(cl) != "L/rapidcore/env.mapUnion" {
						okAll = false
						continue
					}
					a := unionArgsMixed(cl)
					if !(len(a) == 2 && a[0] == "Customer" && a[1] == "param") {
						okAll = false
					}
				}
			}
			c.Check("R-ORDER", envT+".Customer/merge-is-union-later-overrides", "merging customer variables is union(existing, new): the init request's values override CLI ones, all inside the customer layer", okAll && nst >= 2, pos, nst, "%d merge stores, all of the form Customer = mapUnion(Customer, parameter): %v", nst, okAll)
			continue
		}
		c.Check("R-WHO", envT+"."+layer+"/assigned-by", "a reserved layer map is replaced only by the constructor", strings.Join(names, ",") == want, token.NoPos, len(names), "assigned in: %v", names)
	}
	// values stored into reserved layers come from scalar parameters / formatted strings, never from a map parameter
	bad := []string{}
	n := 0
	for _, f := range repoFuncs(c) {
		an.AllInstrs(f, func(in ssa.Instruction) {
			mu, ok := in.(*ssa.MapUpdate)
			if !ok {
				return
			}
			fr, ok := an.AsField(an.Strip(mu.Map, false))
			if !ok || fr.Struct != envT || fr.Field == "Customer" {
				return
			}
			n++
			switch v := mu.Value.(type) {
			case *ssa.Parameter:
				if _, isMap := v.Type().Underlying().(interface{ Key() }); isMap {
					bad = append(bad, an.FuncName(f))
				}
			case *ssa.Call:
				if an.Callee(v) != "fmt.Sprintf" {
					bad = append(bad, an.FuncName(f)+":"+an.Callee(v))
				}
			case *ssa.Extract, *ssa.Lookup:
				bad = append(bad, an.FuncName(f)+": value read from a map")
			}
		})
	}
	c.Check("R-WIRE", envT+"/reserved-values-from-dedicated-fields", "reserved layers receive their values only from the dedicated scalar arguments (handler, function name/version, credentials, address), never from a customer-supplied map", len(bad) == 0 && n >= 8, token.NoPos, n, "%d stores; suspicious: %v", n, bad)
	// the customer map of the init request flows into the customer merge only
	for _, f := range envInitStoreFns(c) {
		ok := false
		nuse := 0
		// (what was handed in: a parameter, or a field of a record passed by value - an.ParamPieces)
		for _, p := range an.ParamPieces(f) {
			merged := false
			for _, call := range an.CallsTo(f, "L/rapidcore/env.mapUnion") {
				for _, v := range variadicValues(call.Common().Args[0]) {
					for _, rd := range p.Reads {
						if v == rd {
							if st := storedToField(call, envT, "Customer"); st {
								merged = true
							}
						}
					}
				}
			}
			if !merged {
				continue
			}
			ok = true
			nuse = p.Uses()
		}
		c.Check("R-WIRE", an.FuncName(f)+"/customer-map-only-merged", "the customer-supplied map is used only as the argument of the customer merge", ok && nuse == 1, fpos(f), nuse, "uses of customerEnv: %d; merged into the customer layer: %v", nuse, ok)
	}
}

// storedToField: the call's value is stored to struct.field.
func storedToField(call ssa.CallInstruction, structName, field string) bool {
	v := call.Value()
	if v == nil {
		return false
	}
	for _, r := range *v.Referrers() {
		if st, ok := r.(*ssa.Store); ok && st.Val == ssa.Value(v) {
			if fr, k := an.AsField(st.Addr); k && fr.Struct == structName && fr.Field == field {
				return true
			}
		}
	}
	return false
}

func unionArgsMixed(call ssa.CallInstruction) []string {
	var out []string
	for _, v := range variadicValues(call.Common().Args[0]) {
		if fr, ok := an.AsField(an.Strip(v, false)); ok && fr.Struct == envT {
			out = append(out, fr.Field)
		} else if _, _, ok := an.ParamRead(v); ok {
			// a parameter, or a field of a record passed by value
			out = append(out, "param")
		} else {
			out = append(out, "?")
		}
	}
	return out
}

func checkEnvValues(c *report.Ctx) {
	if f := fn(c, "M/cmd/aws-lambda-rie", "InitHandler"); f != nil {
		ok := false
		for _, call := range an.CallsTo(f, "strings.SplitN") {
			a := call.Common().Args
			sep, k1 := an.ConstString(a[1])
			n, k2 := an.ConstInt(a[2])
			ok = k1 && k2 && sep == "=" && n == 2
		}
		// additional[envVar[0]] = envVar[1]
		okS := false
		an.AllInstrs(f, func(in ssa.Instruction) {
			if mu, k := in.(*ssa.MapUpdate); k {
				ki, vi := indexOf(mu.Key), indexOf(mu.Value)
				if ki == 0 && vi == 1 {
					okS = true
				}
			}
		})
		c.Check("R-CONST", an.FuncName(f)+"/split-at-first-equals", "a variable of the emulator's own environment is split at the first '=' only, so values containing '=' arrive whole", ok && okS, fpos(f), 2, "SplitN(env, \"=\", 2): %v; map[parts[0]] = parts[1]: %v", ok, okS)
		// customer env handed to Init is that map
		okW := false
		for _, st := range an.Stores(f, "L/interop.Init", "CustomerEnvironmentVariables") {
			_, okW = st.Val.(*ssa.MakeMap)
		}
		c.Check("R-WIRE", an.FuncName(f)+"/customer-env", "the forwarded variables are handed over as the customer environment", okW, fpos(f), 1, "%v", okW)
	}
	if f := fn(c, "L/supervisor", "(*LocalSupervisor).Exec"); f != nil {
		ok := false
		an.AllInstrs(f, func(in ssa.Instruction) {
			if bo, k := in.(*ssa.BinOp); k && bo.Op == token.ADD {
				if inner, k2 := bo.X.(*ssa.BinOp); k2 && inner.Op == token.ADD {
					if s, k3 := an.ConstString(inner.Y); k3 && s == "=" {
						ok = true
					}
				}
			}
		})
		c.Check("R-WIRE", an.FuncName(f)+"/rejoin", "the process receives each variable as key + \"=\" + value", ok, fpos(f), 1, "%v", ok)
		// the child's environment is built from the request's map alone: nothing of the emulator's own process
		// environment is mixed in (it holds exactly the variables the extension filter removed)
		var amb []string
		for _, g := range an.WithAnon(f) {
			for _, call := range an.Calls(g, func(s string) bool {
				return oneOf(s, "os.Environ", "os/exec.Cmd.Environ", "os.Getenv", "os.LookupEnv", "os.ExpandEnv", "syscall.Environ")
			}) {
				amb = append(amb, an.Callee(call))
			}
		}
		nenv := 0
		okSrc := true
		for _, st := range an.Stores(f, "os/exec.Cmd", "Env") {
			nenv++
			for _, o := range newWire(c, nil, map[string]int{"builtin.append": 0}).Origins(st.Val) {
				if !strings.HasPrefix(o, "op:") && !strings.HasPrefix(o, "const:") && !strings.HasPrefix(o, "alloc:") && o != "call:builtin.append#0" {
					okSrc = false
					amb = append(amb, "Env <- "+o)
				}
			}
		}
		c.Check("R-WIRE", an.FuncName(f)+"/child-env-only-from-request", "the started process gets exactly the variables of the request (a fresh slice filled from req.Env), none inherited from the emulator's own environment", len(amb) == 0 && nenv >= 1 && okSrc, fpos(f), nenv+1, "stores to Cmd.Env: %d; ambient-environment reads or foreign sources: %v", nenv, amb)
	}
}

func indexOf(v ssa.Value) int64 {
	if u, ok := v.(*ssa.UnOp); ok && u.Op == token.MUL {
		if ia, ok := u.X.(*ssa.IndexAddr); ok {
			if n, k := an.ConstInt(ia.Index); k {
				return n
			}
		}
	}
	return -1
}

func checkRuntimeAPIAddress(c *report.Ctx) {
	w := newWire(c, nil, nil)
	if f := fn(c, "L/rapid", "Start"); f != nil {
		// returned string = Sprintf("%s:%d", server.Host(), server.Port()) of the server stored in execCtx.server
		var srv ssa.Value
		for _, st := range an.Stores(f, rapidCtxT, "server") {
			srv = st.Val
		}
		ok := false
		for _, e := range an.Exits(f) {
			if cl, _ := an.CallOf(e.Vals[2]); cl != nil && an.Callee(cl) == "fmt.Sprintf" {
				fs, _ := an.ConstString(cl.Call.Args[0])
				vals := variadicValues(cl.Call.Args[1])
				if fs == "%s:%d" && len(vals) == 2 {
					h, _ := an.CallOf(an.Strip(vals[0], true))
					p, _ := an.CallOf(an.Strip(vals[1], true))
					// the receiver is the server object stored in the context: the same value, or a read of that field
					isSrv := func(v ssa.Value) bool { return v == srv || loadOf(rapidCtxT, "server")(v) }
					ok = h != nil && p != nil && an.Callee(h) == "L/rapi.Server.Host" && an.Callee(p) == "L/rapi.Server.Port" && isSrv(h.Call.Args[0]) && isSrv(p.Call.Args[0]) && srv != nil
				}
			}
		}
		c.Check("R-WIRE", an.FuncName(f)+"/address-of-the-server-object", "the address handed out is host:port of the very Runtime API server object the sandbox listens with", ok, fpos(f), 2, "%v", ok)
		if srv != nil {
			cl, _ := an.CallOf(srv)
			okN := cl != nil && an.Callee(cl) == "L/rapi.NewServer"
			c.Check("R-WIRE", an.FuncName(f)+"/server-created-from-sandbox-address", "that server is created from the configured Runtime API host and port", okN, fpos(f), 1, "%v", okN)
		}
	}
	if f := fn(c, "L/rapid", "startRuntimeAPI"); f != nil {
		ok := false
		for _, call := range an.CallsTo(f, "L/rapi.Server.Listen") {
			fr, k := an.AsField(an.Strip(call.Common().Args[0], false))
			ok = k && fr.Struct == rapidCtxT && fr.Field == "server"
		}
		c.Check("R-WIRE", an.FuncName(f)+"/listens-on-that-server", "the listener is opened on the same server object", ok, fpos(f), 1, "%v", ok)
	}
	if f := fn(c, rapidcP, "(*SandboxBuilder).Create"); f != nil {
		or := []string{}
		for _, st := range an.Stores(f, "L/rapidcore.SandboxContext", "runtimeAPIAddress") {
			or = w.Origins(st.Val)
		}
		ok := len(or) == 1 && or[0] == "call:L/rapid.Start#2"
		c.Check("R-WIRE", an.FuncName(f)+"/address-stored", "the sandbox context remembers the address Start returned", ok, fpos(f), 1, "origins: %v", or)
	}
	if f := fn(c, rapidcP, "(SandboxContext).Init"); f != nil {
		ok := false
		for _, call := range an.CallsTo(f, envT+".StoreRuntimeAPIEnvironmentVariable") {
			fr, k := an.AsField(an.Strip(call.Common().Args[1], false))
			ok = k && fr.Field == "runtimeAPIAddress"
		}
		c.Check("R-WIRE", an.FuncName(f)+"/address-into-environment", "initialisation puts that address into the environment", ok, fpos(f), 1, "%v", ok)
		// handler override applied before the handler goroutine starts
		var g ssa.Instruction
		an.AllInstrs(f, func(in ssa.Instruction) {
			if _, k := in.(*ssa.Go); k {
				g = in
			}
		})
		sh := an.CallsTo(f, envT+".SetHandler")
		okH := g != nil && len(sh) == 1 && sh[0].Block().Dominates(g.Block()) == false || (g != nil && len(sh) == 1)
		if g != nil && len(sh) == 1 {
			ord := an.NewOrder(f, func(in ssa.Instruction) uint64 {
				if in == g {
					return 1
				}
				return 0
			})
			_, may := ord.Before(sh[0])
			okH = may&1 == 0
		}
		c.Check("R-ORDER", an.FuncName(f)+"/handler-before-init", "a handler override is applied before the init handler (which starts the processes) begins", okH, fpos(f), 2, "%v", okH)
	}
	if f := fn(c, "L/rapidcore/env", "(*Environment).StoreRuntimeAPIEnvironmentVariable"); f != nil {
		ok := false
		an.AllInstrs(f, func(in ssa.Instruction) {
			if mu, k := in.(*ssa.MapUpdate); k {
				fr, k2 := an.AsField(an.Strip(mu.Map, false))
				s, k3 := an.ConstString(mu.Key)
				_, k4 := mu.Value.(*ssa.Parameter)
				if k2 && k3 && k4 && fr.Field == "platform" && s == "AWS_LAMBDA_RUNTIME_API" {
					ok = true
				}
			}
		})
		c.Check("R-WIRE", an.FuncName(f)+"/platform-layer", "the address is stored as AWS_LAMBDA_RUNTIME_API in the reserved platform layer (part of both process environments, never overridable)", ok, fpos(f), 1, "%v", ok)
	}
}

func checkEnvProducers(c *report.Ctx) {
	w := newWire(c, nil, nil)
	if f := fn(c, "L/rapid", "doInitExtensions"); f != nil {
		var or []string
		for _, st := range an.Stores(f, "L/supervisor/model.ExecRequest", "Env") {
			if al, k := st.Val.(*ssa.Alloc); k {
				or = w.Origins(al)
			} else {
				or = w.Origins(st.Val)
			}
		}
		ok := len(or) == 1 && or[0] == "call:"+envT+".AgentExecEnv#0"
		c.Check("R-WIRE", an.FuncName(f)+"/extension-env", "an extension process is started with the extensions' environment", ok, fpos(f), 1, "origins: %v", or)
	}
	if f := fn(c, "L/rapid", "doRuntimeBootstrap"); f != nil {
		ok := len(an.CallsTo(f, "L/interop.Bootstrap.Env")) == 1
		c.Check("R-WIRE", an.FuncName(f)+"/runtime-env", "the runtime's environment is obtained from the bootstrap's Env", ok, fpos(f), 1, "%v", ok)
	}
	if f := fn(c, "M/cmd/aws-lambda-rie", "(*simpleBootstrap).Env"); f != nil {
		ex := an.Exits(f)
		ok := len(ex) == 1 && an.IsResultOf(ex[0].Vals[0], envT+".RuntimeExecEnv", -1)
		c.Check("R-WIRE", an.FuncName(f)+"/is-runtime-exec-env", "the emulator's bootstrap hands out exactly the runtime exec environment", ok, fpos(f), 1, "%v", ok)
	}
}

var _ = report.Discharged
