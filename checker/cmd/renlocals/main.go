// renlocals rewrites, in place, the non-test Go files of a scratch copy of the repository so that every local
// variable, parameter, named result and receiver gets a new name (suffix given as second argument; default "_r").
// The result is the same program. It is a self-test aid for the checker (no rule may depend on a local name),
// not a check.
package main

import (
	"fmt"
	"go/ast"
	"go/token"
	"go/types"
	"os"
	"sort"
	"strings"

	"golang.org/x/tools/go/packages"
)

func main() {
	root := os.Args[1]
	suffix := "_r"
	if len(os.Args) > 2 {
		suffix = os.Args[2]
	}
	fset := token.NewFileSet()
	cfg := &packages.Config{Mode: packages.LoadSyntax, Dir: root, Fset: fset, Tests: false}
	pkgs, err := packages.Load(cfg, "./...")
	if err != nil {
		fmt.Fprintln(os.Stderr, err)
		os.Exit(2)
	}
	type edit struct{ off, end int }
	edits := map[string][]edit{}
	nobj := map[types.Object]bool{}
	for _, p := range pkgs {
		if len(p.Errors) > 0 {
			fmt.Fprintln(os.Stderr, p.Errors)
			os.Exit(2)
		}
		local := func(o types.Object) bool {
			v, ok := o.(*types.Var)
			if !ok || v.IsField() || v.Name() == "_" || v.Pkg() != p.Types {
				return false
			}
			return v.Parent() != p.Types.Scope() && v.Parent() != types.Universe
		}
		for _, f := range p.Syntax {
			name := fset.Position(f.Pos()).Filename
			if strings.HasSuffix(name, "_test.go") {
				continue
			}
			// parameter names inside interface method declarations and function types: leave (harmless, but they
			// have no parent scope in some versions)
			ast.Inspect(f, func(n ast.Node) bool {
				id, ok := n.(*ast.Ident)
				if !ok {
					return true
				}
				var o types.Object
				if d := p.TypesInfo.Defs[id]; d != nil {
					o = d
				} else if u := p.TypesInfo.Uses[id]; u != nil {
					o = u
				}
				if o == nil || !local(o) || o.(*types.Var).Parent() == nil {
					return true
				}
				nobj[o] = true
				edits[name] = append(edits[name], edit{fset.Position(id.Pos()).Offset, fset.Position(id.End()).Offset})
				return true
			})
			// implicit objects of type switches `switch x := y.(type)`: the symbol is in Implicits per clause, the
			// defining ident has no object; uses in clauses refer to the implicit objects (already covered by Uses);
			// rename the defining ident too
			ast.Inspect(f, func(n ast.Node) bool {
				ts, ok := n.(*ast.TypeSwitchStmt)
				if !ok {
					return true
				}
				if as, ok := ts.Assign.(*ast.AssignStmt); ok && len(as.Lhs) == 1 {
					if id, ok := as.Lhs[0].(*ast.Ident); ok && id.Name != "_" {
						edits[name] = append(edits[name], edit{fset.Position(id.Pos()).Offset, fset.Position(id.End()).Offset})
					}
				}
				return true
			})
		}
	}
	nfiles := 0
	for name, es := range edits {
		src, err := os.ReadFile(name)
		if err != nil {
			panic(err)
		}
		sort.Slice(es, func(i, j int) bool { return es[i].off > es[j].off })
		last := -1
		for _, e := range es {
			if e.off == last {
				continue
			}
			last = e.off
			src = append(src[:e.end:e.end], append([]byte(suffix), src[e.end:]...)...)
		}
		if err := os.WriteFile(name, src, 0o644); err != nil {
			panic(err)
		}
		nfiles++
	}
	fmt.Printf("renamed %d local objects in %d files\n", len(nobj), nfiles)
}
