#!/usr/bin/env python3
"""Imports confirmed per-file seeds (round 5: /tmp/seedout5/Fnn/mK.*, property named in the first line of mK.md as
`PROPERTY: Cxx`) into /verif/seeded/<Cxx>-r5<Fnn>m<K>/."""
import json, os, shutil, glob, re
SEEDOUT = os.environ.get("SEEDOUT", "/tmp/seedout5")
V = json.load(open(os.path.join(SEEDOUT, "validation.json")))
here = os.path.join(os.path.dirname(os.path.abspath(__file__)), "..")
for key, r in sorted(V.items()):
    if not r.get("ok"):
        print("skip", key, r.get("why", "")); continue
    area, m = key.split("-")
    src = os.path.join(SEEDOUT, area)
    md = open(os.path.join(src, m + ".md")).read()
    pm = re.search(r"PROPERTY:\s*(C\d\d)", md)
    if not pm:
        print("skip (no property line)", key); continue
    prop = pm.group(1)
    sid = "%s-%s%s%s" % (prop, os.environ.get("SEED_ROUND", "r5"), area, m)
    d = os.path.join(here, "seeded", sid)
    os.makedirs(d, exist_ok=True)
    shutil.copy(os.path.join(src, m + ".diff"), os.path.join(d, "patch.diff"))
    demo = glob.glob(os.path.join(src, m + "_demo*"))[0]
    shutil.copy(demo, os.path.join(d, "demo_test.go.txt"))
    open(os.path.join(d, "notes.md"), "w").write(md)
    json.dump({"id": sid, "property": prop, "source": "independent sub-agent given the twenty property texts, one area of the code base and a scratch worktree",
               "demo": {"file": "demo_test.go.txt", "place_in": r["pkg"], "run": "go test -vet=off -count=1 -run '%s' ./%s/" % (r["run"], r["pkg"])},
               "confirmed": {"how": "tools/validate_seeds.py in a scratch worktree of /repo HEAD: patch applies, go build ./... ok, full suite ok with the patch, demo passes on the clean tree and fails with the patch",
                             "demo_clean_rc": r["demo_clean_rc"], "demo_mutant_rc": r["demo_mut_rc"], "suite_with_patch": "all packages ok"},
               "caught_by": []}, open(os.path.join(d, "meta.json"), "w"), indent=1)
    print("imported", sid)
