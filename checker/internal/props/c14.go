package props

import (
	"verif/checker/internal/report"
)

func init() {
	register(&Prop{
		Spec: report.Spec{
			ID: "C14",
			Explanation: "The limit clause is decided exactly from the code shape: MaxPayloadSize evaluates to 6 MiB + 100; in the reply sink the oversize refusal is taken on the true edge of 'len(io.ReadAll(payload)) > MaxPayloadSize' (operator, operands and constant checked), the write to the caller is dominated by its false edge and writes the complete body, the refusal is returned before any write and before the ReplySent mark, and it carries both sizes; " +
				"the response handler's oversize case sends err.AsErrorResponse() for the URL id, completes the invocation and answers 413 without any reset/cancel/shutdown call; the substitute error has type Function.ResponseSizeTooLarge and a message built from both sizes; the event is read through LimitReader(payload, MaxPayloadSize) once and never consumed. " +
				"Added after the blind rounds: the typed too-large error reaches the handler's type switch (R-ERRID); the substitute error always reaches the reply sink; the front end reads the whole event body. " +
				"NOT decided: that the environment is healthy afterwards beyond 'no teardown is triggered and the automaton reaches ResponseSent'; the direct-invoke counterpart is C17.",
			RuleText:    "one obligation per exit of the reply sink, per write site, per handler step, per constant; non-trivial when an instruction, fact set or constant was inspected",
			Assumptions: trusted,
			MinObs:      20,
		},
		Run: func(c *report.Ctx) {
			c.Clause("1-2 exact limit in the reply sink")
			checkOversize(c)
			c.Clause("2b guards of the reply sink")
			checkReplySinkGuards(c)
			c.Clause("3 handler")
			checkOversizeHandler(c)
			checkErrorIdentity(c, scopeReplyPath, nil, 6)
			c.Clause("4 event truncation")
			checkEventBuffer(c, true)
			checkFrontEndReadsBody(c)
			checkErrorReplyReachesSink(c)
			checkNoDeclaredLength(c)
		},
	})
}
