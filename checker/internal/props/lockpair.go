package props

import (
	"sort"
	"strings"

	"golang.org/x/tools/go/ssa"

	"verif/checker/internal/an"
	"verif/checker/internal/report"
)

// lockHandOff lists the functions that by design return with a mutex they acquired
// still held, or release one they did not acquire (a new one needs a reason).
var lockHandOff = map[string]string{
	"L/core.ManagedThread.Lock":   "the wrapper IS the lock operation of the state objects (callers pair it with ManagedThread.Unlock and are checked as such)",
	"L/core.ManagedThread.Unlock": "the wrapper IS the unlock operation of the state objects",
}

// checkLockPairing (R-PAIR): in every function of the repository that operates a
// mutex, on every path to every return
//
//	(a) a mutex possibly held is released by a deferred Unlock registered on every
//	    path to that return (otherwise the function can return with the mutex held:
//	    every later request needing it blocks forever);
//	(b) a deferred Unlock finds its mutex certainly held (unlocking an unlocked
//	    sync.Mutex is a fatal error no recover() can stop);
//	(c) a hand-written Unlock is reached only with its mutex possibly held.
//
// Deferred closures that unlock are resolved one level deep.
func checkLockPairing(c *report.Ctx) {
	nfn, nops := 0, 0
	for _, f := range repoFuncs(c) {
		name := an.FuncName(f)
		if strings.HasPrefix(name, "L/testdata.") || len(f.Blocks) == 0 {
			continue
		}
		ops := an.LockOps(f)
		// deferred closures that unlock a captured mutex count as deferred unlocks of that path
		type dunlock struct {
			at   ssa.Instruction
			path string
		}
		var defers []dunlock
		for _, o := range ops {
			if !o.Acquire && o.Deferred {
				defers = append(defers, dunlock{o.In, o.Path})
			}
		}
		an.AllInstrs(f, func(in ssa.Instruction) {
			d, ok := in.(*ssa.Defer)
			if !ok {
				return
			}
			mc, ok := d.Call.Value.(*ssa.MakeClosure)
			if !ok {
				return
			}
			cl, _ := mc.Fn.(*ssa.Function)
			if cl == nil {
				return
			}
			for _, o := range an.LockOps(cl) {
				if o.Acquire || o.Deferred {
					continue
				}
				// translate the closure's free-variable path into the enclosing function's
				p := o.Path
				for i, fv := range cl.FreeVars {
					if i < len(mc.Bindings) && (p == fv.Name() || strings.HasPrefix(p, fv.Name()+".")) {
						p = an.Path(mc.Bindings[i]) + strings.TrimPrefix(p, fv.Name())
					}
				}
				defers = append(defers, dunlock{in, p})
			}
		})
		if len(ops) == 0 && len(defers) == 0 {
			continue
		}
		nfn++
		nops += len(ops)
		if why, ok := lockHandOff[name]; ok {
			c.Note("lock hand-off allowed: %s - %s", name, why)
			continue
		}
		must, may := an.NewHeld(f), an.NewMayHeld(f)
		var bad []string
		var badPos = fpos(f)
		note := func(in ssa.Instruction, s string) {
			if len(bad) == 0 {
				badPos = an.InstrPos(in)
			}
			bad = append(bad, s)
		}
		for _, b := range f.Blocks {
			if len(b.Instrs) == 0 {
				continue
			}
			ret, ok := b.Instrs[len(b.Instrs)-1].(*ssa.Return)
			if !ok {
				continue
			}
			mayH, mustH := may.At(ret), must.At(ret)
			for p := range mayH {
				covered := false
				for _, d := range defers {
					if d.path == p && an.InstrDominates(d.at, ret) {
						covered = true
					}
				}
				if !covered {
					note(ret, "returns with "+p+" possibly held")
				}
			}
			for _, d := range defers {
				if an.InstrDominates(d.at, ret) && !mustH[d.path] {
					note(ret, "deferred unlock of "+d.path+" runs with the mutex possibly not held")
				}
			}
		}
		for _, o := range ops {
			if !o.Acquire && !o.Deferred && !may.At(o.In)[o.Path] {
				note(o.In, "unlock of "+o.Path+" which is not held")
			}
		}
		sort.Strings(bad)
		c.Check("R-PAIR", "lock-pairing/"+name, "every mutex the function acquires is released on every path to every return (by hand or by a deferred unlock registered on all those paths), and no unlock can find its mutex unlocked", len(bad) == 0, badPos, len(ops)+len(defers), "lock operations: %d; findings: %v", len(ops)+len(defers), uniq(bad))
	}
	c.Analysed("functions operating a mutex", nfn)
	c.Check("R-COUNT", "lock-pairing/instances", "functions operating a mutex were found", nfn >= 40, 0, nfn, "%d functions, %d lock operations", nfn, nops)
}

// heldAtReturns lists the returns of f that can be reached with the mutex at path held and no deferred unlock
// registered on every path to them, and the returns at which a registered deferred unlock may find it unlocked.
func heldAtReturns(f *ssa.Function, path string) []string {
	var defers []ssa.Instruction
	for _, o := range an.LockOps(f) {
		if !o.Acquire && o.Deferred && o.Path == path {
			defers = append(defers, o.In)
		}
	}
	must, may := an.NewHeld(f), an.NewMayHeld(f)
	var bad []string
	for _, b := range f.Blocks {
		if len(b.Instrs) == 0 {
			continue
		}
		ret, ok := b.Instrs[len(b.Instrs)-1].(*ssa.Return)
		if !ok {
			continue
		}
		covered := false
		for _, d := range defers {
			if an.InstrDominates(d, ret) {
				covered = true
			}
		}
		if may.At(ret)[path] && !covered {
			bad = append(bad, sprintf("block %d: possibly held at return", b.Index))
		}
		if covered && !must.At(ret)[path] {
			bad = append(bad, sprintf("block %d: deferred unlock of a mutex possibly not held", b.Index))
		}
	}
	return bad
}
