package load

import (
	_ "embed"
	"fmt"
	"go/token"
	"go/types"
	"os"
	"sort"
	"strings"

	"golang.org/x/tools/go/callgraph/cha"
	"golang.org/x/tools/go/ssa"
	"golang.org/x/tools/go/ssa/ssautil"
)

// baselineFuncs is the table of top-level functions and methods of the
// repository the rule tables were written against (one ssa name per line;
// regenerate with `riecheck -write-baseline` after a deliberate re-pin). It is
// used for one thing only: a function that is NOT in it is "glue" - a helper
// introduced later - and is absorbed into its callers before any rule runs
// (see vendor/golang.org/x/tools/go/ssa/verifnorm.go). The transformation
// preserves the program's meaning whatever the table says, so a stale table
// can cost precision (an anchor not found) but never soundness.
//
//go:embed baseline_funcs.txt
var baselineFuncs string

// baselineFields is the table of struct fields of the pinned tree ("pkg.Type<TAB>field<TAB>type" per line),
// used only to recognise a renamed field (see fieldAliases).
//
//go:embed baseline_fields.txt
var baselineFields string

// FieldAlias maps, per struct type (full import path + "." + name), the present name of a field that was
// recognised as renamed to the name the rule tables use. Applied by an.AsField and props.structFields.
var FieldAlias = map[string]map[string]string{}

// StructFieldsOf lists the named struct types of the repository with their fields.
func StructFieldsOf(prog *ssa.Program) map[string][][2]string {
	out := map[string][][2]string{}
	for _, sp := range prog.AllPackages() {
		if sp.Pkg == nil || !strings.HasPrefix(sp.Pkg.Path(), ModulePath) {
			continue
		}
		for _, mem := range sp.Members {
			tm, ok := mem.(*ssa.Type)
			if !ok {
				continue
			}
			named, ok := tm.Type().(*types.Named)
			declared := types.Object(nil)
			if ok {
				declared = named.Obj()
			}
			if inst := instOfAliasMember(tm); inst != nil {
				// `type X = G[T]`: X is the instantiated type itself, listed under the name it is declared with
				// (its fields and methods are those of the instance, type arguments substituted)
				named, declared, ok = inst, tm.Object(), true
			}
			if !ok {
				continue
			}
			if strings.HasSuffix(prog.Fset.Position(declared.Pos()).Filename, "_test.go") {
				continue
			}
			key := sp.Pkg.Path() + "." + declared.Name()
			if st, ok := named.Underlying().(*types.Struct); ok {
				for i := 0; i < st.NumFields(); i++ {
					out[key] = append(out[key], [2]string{st.Field(i).Name(), types.TypeString(st.Field(i).Type(), nil)})
				}
			} else if _, isIface := named.Underlying().(*types.Interface); isIface {
				continue // interfaces are API, their methods are named in calls: not aliased
			} else {
				out[key] = append(out[key], [2]string{"=", types.TypeString(named.Underlying(), nil)}) // e.g. "= int", "= func(...)"
			}
			// declared methods, as pseudo-fields "()Name": they tell field-less types apart
			var ms [][2]string
			for i := 0; i < named.NumMethods(); i++ {
				m := named.Method(i)
				ms = append(ms, [2]string{"()" + m.Name(), SigKey(m.Type().(*types.Signature))})
			}
			sort.Slice(ms, func(i, j int) bool { return ms[i][0] < ms[j][0] })
			out[key] = append(out[key], ms...)
			if len(out[key]) == 0 {
				out[key] = [][2]string{}
			}
		}
	}
	return out
}

// TypeAlias maps the present full name of a struct type recognised as renamed to its baseline name.
var TypeAlias = map[string]string{}

// InstAlias maps an instantiated generic type of the repository (types.TypeString with full package paths, e.g.
// "p.agentsMap[*p.ExternalAgent]") to the full name of the Go alias declaration `type X = G[T]` that names it, when
// exactly one such declaration exists. By the language an alias and the type it denotes are one type: the methods
// and fields of the instance ARE the methods and fields of X, so the instance is seen under the declared name X.
// (A generic type the pinned tree itself has keeps its own name.)
var InstAlias = map[string]string{}

// instOfAliasMember: the instantiated generic named type of the repository that the type member tm is declared an
// alias of, or nil.
func instOfAliasMember(tm *ssa.Type) *types.Named {
	tn, ok := tm.Object().(*types.TypeName)
	if !ok || !tn.IsAlias() || tn.Pkg() == nil {
		return nil
	}
	n, ok := types.Unalias(tn.Type()).(*types.Named)
	if !ok || n.TypeArgs().Len() == 0 || n.Obj().Pkg() == nil || !strings.HasPrefix(n.Obj().Pkg().Path(), ModulePath) {
		return nil
	}
	if n.Obj() == types.Object(tn) {
		return nil
	}
	return n
}

func instAliases(prog *ssa.Program) []string {
	base := map[string]bool{}
	for _, l := range strings.Split(baselineFields, "\n") {
		parts := strings.Split(strings.TrimSpace(l), "\t")
		if len(parts) == 3 && !strings.HasPrefix(l, "#") {
			base[parts[0]] = true
		}
	}
	by := map[string][]string{}
	for _, sp := range prog.AllPackages() {
		if sp.Pkg == nil || !strings.HasPrefix(sp.Pkg.Path(), ModulePath) {
			continue
		}
		for _, mem := range sp.Members {
			tm, ok := mem.(*ssa.Type)
			if !ok {
				continue
			}
			inst := instOfAliasMember(tm)
			if inst == nil || strings.HasSuffix(prog.Fset.Position(tm.Object().Pos()).Filename, "_test.go") {
				continue
			}
			if base[inst.Obj().Pkg().Path()+"."+inst.Obj().Name()] {
				continue
			}
			k := types.TypeString(inst, nil)
			by[k] = append(by[k], sp.Pkg.Path()+"."+tm.Object().Name())
		}
	}
	var notes []string
	for k, names := range by {
		if len(names) == 1 {
			InstAlias[k] = names[0]
			notes = append(notes, k+": seen under its declared alias name "+names[0])
		}
	}
	sort.Strings(notes)
	return notes
}

// CanonTypeName is the full name (import path + "." + name) under which the rules see a named type: an instance of
// a generic type under its declared alias (InstAlias), a struct recognised as renamed under its pinned name
// (TypeAlias), any other type under its own name (instances without their type arguments).
func CanonTypeName(n *types.Named) string {
	if n == nil {
		return ""
	}
	obj := n.Obj()
	if obj.Pkg() == nil {
		return obj.Name()
	}
	if len(InstAlias) > 0 && n.TypeArgs().Len() > 0 {
		if a, ok := InstAlias[types.TypeString(n, nil)]; ok {
			return a
		}
	}
	full := obj.Pkg().Path() + "." + obj.Name()
	if a, ok := TypeAlias[full]; ok {
		return a
	}
	return full
}

// CanonTypeString is t.String() with every instantiated generic type that has a declared alias written by that name.
func CanonTypeString(t types.Type) string {
	s := t.String()
	if len(InstAlias) == 0 || !strings.Contains(s, "[") {
		return s
	}
	keys := make([]string, 0, len(InstAlias))
	for k := range InstAlias {
		keys = append(keys, k)
	}
	sort.Slice(keys, func(i, j int) bool {
		return len(keys[i]) > len(keys[j]) || len(keys[i]) == len(keys[j]) && keys[i] < keys[j]
	})
	for _, k := range keys {
		s = strings.ReplaceAll(s, k, InstAlias[k])
	}
	return s
}

// AliasNamedRecv reports whether fn (or the function it is nested in) is a method of an instantiated generic type
// that is seen under its declared alias name: such a method is analysed as the instance it is, not as its origin.
func AliasNamedRecv(fn *ssa.Function) bool {
	for fn != nil && fn.Parent() != nil {
		fn = fn.Parent()
	}
	if fn == nil || len(InstAlias) == 0 || fn.Signature.Recv() == nil {
		return false
	}
	n := namedOfType(fn.Signature.Recv().Type())
	if n == nil || n.TypeArgs().Len() == 0 {
		return false
	}
	_, ok := InstAlias[types.TypeString(n, nil)]
	return ok
}

// typeAliases recognises renamed struct types: a baseline struct that is gone and exactly one new struct of the
// same package with the same field list (names and types, types compared after substituting the candidate name).
func typeAliases(prog *ssa.Program) []string {
	base := map[string][][2]string{}
	for _, l := range strings.Split(baselineFields, "\n") {
		parts := strings.Split(strings.TrimSpace(l), "\t")
		if len(parts) == 3 && !strings.HasPrefix(l, "#") {
			base[parts[0]] = append(base[parts[0]], [2]string{parts[1], parts[2]})
		}
	}
	if len(base) == 0 {
		return nil
	}
	now := StructFieldsOf(prog)
	pkgOf := func(full string) string { return full[:strings.LastIndex(full, ".")] }
	key := func(fs [][2]string, self, as string) string {
		var b strings.Builder
		for _, f := range fs {
			b.WriteString(f[0] + ":" + strings.ReplaceAll(f[1], self, as) + ";")
		}
		return b.String()
	}
	var notes []string
	for old, ofs := range base {
		if _, still := now[old]; still {
			continue
		}
		var cands []string
		for nw, nfs := range now {
			if _, was := base[nw]; was || pkgOf(nw) != pkgOf(old) || len(nfs) != len(ofs) {
				continue
			}
			if key(nfs, nw, old) == key(ofs, old, old) {
				cands = append(cands, nw)
			}
		}
		if len(cands) == 1 {
			dup := false
			for o2 := range base {
				if o2 != old {
					if _, still := now[o2]; !still && pkgOf(o2) == pkgOf(old) && key(base[o2], o2, "T") == key(ofs, old, "T") {
						dup = true
					}
				}
			}
			if !dup {
				TypeAlias[cands[0]] = old
				notes = append(notes, cands[0]+": taken to be the renamed type "+old)
			}
		}
	}
	sort.Strings(notes)
	return notes
}

// GlueStruct holds the named struct types of the repository that the pinned tree does not have (and that were not
// recognised as a renamed type). Embedded in a struct the pinned tree has, such a type is seen through: its fields
// count as the outer struct's own (an.AsField, props.structFields) and the methods it promotes are analysed as the
// outer type's methods, through the promotion wrappers below.
var GlueStruct = map[string]bool{}

// PromoWrapper holds the promotion wrappers (*T).M -> (*G).M(&t.g) for a glue struct G embedded in a repository
// struct T that is not glue. They stand for T's method M and are normalised and analysed like source functions.
var PromoWrapper = map[*ssa.Function]bool{}

// BoundAdopted holds the bound-method wrappers (x.M used as a function value) of helper methods the pinned tree does
// not have, created at exactly one place: the wrapper, with the method absorbed into it, is analysed as a closure of
// the function that creates it (a closure and a method value of a small context struct are the same program).
var BoundAdopted = map[*ssa.Function]bool{}

func glueStructs(prog *ssa.Program) {
	base := map[string]bool{}
	for _, l := range strings.Split(baselineFields, "\n") {
		parts := strings.Split(strings.TrimSpace(l), "\t")
		if len(parts) == 3 && !strings.HasPrefix(l, "#") {
			base[parts[0]] = true
		}
	}
	if len(base) == 0 {
		return
	}
	for _, sp := range prog.AllPackages() {
		if sp.Pkg == nil || !strings.HasPrefix(sp.Pkg.Path(), ModulePath) {
			continue
		}
		for _, mem := range sp.Members {
			tm, ok := mem.(*ssa.Type)
			if !ok {
				continue
			}
			named, ok := tm.Type().(*types.Named)
			if !ok {
				continue
			}
			if _, isStruct := named.Underlying().(*types.Struct); !isStruct {
				continue
			}
			if strings.HasSuffix(prog.Fset.Position(named.Obj().Pos()).Filename, "_test.go") {
				continue
			}
			key := sp.Pkg.Path() + "." + named.Obj().Name()
			if _, renamed := TypeAlias[key]; !base[key] && !renamed {
				GlueStruct[key] = true
			}
		}
	}
}

func namedOfType(t types.Type) *types.Named {
	if p, ok := t.(*types.Pointer); ok {
		t = p.Elem()
	}
	n, _ := t.(*types.Named)
	return n
}

func fullTypeName(n *types.Named) string {
	if n == nil || n.Obj().Pkg() == nil {
		return ""
	}
	if len(InstAlias) > 0 && n.TypeArgs().Len() > 0 {
		if a, ok := InstAlias[types.TypeString(n, nil)]; ok {
			return a
		}
	}
	return n.Obj().Pkg().Path() + "." + n.Obj().Name()
}

func promotionWrappers(prog *ssa.Program) []*ssa.Function {
	var out []*ssa.Function
	if len(GlueStruct) == 0 {
		return nil
	}
	for fn := range ssautil.AllFunctions(prog) {
		if !strings.HasPrefix(fn.Synthetic, "wrapper for ") || len(fn.Blocks) == 0 {
			continue
		}
		recv := fn.Signature.Recv()
		obj, _ := fn.Object().(*types.Func)
		if recv == nil || obj == nil {
			continue
		}
		declRecv := obj.Type().(*types.Signature).Recv()
		if declRecv == nil {
			continue
		}
		rn, dn := namedOfType(recv.Type()), namedOfType(declRecv.Type())
		if rn == nil || dn == nil || rn == dn {
			continue
		}
		if !strings.HasPrefix(fullTypeName(rn), ModulePath) || GlueStruct[fullTypeName(rn)] || !GlueStruct[fullTypeName(dn)] {
			continue
		}
		if strings.HasSuffix(prog.Fset.Position(rn.Obj().Pos()).Filename, "_test.go") {
			continue
		}
		PromoWrapper[fn] = true
		out = append(out, fn)
	}
	sort.Slice(out, func(i, j int) bool { return out[i].String() < out[j].String() })
	return out
}

// InBaseline reports whether the pinned tree has a function of fn's (canonical) name.
func InBaseline(fn *ssa.Function) bool { return baselineSet[canonName(fn)] }

// canonName is fn.String() with renamed receiver types put back.
func canonName(fn *ssa.Function) string {
	if a, ok := FuncAlias[fn]; ok {
		return a
	}
	if fn.Parent() == nil && AliasNamedRecv(fn) && fn.Object() != nil {
		// method of an instantiated generic type that has a declared alias name: (*p.X).M
		recv := fn.Signature.Recv().Type()
		star := ""
		if _, isPtr := recv.(*types.Pointer); isPtr {
			star = "*"
		}
		return "(" + star + InstAlias[types.TypeString(namedOfType(recv), nil)] + ")." + fn.Object().Name()
	}
	n := fn.String()
	for nw, old := range TypeAlias {
		n = strings.ReplaceAll(n, nw+")", old+")")
	}
	return n
}

// fieldAliases recognises renamed fields: in a struct that still exists, a baseline field that is gone and
// exactly one new field of the same type (which matches no other vanished field) are the same field.
func fieldAliases(prog *ssa.Program) []string {
	base := map[string][][2]string{}
	for _, l := range strings.Split(baselineFields, "\n") {
		parts := strings.Split(strings.TrimSpace(l), "\t")
		if len(parts) == 3 && !strings.HasPrefix(l, "#") {
			base[parts[0]] = append(base[parts[0]], [2]string{parts[1], parts[2]})
		}
	}
	var notes []string
	if len(base) == 0 {
		return nil
	}
	for T, now := range StructFieldsOf(prog) {
		if a, ok := TypeAlias[T]; ok {
			T = a
		}
		was, ok := base[T]
		if !ok {
			continue
		}
		has := map[string]bool{}
		for _, f := range now {
			has[f[0]] = true
		}
		had := map[string]bool{}
		for _, f := range was {
			had[f[0]] = true
		}
		// (a mutex held by pointer and a mutex held by value guard the same thing: same kind of field)
		kind := func(t string) string {
			if t == "*sync.Mutex" || t == "*sync.RWMutex" {
				return t[1:]
			}
			return t
		}
		goneByType := map[string][]string{}
		for _, f := range was {
			if !has[f[0]] && !strings.HasPrefix(f[0], "()") && f[0] != "=" {
				goneByType[kind(f[1])] = append(goneByType[kind(f[1])], f[0])
			}
		}
		newByType := map[string][]string{}
		for _, f := range now {
			if !had[f[0]] && !strings.HasPrefix(f[0], "()") && f[0] != "=" {
				newByType[kind(f[1])] = append(newByType[kind(f[1])], f[0])
			}
		}
		for typ, gone := range goneByType {
			if len(gone) == 1 && len(newByType[typ]) == 1 {
				if FieldAlias[T] == nil {
					FieldAlias[T] = map[string]string{}
				}
				FieldAlias[T][newByType[typ][0]] = gone[0]
				notes = append(notes, T+"."+newByType[typ][0]+": taken to be the renamed field "+gone[0])
			}
		}
	}
	sort.Strings(notes)
	return notes
}

// transparent lists baseline helpers that the rules deliberately look through: they are absorbed into
// their callers like glue, so that a tree that calls the helper and a tree in which a maintainer has
// inlined it by hand present the same shape to the rules (which are phrased on the callers).
var transparent = map[string]bool{
	"(*go.amzn.com/lambda/core.InternalAgent).subscribeUnsafe":                          true,
	"(*go.amzn.com/lambda/core.ExternalAgent).subscribeUnsafe":                          true,
	"(*go.amzn.com/lambda/rapidcore/env.Environment).mergeCustomerEnvironmentVariables": true,
	"go.amzn.com/lambda/core/directinvoke.renderBadRequest":                             true,
	"go.amzn.com/lambda/core/directinvoke.renderInternalServerError":                    true,
	"go.amzn.com/lambda/rapi/rendering.newAgentInvokeEvent":                             true,
}

// baselineSet: name -> signature key ("" when the table has none)
var baselineSet = func() map[string]bool {
	m := map[string]bool{}
	for _, l := range strings.Split(baselineFuncs, "\n") {
		if l = strings.TrimSpace(l); l != "" && !strings.HasPrefix(l, "#") {
			name := l
			if parts := strings.Split(l, "\t"); len(parts) >= 2 {
				name = parts[0]
				baselineSig[name] = parts[1]
				if len(parts) >= 3 {
					baselineFullSig[name] = parts[2]
				}
				if len(parts) >= 4 {
					baselineNames[name] = parts[3]
				}
			}
			m[name] = true
		}
	}
	return m
}()

var baselineSig = map[string]string{}

// baselineNames: "recv,p1,p2|r1,r2" - the parameter names (receiver first) and named results of the pinned tree
var baselineNames = map[string]string{}

// ParamNames renders the names of fn's parameters and results in the form of the baseline table.
func ParamNames(fn *ssa.Function) string {
	var ps, rs []string
	for _, p := range fn.Params {
		ps = append(ps, p.Name())
	}
	res := fn.Signature.Results()
	for i := 0; i < res.Len(); i++ {
		rs = append(rs, res.At(i).Name())
	}
	return strings.Join(ps, ",") + "|" + strings.Join(rs, ",")
}

// canonParamNames puts the pinned tree's parameter and result names back on every function the table knows, so
// that no rule can depend on what a parameter is called today.
func canonParamNames(fns []*ssa.Function) int {
	n := 0
	for _, fn := range fns {
		want, ok := baselineNames[canonName(fn)]
		if !ok || want == ParamNames(fn) {
			continue
		}
		parts := strings.SplitN(want, "|", 2)
		if len(parts) != 2 {
			continue
		}
		var ps, rs []string
		if len(fn.Params) > 0 {
			ps = strings.Split(parts[0], ",")
		}
		if fn.Signature.Results().Len() > 0 {
			rs = strings.Split(parts[1], ",")
		}
		if len(ps) != len(fn.Params) || len(rs) != fn.Signature.Results().Len() {
			continue // the signature changed: its names are taken as they are
		}
		n += ssa.VerifCanonNames(fn, ps, rs)
	}
	return n
}

var baselineFullSig = map[string]string{}

// SigKey renders a signature without parameter names (renaming a parameter is not a different function).
func SigKey(sig *types.Signature) string {
	var b strings.Builder
	b.WriteString("(")
	for i := 0; i < sig.Params().Len(); i++ {
		if i > 0 {
			b.WriteString(",")
		}
		if sig.Variadic() && i == sig.Params().Len()-1 {
			b.WriteString("...")
		}
		b.WriteString(types.TypeString(sig.Params().At(i).Type(), nil))
	}
	b.WriteString(")->(")
	for i := 0; i < sig.Results().Len(); i++ {
		if i > 0 {
			b.WriteString(",")
		}
		b.WriteString(types.TypeString(sig.Results().At(i).Type(), nil))
	}
	b.WriteString(")")
	return b.String()
}

// FuncAlias gives, for a function recognised as a baseline function in another form (method turned into a
// plain function or the reverse, possibly renamed on the way), the baseline's ssa name. an.FuncName renders it.
var FuncAlias = map[*ssa.Function]string{}

// FullSigKey is SigKey with the receiver, if any, counted as the first parameter.
func FullSigKey(sig *types.Signature) string {
	k := SigKey(sig)
	if r := sig.Recv(); r != nil {
		rt := types.TypeString(r.Type(), nil)
		if strings.HasPrefix(k, "()") {
			return "(" + rt + k[1:]
		}
		return "(" + rt + "," + k[1:]
	}
	return k
}

func pkgOfName(name string) string {
	n := strings.TrimPrefix(strings.TrimPrefix(name, "("), "*")
	if i := strings.LastIndex(n, "/"); i >= 0 {
		if j := strings.Index(n[i:], "."); j >= 0 {
			return n[:i+j]
		}
	}
	if j := strings.Index(n, "."); j >= 0 {
		return n[:j]
	}
	return n
}

// owner is the part of an ssa function name that a rename cannot change: package and receiver.
func owner(name string) string {
	if i := strings.LastIndex(name, "."); i >= 0 {
		return name[:i]
	}
	return name
}

// TopLevelSourceFuncs lists the top-level source functions of the repository (non-test files).
func TopLevelSourceFuncs(prog *ssa.Program) []*ssa.Function {
	var out []*ssa.Function
	for fn := range ssautil.AllFunctions(prog) {
		if strings.HasPrefix(fn.Synthetic, "instance of ") {
			ssa.VerifInstancePkg(fn)
		}
		if fn.Pkg == nil || fn.Pkg.Pkg == nil || !strings.HasPrefix(fn.Pkg.Pkg.Path(), ModulePath) {
			continue
		}
		// (instances of generic functions count: a generic helper is a helper)
		if fn.Parent() != nil || (fn.Synthetic != "" && !strings.HasPrefix(fn.Synthetic, "instance of ")) || fn.Syntax() == nil || len(fn.Blocks) == 0 {
			continue
		}
		if strings.HasSuffix(prog.Fset.Position(fn.Pos()).Filename, "_test.go") {
			continue
		}
		out = append(out, fn)
	}
	sort.Slice(out, func(i, j int) bool { return out[i].String() < out[j].String() })
	return out
}

// normalise brings the program into the analysis normal form, in place.
func normalise(prog *ssa.Program) (map[*ssa.Function]bool, *ssa.VerifNorm, []string, error) {
	fns := TopLevelSourceFuncs(prog)
	renames := instAliases(prog)
	for _, fn := range fns {
		// a method of an instance seen under its alias name carries the plain method name (go/ssa appends the type
		// arguments): (*p.G[T]).M[T] is X's method M
		if AliasNamedRecv(fn) && fn.Object() != nil {
			ssa.VerifRename(fn, fn.Object().Name())
		}
	}
	renames = append(renames, typeAliases(prog)...)
	renames = append(renames, fieldAliases(prog)...)
	glueStructs(prog)
	wrappers := promotionWrappers(prog)
	for _, w := range wrappers {
		renames = append(renames, w.String()+": promoted from an embedded helper struct, analysed as the outer type's method")
	}
	// Renamed functions: a baseline function that no longer exists and exactly one new function with the same
	// package, receiver and signature (parameter names aside), which in turn matches no other vanished function,
	// is taken to be that function under a new name and gets its old name back for the rules.
	if len(baselineSet) > 0 {
		present := map[string]bool{}
		for _, fn := range fns {
			present[canonName(fn)] = true
		}
		for _, w := range wrappers {
			present[canonName(w)] = true
		}
		type cand struct{ fn *ssa.Function }
		newBy := map[string][]*ssa.Function{} // owner + sig -> new functions
		for _, fn := range fns {
			if !baselineSet[canonName(fn)] {
				sk := SigKey(fn.Signature)
				for nw, old := range TypeAlias {
					sk = strings.ReplaceAll(sk, nw, old)
				}
				k := owner(canonName(fn)) + "|" + sk
				newBy[k] = append(newBy[k], fn)
			}
		}
		goneBy := map[string][]string{}
		for name := range baselineSet {
			if !present[name] && baselineSig[name] != "" {
				k := owner(name) + "|" + baselineSig[name]
				goneBy[k] = append(goneBy[k], name)
			}
		}
		matched := map[string]bool{}
		matchedFn := map[*ssa.Function]bool{}
		for k, gone := range goneBy {
			cands := newBy[k]
			if len(gone) == 1 && len(cands) > 1 {
				// a function renamed AND pulled apart into helpers of the same signature: the renamed one is the only
				// candidate that somebody other than the candidates calls (its helpers are called by it alone)
				isCand := map[*ssa.Function]bool{}
				for _, cfn := range cands {
					isCand[cfn] = true
				}
				outside := map[*ssa.Function]bool{}
				for _, caller := range fns {
					if isCand[caller] {
						continue
					}
					var visit func(g *ssa.Function)
					visit = func(g *ssa.Function) {
						for _, b := range g.Blocks {
							for _, in := range b.Instrs {
								if call, ok := in.(ssa.CallInstruction); ok {
									if callee := call.Common().StaticCallee(); callee != nil && isCand[callee] {
										outside[callee] = true
									}
								}
							}
						}
						for _, a := range g.AnonFuncs {
							visit(a)
						}
					}
					visit(caller)
				}
				if len(outside) == 1 {
					for cfn := range outside {
						cands = []*ssa.Function{cfn}
					}
				}
			}
			if len(gone) == 1 && len(cands) == 1 {
				fn := cands[0]
				old := gone[0]
				renames = append(renames, fn.String()+": taken to be the renamed "+old)
				ssa.VerifRename(fn, old[strings.LastIndex(old, ".")+1:])
				matched[old], matchedFn[fn] = true, true
			}
		}
		// second pass: a method turned into a function taking the receiver first (or the reverse), possibly
		// renamed on the way: same package, same parameter list once the receiver is counted as a parameter
		new2 := map[string][]*ssa.Function{}
		for _, fn := range fns {
			if !baselineSet[canonName(fn)] && !matchedFn[fn] {
				sk := FullSigKey(fn.Signature)
				for nw, old := range TypeAlias {
					sk = strings.ReplaceAll(sk, nw, old)
				}
				k := fn.Pkg.Pkg.Path() + "|" + sk
				new2[k] = append(new2[k], fn)
			}
		}
		gone2 := map[string][]string{}
		for name := range baselineSet {
			if !present[name] && !matched[name] && baselineFullSig[name] != "" {
				k := pkgOfName(name) + "|" + baselineFullSig[name]
				gone2[k] = append(gone2[k], name)
			}
		}
		for k, gone := range gone2 {
			if len(gone) == 1 && len(new2[k]) == 1 {
				fn := new2[k][0]
				FuncAlias[fn] = gone[0]
				matched[gone[0]], matchedFn[fn] = true, true
				renames = append(renames, fn.String()+": taken to be "+gone[0]+" in another form")
			}
		}
		// several functions of one signature converted at once: pair them by their unchanged simple names
		for k, gone := range gone2 {
			if len(gone) < 2 {
				continue
			}
			for _, old := range gone {
				if matched[old] {
					continue
				}
				var same []*ssa.Function
				for _, fn := range new2[k] {
					if !matchedFn[fn] && fn.Name() == old[strings.LastIndex(old, ".")+1:] {
						same = append(same, fn)
					}
				}
				nOld := 0
				for _, o := range gone {
					if o[strings.LastIndex(o, ".")+1:] == old[strings.LastIndex(old, ".")+1:] {
						nOld++
					}
				}
				if len(same) == 1 && nOld == 1 {
					FuncAlias[same[0]] = old
					matched[old], matchedFn[same[0]] = true, true
					renames = append(renames, same[0].String()+": taken to be "+old+" in another form (same name)")
				}
			}
		}
		// third pass: a method that did not use its receiver turned into a plain function of the same name (or a
		// function given a receiver): same package, same name, same parameters apart from the receiver
		simple := func(name string) string { return name[strings.LastIndex(name, ".")+1:] }
		new3 := map[string][]*ssa.Function{}
		for _, fn := range fns {
			if !baselineSet[canonName(fn)] && !matchedFn[fn] {
				k := fn.Pkg.Pkg.Path() + "|" + fn.Name() + "|" + SigKey(fn.Signature)
				new3[k] = append(new3[k], fn)
			}
		}
		gone3 := map[string][]string{}
		for name := range baselineSet {
			if !present[name] && !matched[name] && baselineSig[name] != "" {
				k := pkgOfName(name) + "|" + simple(name) + "|" + baselineSig[name]
				gone3[k] = append(gone3[k], name)
			}
		}
		for k, gone := range gone3 {
			if len(gone) == 1 && len(new3[k]) == 1 {
				fn := new3[k][0]
				FuncAlias[fn] = gone[0]
				renames = append(renames, fn.String()+": taken to be "+gone[0]+" with its receiver dropped or added")
			}
		}
	}
	if k := canonParamNames(fns); k > 0 {
		renames = append(renames, fmt.Sprintf("%d parameters or named results carry other names than in the pinned tree: seen under the pinned names", k))
	}
	glue := map[*ssa.Function]bool{}
	for _, fn := range fns {
		stress := os.Getenv("RIECHECK_STRESS_NORM") != "" && !fn.Object().Exported() // self-test of the normaliser: absorb every unexported function
		if (!baselineSet[canonName(fn)] || transparent[canonName(fn)] || stress) && fn.Name() != "init" && !strings.HasPrefix(fn.Name(), "init#") && fn.Name() != "main" {
			glue[fn] = true
		}
	}
	norm := &ssa.VerifNorm{}
	if len(glue) == 0 || len(baselineSet) == 0 {
		norm.Glue = func(*ssa.Function) bool { return false }
		return map[*ssa.Function]bool{}, norm, nil, nil
	}
	// A glue function can be absorbed when every use of it is a static call (plain, go or defer):
	// no dynamic dispatch can reach it and its value is never taken.
	cg := cha.CallGraph(prog)
	absorbable := map[*ssa.Function]bool{}
	why := map[*ssa.Function]string{}
	boundOf := map[*ssa.Function]*ssa.Function{} // bound-method wrapper -> the glue method it forwards to
	for fn := range glue {
		ok := true
		n := cg.Nodes[fn]
		ncall := 0
		if n != nil {
			for _, e := range n.In {
				if e.Site != nil && !e.Site.Common().IsInvoke() && e.Site.Common().StaticCallee() == nil {
					// a call of a function value: CHA links it to every function of that signature; whether this
					// function's value is taken at all is decided exactly by the operand scan below
					continue
				}
				if e.Site == nil || e.Site.Common().StaticCallee() != fn {
					ok = false
					why[fn] = "called dynamically (CHA) from " + e.Caller.Func.String()
					break
				}
				if _, isFn := e.Site.Common().Value.(*ssa.Function); !isFn {
					ok = false
					why[fn] = "called through a closure value"
					break
				}
				if syn := e.Caller.Func.Synthetic; strings.HasPrefix(syn, "bound method wrapper for ") && glue[fn] {
					boundOf[e.Caller.Func] = fn
				} else if syn != "" && !PromoWrapper[e.Caller.Func] && !(strings.HasPrefix(syn, "instance of ") && e.Caller.Func.Syntax() != nil) {
					// a pointer-receiver/promotion wrapper that nothing calls is no use of the method;
					// a bound-method closure or thunk means the method's value is taken
					if strings.HasPrefix(syn, "wrapper ") && len(e.Caller.In) == 0 {
						ncall-- // not a real call site
					} else {
						ok = false
						why[fn] = "used as a method value or through a wrapper (" + e.Caller.Func.String() + ")"
						break
					}
				}
				ncall++
			}
		}
		if ok && ncall == 0 {
			ok = false
			why[fn] = "has no callers"
		}
		absorbable[fn] = ok
	}
	// its value must not be taken anywhere (method values, handler registration, ...)
	var rands []*ssa.Value
	for fn := range ssautil.AllFunctions(prog) {
		for _, b := range fn.Blocks {
			for _, in := range b.Instrs {
				rands = in.Operands(rands[:0])
				for _, r := range rands {
					g, ok := (*r).(*ssa.Function)
					if !ok || !absorbable[g] {
						continue
					}
					if ci, isCall := in.(ssa.CallInstruction); isCall && ci.Common().Value == ssa.Value(g) {
						continue
					}
					absorbable[g] = false
					why[g] = "its value is taken in " + fn.String()
				}
			}
		}
	}
	// a method value x.M of a helper method: the wrapper go/ssa makes for it is adopted by the one function that
	// creates it; a helper whose value is taken at several places, or together with other uses, stays a function
	if len(boundOf) > 0 {
		sites := map[*ssa.Function][]*ssa.Function{}
		for fn := range ssautil.AllFunctions(prog) {
			for _, b := range fn.Blocks {
				for _, in := range b.Instrs {
					if mc, ok := in.(*ssa.MakeClosure); ok {
						if w, ok := mc.Fn.(*ssa.Function); ok && boundOf[w] != nil {
							sites[w] = append(sites[w], fn)
						}
					}
				}
			}
		}
		for w, g := range boundOf {
			if len(sites[w]) != 1 || !absorbable[g] {
				absorbable[g] = false
				if why[g] == "" {
					why[g] = "used as a method value at several places"
				}
				continue
			}
			ssa.VerifAdopt(sites[w][0], w)
			BoundAdopted[w] = true
			renames = append(renames, w.String()+": method value of a helper method, analysed as a closure of "+sites[w][0].String())
		}
	}
	norm.Glue = func(callee *ssa.Function) bool { return absorbable[callee] }
	// no function of the repository recovers from a panic: a helper's deferred calls can then be placed at its exits
	norm.NoRecover = true
	for fn := range ssautil.AllFunctions(prog) {
		if fn.Pkg == nil || fn.Pkg.Pkg == nil || !strings.HasPrefix(fn.Pkg.Pkg.Path(), ModulePath) {
			continue
		}
		for _, b := range fn.Blocks {
			for _, in := range b.Instrs {
				if ci, ok := in.(ssa.CallInstruction); ok {
					if bi, ok := ci.Common().Value.(*ssa.Builtin); ok && bi.Name() == "recover" {
						norm.NoRecover = false
					}
				}
			}
		}
	}
	// package-level slice tables written by their package initialiser only and read only through len and element
	// loads: a loop over such a table can be unrolled from the literal in the initialiser
	roTable := map[*ssa.Global]bool{}
	for _, sp := range prog.AllPackages() {
		if sp.Pkg == nil || !strings.HasPrefix(sp.Pkg.Path(), ModulePath) {
			continue
		}
		for _, mem := range sp.Members {
			if g, ok := mem.(*ssa.Global); ok {
				if pt, ok := g.Type().Underlying().(*types.Pointer); ok {
					if _, isSl := pt.Elem().Underlying().(*types.Slice); isSl {
						roTable[g] = true
					}
					if _, isArr := pt.Elem().Underlying().(*types.Array); isArr {
						roTable[g] = true
					}
				}
			}
		}
	}
	if len(roTable) > 0 {
		stores := map[*ssa.Global]int{}
		arrayInit := map[*ssa.Global]bool{}
		var ops []*ssa.Value
		for fn := range ssautil.AllFunctions(prog) {
			for _, b := range fn.Blocks {
				for _, in := range b.Instrs {
					ops = in.Operands(ops[:0])
					for _, r := range ops {
						g, ok := (*r).(*ssa.Global)
						if !ok || !roTable[g] {
							continue
						}
						switch x := in.(type) {
						case *ssa.Store:
							if x.Addr == ssa.Value(g) && fn.Name() == "init" && fn.Pkg == g.Pkg && fn.Parent() == nil {
								stores[g]++
								continue
							}
							roTable[g] = false
						case *ssa.UnOp:
							if x.Op != token.MUL || x.Referrers() == nil {
								roTable[g] = false
								continue
							}
							if _, isArr := x.Type().Underlying().(*types.Array); isArr {
								continue // a copy of the whole array: whatever is done to it does not touch the table
							}
							for _, u := range *x.Referrers() {
								switch y := u.(type) {
								case *ssa.Call:
									if bi, isB := y.Call.Value.(*ssa.Builtin); !isB || bi.Name() != "len" {
										roTable[g] = false
									}
								case *ssa.IndexAddr:
									if y.Referrers() != nil {
										for _, u2 := range *y.Referrers() {
											if ld, isLd := u2.(*ssa.UnOp); !isLd || ld.Op != token.MUL {
												roTable[g] = false
											}
										}
									}
								case *ssa.DebugRef:
								default:
									roTable[g] = false
								}
							}
						case *ssa.IndexAddr:
							// an array table: elements are stored by the package initialiser and only loaded elsewhere
							if x.X != ssa.Value(g) || x.Referrers() == nil {
								roTable[g] = false
								continue
							}
							inInit := fn.Name() == "init" && fn.Pkg == g.Pkg && fn.Parent() == nil
							for _, u := range *x.Referrers() {
								switch y := u.(type) {
								case *ssa.UnOp:
									if y.Op != token.MUL {
										roTable[g] = false
									}
								case *ssa.Store:
									if !inInit || y.Addr != ssa.Value(x) {
										roTable[g] = false
									} else {
										arrayInit[g] = true
									}
								case *ssa.DebugRef:
								default:
									roTable[g] = false
								}
							}
						default:
							roTable[g] = false
						}
					}
				}
			}
		}
		for g := range roTable {
			if stores[g] != 1 && !arrayInit[g] {
				roTable[g] = false
			}
		}
	}
	norm.ReadOnlyTable = func(g *ssa.Global) bool { return roTable[g] }
	norm.IsGlueStruct = func(t types.Type) bool {
		n, ok := t.(*types.Named)
		return ok && n.Obj().Pkg() != nil && GlueStruct[fullTypeName(n)]
	}
	for _, fn := range fns {
		if absorbable[fn] {
			continue // only ever seen through its callers
		}
		norm.Function(fn)
	}
	for _, w := range wrappers {
		norm.Function(w)
	}
	if len(norm.Failures) > 0 {
		return nil, nil, nil, fmt.Errorf("analysis normal form could not be established:\n  %s", strings.Join(norm.Failures, "\n  "))
	}
	absorbed := map[*ssa.Function]bool{}
	var notes []string
	for fn := range glue {
		switch {
		case absorbable[fn]:
			absorbed[fn] = true
			notes = append(notes, fn.String()+": absorbed into its callers")
		default:
			notes = append(notes, fn.String()+": kept as a function ("+why[fn]+")")
		}
	}
	notes = append(notes, renames...)
	sort.Strings(notes)
	return absorbed, norm, notes, nil
}
