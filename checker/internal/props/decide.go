package props

import (
	"go/token"
	"sort"
	"strings"

	"golang.org/x/tools/go/ssa"

	"verif/checker/internal/an"
	"verif/checker/internal/report"
)

// decisionTable decides a function whose outcome depends on its integer parameters through comparisons only.
// Such a function distinguishes finitely many orderings of its parameters and the constants it compares with, so
// following its branches once per representative assignment decides it for every input. Nothing is executed:
// the walk only folds comparisons of parameters and constants, boolean not, and joins; any branch on another
// value makes the whole table undecided.

// decideDomain returns the representative values: every integer constant compared in f, with two neighbours on each side.
func decideDomain(f *ssa.Function) []int64 {
	set := map[int64]bool{0: true}
	an.AllInstrs(f, func(in ssa.Instruction) {
		bo, ok := in.(*ssa.BinOp)
		if !ok {
			return
		}
		switch bo.Op {
		case token.LSS, token.GTR, token.LEQ, token.GEQ, token.EQL, token.NEQ:
		default:
			return
		}
		for _, v := range []ssa.Value{bo.X, bo.Y} {
			if n, ok := an.ConstInt(v); ok {
				set[n] = true
			}
		}
	})
	out := map[int64]bool{}
	for n := range set {
		for d := int64(-2); d <= 2; d++ {
			out[n+d] = true
		}
	}
	var dom []int64
	for n := range out {
		dom = append(dom, n)
	}
	sort.Slice(dom, func(i, j int) bool { return dom[i] < dom[j] })
	return dom
}

// decideWalk follows f's branches under the assignment and returns the Return reached and a resolver for the
// values on that path (joins resolved by the edge taken). ok is false when a branch depends on anything else.
func decideWalk(f *ssa.Function, asg []int64) (ret *ssa.Return, resolve func(ssa.Value) ssa.Value, ok bool) {
	phiVal := map[*ssa.Phi]ssa.Value{}
	var res func(v ssa.Value, depth int) ssa.Value
	res = func(v ssa.Value, depth int) ssa.Value {
		for depth < 32 {
			depth++
			if p, isPhi := v.(*ssa.Phi); isPhi {
				if w, has := phiVal[p]; has && w != v {
					v = w
					continue
				}
			}
			break
		}
		return v
	}
	var intOf func(v ssa.Value) (int64, bool)
	intOf = func(v ssa.Value) (int64, bool) {
		v = res(v, 0)
		if n, ok := an.ConstInt(v); ok {
			return n, true
		}
		s := an.Strip(v, true)
		if s != v {
			s = res(s, 0)
		}
		if p, ok := s.(*ssa.Parameter); ok {
			for i, q := range f.Params {
				if q == p && i < len(asg) {
					return asg[i], true
				}
			}
		}
		if n, ok := an.ConstInt(s); ok {
			return n, true
		}
		return 0, false
	}
	var boolOf func(v ssa.Value, depth int) (bool, bool)
	boolOf = func(v ssa.Value, depth int) (bool, bool) {
		if depth > 32 {
			return false, false
		}
		v = res(v, 0)
		if b, ok := an.ConstBool(v); ok {
			return b, true
		}
		switch x := v.(type) {
		case *ssa.UnOp:
			if x.Op == token.NOT {
				b, ok := boolOf(x.X, depth+1)
				return !b, ok
			}
		case *ssa.BinOp:
			switch x.Op {
			case token.LSS, token.GTR, token.LEQ, token.GEQ, token.EQL, token.NEQ:
				if bx, ok := boolOf(x.X, depth+1); ok {
					if by, ok := boolOf(x.Y, depth+1); ok {
						switch x.Op {
						case token.EQL:
							return bx == by, true
						case token.NEQ:
							return bx != by, true
						}
					}
				}
				a, oka := intOf(x.X)
				b, okb := intOf(x.Y)
				if !oka || !okb {
					return false, false
				}
				switch x.Op {
				case token.LSS:
					return a < b, true
				case token.GTR:
					return a > b, true
				case token.LEQ:
					return a <= b, true
				case token.GEQ:
					return a >= b, true
				case token.EQL:
					return a == b, true
				default:
					return a != b, true
				}
			case token.AND, token.OR, token.XOR:
				bx, okx := boolOf(x.X, depth+1)
				by, oky := boolOf(x.Y, depth+1)
				if !okx || !oky {
					return false, false
				}
				switch x.Op {
				case token.AND:
					return bx && by, true
				case token.OR:
					return bx || by, true
				default:
					return bx != by, true
				}
			}
		}
		return false, false
	}
	if len(f.Blocks) == 0 {
		return nil, nil, false
	}
	b := f.Blocks[0]
	var prev *ssa.BasicBlock
	for steps := 0; steps < 4*len(f.Blocks)+8; steps++ {
		if prev != nil {
			idx := -1
			for i, p := range b.Preds {
				if p == prev {
					idx = i
				}
			}
			// joins take the value of the edge walked; all of a block's joins read the old values
			nv := map[*ssa.Phi]ssa.Value{}
			for _, in := range b.Instrs {
				p, ok := in.(*ssa.Phi)
				if !ok {
					break
				}
				if idx < 0 || idx >= len(p.Edges) {
					return nil, nil, false
				}
				nv[p] = res(p.Edges[idx], 0)
			}
			for p, v := range nv {
				phiVal[p] = v
			}
		}
		if len(b.Instrs) == 0 {
			return nil, nil, false
		}
		switch t := b.Instrs[len(b.Instrs)-1].(type) {
		case *ssa.Return:
			return t, func(v ssa.Value) ssa.Value { return res(v, 0) }, true
		case *ssa.Jump:
			prev, b = b, b.Succs[0]
		case *ssa.If:
			cv, ok := boolOf(t.Cond, 0)
			if !ok {
				return nil, nil, false
			}
			if cv {
				prev, b = b, b.Succs[0]
			} else {
				prev, b = b, b.Succs[1]
			}
		default:
			return nil, nil, false
		}
	}
	return nil, nil, false
}

// decideRefusals enumerates the representative assignments of f's first n parameters and reports, for each, whether
// the walk ends in a return whose result `res` is a non-nil error (refused) or the nil constant (accepted).
func decideRefusals(f *ssa.Function, n, res int, each func(asg []int64, refused bool)) (decided bool, rows int) {
	dom := decideDomain(f)
	asg := make([]int64, n)
	decided = true
	var rec func(i int)
	rec = func(i int) {
		if !decided {
			return
		}
		if i == n {
			ret, resolve, ok := decideWalk(f, asg)
			if !ok || res >= len(ret.Results) {
				decided = false
				return
			}
			v := resolve(ret.Results[res])
			switch {
			case an.IsNil(v):
				each(asg, false)
			case certainlyNonNil(v):
				each(asg, true)
			default:
				decided = false
				return
			}
			rows++
			return
		}
		for _, d := range dom {
			asg[i] = d
			rec(i + 1)
		}
	}
	rec(0)
	return decided, rows
}

// certainlyNonNil: a value that is an error made on the spot (call result of a constructor, or a boxed concrete value).
func certainlyNonNil(v ssa.Value) bool {
	switch x := v.(type) {
	case *ssa.MakeInterface:
		return true
	case *ssa.Call:
		switch an.Callee(x) {
		case "errors.New", "fmt.Errorf":
			return true
		}
	}
	return false
}

// ---- predicates over one string

// strPred is what decideStringPred finds out about a func(string) bool whose result depends on its argument only
// through comparisons with constants, lookups in constant tables and strings.HasPrefix with constant prefixes. Such
// a predicate cannot tell apart two strings that agree on all of those tests, so following its branches once per
// class of strings decides it for every string. Nothing is executed; any other dependence leaves it undecided.
type strPred struct {
	TrueFor  []string        // the constants it mentions for which it holds
	FalseFor []string        // the constants it mentions for which it does not
	Prefix   map[string]bool // per constant prefix p it tests: does it hold for a string that starts with p and is none of the constants
	Other    bool            // does it hold for a string that is none of the constants and has none of the prefixes
}

// constBoolTable: v can only be a map built from constant string keys and constant boolean values - a literal in
// this function or the result of a repository function that returns such a literal.
func constBoolTable(g *ssa.Function, v ssa.Value) (map[string]bool, bool) {
	or := queryOrigins(g, v)
	if len(or) != 1 {
		return nil, false
	}
	var mk *ssa.MakeMap
	var host *ssa.Function
	for o := range or {
		switch x := o.(type) {
		case *ssa.MakeMap:
			mk, host = x, x.Parent()
		case *ssa.Call:
			callee := x.Call.StaticCallee()
			if callee == nil || len(callee.Blocks) == 0 {
				return nil, false
			}
			ex := an.Exits(callee)
			if len(ex) != 1 || len(ex[0].Vals) != 1 {
				return nil, false
			}
			m, ok := an.Strip(ex[0].Vals[0], true).(*ssa.MakeMap)
			if !ok {
				return nil, false
			}
			mk, host = m, callee
		}
	}
	if mk == nil || mk.Referrers() == nil {
		return nil, false
	}
	out := map[string]bool{}
	for _, ref := range *mk.Referrers() {
		switch r := ref.(type) {
		case *ssa.MapUpdate:
			k, ok1 := an.ConstString(r.Key)
			b, ok2 := an.ConstBool(r.Value)
			if !ok1 || !ok2 || r.Map != ssa.Value(mk) {
				return nil, false
			}
			out[k] = b
		case *ssa.Return, *ssa.DebugRef, *ssa.Lookup, *ssa.Store, *ssa.MakeClosure, *ssa.Phi:
		default:
			_ = host
			return nil, false
		}
	}
	return out, true
}

func decideStringPred(f *ssa.Function) (strPred, bool) {
	var sp strPred
	if f == nil || len(f.Params) != 1 || len(f.Blocks) == 0 {
		return sp, false
	}
	key := f.Params[0]
	consts := map[string]bool{}
	prefixes := map[string]bool{}
	tables := map[*ssa.Lookup]map[string]bool{}
	ok := true
	isKey := func(v ssa.Value) bool { return an.Strip(v, true) == ssa.Value(key) }
	an.AllInstrs(f, func(in ssa.Instruction) {
		switch x := in.(type) {
		case *ssa.BinOp:
			if x.Op == token.EQL || x.Op == token.NEQ {
				if s, k := an.ConstString(x.Y); k && isKey(x.X) {
					consts[s] = true
				} else if s, k := an.ConstString(x.X); k && isKey(x.Y) {
					consts[s] = true
				}
			}
		case *ssa.Lookup:
			if !isKey(x.Index) || x.CommaOk {
				ok = false
				return
			}
			t, k := constBoolTable(f, x.X)
			if !k {
				ok = false
				return
			}
			tables[x] = t
			for s := range t {
				consts[s] = true
			}
		case ssa.CallInstruction:
			if an.Callee(x) == "strings.HasPrefix" {
				if s, k := an.ConstString(x.Common().Args[1]); k && isKey(x.Common().Args[0]) {
					prefixes[s] = true
					return
				}
			}
			ok = false
		}
	})
	if !ok || len(consts)+len(prefixes) > 64 {
		return sp, false
	}
	// the walk under one representative string
	eval := func(rep string) (bool, bool) {
		phiVal := map[*ssa.Phi]ssa.Value{}
		var boolOf func(v ssa.Value, depth int) (bool, bool)
		boolOf = func(v ssa.Value, depth int) (bool, bool) {
			if depth > 32 {
				return false, false
			}
			if b, k := an.ConstBool(v); k {
				return b, true
			}
			switch x := v.(type) {
			case *ssa.Phi:
				if w, has := phiVal[x]; has {
					return boolOf(w, depth+1)
				}
			case *ssa.UnOp:
				if x.Op == token.NOT {
					b, k := boolOf(x.X, depth+1)
					return !b, k
				}
			case *ssa.BinOp:
				if x.Op == token.EQL || x.Op == token.NEQ {
					s, k := an.ConstString(x.Y)
					other := x.X
					if !k {
						s, k = an.ConstString(x.X)
						other = x.Y
					}
					if k && isKey(other) {
						return (s == rep) == (x.Op == token.EQL), true
					}
					bx, k1 := boolOf(x.X, depth+1)
					by, k2 := boolOf(x.Y, depth+1)
					if k1 && k2 {
						return (bx == by) == (x.Op == token.EQL), true
					}
				}
			case *ssa.Lookup:
				if t, has := tables[x]; has {
					return t[rep], true
				}
			case *ssa.Call:
				if an.Callee(x) == "strings.HasPrefix" {
					if s, k := an.ConstString(x.Call.Args[1]); k && isKey(x.Call.Args[0]) {
						return strings.HasPrefix(rep, s), true
					}
				}
			}
			return false, false
		}
		b := f.Blocks[0]
		var prev *ssa.BasicBlock
		for steps := 0; steps < 256; steps++ {
			for _, in := range b.Instrs {
				if p, isPhi := in.(*ssa.Phi); isPhi && prev != nil {
					for i, pb := range b.Preds {
						if pb == prev {
							phiVal[p] = p.Edges[i]
						}
					}
				}
			}
			switch t := b.Instrs[len(b.Instrs)-1].(type) {
			case *ssa.Return:
				if len(t.Results) != 1 {
					return false, false
				}
				return boolOf(t.Results[0], 0)
			case *ssa.Jump:
				prev, b = b, b.Succs[0]
			case *ssa.If:
				c, k := boolOf(t.Cond, 0)
				if !k {
					return false, false
				}
				prev = b
				if c {
					b = b.Succs[0]
				} else {
					b = b.Succs[1]
				}
			default:
				return false, false
			}
		}
		return false, false
	}
	var cs []string
	for s := range consts {
		cs = append(cs, s)
	}
	sort.Strings(cs)
	for _, s := range cs {
		b, k := eval(s)
		if !k {
			return sp, false
		}
		if b {
			sp.TrueFor = append(sp.TrueFor, s)
		} else {
			sp.FalseFor = append(sp.FalseFor, s)
		}
	}
	sp.Prefix = map[string]bool{}
	for p := range prefixes {
		// a string with this prefix that is none of the constants (and has no longer tested prefix)
		rep := p + "\x00\x00"
		b, k := eval(rep)
		if !k {
			return sp, false
		}
		sp.Prefix[p] = b
	}
	b, k := eval("\x00\x00")
	if !k {
		return sp, false
	}
	sp.Other = b
	return sp, true
}

// ---- functions from one name to an error

// errByName is what decideErrByName finds out about a `func(name) error` whose result depends on the name only
// through comparisons with constants and lookups in constant tables: "" stands for nil, anything else is the
// package-level error variable whose value is returned.
type errByName struct {
	For   map[string]string // per constant the function mentions
	Other string            // for a name that is none of them
}

// globalSetOnce: g is assigned exactly once in the repository, by the initialiser of its own package, and its
// address is used for nothing but loads - what a table built by an initialiser read from it is what it holds for good.
func globalSetOnce(c *report.Ctx, g *ssa.Global) bool {
	if g == nil || g.Pkg == nil {
		return false
	}
	stores, bad := 0, false
	scan := func(f *ssa.Function, isInit bool) {
		an.AllInstrs(f, func(in ssa.Instruction) {
			var ops []*ssa.Value
			for _, r := range in.Operands(ops) {
				if *r != ssa.Value(g) {
					continue
				}
				switch x := in.(type) {
				case *ssa.UnOp:
					if x.Op != token.MUL {
						bad = true
					}
				case *ssa.Store:
					if x.Addr == ssa.Value(g) && isInit && f.Pkg == g.Pkg {
						stores++
					} else {
						bad = true
					}
				case *ssa.DebugRef:
				default:
					bad = true
				}
			}
		})
	}
	for _, f := range repoFuncs(c) {
		scan(f, false)
	}
	for _, sp := range c.P.SSAPkgs {
		if ini := sp.Func("init"); ini != nil {
			for _, f := range an.WithAnon(ini) {
				scan(f, f == ini)
			}
		}
	}
	return stores == 1 && !bad
}

// constErrTable: the package-level map g is a read-only table from constant names to errors - built by one literal
// in its package's initialiser (constant keys; each value nil or the value of a package-level variable that is
// assigned once), never assigned again, and only looked up (or measured) anywhere in the repository. The result maps
// each key to "" (nil) or the name of that variable.
func constErrTable(c *report.Ctx, g *ssa.Global) (map[string]string, bool) {
	if g == nil || g.Pkg == nil {
		return nil, false
	}
	ini := g.Pkg.Func("init")
	if ini == nil {
		return nil, false
	}
	var mk *ssa.MakeMap
	stores, bad := 0, false
	scan := func(f *ssa.Function) {
		an.AllInstrs(f, func(in ssa.Instruction) {
			var ops []*ssa.Value
			for _, r := range in.Operands(ops) {
				if *r != ssa.Value(g) {
					continue
				}
				switch x := in.(type) {
				case *ssa.Store:
					m, isMk := x.Val.(*ssa.MakeMap)
					if x.Addr != ssa.Value(g) || f != ini || !isMk {
						bad = true
					} else {
						stores++
						mk = m
					}
				case *ssa.UnOp:
					if x.Op != token.MUL || x.Referrers() == nil {
						bad = true
						continue
					}
					for _, u := range *x.Referrers() {
						switch y := u.(type) {
						case *ssa.Lookup:
							if y.X != ssa.Value(x) {
								bad = true
							}
						case *ssa.Call:
							if bi, isB := y.Call.Value.(*ssa.Builtin); !isB || bi.Name() != "len" {
								bad = true
							}
						case *ssa.DebugRef:
						default:
							bad = true
						}
					}
				case *ssa.DebugRef:
				default:
					bad = true
				}
			}
		})
	}
	for _, f := range repoFuncs(c) {
		scan(f)
	}
	for _, sp := range c.P.SSAPkgs {
		if pi := sp.Func("init"); pi != nil {
			for _, f := range an.WithAnon(pi) {
				scan(f)
			}
		}
	}
	if bad || stores != 1 || mk == nil || mk.Referrers() == nil {
		return nil, false
	}
	out := map[string]string{}
	for _, ref := range *mk.Referrers() {
		switch r := ref.(type) {
		case *ssa.MapUpdate:
			k, isK := an.ConstString(r.Key)
			if !isK || r.Map != ssa.Value(mk) || r.Block() == nil || r.Parent() != ini {
				return nil, false
			}
			if _, dup := out[k]; dup {
				return nil, false
			}
			switch {
			case an.IsNil(r.Value):
				out[k] = ""
			default:
				ld, isLd := an.Strip(r.Value, false).(*ssa.UnOp)
				if !isLd || ld.Op != token.MUL {
					return nil, false
				}
				g2, isG := ld.X.(*ssa.Global)
				if !isG || !globalSetOnce(c, g2) {
					return nil, false
				}
				out[k] = an.GlobalOf(ld)
			}
		case *ssa.Store:
			if r.Val != ssa.Value(mk) || r.Addr != ssa.Value(g) {
				return nil, false
			}
		case *ssa.DebugRef:
		default:
			return nil, false
		}
	}
	return out, true
}

// decideErrByName decides a `func(name) error` per class of names: one walk per constant it mentions (compared with,
// or a key of a table it looks the name up in) and one for a name that is none of them. Nothing is executed; a
// branch on anything but a comparison of the name with a constant, the presence of the name in a constant table, or
// the nil-ness of what such a table holds for it leaves the function undecided.
func decideErrByName(c *report.Ctx, f *ssa.Function) (errByName, bool) {
	var out errByName
	if f == nil || len(f.Params) != 1 || len(f.Blocks) == 0 || f.Signature.Results().Len() != 1 {
		return out, false
	}
	key := f.Params[0]
	isKey := func(v ssa.Value) bool { return an.Strip(v, true) == ssa.Value(key) }
	consts := map[string]bool{}
	tables := map[*ssa.Lookup]map[string]string{}
	ok := true
	an.AllInstrs(f, func(in ssa.Instruction) {
		switch x := in.(type) {
		case *ssa.BinOp:
			if x.Op == token.EQL || x.Op == token.NEQ {
				if s, k := an.ConstString(x.Y); k && isKey(x.X) {
					consts[s] = true
				} else if s, k := an.ConstString(x.X); k && isKey(x.Y) {
					consts[s] = true
				}
			}
		case *ssa.Lookup:
			if !isKey(x.Index) {
				return
			}
			ld, isLd := x.X.(*ssa.UnOp)
			if !isLd || ld.Op != token.MUL {
				ok = false
				return
			}
			g, isG := ld.X.(*ssa.Global)
			if !isG {
				ok = false
				return
			}
			t, k := constErrTable(c, g)
			if !k {
				ok = false
				return
			}
			tables[x] = t
			for s := range t {
				consts[s] = true
			}
		}
	})
	if !ok || len(consts) > 64 {
		return out, false
	}
	type val struct {
		known bool
		name  string // "" = nil
	}
	eval := func(rep string) (val, bool) {
		phiVal := map[*ssa.Phi]ssa.Value{}
		var valOf func(v ssa.Value, depth int) val
		valOf = func(v ssa.Value, depth int) val {
			if depth > 32 {
				return val{}
			}
			if an.IsNil(v) {
				return val{true, ""}
			}
			switch x := v.(type) {
			case *ssa.Phi:
				if w, has := phiVal[x]; has {
					return valOf(w, depth+1)
				}
			case *ssa.UnOp:
				if g := an.GlobalOf(x); g != "" {
					return val{true, g}
				}
			case *ssa.Lookup:
				if t, has := tables[x]; has && !x.CommaOk {
					return val{true, t[rep]} // (absent: the zero value, nil)
				}
			case *ssa.Extract:
				if lk, isLk := x.Tuple.(*ssa.Lookup); isLk && lk.CommaOk && x.Index == 0 {
					if t, has := tables[lk]; has {
						return val{true, t[rep]}
					}
				}
			}
			return val{}
		}
		var boolOf func(v ssa.Value, depth int) (bool, bool)
		boolOf = func(v ssa.Value, depth int) (bool, bool) {
			if depth > 32 {
				return false, false
			}
			if b, k := an.ConstBool(v); k {
				return b, true
			}
			switch x := v.(type) {
			case *ssa.Phi:
				if w, has := phiVal[x]; has {
					return boolOf(w, depth+1)
				}
			case *ssa.UnOp:
				if x.Op == token.NOT {
					b, k := boolOf(x.X, depth+1)
					return !b, k
				}
			case *ssa.Extract:
				if lk, isLk := x.Tuple.(*ssa.Lookup); isLk && lk.CommaOk && x.Index == 1 {
					if t, has := tables[lk]; has {
						_, present := t[rep]
						return present, true
					}
				}
			case *ssa.BinOp:
				if x.Op != token.EQL && x.Op != token.NEQ {
					return false, false
				}
				s, k := an.ConstString(x.Y)
				other := x.X
				if !k {
					s, k = an.ConstString(x.X)
					other = x.Y
				}
				if k && isKey(other) {
					return (s == rep) == (x.Op == token.EQL), true
				}
				// the nil-ness of what a table holds for the name (a variable's value is not known to be non-nil here)
				for _, pair := range [][2]ssa.Value{{x.X, x.Y}, {x.Y, x.X}} {
					if !an.IsNil(pair[1]) {
						continue
					}
					if w := valOf(pair[0], depth+1); w.known && w.name == "" {
						return x.Op == token.EQL, true
					}
				}
				bx, k1 := boolOf(x.X, depth+1)
				by, k2 := boolOf(x.Y, depth+1)
				if k1 && k2 {
					return (bx == by) == (x.Op == token.EQL), true
				}
			}
			return false, false
		}
		b := f.Blocks[0]
		var prev *ssa.BasicBlock
		for steps := 0; steps < 256; steps++ {
			for _, in := range b.Instrs {
				if p, isPhi := in.(*ssa.Phi); isPhi && prev != nil {
					for i, pb := range b.Preds {
						if pb == prev {
							phiVal[p] = p.Edges[i]
						}
					}
				}
			}
			switch t := b.Instrs[len(b.Instrs)-1].(type) {
			case *ssa.Return:
				if len(t.Results) != 1 {
					return val{}, false
				}
				w := valOf(t.Results[0], 0)
				return w, w.known
			case *ssa.Jump:
				prev, b = b, b.Succs[0]
			case *ssa.If:
				cnd, k := boolOf(t.Cond, 0)
				if !k {
					return val{}, false
				}
				prev = b
				if cnd {
					b = b.Succs[0]
				} else {
					b = b.Succs[1]
				}
			default:
				return val{}, false
			}
		}
		return val{}, false
	}
	out.For = map[string]string{}
	for s := range consts {
		w, k := eval(s)
		if !k {
			return out, false
		}
		out.For[s] = w.name
	}
	rep := "\x00\x00"
	for consts[rep] {
		rep += "\x00"
	}
	w, k := eval(rep)
	if !k {
		return out, false
	}
	out.Other = w.name
	return out, true
}
