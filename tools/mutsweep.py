#!/usr/bin/env python3
"""Discovery aid: applies every syntactic mutant listed by cmd/mutgen (drop a call statement, drop a field store,
negate an if condition, swap a relational/logical operator, run a deferred call at once) to a scratch copy of /repo
and runs all twenty checks on it. Writes corpus/MUTSWEEP.json and prints, per function, how many mutants no check
reports. A surviving mutant is NOT a finding (most are behaviour the properties do not speak about, or are killed by
the test suite); the per-function map shows where no rule looks.   usage: mutsweep.py [-j N] [substring of file]"""
import json, os, shutil, subprocess, sys, tempfile, collections, concurrent.futures as cf
HERE = os.path.abspath(os.path.join(os.path.dirname(os.path.abspath(__file__)), ".."))
BIN = os.environ.get("RIECHECK_BIN", os.path.join(HERE, "bin", "riecheck"))
ENV = dict(os.environ, GOFLAGS="-mod=mod", GOPROXY="off", GOSUMDB="off", GOTOOLCHAIN="local"); ENV.pop("GOWORK", None)
args = sys.argv[1:]; jobs = 8
if args and args[0] == "-j": jobs = int(args[1]); args = args[2:]
mg = os.path.join(tempfile.gettempdir(), "mutgen-bin")
subprocess.run(["go", "build", "-o", mg, "./cmd/mutgen"], cwd=os.path.join(HERE, "checker"), env=ENV, check=True)
muts = [json.loads(l) for l in subprocess.run([mg, "/repo"], capture_output=True, text=True).stdout.splitlines()]
if args: muts = [m for m in muts if any(a in m["file"] for a in args)]
def run(m):
    scratch = tempfile.mkdtemp(prefix="rie-mut-")
    try:
        dst = os.path.join(scratch, "repo")
        shutil.copytree("/repo", dst, ignore=shutil.ignore_patterns(".git"))
        p = os.path.join(dst, m["file"]); src = open(p, "rb").read()
        open(p, "wb").write(src[:m["start"]] + m["repl"].encode() + src[m["end"]:])
        pr = subprocess.run([BIN, "-property", "all", "-repo", dst, "-verif", HERE, "-no-evidence"], env=ENV, capture_output=True, text=True)
        res = {}
        for l in pr.stdout.splitlines():
            if l.startswith("RESULT "): res[l.split()[1]] = int(l.split()[2][3:])
        if not res or all(rc == 2 for rc in res.values()): return m, "invalid", []
        fired = sorted(p for p, rc in res.items() if rc != 0)
        return m, ("killed" if fired else "survived"), fired
    finally:
        shutil.rmtree(scratch, ignore_errors=True)
out = []
with cf.ThreadPoolExecutor(max_workers=jobs) as ex:
    for m, st, fired in ex.map(run, muts):
        out.append(dict(m, status=st, fired=fired))
os.makedirs(os.path.join(HERE, "corpus"), exist_ok=True)
json.dump(out, open(os.path.join(HERE, "corpus", "MUTSWEEP.json"), "w"), indent=0)
c = collections.Counter(o["status"] for o in out); print(dict(c))
per = collections.defaultdict(lambda: [0, 0])
for o in out:
    if o["status"] == "invalid": continue
    k = o["file"] + ":" + o["func"]; per[k][0] += 1; per[k][1] += o["status"] == "survived"
for k, (n, s) in sorted(per.items(), key=lambda kv: (-kv[1][1], kv[0])):
    if s: print("%3d/%-3d survive  %s" % (s, n, k))
