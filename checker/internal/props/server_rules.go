package props

import (
	"go/token"
	"sort"
	"strings"

	"golang.org/x/tools/go/ssa"

	"verif/checker/internal/an"
	"verif/checker/internal/report"
)

const (
	srvT    = "L/rapidcore.Server"
	ictxT   = "L/rapidcore.InvokeContext"
	rapidcP = "L/rapidcore"
)

// ---------------------------------------------------------------------------
// The single reply sink: (*Server).sendResponseUnsafe.

type sinkInfo struct {
	f       *ssa.Function
	facts   *an.Facts
	writes  []ssa.CallInstruction // ReplyStream.Write
	directs []ssa.CallInstruction // directinvoke.SendDirectInvokeResponse
}

func isReplyStreamLoad(v ssa.Value) bool { return loadOf(ictxT, "ReplyStream")(v) }

func loadSink(c *report.Ctx) *sinkInfo {
	f := fn(c, rapidcP, "(*Server).sendResponseUnsafe")
	if f == nil {
		return nil
	}
	s := &sinkInfo{f: f, facts: an.NewFacts(f)}
	an.AllInstrs(f, func(in ssa.Instruction) {
		call, ok := in.(ssa.CallInstruction)
		if !ok {
			return
		}
		cal := an.Callee(call)
		if cal == "net/http.ResponseWriter.Write" && isReplyStreamLoad(call.Common().Value) {
			s.writes = append(s.writes, call)
		}
		if cal == "L/core/directinvoke.SendDirectInvokeResponse" {
			s.directs = append(s.directs, call)
		}
	})
	return s
}

func (s *sinkInfo) idOK(b *ssa.BasicBlock) bool {
	ctxNonNil := s.facts.Holds(b, func(f an.Fact) bool { return an.CmpNil(f, false, loadOf(srvT, "invokeCtx")) })
	idEq := s.facts.Holds(b, func(f an.Fact) bool {
		return an.CmpEq(f, true, func(v ssa.Value) bool { return an.IsParamNamed(v, "invokeID") }, loadOf("L/interop.Token", "InvokeID"))
	})
	return ctxNonNil && idEq
}
func (s *sinkInfo) notSent(b *ssa.BasicBlock) bool {
	return s.facts.Holds(b, func(f an.Fact) bool { return !f.Val && loadOf(ictxT, "ReplySent")(f.Cond) })
}
func (s *sinkInfo) streamSet(b *ssa.BasicBlock) bool {
	return s.facts.Holds(b, func(f an.Fact) bool { return an.CmpNil(f, false, isReplyStreamLoad) })
}

// checkReplySinkGuards: clause "exactly one reply, to this reservation only".
func checkReplySinkGuards(c *report.Ctx) {
	s := loadSink(c)
	if s == nil {
		return
	}
	name := an.FuncName(s.f)
	// every exit other than the id refusal is reached with the id test passed
	nex := 0
	for i, e := range an.Exits(s.f) {
		if len(e.Vals) != 1 {
			continue
		}
		g := an.GlobalOf(e.Vals[0])
		b := e.Ret.Block()
		nex++
		switch g {
		case "L/interop.ErrInvalidInvokeID":
			c.Check("R-GUARD", sprintf("%s/exit%d-invalid-id", name, i), "ErrInvalidInvokeID is returned exactly on the failing edge of the reservation/id test", !s.idOK(b), an.InstrPos(e.Ret), 1, "facts: %s", factsString(s.facts.At(b)))
		case "L/interop.ErrResponseSent":
			c.Check("R-GUARD", sprintf("%s/exit%d-already-sent", name, i), "ErrResponseSent is returned only for the current id and only when a reply was already sent", s.idOK(b) && s.facts.Holds(b, func(f an.Fact) bool { return f.Val && loadOf(ictxT, "ReplySent")(f.Cond) }), an.InstrPos(e.Ret), 1, "facts: %s", factsString(s.facts.At(b)))
		default:
			c.Check("R-GUARD", sprintf("%s/exit%d-after-id-and-sent-tests", name, i), "every other outcome is produced only after the id matched the reservation and no reply had been sent (a stale or duplicate submission can only get ErrInvalidInvokeID / ErrResponseSent)", s.idOK(b) && s.notSent(b), an.InstrPos(e.Ret), 1, "returns %s; facts: %s", an.Path(e.Vals[0]), factsString(s.facts.At(b)))
		}
	}
	c.Check("R-COUNT", name+"/exits", "the reply sink's exits were enumerated", nex >= 6, fpos(s.f), nex, "%d exits", nex)
	// the tests above and the marking below are one critical section: the sink never touches the server mutex
	// itself (no window between "id matches, nothing sent yet" and "reply produced, marked sent"), and every
	// caller enters it holding the mutex until it returns
	nops := 0
	for _, o := range an.LockOps(s.f) {
		if strings.HasSuffix(o.Path, ".mutex") {
			nops++
		}
	}
	var unlocked []string
	ncall := 0
	for _, site := range callersIndex(c)[s.f] {
		caller := site.Parent()
		ncall++
		held := an.NewHeld(caller)
		ok := false
		for pth := range held.At(site) {
			if strings.HasSuffix(pth, ".mutex") && held.Defers[pth] {
				ok = true
			}
		}
		if !ok {
			unlocked = append(unlocked, an.FuncName(caller))
		}
	}
	c.Check("R-LOCK", name+"/one-critical-section", "the id test, the reply and the ReplySent mark happen under one uninterrupted hold of the server mutex (taken by the caller, released only when it returns)", nops == 0 && len(unlocked) == 0 && ncall >= 2, fpos(s.f), ncall+1, "lock operations on the server mutex inside the sink: %d; callers: %d, not holding it by defer: %v", nops, ncall, unlocked)
	// reply-producing instructions are guarded by all three tests
	prod := append(append([]ssa.CallInstruction{}, s.writes...), s.directs...)
	c.Check("R-COUNT", name+"/reply-producers", "the reply is produced at one buffered write site and one direct-invoke site", len(s.writes) == 1 && len(s.directs) == 1, fpos(s.f), len(prod), "Write sites: %d, direct sites: %d", len(s.writes), len(s.directs))
	for i, p := range prod {
		b := p.Block()
		c.Check("R-GUARD", sprintf("%s/producer%d-guarded", name, i), "a reply is produced only for the reserved id, when none was sent yet and a reply stream is attached", s.idOK(b) && s.notSent(b) && s.streamSet(b), an.InstrPos(p), 3, "facts: %s", factsString(s.facts.At(b)))
		c.Check("R-COUNT", sprintf("%s/producer%d-not-in-loop", name, i), "the reply is written at most once per call (the front end keeps only the last Write)", !an.InLoop(p), an.InstrPos(p), 1, "in loop: %v", an.InLoop(p))
	}
	// ReplySent = true follows every produced reply
	var sentStores []*ssa.Store
	for _, st := range an.Stores(s.f, ictxT, "ReplySent") {
		if v, ok := an.ConstBool(st.Val); ok && v {
			sentStores = append(sentStores, st)
		}
	}
	ord := an.NewOrder(s.f, func(in ssa.Instruction) uint64 {
		var r uint64
		for _, st := range sentStores {
			if in == ssa.Instruction(st) {
				r |= 1
			}
		}
		for _, p := range prod {
			if in == ssa.Instruction(p) {
				r |= 2
			}
		}
		return r
	})
	for i, e := range an.Exits(s.f) {
		must, may := ord.Before(e.Ret)
		if may&2 == 0 {
			// no reply produced on any path to this exit: ReplySent must not be set either
			c.Check("R-ORDER", sprintf("%s/exit%d-no-reply-no-mark", name, i), "an exit that produced no reply leaves ReplySent unset (so that a substitute error can still be delivered)", may&1 == 0, an.InstrPos(e.Ret), 1, "ReplySent store possibly before: %v", may&1 != 0)
			continue
		}
		// reply attempted: either marked as sent, or this is the failed-write return
		failedWrite := false
		for _, w := range s.writes {
			failedWrite = failedWrite || s.facts.Holds(e.Ret.Block(), func(f an.Fact) bool {
				return an.CmpNil(f, false, func(v ssa.Value) bool {
					cl, idx := an.CallOf(v)
					return cl != nil && ssa.Instruction(cl) == ssa.Instruction(w) && idx == 1
				})
			})
		}
		c.Check("R-ORDER", sprintf("%s/exit%d-reply-marked", name, i), "once a reply was produced the reservation is marked ReplySent before returning (so no second reply can follow)", must&1 != 0 || failedWrite, an.InstrPos(e.Ret), 1, "ReplySent=true certainly before: %v; failed-write exit: %v", must&1 != 0, failedWrite)
	}
	// who touches ReplyStream / ReplySent
	type acc struct{ fn, kind string }
	var accs []string
	for _, f := range repoFuncs(c) {
		an.AllInstrs(f, func(in ssa.Instruction) {
			fa, ok := in.(*ssa.FieldAddr)
			if !ok {
				return
			}
			fr, ok := an.AsField(fa)
			if !ok || fr.Struct != ictxT || (fr.Field != "ReplyStream" && fr.Field != "ReplySent") {
				return
			}
			kind := "read"
			for _, r := range *fa.Referrers() {
				if st, ok := r.(*ssa.Store); ok && st.Addr == fa {
					kind = "write"
				}
			}
			accs = append(accs, an.FuncName(f)+":"+fr.Field+":"+kind)
		})
	}
	sort.Strings(accs)
	allowed := map[string]bool{}
	for _, a := range []string{
		srvT + ".sendResponseUnsafe:ReplyStream:read", srvT + ".sendResponseUnsafe:ReplySent:read", srvT + ".sendResponseUnsafe:ReplySent:write",
		srvT + ".setReplyStream:ReplyStream:read", srvT + ".setReplyStream:ReplyStream:write", srvT + ".setReplyStream:ReplySent:read",
	} {
		allowed[a] = true
	}
	var bad []string
	for _, a := range accs {
		// reads elsewhere are harmless (a guard table, a diagnostic); what must stay with the two owners is every WRITE
		if !allowed[a] && strings.HasSuffix(a, ":write") {
			bad = append(bad, a)
		}
	}
	c.Check("R-WHO", ictxT+"/reply-fields-single-owner", "the reply stream and the ReplySent mark are written only by setReplyStream (attach) and sendResponseUnsafe (send)", len(bad) == 0, fpos(s.f), len(accs), "other writers: %v", bad)
	// callers hold the server mutex
	sites := callSites(c, srvT+".sendResponseUnsafe")
	for _, st := range sites {
		h := an.NewHeld(st.Fn)
		lp := st.Fn.Params[0].Name() + ".mutex"
		c.Check("R-LOCK", an.FuncName(st.Fn)+"/holds-mutex-for-send", "the reply sink runs under the server mutex (guards and send are one critical section)", h.At(st.Call)[lp] && h.Defers[lp], an.InstrPos(st.Call), 1, "held: %s", fmtSet(h.At(st.Call)))
	}
	c.Check("R-WHO", srvT+".sendResponseUnsafe/callers", "the reply sink is reached only through SendResponse and SendErrorResponse", strings.Join(siteFns(sites), ",") == srvT+".SendErrorResponse,"+srvT+".SendResponse", fpos(s.f), len(sites), "callers: %v", siteFns(sites))
}

// checkOversize: C14 clause 2 (exact limit, substitute error deliverable).
func checkOversize(c *report.Ctx) {
	s := loadSink(c)
	if s == nil {
		return
	}
	name := an.FuncName(s.f)
	k := c.P.Const("L/interop", "MaxPayloadSize")
	if k == nil {
		c.Unresolved("ANCHOR", "L/interop.MaxPayloadSize", "constant not found")
		return
	}
	limit, _ := an.ConstInt(k.Value)
	c.Check("R-CONST", "L/interop.MaxPayloadSize", "the response/event size limit is 6 MiB + 100 bytes", limit == 6*1024*1024+100, k.Pos(), 1, "MaxPayloadSize = %d", limit)
	// data = io.ReadAll(payload parameter)
	var readAll *ssa.Call
	for _, call := range an.CallsTo(s.f, "io.ReadAll") {
		if cl, ok := call.(*ssa.Call); ok {
			readAll = cl
		}
	}
	if readAll == nil {
		c.Check("R-WIRE", name+"/reads-whole-response", "the buffered path reads the whole response before judging its size", false, fpos(s.f), 0, "no io.ReadAll call")
		return
	}
	argIsParam := an.IsInput(readAll.Call.Args[0])
	c.Check("R-WIRE", name+"/reads-whole-response", "the size is judged on the complete response body (io.ReadAll of the payload itself, not a truncated view)", argIsParam, readAll.Pos(), 1, "ReadAll argument: %s", an.Path(readAll.Call.Args[0]))
	isData := func(v ssa.Value) bool { cl, idx := an.CallOf(v); return cl == readAll && idx == 0 }
	lenData := func(v ssa.Value) bool { x, ok := an.LenArg(v); return ok && isData(x) }
	over := func(f an.Fact) bool {
		r, ok := an.AsRel(f)
		if !ok {
			return false
		}
		for _, rr := range []an.Rel{r, r.Flip()} {
			if lenData(rr.X) && rr.Op == token.GTR {
				if n, k := an.ConstInt(rr.Y); k && n == limit {
					return true
				}
			}
		}
		return false
	}
	within := func(f an.Fact) bool {
		r, ok := an.AsRel(f)
		if !ok {
			return false
		}
		for _, rr := range []an.Rel{r, r.Flip()} {
			if lenData(rr.X) && rr.Op == token.LEQ {
				if n, k := an.ConstInt(rr.Y); k && n == limit {
					return true
				}
			}
		}
		return false
	}
	// the too-large exit
	found := false
	for i, e := range an.Exits(s.f) {
		if len(e.Vals) != 1 {
			continue
		}
		mi, ok := e.Vals[0].(*ssa.MakeInterface)
		if !ok || an.TypeName(mi.X.Type()) != "L/interop.ErrorResponseTooLarge" {
			continue
		}
		found = true
		b := e.Ret.Block()
		c.Check("R-GUARD", sprintf("%s/exit%d-too-large-iff-over-limit", name, i), "ErrorResponseTooLarge is returned exactly when len(response) > MaxPayloadSize (one byte more than 6 MiB + 100 is refused, the limit itself is not)", s.facts.Holds(b, over), an.InstrPos(e.Ret), 1, "facts: %s", factsString(s.facts.At(b)))
		// sizes reported
		sizes := map[string]string{}
		if alloc, ok := mi.X.(*ssa.Alloc); ok {
			for _, ref := range *alloc.Referrers() {
				if fa, ok := ref.(*ssa.FieldAddr); ok {
					fr, _ := an.AsField(fa)
					for _, r2 := range *fa.Referrers() {
						if st, ok := r2.(*ssa.Store); ok && st.Addr == fa {
							if lenData(st.Val) {
								sizes[fr.Field] = "len(response)"
							} else if n, k := an.ConstInt(st.Val); k {
								sizes[fr.Field] = sprintf("%d", n)
							} else {
								sizes[fr.Field] = an.Path(st.Val)
							}
						}
					}
				}
			}
		}
		c.Check("R-WIRE", sprintf("%s/exit%d-both-sizes", name, i), "the error states both sizes: the actual response length and the limit", sizes["ResponseSize"] == "len(response)" && sizes["MaxResponseSize"] == sprintf("%d", limit), an.InstrPos(e.Ret), 2, "fields: %v", sizes)
	}
	c.Check("R-COUNT", name+"/has-too-large-exit", "an oversize response is refused", found, fpos(s.f), 1, "exit found: %v", found)
	for i, w := range s.writes {
		args := w.Common().Args
		c.Check("R-GUARD", sprintf("%s/write%d-within-limit", name, i), "the response is written to the caller only when len(response) <= MaxPayloadSize, and what is written is the complete body read", s.facts.Holds(w.Block(), within) && len(args) == 1 && isData(args[0]), an.InstrPos(w), 1, "facts: %s; argument: %s", factsString(s.facts.At(w.Block())), an.Path(args[0]))
	}
}

// checkOversizeHandler: C14 clause 3.
func checkOversizeHandler(c *report.Ctx) {
	f := fn(c, "L/rapi/handler", "(*invocationResponseHandler).ServeHTTP")
	if f == nil {
		return
	}
	name := an.FuncName(f)
	facts := an.NewFacts(f)
	var ta *ssa.TypeAssert
	an.AllInstrs(f, func(in ssa.Instruction) {
		if t, ok := in.(*ssa.TypeAssert); ok && t.CommaOk && an.TypeName(t.AssertedType) == "L/interop.ErrorResponseTooLarge" {
			ta = t
		}
	})
	if ta == nil {
		c.Check("R-GUARD", name+"/too-large-case", "the handler has a case for ErrorResponseTooLarge", false, fpos(f), 0, "type switch case not found")
		return
	}
	inCase := func(b *ssa.BasicBlock) bool {
		return facts.Holds(b, func(ft an.Fact) bool {
			ex, ok := ft.Cond.(*ssa.Extract)
			return ok && ft.Val && ex.Tuple == ta && ex.Index == 1
		})
	}
	isEV := func(v ssa.Value) bool { ex, ok := v.(*ssa.Extract); return ok && ex.Tuple == ta && ex.Index == 0 }
	var send, sent, render ssa.CallInstruction
	bad := []string{}
	for _, b := range f.Blocks {
		if !inCase(b) {
			continue
		}
		for _, in := range b.Instrs {
			call, ok := in.(ssa.CallInstruction)
			if !ok {
				continue
			}
			switch cal := an.Callee(call); cal {
			case "L/interop.InvokeResponseSender.SendErrorResponse":
				send = call
			case "L/core.Runtime.ResponseSent":
				sent = call
			case "L/rapi/rendering.RenderRequestEntityTooLarge":
				render = call
			default:
				if strings.Contains(cal, "Reset") || strings.Contains(cal, "CancelFlows") || strings.Contains(cal, "Shutdown") {
					bad = append(bad, cal)
				}
			}
		}
	}
	ok := send != nil && sent != nil && render != nil
	detail := sprintf("send: %v, ResponseSent: %v, render 413: %v", send != nil, sent != nil, render != nil)
	if ok {
		// argument of SendErrorResponse is err.AsErrorResponse() of the asserted error; order send -> sent -> render
		args := send.Common().Args
		argOK := false
		if len(args) == 2 {
			if cl, _ := an.CallOf(args[1]); cl != nil && an.Callee(cl) == "L/interop.ErrorResponseTooLarge.AsErrorResponse" && isEV(cl.Call.Args[0]) {
				argOK = true
			}
		}
		idOK := len(args) == 2 && an.IsResultOf(args[0], "github.com/go-chi/chi.URLParam", -1)
		okSend := facts.Holds(sent.Block(), func(ft an.Fact) bool {
			return an.CmpNil(ft, true, func(v ssa.Value) bool { return an.Strip(v, false) == ssa.Value(send.Value()) })
		})
		ok = argOK && idOK && okSend && an.InstrDominates(send, sent) && an.InstrDominates(sent, render)
		detail = sprintf("substitute error is err.AsErrorResponse(): %v; addressed by the URL id: %v; ResponseSent only after the substitute was accepted: %v; order send<ResponseSent<413: %v", argOK, idOK, okSend, an.InstrDominates(send, sent) && an.InstrDominates(sent, render))
	}
	c.Check("R-ORDER", name+"/too-large-case", "an oversize response makes the handler send the substitute error for the same id, complete the invocation (ResponseSent) and answer 413", ok, ta.Pos(), 3, "%s", detail)
	c.Check("R-NOEFFECT", name+"/too-large-no-teardown", "the oversize path triggers no reset, cancel or shutdown (the environment keeps serving)", len(bad) == 0, ta.Pos(), 1, "teardown calls in the case: %v", bad)
	// AsErrorResponse: type constant and message from Error()
	if a := fn(c, "L/interop", "(*ErrorResponseTooLarge).AsErrorResponse"); a != nil {
		typeOK, msgOK := false, false
		for _, st := range an.Stores(a, "L/interop.FunctionError", "") {
			fr, _ := an.AsField(st.Addr)
			if fr.Field == "Type" {
				if s, ok := an.ConstString(st.Val); ok && s == "Function.ResponseSizeTooLarge" {
					typeOK = true
				}
			}
			if fr.Field == "Message" && an.IsResultOf(st.Val, "L/interop.ErrorResponseTooLarge.Error", -1) {
				msgOK = true
			}
		}
		c.Check("R-CONST", an.FuncName(a)+"/type-and-message", "the substitute error has type Function.ResponseSizeTooLarge and the message produced by Error()", typeOK && msgOK, a.Pos(), 2, "type constant: %v, message from Error(): %v", typeOK, msgOK)
	}
	if e := fn(c, "L/interop", "(*ErrorResponseTooLarge).Error"); e != nil {
		ok := false
		for _, call := range an.CallsTo(e, "fmt.Sprintf") {
			args := call.Common().Args
			if fs, k := an.ConstString(args[0]); k && strings.Count(fs, "%d") == 2 {
				// varargs slice: [ResponseSize, MaxResponseSize]
				var order []string
				if sl, ok2 := args[1].(*ssa.Slice); ok2 {
					if al, ok3 := sl.X.(*ssa.Alloc); ok3 {
						idx := map[int64]string{}
						for _, ref := range *al.Referrers() {
							if ia, ok4 := ref.(*ssa.IndexAddr); ok4 {
								n, _ := an.ConstInt(ia.Index)
								for _, r2 := range *ia.Referrers() {
									if st, ok5 := r2.(*ssa.Store); ok5 {
										if fr, ok6 := an.AsField(an.Strip(st.Val, true)); ok6 {
											idx[n] = fr.Field
										}
									}
								}
							}
						}
						order = []string{idx[0], idx[1]}
					}
				}
				ok = len(order) == 2 && order[0] == "ResponseSize" && order[1] == "MaxResponseSize"
			}
		}
		c.Check("R-WIRE", an.FuncName(e)+"/both-sizes-in-message", "the message states the response size and the limit, in that order", ok, e.Pos(), 1, "format has two %%d fed by ResponseSize, MaxResponseSize: %v", ok)
	}
	if r := fn(c, "L/rapi/rendering", "RenderRequestEntityTooLarge"); r != nil {
		ok := false
		an.AllInstrs(r, func(in ssa.Instruction) {
			if call, k := in.(ssa.CallInstruction); k {
				for _, a := range call.Common().Args {
					if n, k2 := an.ConstInt(a); k2 && n == 413 {
						ok = true
					}
				}
			}
		})
		c.Check("R-CONST", "L/rapi/rendering.RenderRequestEntityTooLarge/status-413", "the runtime is answered with status 413", ok, r.Pos(), 1, "constant 413 passed on: %v", ok)
	}
}

// checkEventTruncation: the event is read once through LimitReader(payload, MaxPayloadSize)
// and the buffer is only ever filled, measured and read.
func checkEventBuffer(c *report.Ctx, clauseLimit bool) {
	T := "L/rapi/rendering.InvokeRenderer"
	// the method of the renderer that fills the request buffer, whatever it is called
	var f *ssa.Function
	for _, m := range methodsOf(c, "L/rapi/rendering", "InvokeRenderer") {
		if len(an.CallsTo(m, "bytes.Buffer.ReadFrom")) > 0 {
			f = m
		}
	}
	if f == nil {
		c.Unresolved("ANCHOR", "L/rapi/rendering.InvokeRenderer/fills-request-buffer", "no method of InvokeRenderer reads the event into the request buffer")
		return
	}
	name := an.FuncName(f)
	k := c.P.Const("L/interop", "MaxPayloadSize")
	limit := int64(-1)
	if k != nil {
		limit, _ = an.ConstInt(k.Value)
	}
	rf := an.CallsTo(f, "bytes.Buffer.ReadFrom")
	ok := len(rf) == 1
	detail := sprintf("%d ReadFrom calls", len(rf))
	if ok {
		call := rf[0]
		args := call.Common().Args
		recvOK := loadOf(T, "requestBuffer")(args[0])
		srcOK, nOK := false, false
		if lr, _ := an.CallOf(an.Strip(args[1], false)); lr != nil && an.Callee(lr) == "io.LimitReader" {
			srcOK = loadOf("L/interop.Invoke", "Payload")(lr.Call.Args[0])
			n, isC := an.ConstInt(lr.Call.Args[1])
			nOK = isC && n == limit
			detail = sprintf("receiver is the renderer's request buffer: %v; source is LimitReader(invoke.Payload, %d): payload %v, limit %v", recvOK, n, srcOK, nOK)
		} else {
			detail = "source is not io.LimitReader: " + an.Path(args[1])
		}
		ok = recvOK && srcOK && nOK
		if ok {
			h := an.NewHeld(f)
			lp := f.Params[0].Name() + ".requestMutex"
			ok = h.At(call)[lp]
			detail += sprintf("; under requestMutex: %v", ok)
		}
	}
	what := "the event is read from the invocation's payload through LimitReader(payload, MaxPayloadSize) into the request buffer, under the request mutex"
	if clauseLimit {
		what = "event payloads larger than the limit are cut at exactly MaxPayloadSize before delivery: " + what
	}
	pos := fpos(f)
	if len(rf) > 0 {
		pos = an.InstrPos(rf[0])
	}
	c.Check("R-WIRE", name+"/limit-reader", what, ok, pos, 1, "%s", detail)
	// fill only when empty
	if len(rf) == 1 {
		facts := an.NewFacts(f)
		empty := facts.Holds(rf[0].Block(), func(ft an.Fact) bool {
			return an.CmpEq(ft, true, func(v ssa.Value) bool { return an.IsResultOf(v, "bytes.Buffer.Len", -1) }, func(v ssa.Value) bool { n, k := an.ConstInt(v); return k && n == 0 })
		})
		c.Check("R-GUARD", name+"/fill-once", "the payload is read once per invocation (only while the buffer is still empty); a repeated poll is served from the buffer", empty, an.InstrPos(rf[0]), 1, "guarded by requestBuffer.Len() == 0: %v", empty)
	}
	// allow-list of operations on the request buffer anywhere in the repo
	allowed := map[string]string{"bytes.Buffer.Len": "measure", "bytes.Buffer.ReadFrom": "fill", "bytes.Buffer.Bytes": "read without consuming"}
	var ops, bad []string
	for _, g := range repoFuncs(c) {
		an.AllInstrs(g, func(in ssa.Instruction) {
			call, ok := in.(ssa.CallInstruction)
			if !ok {
				return
			}
			cal := an.Callee(call)
			if !strings.HasPrefix(cal, "bytes.Buffer.") {
				return
			}
			args := call.Common().Args
			if len(args) == 0 || !loadOf(T, "requestBuffer")(args[0]) {
				return
			}
			ops = append(ops, an.FuncName(g)+":"+strings.TrimPrefix(cal, "bytes.Buffer."))
			if _, ok := allowed[cal]; !ok {
				bad = append(bad, an.FuncName(g)+":"+cal)
			}
		})
	}
	sort.Strings(ops)
	c.Check("R-WHO", T+".requestBuffer/operations", "the buffered event is only filled (ReadFrom), measured (Len) and read without consuming (Bytes): a repeated poll returns the same bytes", len(bad) == 0 && len(ops) >= 3, fpos(f), len(ops), "operations: %v; not allowed: %v", ops, bad)
	// the runtime body write takes exactly the buffer's bytes
	if r := fn(c, "L/rapi/rendering", "(*InvokeRenderer).RenderRuntimeEvent"); r != nil {
		ws := an.CallsTo(r, "net/http.ResponseWriter.Write")
		okW := len(ws) == 1
		if okW {
			a := ws[0].Common().Args[0]
			cl, _ := an.CallOf(a)
			okW = cl != nil && an.Callee(cl) == "bytes.Buffer.Bytes" && loadOf(T, "requestBuffer")(cl.Call.Args[0])
		}
		c.Check("R-WIRE", an.FuncName(r)+"/body-is-buffer", "the body handed to the runtime is exactly the buffered event bytes (single Write of requestBuffer.Bytes())", okW, fpos(r), len(ws), "%d body writes", len(ws))
	}
}

// checkOneBodyPerRequest: on every path of the front end's invoke handler at most one body is written to
// the caller (the function's response, the failure body or the timeout message - never two of them).
func checkOneBodyPerRequest(c *report.Ctx) {
	f := fn(c, "M/cmd/aws-lambda-rie", "InvokeHandler")
	if f == nil {
		return
	}
	nsites := 0
	_, max := an.Count(f, func(in ssa.Instruction) bool {
		call, ok := in.(*ssa.Call)
		if ok && an.Callee(call) == "net/http.ResponseWriter.Write" {
			nsites++
			return true
		}
		return false
	})
	c.Check("R-COUNT", an.FuncName(f)+"/one-body-per-request", "on every path the caller is sent at most one body: the response, the failure body or the timeout message, never one after the other", max == 1 && nsites >= 2, fpos(f), nsites, "Write sites: %d; maximum on a path: %d", nsites, max)
}

// checkFirstFatalErrorLifetime: the record of the first unrecoverable fault lives until the reset that
// tears the generation down - it is deleted by reinitialize only. (A fault recorded while the environment
// was idle must still be there when the next invocation fails and builds its error body from it.)
func checkFirstFatalErrorLifetime(c *report.Ctx) {
	k := c.P.Const("L/appctx", "AppCtxFirstFatalErrorKey")
	if k == nil {
		c.Unresolved("ANCHOR", "L/appctx.AppCtxFirstFatalErrorKey", "constant not found")
		return
	}
	want, _ := an.ConstInt(k.Value)
	var deleters []string
	var pos token.Pos
	n := 0
	for _, f := range repoFuncs(c) {
		if strings.HasPrefix(an.FuncName(f), "L/testdata.") {
			continue
		}
		for _, call := range an.CallsTo(f, "L/appctx.ApplicationContext.Delete") {
			args := call.Common().Args
			if len(args) == 0 {
				continue
			}
			if v, isC := an.ConstInt(args[0]); !isC || v == want {
				n++
				deleters = append(deleters, an.FuncName(f))
				if !oneOf(an.FuncName(f), "L/rapid.reinitialize", "L/rapid.shutdownContext.shutdown") && pos == token.NoPos {
					pos = an.InstrPos(call)
				}
			}
		}
	}
	sort.Strings(deleters)
	ok := len(deleters) >= 1
	for _, d := range deleters {
		if !oneOf(d, "L/rapid.reinitialize", "L/rapid.shutdownContext.shutdown") {
			ok = false
		}
	}
	c.Check("R-WHO", "L/appctx.AppCtxFirstFatalErrorKey/deleted-only-by-teardown", "the first-fatal-error record is deleted only by the teardown of a generation (shutdown, entered from reset/shutdown handling after the failure was answered, and reinitialize, the last step of a reset): it survives from the fault to the failure answer that names it", ok, pos, n, "deleted in: %v", deleters)
}

// checkAwaitReleaseOnlyOnSuccess: AwaitRelease frees the reservation only for a DONE without error type.
// After a failed invocation the reservation must stay until the reset that follows has completed
// (Server.Reset releases it at its end): freeing it earlier admits a new caller into the reset window.
func checkAwaitReleaseOnlyOnSuccess(c *report.Ctx) {
	ar := fn(c, rapidcP, "(*Server).AwaitRelease")
	if ar == nil {
		return
	}
	af := an.NewFacts(ar)
	rel := an.CallsTo(ar, srvT+".Release")
	ok := len(rel) >= 1
	pos := fpos(ar)
	for _, r := range rel {
		zero := false
		for _, ft := range af.At(r.Block()) {
			if x, z, _ := an.LenSign(ft); x != nil && z {
				if fr, k := an.AsField(x); k && fr.Field == "ErrorType" {
					zero = true
				}
			}
		}
		if _, plain := r.(*ssa.Call); !plain || !zero {
			ok = false
			pos = an.InstrPos(r)
		}
	}
	c.Check("R-GUARD", an.FuncName(ar)+"/releases-only-on-success", "AwaitRelease frees the reservation only when the DONE carries no error type; after a failure the reservation is held until the reset has completed", ok, pos, len(rel), "Release sites: %d, all under 'no error type': %v", len(rel), ok)
}
