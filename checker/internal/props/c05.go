package props

import (
	"go/token"
	"go/types"
	"strings"

	"golang.org/x/tools/go/ssa"

	"verif/checker/internal/an"
	"verif/checker/internal/report"
)

func init() {
	register(&Prop{
		Spec: report.Spec{
			ID: "C05",
			Explanation: "The property is mainly about wall-clock bounds and kill behaviour, which no static argument here can reach; what is decided is the structural chain without which no timeout can work: the invoke timer waits for the configured function timeout and reports ErrInvokeTimeout; the timeout case resets with reason Timeout and the fixed 2000 ms allowance and returns the timeout error only after the invoke goroutine has wound up; a reset cancels the flows strictly before it waits for the handler, every wait a handler can reach is cancellable (or reasoned), the cancel reaches every barrier and is re-armed after each reset; " +
				"the reset's answer follows the teardown (reset-done is signalled only after the sandbox reset returned, which runs shutdown on every path and then clears the state); every kill request carries a fresh deadline (an expired one makes the supervisor refuse to signal); the next invocation starts fresh processes (generation bumped on every reset and init, initDone cleared); the front end answers the timeout with 'Task timed out after N.00 seconds'. " +
				"Added after the blind rounds: one body per request path; the watchdog does not depend on the server mutex; the whole process group is killed; every response can be cancelled by a reset; the statuses of the front end's switch are reachable (R-ERRID). " +
				"NOT decided: 'no later than timeout + allowance', the response-versus-expiry race sweep, that Kill really kills (C19 covers the supervisor's structure).",
			RuleText:    "one obligation per link of the timeout -> reset -> teardown -> fresh-start chain",
			Assumptions: trusted,
			MinObs:      45,
		},
		Run: runC05,
	})
}

func runC05(c *report.Ctx) {
	checkWatchdogIndependent(c)
	checkSupervisorKill(c) // "every process terminated": the kill reaches the whole process group
	checkResponseAlwaysCancellable(c)
	checkInitResultAcked(c)
	checkCancelClosesConnection(c)
	checkInvokeRefusalPath(c) // the reset clears the completion channel after, not before, the sandbox reset
	checkShutdownTop(c)       // who is killed at once and who gets the graceful sequence
	checkErrorIdentity(c, scopeFrontEnd, frontEndDeadCases, 8)
	c.Clause("1 timer and timeout case")
	checkInvokeTimer(c)
	c.Clause("2-3 a reset can always interrupt")
	checkCancelCoverage(c)
	c.Clause("4 teardown before the answer")
	checkTeardownBeforeAnswer(c)
	checkKillDeadlines(c)
	c.Clause("5 fresh processes next")
	checkProcessNames(c)
	if re := fn(c, "L/rapid", "reinitialize"); re != nil {
		st := an.Stores(re, rapidCtxT, "initDone")
		ok := len(st) == 1
		if ok {
			v, k := an.ConstBool(st[0].Val)
			ok = k && !v
		}
		c.Check("R-RESET", rapidCtxT+"/initDone/false", "after a reset the next invocation re-initialises (initDone = false), i.e. starts new processes", ok, fpos(re), len(st), "%d stores", len(st))
	}
	c.Clause("6 front end")
	checkFrontEndTimeout(c)
}

func checkInvokeTimer(c *report.Ctx) {
	t := fn(c, rapidcP, "(*Server).Invoke$1")
	inv := fn(c, rapidcP, "(*Server).Invoke")
	if t == nil || inv == nil {
		return
	}
	// timer: select { case <-time.After(s.GetInvokeTimeout()): timeoutChan <- ErrInvokeTimeout; case <-resetCtx.Done(): }
	after := an.CallsTo(t, "time.After")
	ok := len(after) == 1 && an.IsResultOf(after[0].Common().Args[0], srvT+".GetInvokeTimeout", -1)
	sendOK := false
	facts := an.NewFacts(t)
	for _, s := range allSends(t) {
		if chanName(s.Chan) == "timeoutChan" && an.GlobalOf(s.X) == "L/rapidcore.ErrInvokeTimeout" {
			sel, idx := selectCase(facts, s.Block())
			if sel != nil && idx >= 0 && idx < len(sel.States) && len(after) == 1 && sel.States[idx].Chan == ssa.Value(after[0].Value()) {
				sendOK = true
			}
		}
	}
	c.Check("R-WIRE", an.FuncName(t)+"/waits-for-function-timeout", "the invoke timer fires after the configured function timeout and reports ErrInvokeTimeout", ok && sendOK, fpos(t), 2, "time.After(GetInvokeTimeout()): %v; timeout error sent from that case: %v", ok, sendOK)
	// timeout case in Invoke
	of := an.NewFacts(inv)
	var resets []ssa.CallInstruction
	for _, r := range an.CallsTo(inv, srvT+".Reset") {
		if _, plain := r.(*ssa.Call); plain {
			resets = append(resets, r) // an asynchronous or deferred reset would not precede the answer
		}
	}
	okR := len(resets) == 1
	detail := sprintf("%d Reset calls in Invoke", len(resets))
	if okR {
		r := resets[0]
		sel, idx := selectCase(of, r.Block())
		inTimeout := sel != nil && idx >= 0 && idx < len(sel.States) && chanName(sel.States[idx].Chan) == "timeoutChan"
		reason, _ := an.ConstString(r.Common().Args[1])
		allow, _ := an.ConstInt(r.Common().Args[2])
		// then waits for the invoke goroutine: a second select on releaseErrChan / releaseSuccessChan dominated by the Reset
		var wait *ssa.Select
		an.AllInstrs(inv, func(in ssa.Instruction) {
			if s2, k := in.(*ssa.Select); k && s2 != sel && an.InstrDominates(r, s2) {
				wait = s2
			}
		})
		waitsBoth := false
		if wait != nil {
			names := map[string]bool{}
			for _, st := range wait.States {
				names[chanName(st.Chan)] = true
			}
			waitsBoth = names["releaseErrChan"] && names["releaseSuccessChan"] && wait.Blocking
		}
		okR = inTimeout && reason == "Timeout" && allow == 2000 && waitsBoth
		detail = sprintf("Reset in the timeout case: %v; reason %q; allowance %d ms; then waits for the invoke goroutine on both release channels: %v", inTimeout, reason, allow, waitsBoth)
	}
	c.Check("R-ORDER", an.FuncName(inv)+"/timeout-resets-then-waits", "on expiry the environment is reset (reason Timeout, 2000 ms allowance) and the timeout outcome is returned only after the invoke goroutine wound up (one outcome, no hang)", okR, fpos(inv), 3, "%s", detail)
	if k := c.P.Const(rapidcP, "resetDefaultTimeoutMs"); k != nil {
		n, _ := an.ConstInt(k.Value)
		c.Check("R-CONST", "L/rapidcore.resetDefaultTimeoutMs", "the fixed reset allowance is 2000 ms", n == 2000, k.Pos(), 1, "%d", n)
	}
	// the timeout error is what Invoke returns from that case
	okE := false
	for _, e := range an.Exits(inv) {
		for _, leaf := range an.PhiLeaves(e.Vals[0]) {
			if ex, k2 := leaf.(*ssa.Extract); k2 {
				if sel, isSel := ex.Tuple.(*ssa.Select); isSel && ex.Index >= 2 {
					// the received value of the timeoutChan state
					ri := 0
					for _, st := range sel.States {
						if st.Dir == types.RecvOnly {
							if ri == ex.Index-2 && chanName(st.Chan) == "timeoutChan" {
								okE = true
							}
							ri++
						}
					}
				}
			}
		}
	}
	c.Check("R-WIRE", an.FuncName(inv)+"/returns-timeout-error", "the caller of a timed-out invocation gets the timer's error", okE, fpos(inv), 1, "%v", okE)
	// the timer is cancelled when the invocation ends otherwise
	okC := false
	an.AllInstrs(inv, func(in ssa.Instruction) {
		if d, k := in.(*ssa.Defer); k {
			if ex, k2 := d.Call.Value.(*ssa.Extract); k2 && an.IsResultOf(ex.Tuple, "context.WithCancel", -1) {
				okC = true
			}
			if an.IsResultOf(d.Call.Value, "context.WithCancel", 1) {
				okC = true
			}
		}
	})
	c.Check("R-ORDER", an.FuncName(inv)+"/timer-cancelled-on-return", "the timer goroutine is released when the invocation returns (deferred cancel), so a finished invocation is never reset later", okC, fpos(inv), 1, "%v", okC)
}

func checkTeardownBeforeAnswer(c *report.Ctx) {
	if rg := fn(c, rapidcP, "(*Server).Reset$1"); rg != nil {
		sb := an.CallsTo(rg, "L/interop.SandboxContext.Reset")
		ok := len(sb) == 1
		n := 0
		for _, s := range allSends(rg) {
			if chanName(s.Chan) == "ResetDoneChan" {
				n++
				if !ok || !an.InstrDominates(sb[0], s) {
					ok = false
				}
			}
		}
		// nobody else signals reset completion
		var others []string
		for _, h := range repoFuncs(c) {
			if h == rg || strings.HasPrefix(an.FuncName(h), "L/rapidcore/standalone") || strings.HasPrefix(an.FuncName(h), "L/testdata.") {
				continue
			}
			for _, s2 := range allSends(h) {
				if chanName(s2.Chan) == "ResetDoneChan" {
					others = append(others, an.FuncName(h))
				}
			}
		}
		min, max := an.Count(rg, func(in ssa.Instruction) bool {
			s, isSend := in.(*ssa.Send)
			return isSend && chanName(s.Chan) == "ResetDoneChan"
		})
		c.Check("R-ORDER", an.FuncName(rg)+"/done-after-sandbox-reset", "reset completion is signalled only by the reset goroutine itself, exactly once on every path, and only after the sandbox reset (teardown of every process) has returned", ok && n >= 1 && min == 1 && max == 1 && len(others) == 0, fpos(rg), n, "ResetDoneChan sends: %d (per path min %d, max %d), all after the sandbox reset: %v; other senders: %v", n, min, max, ok, others)
	}
	if r := fn(c, rapidcP, "(*Server).Reset"); r != nil {
		recv := false
		an.AllInstrs(r, func(in ssa.Instruction) {
			if u, k := in.(*ssa.UnOp); k && u.Op == token.ARROW && chanName(u.X) == "ResetDoneChan" {
				recv = true
			}
		})
		rel := an.CallsTo(r, srvT+".Release")
		c.Check("R-ORDER", an.FuncName(r)+"/waits-for-done", "Reset returns (and the timeout is answered) only after reset completion was signalled; the reservation is released then", recv && len(rel) == 1, fpos(r), 2, "receives reset-done: %v; releases: %d", recv, len(rel))
	}
	if sr := fn(c, rapidcP, "(SandboxContext).Reset"); sr != nil {
		var hr, cl ssa.CallInstruction
		an.AllInstrs(sr, func(in ssa.Instruction) {
			if call, ok := in.(ssa.CallInstruction); ok {
				switch an.Callee(call) {
				case "L/interop.RapidContext.HandleReset":
					hr = call
				case "L/interop.RapidContext.Clear":
					cl = call
				}
			}
		})
		_, deferred := cl.(*ssa.Defer)
		if !deferred && cl != nil && an.DeferOrigin(cl) {
			deferred = true // the deferred call of an absorbed helper, placed at its exits by the normal form
		}
		c.Check("R-ORDER", "L/rapidcore.SandboxContext.Reset/handle-then-clear", "a sandbox reset is HandleReset followed by clearing the state", hr != nil && cl != nil && deferred, fpos(sr), 2, "%v", hr != nil && deferred)
	}
	if hr := fn(c, "L/rapid", "handleReset"); hr != nil {
		sd := an.CallsTo(hr, shutT+".shutdown")
		ok := len(sd) == 1
		if ok {
			for _, e := range an.Exits(hr) {
				if !an.InstrDominates(sd[0], e.Ret) {
					ok = false
				}
			}
			// deadline and reason from the reset event
			a := sd[0].Common().Args
			fr1, k1 := an.AsField(an.Strip(a[2], false))
			fr2, k2 := an.AsField(an.Strip(a[3], false))
			ok = ok && k1 && k2 && fr1.Field == "DeadlineNs" && fr2.Field == "Reason"
		}
		c.Check("R-ORDER", an.FuncName(hr)+"/shuts-down-on-every-path", "every reset runs the shutdown choreography (C09) with the reset's deadline and reason", ok, fpos(hr), 1, "%v", ok)
	}
	if r := fn(c, rapidcP, "(*Server).Reset"); r != nil {
		okD := false
		for _, st := range an.Stores(r, "L/interop.Reset", "DeadlineNs") {
			okD = an.IsResultOf(st.Val, "L/rapidcore.deadlineNsFromTimeoutMs", -1)
		}
		c.Check("R-WIRE", an.FuncName(r)+"/deadline-from-allowance", "the reset's deadline is now + the allowance passed in", okD, fpos(r), 1, "%v", okD)
	}
	if d := fn(c, rapidcP, "deadlineNsFromTimeoutMs"); d != nil {
		ok := false
		an.AllInstrs(d, func(in ssa.Instruction) {
			if bo, k := in.(*ssa.BinOp); k && bo.Op == token.ADD && an.IsResultOf(bo.X, "L/metering.Monotime", -1) {
				ok = true
			}
		})
		c.Check("R-WIRE", an.FuncName(d)+"/monotonic-plus-ms", "the deadline is the monotonic clock plus the allowance in milliseconds", ok, fpos(d), 1, "%v", ok)
	}
}

func checkFrontEndTimeout(c *report.Ctx) {
	f := fn(c, "M/cmd/aws-lambda-rie", "InvokeHandler")
	if f == nil {
		return
	}
	facts := an.NewFacts(f)
	ok := false
	for _, call := range an.CallsTo(f, "fmt.Sprintf") {
		fs, _ := an.ConstString(call.Common().Args[0])
		if fs != "Task timed out after %d.00 seconds" {
			continue
		}
		inCase := facts.Holds(call.Block(), func(ft an.Fact) bool {
			bo, k := ft.Cond.(*ssa.BinOp)
			return k && ft.Val && bo.Op == token.EQL && an.GlobalOf(bo.Y) == "L/rapidcore.ErrInvokeTimeout"
		})
		vals := variadicValues(call.Common().Args[1])
		fromParse := false
		if len(vals) == 1 {
			or := newWire(c, nil, nil).Origins(vals[0])
			fromParse = len(or) == 1 && or[0] == "call:strconv.ParseInt#0"
		}
		ok = inCase && fromParse
	}
	checkOneBodyPerRequest(c)
	c.Check("R-CONST", an.FuncName(f)+"/timeout-message", "a timed-out invocation is answered with 'Task timed out after N.00 seconds', N being the configured timeout", ok, fpos(f), 1, "%v", ok)
	_ = strings.TrimSpace
}

var _ = report.Discharged
