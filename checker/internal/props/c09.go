package props

import (
	"go/token"
	"strings"

	"golang.org/x/tools/go/ssa"

	"verif/checker/internal/an"
	"verif/checker/internal/report"
)

const (
	supKill = "L/supervisor/model.ProcessSupervisor.Kill"
	supTerm = "L/supervisor/model.ProcessSupervisor.Terminate"
	shutT   = "L/rapid.shutdownContext"
)

func init() {
	register(&Prop{
		Spec: report.Spec{
			ID: "C09",
			Explanation: "Order, branching and who-gets-what of the shutdown choreography are decided on every path; all times are not. shutdown(): with no agents the runtime is killed at once (no TERM), otherwise shutdownRuntime then shutdownAgents, the runtime deadline being 30% and the agents' deadline 100% of the available time; every path waits for the exit channels (2 s grace) before returning. shutdownRuntime: Terminate precedes the wait, Kill is reachable only from the deadline case of the select, the deadline context is built from the deadline parameter, nothing is signalled for a runtime that was never started. " +
				"shutdownAgents: the SHUTDOWN renderer (event type, reason and deadline wired from the parameters) is installed before any goroutine is started; a subscribed agent gets exactly one Release and is killed only from the deadline case of a select on a context created inside its own goroutine (deadline attached only in standalone mode, which the emulator's builder selects); an unsubscribed agent is killed and never released; agents without an exit channel are skipped before wg.Add; every goroutine defers wg.Done and Wait precedes the return. Every Kill request gives the supervisor a fresh deadline of now + 9 s. handleProcessExit maps exit status 0 to Exited, anything else to ShutdownFailed, and closes the process's channel once. " +
				"Added after the blind rounds: both deadlines derive from one clock reading; shutdown functions run before the API server is cancelled; group kill; handler serialisation. " +
				"NOT decided: 30%/100% timing, 'killed only if still alive', the product of process behaviours.",
			RuleText:    "one obligation per branch/order rule, per Kill/Terminate site, per wiring edge, per constant",
			Assumptions: trusted,
			MinObs:      35,
		},
		Run: runC09,
	})
}

func runC09(c *report.Ctx) {
	c.Clause("1 shutdown()")
	checkShutdownTop(c)
	c.Clause("2 shutdownRuntime")
	checkShutdownRuntime(c)
	c.Clause("3 shutdownAgents")
	checkShutdownAgents(c)
	c.Clause("4 one SHUTDOWN event")
	if f := fn(c, "L/rapi/rendering", "(*ShutdownRenderer).RenderAgentEvent"); f != nil {
		min, max := an.Count(f, func(in ssa.Instruction) bool { return an.IsCallTo(in, "net/http.ResponseWriter.Write") })
		c.Check("R-COUNT", an.FuncName(f)+"/writes-once", "a released extension's poll is answered with one SHUTDOWN event body", max == 1 && min <= 1, fpos(f), 1, "writes per path: min %d, max %d", min, max)
	}
	c.Clause("5 exit bookkeeping")
	checkHandleProcessExit(c)
	checkKillDeadlines(c)
	checkSignalHandlerOrder(c)
	checkSupervisorKill(c)
	checkHandlersSerialised(c)
	checkExitWaitBounded(c)
	checkStartWiresConfiguration(c)
}

func checkShutdownTop(c *report.Ctx) {
	f := fn(c, "L/rapid", "(*shutdownContext).shutdown")
	if f == nil {
		return
	}
	name := an.FuncName(f)
	facts := an.NewFacts(f)
	noAgents := func(b *ssa.BasicBlock, want bool) bool {
		return facts.Holds(b, func(ft an.Fact) bool {
			return an.CmpEq(ft, want, func(v ssa.Value) bool { return an.IsResultOf(v, regSvcI+"CountAgents", -1) }, func(v ssa.Value) bool { n, k := an.ConstInt(v); return k && n == 0 })
		})
	}
	kills := an.CallsTo(f, supKill)
	okKill := len(kills) == 1 && noAgents(kills[0].Block(), true)
	c.Check("R-GUARD", name+"/no-agents-kill-at-once", "with no extension registered the runtime is killed at once", okKill, fpos(f), len(kills), "%d Kill sites; under CountAgents() == 0: %v", len(kills), okKill)
	for _, cal := range []string{shutT + ".shutdownRuntime", shutT + ".shutdownAgents"} {
		calls := an.CallsTo(f, cal)
		ok := len(calls) == 1 && noAgents(calls[0].Block(), false)
		c.Check("R-GUARD", name+"/graceful-only-with-agents/"+strings.TrimPrefix(cal, shutT+"."), "the graceful sequence runs exactly when extensions are registered", ok, fpos(f), len(calls), "under CountAgents() != 0: %v", ok)
	}
	sr := an.CallsTo(f, shutT+".shutdownRuntime")
	sa := an.CallsTo(f, shutT+".shutdownAgents")
	if len(sr) == 1 && len(sa) == 1 {
		c.Check("R-ORDER", name+"/runtime-before-agents", "the runtime is shut down before the extensions", an.InstrDominates(sr[0], sa[0]), an.InstrPos(sa[0]), 2, "%v", an.InstrDominates(sr[0], sa[0]))
	}
	nterm := len(an.CallsTo(f, supTerm))
	c.Check("R-NOEFFECT", name+"/no-term-without-agents", "no SIGTERM is sent from the no-agents branch", nterm == 0, fpos(f), 1, "%d Terminate calls in shutdown()", nterm)
	// every path reaches clearExitedChannel before returning
	cl := an.CallsTo(f, shutT+".clearExitedChannel")
	ok := len(cl) >= 1
	if ok {
		ordW := an.NewOrder(f, func(in ssa.Instruction) uint64 {
			if an.IsCallTo(in, shutT+".clearExitedChannel") {
				return 1
			}
			return 0
		})
		for _, e := range an.Exits(f) {
			if must, _ := ordW.Before(e.Ret); must&1 == 0 {
				ok = false
			}
		}
	}
	c.Check("R-ORDER", name+"/waits-for-exits", "the operation returns only after waiting for every started process to exit (or the fixed grace)", ok, fpos(f), len(cl), "clearExitedChannel certainly precedes every return: %v", ok)
	// shuttingDown flag: set true first, reset by defer
	sets := an.CallsTo(f, shutT+".setShuttingDown")
	okFlag := len(sets) == 2
	if okFlag {
		_, d0 := sets[0].(*ssa.Defer)
		_, d1 := sets[1].(*ssa.Defer)
		v0, _ := an.ConstBool(sets[0].Common().Args[1])
		v1, _ := an.ConstBool(sets[1].Common().Args[1])
		okFlag = !d0 && d1 && v0 && !v1
	}
	c.Check("R-ORDER", name+"/shutting-down-flag", "exits during the shutdown are marked as expected (flag set first, cleared by defer)", okFlag, fpos(f), len(sets), "%d setShuttingDown calls", len(sets))
	// constants
	for _, k := range []struct {
		n    string
		want string
	}{{"runtimeDeadlineShare", "0.3"}, {"supervisorBlockingMaxMillis", "9000"}, {"maxProcessExitWait", "2000000000"}} {
		kc := c.P.Const("L/rapid", k.n)
		got := ""
		if kc != nil && kc.Value.Value != nil {
			got = kc.Value.Value.ExactString()
			if got == "3/10" {
				got = "0.3"
			}
		}
		c.Check("R-CONST", "L/rapid."+k.n, "shutdown timing constant", got == k.want, token.NoPos, 1, "%s = %s", k.n, got)
	}
	// deadlines: runtime = start + availableNs*0.3, agents = start + availableNs
	var rtArg, agArg ssa.Value
	if len(sr) == 1 {
		rtArg = sr[0].Common().Args[3]
	}
	if len(sa) == 1 {
		agArg = sa[0].Common().Args[3]
	}
	share := func(v ssa.Value) (scaled bool, ok bool) {
		cl, _ := an.CallOf(v)
		if cl == nil || an.Callee(cl) != "time.Time.Add" {
			return false, false
		}
		d := an.Strip(cl.Call.Args[1], false)
		// Duration(float64(availableNs) * 0.3)  or Duration(availableNs)
		if cv, k := d.(*ssa.Convert); k {
			if bo, k := cv.X.(*ssa.BinOp); k && bo.Op == token.MUL {
				return true, true
			}
			return false, true
		}
		return false, true
	}
	s1, k1 := share(rtArg)
	s2, k2 := share(agArg)
	// both deadlines are offsets from one and the same reading of the clock (the time the runtime phase
	// uses up is not granted to the extensions a second time)
	base := func(v ssa.Value) ssa.Value {
		cl, _ := an.CallOf(v)
		if cl == nil || an.Callee(cl) != "time.Time.Add" {
			return nil
		}
		return an.Strip(cl.Call.Args[0], false)
	}
	b1, b2 := base(rtArg), base(agArg)
	sameStart := b1 != nil && b1 == b2
	if sameStart {
		cl, _ := an.CallOf(b1)
		sameStart = cl != nil && an.Callee(cl) == "time.Now"
	}
	c.Check("R-WIRE", name+"/deadlines", "the runtime gets a share (x 0.3) of the available time, the extensions all of it, both counted from the same start", k1 && k2 && s1 && !s2 && sameStart, fpos(f), 3, "runtime deadline scaled: %v; agents deadline unscaled: %v; both are offsets of the same time.Now() reading: %v", s1, !s2, sameStart)
}

func checkShutdownRuntime(c *report.Ctx) {
	f := fn(c, "L/rapid", "(*shutdownContext).shutdownRuntime")
	if f == nil {
		return
	}
	name := an.FuncName(f)
	facts := an.NewFacts(f)
	terms := an.CallsTo(f, supTerm)
	kills := an.CallsTo(f, supKill)
	var sel *ssa.Select
	an.AllInstrs(f, func(in ssa.Instruction) {
		if s, ok := in.(*ssa.Select); ok {
			sel = s
		}
	})
	ok := len(terms) == 1 && len(kills) == 1 && sel != nil
	if !c.Check("R-COUNT", name+"/sites", "one Terminate, one select, one Kill", ok, fpos(f), 3, "Terminate: %d, Kill: %d, select: %v", len(terms), len(kills), sel != nil) {
		return
	}
	c.Check("R-ORDER", name+"/term-before-wait", "SIGTERM is sent before waiting for the exit or the deadline", an.InstrDominates(terms[0], sel), an.InstrPos(terms[0]), 2, "%v", an.InstrDominates(terms[0], sel))
	s2, idx := selectCase(facts, kills[0].Block())
	okCase := s2 == sel && idx >= 0 && idx < len(sel.States) && an.IsResultOf(sel.States[idx].Chan, "context.Context.Done", -1)
	c.Check("R-GUARD", name+"/kill-only-at-deadline", "the runtime is killed only from the deadline case (if it exits on TERM it is not killed)", okCase, an.InstrPos(kills[0]), 1, "Kill in the ctx.Done() case: %v", okCase)
	// other case waits on the exit channel obtained for this runtime name
	okExit := false
	for _, st := range sel.States {
		if an.IsResultOf(st.Chan, shutT+".getExitedChannel", 0) {
			okExit = true
		}
	}
	c.Check("R-GUARD", name+"/waits-for-exit", "the other case of the wait is the runtime's exit", okExit, sel.Pos(), 1, "%v", okExit)
	// ctx deadline = parameter deadline
	okCtx := false
	for _, call := range an.CallsTo(f, "context.WithDeadline") {
		if isParamOrCaptured(call.Common().Args[1], "deadline") {
			okCtx = true
		}
	}
	c.Check("R-WIRE", name+"/deadline-from-parameter", "the wait's deadline is the runtime deadline computed by shutdown()", okCtx, fpos(f), 1, "%v", okCtx)
	// everything only when the exit channel exists
	found := func(b *ssa.BasicBlock) bool {
		return facts.Holds(b, func(ft an.Fact) bool { return ft.Val && an.IsResultOf(ft.Cond, shutT+".getExitedChannel", 1) })
	}
	c.Check("R-GUARD", name+"/only-if-started", "a runtime that was never started is neither signalled nor waited for", found(terms[0].Block()) && found(kills[0].Block()), an.InstrPos(terms[0]), 2, "Terminate and Kill under 'exit channel found': %v", found(terms[0].Block()) && found(kills[0].Block()))
	// Terminate / Kill address the runtime name
	for _, T := range []string{"L/supervisor/model.TerminateRequest", "L/supervisor/model.KillRequest"} {
		okName := false
		for _, st := range an.Stores(f, T, "Name") {
			if cl, _ := an.CallOf(st.Val); cl != nil && an.Callee(cl) == "fmt.Sprintf" {
				okName = true
			}
		}
		c.Check("R-WIRE", name+"/name/"+strings.TrimPrefix(T, "L/supervisor/model."), "the request names this generation's runtime process", okName, fpos(f), 1, "%v", okName)
	}
}

func checkShutdownAgents(c *report.Ctx) {
	f := fn(c, "L/rapid", "(*shutdownContext).shutdownAgents")
	if f == nil {
		return
	}
	name := an.FuncName(f)
	facts := an.NewFacts(f)
	var gos []*ssa.Go
	an.AllInstrs(f, func(in ssa.Instruction) {
		if g, ok := in.(*ssa.Go); ok {
			gos = append(gos, g)
		}
	})
	setR := an.CallsTo(f, "L/rapi/rendering.EventRenderingService.SetRenderer")
	ok := len(setR) == 1 && len(gos) == 2
	if ok {
		if _, plain := setR[0].(*ssa.Call); !plain {
			ok = false // deferred or asynchronous: runs after the releases
		}
	}
	if ok {
		for _, g := range gos {
			if !an.InstrDominates(setR[0], g) {
				ok = false
			}
		}
	}
	c.Check("R-ORDER", name+"/renderer-before-release", "the SHUTDOWN event is installed before any extension is released", ok, fpos(f), 3, "SetRenderer sites: %d, goroutines: %d", len(setR), len(gos))
	// renderer content
	evType, reasonOK, dlOK := "", false, false
	for _, st := range an.Stores(f, "L/rapi/model.AgentEvent", "") {
		fr, _ := an.AsField(st.Addr)
		if fr.Field == "EventType" {
			evType, _ = an.ConstString(st.Val)
		}
		if fr.Field == "DeadlineMs" {
			if bo, k := st.Val.(*ssa.BinOp); k && bo.Op == token.QUO {
				if cl, _ := an.CallOf(bo.X); cl != nil && an.Callee(cl) == "time.Time.UnixNano" {
					if isParamOrCaptured(cl.Call.Args[0], "deadline") {
						n, _ := an.ConstInt(bo.Y)
						dlOK = n == 1000000
					}
				}
			}
		}
	}
	for _, st := range an.Stores(f, "L/rapi/model.AgentShutdownEvent", "ShutdownReason") {
		if isParamOrCaptured(st.Val, "reason") {
			reasonOK = true
		}
	}
	c.Check("R-WIRE", name+"/event-content", "the SHUTDOWN event carries the event type, the shutdown reason and the extensions' deadline in milliseconds", evType == "SHUTDOWN" && reasonOK && dlOK, fpos(f), 3, "EventType %q; reason from parameter: %v; DeadlineMs = deadline.UnixNano()/1e6: %v", evType, reasonOK, dlOK)
	// subscription branch
	subscribed := func(b *ssa.BasicBlock, want bool) bool {
		return facts.Holds(b, func(ft an.Fact) bool {
			if ft.Val != want {
				return false
			}
			cl, _ := an.CallOf(ft.Cond)
			if cl == nil || an.Callee(cl) != "L/core.ExternalAgent.IsSubscribed" {
				return false
			}
			s, k := an.ConstString(cl.Call.Args[1])
			return k && s == "SHUTDOWN"
		})
	}
	foundCh := func(b *ssa.BasicBlock) bool {
		return facts.Holds(b, func(ft an.Fact) bool { return ft.Val && an.IsResultOf(ft.Cond, shutT+".getExitedChannel", 1) })
	}
	for _, g := range gos {
		cl := goClosure(g)
		if cl == nil {
			c.Unresolved("ANCHOR", name+"/goroutine", "goroutine body not found")
			continue
		}
		rels := an.CallsTo(cl, "L/core.ExternalAgent.Release")
		kills := an.CallsTo(cl, supKill)
		cname := an.FuncName(cl)
		if len(rels) > 0 {
			// subscribed branch
			c.Check("R-GUARD", cname+"/started-for-subscribed", "the event-then-deadline treatment is given exactly to extensions subscribed to SHUTDOWN", subscribed(g.Block(), true) && foundCh(g.Block()), g.Pos(), 1, "goroutine started under IsSubscribed(SHUTDOWN) and 'exit channel found': %v", subscribed(g.Block(), true) && foundCh(g.Block()))
			min, max := an.Count(cl, func(in ssa.Instruction) bool { return an.IsCallTo(in, "L/core.ExternalAgent.Release") })
			c.Check("R-COUNT", cname+"/one-release", "a subscribed extension is released exactly once (one SHUTDOWN event)", min == 1 && max == 1, fpos(cl), 1, "releases per path: min %d, max %d", min, max)
			cf := an.NewFacts(cl)
			var sel *ssa.Select
			an.AllInstrs(cl, func(in ssa.Instruction) {
				if s, ok := in.(*ssa.Select); ok {
					sel = s
				}
			})
			okKill := len(kills) == 1 && sel != nil
			ctxLocal := false
			if okKill {
				s2, idx := selectCase(cf, kills[0].Block())
				okKill = s2 == sel && idx >= 0 && an.IsResultOf(sel.States[idx].Chan, "context.Context.Done", -1)
				if okKill {
					// the context selected on is created inside this goroutine
					dc, _ := an.CallOf(sel.States[idx].Chan)
					w := newWire(c, nil, nil)
					or := w.Origins(dc.Call.Value)
					ctxLocal = len(or) > 0
					for _, o := range or {
						if o != "call:context.WithCancel#0" && o != "call:context.WithDeadline#0" {
							ctxLocal = false
						}
					}
					// and those calls are in the closure
					if ctxLocal {
						ctxLocal = len(an.CallsTo(cl, "context.WithCancel")) == 1 && an.InstrDominates(rels[0], sel)
					}
				}
			}
			c.Check("R-GUARD", cname+"/kill-only-at-deadline", "a subscribed extension is killed only from the deadline case of its own wait", okKill, fpos(cl), 2, "Kill in the ctx.Done() case: %v", okKill)
			c.Check("R-WIRE", cname+"/own-context", "each extension waits on a context created in its own goroutine (one extension exiting cannot end another's wait), after it was released", ctxLocal, fpos(cl), 1, "context created locally and Release precedes the wait: %v", ctxLocal)
			// deadline attached only in standalone mode, from the deadline variable
			wd := an.CallsTo(cl, "context.WithDeadline")
			okWD := len(wd) == 1 && cf.Holds(wd[0].Block(), func(ft an.Fact) bool { return ft.Val && loadOf(rapidCtxT, "standaloneMode")(ft.Cond) })
			c.Check("R-GUARD", cname+"/deadline-in-standalone", "the extensions' deadline is enforced (kill at the deadline) in standalone mode", okWD, fpos(cl), 1, "WithDeadline under standaloneMode: %v", okWD)
		} else {
			c.Check("R-GUARD", cname+"/started-for-unsubscribed", "extensions not subscribed to SHUTDOWN are killed without an event", subscribed(g.Block(), false) && foundCh(g.Block()) && len(kills) == 1, g.Pos(), 1, "goroutine started under !IsSubscribed(SHUTDOWN): %v; Kill sites: %d; Release sites: 0", subscribed(g.Block(), false), len(kills))
		}
		// defers wg.Done
		okDone := false
		an.AllInstrs(cl, func(in ssa.Instruction) {
			if d, k := in.(*ssa.Defer); k && an.Callee(d) == "sync.WaitGroup.Done" && d.Block() == cl.Blocks[0] {
				okDone = true
			}
		})
		c.Check("R-COUNT", cname+"/signals-completion", "the goroutine reports completion on every path (deferred wg.Done)", okDone, fpos(cl), 1, "%v", okDone)
	}
	// wg.Add before each go, Wait dominates returns
	adds := an.CallsTo(f, "sync.WaitGroup.Add")
	okAdd := len(adds) == 1 && foundCh(adds[0].Block())
	for _, g := range gos {
		if len(adds) == 1 && !an.InstrDominates(adds[0], g) {
			okAdd = false
		}
	}
	c.Check("R-COUNT", name+"/add-per-started-agent", "one wg.Add per extension that has an exit channel (extensions that failed to launch are skipped), before its goroutine starts", okAdd, fpos(f), len(adds), "%d Add sites", len(adds))
	waits := an.CallsTo(f, "sync.WaitGroup.Wait")
	okW := len(waits) == 1
	if okW {
		for _, e := range an.Exits(f) {
			if !an.InstrDominates(waits[0], e.Ret) {
				okW = false
			}
		}
	}
	c.Check("R-ORDER", name+"/wait-before-return", "the operation returns only after every extension was dealt with", okW, fpos(f), len(waits), "%v", okW)
	// standalone mode is what the emulator's builder selects
	if b := fn(c, rapidcP, "NewSandboxBuilder"); b != nil {
		ok := false
		for _, st := range an.Stores(b, "L/rapid.Sandbox", "StandaloneMode") {
			v, k := an.ConstBool(st.Val)
			ok = k && v
		}
		c.Check("R-CONST", an.FuncName(b)+"/standalone-mode", "the emulator runs in standalone mode (so extensions are killed at the deadline)", ok, fpos(b), 1, "%v", ok)
	}
	// iterates over the registered external agents
	it := an.CallsTo(f, regSvcI+"GetExternalAgents")
	c.Check("R-COUNT", name+"/all-external-agents", "every registered external extension is considered", len(it) == 1, fpos(f), len(it), "%d", len(it))
}

func goClosure(g *ssa.Go) *ssa.Function {
	switch v := g.Call.Value.(type) {
	case *ssa.MakeClosure:
		f, _ := v.Fn.(*ssa.Function)
		return f
	case *ssa.Function:
		return v
	}
	return nil
}

func checkHandleProcessExit(c *report.Ctx) {
	f := fn(c, "L/rapid", "(*shutdownContext).handleProcessExit")
	if f == nil {
		return
	}
	name := an.FuncName(f)
	facts := an.NewFacts(f)
	ex := an.CallsTo(f, "L/core.ExternalAgent.Exited")
	sf := an.CallsTo(f, "L/core.ExternalAgent.ShutdownFailed")
	ok := len(ex) == 1 && len(sf) == 1
	if ok {
		zero := func(b *ssa.BasicBlock, want bool) bool {
			return facts.Holds(b, func(ft an.Fact) bool {
				bo, k := ft.Cond.(*ssa.BinOp)
				if !k || bo.Op != token.EQL {
					return false
				}
				n, isC := an.ConstInt(bo.Y)
				return isC && n == 0 && ft.Val == want
			})
		}
		// ... or the same test made by the termination's own Success() (ExitStatus != nil && *ExitStatus == 0)
		success := func(b *ssa.BasicBlock, want bool) bool {
			return facts.Holds(b, func(ft an.Fact) bool {
				return ft.Val == want && an.IsResultOf(ft.Cond, "L/supervisor/model.ProcessTermination.Success", -1)
			})
		}
		ok = (zero(ex[0].Block(), true) && !zero(sf[0].Block(), true)) || (success(ex[0].Block(), true) && success(sf[0].Block(), false))
	}
	c.Check("R-GUARD", name+"/status-mapping", "an awaited extension that exited with status 0 becomes Exited, anything else ShutdownFailed", ok, fpos(f), 2, "%v", ok)
	closes := an.Calls(f, func(s string) bool { return s == "builtin.close" })
	min, max := an.Count(f, func(in ssa.Instruction) bool { return an.IsCallTo(in, "builtin.close") })
	okC := len(closes) == 1 && min == 1 && max == 1 && an.IsResultOf(closes[0].Common().Args[0], shutT+".getExitedChannel", 0)
	c.Check("R-COUNT", name+"/closes-once", "each exit notification closes that process's exit channel exactly once", okC, fpos(f), len(closes), "close sites: %d; per path min %d max %d", len(closes), min, max)
	if ce := fn(c, "L/rapid", "(*shutdownContext).clearExitedChannel"); ce != nil {
		ta := an.CallsTo(ce, "time.After")
		okT := len(ta) == 1
		if okT {
			n, k := an.ConstInt(ta[0].Common().Args[0])
			okT = k && n == 2000000000
		}
		c.Check("R-CONST", an.FuncName(ce)+"/grace", "waiting for exits is bounded by the fixed 2 s grace", okT, fpos(ce), 1, "%v", okT)
	}
}

// checkKillDeadlines: every KillRequest built in package rapid carries Deadline = time.Now().Add(9 s).
func checkKillDeadlines(c *report.Ctx) {
	n := 0
	for _, f := range repoFuncs(c) {
		if f.Pkg == nil || f.Pkg.Pkg.Path() != "go.amzn.com/lambda/rapid" {
			continue
		}
		for _, st := range an.Stores(f, "L/supervisor/model.KillRequest", "Deadline") {
			n++
			ok := false
			if cl, _ := an.CallOf(st.Val); cl != nil && an.Callee(cl) == "time.Time.Add" {
				d, k := an.ConstInt(cl.Call.Args[1])
				ok = k && d == 9000000000 && an.IsResultOf(cl.Call.Args[0], "time.Now", -1)
			}
			c.Check("R-WIRE", sprintf("kill-deadline/%s#%d", an.FuncName(f), n), "a kill request gives the supervisor a fresh deadline of now + 9 s (a deadline already in the past makes the supervisor refuse to send the signal)", ok, an.InstrPos(st), 1, "Deadline = time.Now().Add(9s): %v", ok)
		}
	}
	c.Check("R-COUNT", "kill-deadline/sites", "all kill requests were found", n == 4, token.NoPos, n, "%d KillRequest literals", n)
}

var _ = report.Discharged

// isParamOrCaptured: v is parameter `name`, or a load of the variable that holds
// that parameter because a closure captures it (alloc whose only store is the parameter).
func isParamOrCaptured(v ssa.Value, name string) bool {
	if p, ok := v.(*ssa.Parameter); ok {
		return p.Name() == name
	}
	if an.IsParamNamed(v, name) { // (the same value handed in as a field of a by-value request record)
		return true
	}
	u, ok := v.(*ssa.UnOp)
	if !ok || u.Op != token.MUL {
		return false
	}
	a, ok := u.X.(*ssa.Alloc)
	if !ok {
		return false
	}
	n, okp := 0, false
	for _, ref := range *a.Referrers() {
		if st, ok := ref.(*ssa.Store); ok && st.Addr == ssa.Value(a) {
			n++
			if p, ok := st.Val.(*ssa.Parameter); ok && p.Name() == name {
				okp = true
			}
		}
	}
	return n == 1 && okp
}
