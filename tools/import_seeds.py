#!/usr/bin/env python3
"""Imports confirmed sub-agent seeds from /tmp/seedout into /verif/seeded/<id>/ (patch.diff, demo, meta.json)."""
import json, os, shutil, glob, re
SEEDOUT = os.environ.get("SEEDOUT", "/tmp/seedout")
SUFFIX = os.environ.get("SEED_SUFFIX", "")
V = json.load(open(os.path.join(SEEDOUT, "validation.json")))
here = os.path.join(os.path.dirname(os.path.abspath(__file__)), "..")
for key, r in sorted(V.items()):
    if not r.get("ok"):
        print("skip", key, r.get("why", ""), {k: v for k, v in r.items() if k.endswith("_rc")}); continue
    prop, m = key.split("-")
    d = os.path.join(here, "seeded", prop + "-" + SUFFIX + m)
    os.makedirs(d, exist_ok=True)
    src = SEEDOUT + "/%s" % prop
    shutil.copy(os.path.join(src, m + ".diff"), os.path.join(d, "patch.diff"))
    demo = glob.glob(os.path.join(src, m + "_demo*"))[0]
    shutil.copy(demo, os.path.join(d, "demo_test.go.txt"))
    notes = open(os.path.join(src, m + ".md")).read() if os.path.exists(os.path.join(src, m + ".md")) else ""
    open(os.path.join(d, "notes.md"), "w").write(notes)
    meta_path = os.path.join(d, "meta.json")
    meta = json.load(open(meta_path)) if os.path.exists(meta_path) else {}
    meta.update({
        "id": prop + "-" + SUFFIX + m, "property": prop, "source": "independent sub-agent given only the property text and a scratch worktree",
        "demo": {"file": "demo_test.go.txt", "place_in": r["pkg"], "run": "go test -vet=off -count=1 -run '%s' ./%s/" % (r["run"], r["pkg"])},
        "needs_to_manifest": (re.search(r"(?is)(needs?|trigger|manifest)[^\n]*\n?[^\n]*", notes) or [""])[0][:400] if notes else "",
        "confirmed": {"how": "tools/validate_seeds.py in a scratch worktree of /repo HEAD: patch applies, go build ./... ok, full suite ok with the patch, demo passes on the clean tree and fails with the patch",
                      "demo_clean_rc": r["demo_clean_rc"], "demo_mutant_rc": r["demo_mut_rc"], "suite_with_patch": "all packages ok"},
    })
    meta.setdefault("caught_by", [])
    json.dump(meta, open(meta_path, "w"), indent=1)
    print("imported", key)
