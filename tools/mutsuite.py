#!/usr/bin/env python3
"""Discovery aid, second half of tools/mutsweep.py: for the mutants no check reports (corpus/MUTSWEEP.json), builds
the mutated tree and runs the repository's own test suite on it in a scratch copy. Mutants that the suite does not
notice either are the realistic ones; they are listed in corpus/MUTSUITE.json for triage by reading (most change
telemetry, logging or behaviour no property speaks about).   usage: mutsuite.py [-j N] [substring of file ...]"""
import json, os, shutil, subprocess, sys, tempfile, concurrent.futures as cf
HERE = os.path.abspath(os.path.join(os.path.dirname(os.path.abspath(__file__)), ".."))
ENV = dict(os.environ, GOFLAGS="-mod=mod", GOPROXY="off", GOSUMDB="off", GOTOOLCHAIN="local"); ENV.pop("GOWORK", None)
args = sys.argv[1:]; jobs = 4
if args and args[0] == "-j": jobs = int(args[1]); args = args[2:]
muts = [m for m in json.load(open(os.path.join(HERE, "corpus", "MUTSWEEP.json"))) if m["status"] == "survived"]
skip = ("lambda/rapidcore/standalone/", "lambda/logging/", "lambda/testdata/")
muts = [m for m in muts if not m["file"].startswith(skip)]
if args: muts = [m for m in muts if any(a in m["file"] for a in args)]
outp = os.path.join(HERE, "corpus", "MUTSUITE.json")
done = {}
if os.path.exists(outp):
    done = {d["id"]: d for d in json.load(open(outp))}
def run(m):
    if m["id"] in done: return done[m["id"]]
    scratch = tempfile.mkdtemp(prefix="rie-ms-")
    try:
        dst = os.path.join(scratch, "repo")
        shutil.copytree("/repo", dst, ignore=shutil.ignore_patterns(".git"))
        p = os.path.join(dst, m["file"]); src = open(p, "rb").read()
        open(p, "wb").write(src[:m["start"]] + m["repl"].encode() + src[m["end"]:])
        env = dict(ENV, GOCACHE=os.environ.get("GOCACHE", os.path.expanduser("~/.cache/go-build")))
        b = subprocess.run(["go", "build", "./..."], cwd=dst, env=env, capture_output=True, text=True)
        if b.returncode != 0: return dict(m, suite="does-not-build")
        try:
            t = subprocess.run(["go", "test", "-vet=off", "-count=1", "-p", "4", "./..."], cwd=dst, env=env, capture_output=True, text=True, timeout=420)
        except subprocess.TimeoutExpired:
            return dict(m, suite="fails (timeout)")
        return dict(m, suite="passes" if t.returncode == 0 else "fails")
    finally:
        shutil.rmtree(scratch, ignore_errors=True)
res = list(done.values())
with cf.ThreadPoolExecutor(max_workers=jobs) as ex:
    for i, r in enumerate(ex.map(run, muts)):
        if r["id"] not in done:
            res.append(r); done[r["id"]] = r
        if i % 20 == 0:
            json.dump(res, open(outp, "w"), indent=0)
json.dump(res, open(outp, "w"), indent=0)
n = sum(1 for r in res if r["suite"] == "passes")
print("survivors examined %d; also unnoticed by the test suite: %d" % (len(res), n))
