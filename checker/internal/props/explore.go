package props

import (
	"fmt"
	"go/types"
	"os"
	"sort"
	"strings"

	"golang.org/x/tools/go/ssa"

	"verif/checker/internal/an"
	"verif/checker/internal/report"
)

// Discovery aid (not a property, not in MANIFEST): for every struct that carries a
// mutex, tabulates per field how many service-time accesses happen with which lock
// held (Engler-style "field F is accessed under lock L n times out of m"). The
// candidates it prints were confirmed by reading and frozen into the tables of the
// property checks; it is registered only when RIECHECK_EXPLORE is set.
func init() {
	if os.Getenv("RIECHECK_EXPLORE") == "" {
		return
	}
	register(&Prop{Spec: report.Spec{ID: "XLOCKS", Explanation: "exploration", RuleText: "exploration", MinObs: 0}, Run: exploreLocks})
	register(&Prop{Spec: report.Spec{ID: "XERRID", Explanation: "exploration", RuleText: "exploration", MinObs: 0}, Run: func(c *report.Ctx) {
		checkErrorIdentity(c, func(n string) bool { return !strings.HasPrefix(n, "L/testdata.") }, nil, 0)
	}})
}

func exploreLocks(c *report.Ctx) {
	service := serviceReachable(c)
	type key struct{ T, F string }
	type acc struct {
		locked, unlocked int
		locks            map[string]int
		unl              []string
		writesUnl        int
	}
	withMutex := map[string]bool{}
	for _, sp := range c.P.SSAPkgs {
		for _, mem := range sp.Members {
			tm, ok := mem.(*ssa.Type)
			if !ok {
				continue
			}
			named, ok := tm.Type().(*types.Named)
			if !ok {
				continue
			}
			st, ok := named.Underlying().(*types.Struct)
			if !ok {
				continue
			}
			for i := 0; i < st.NumFields(); i++ {
				ts := st.Field(i).Type().String()
				if strings.Contains(ts, "sync.Mutex") || strings.Contains(ts, "sync.RWMutex") {
					withMutex[an.TypeName(named)] = true
				}
			}
		}
	}
	tab := map[key]*acc{}
	for _, f := range repoFuncs(c) {
		if !service[f] || strings.HasPrefix(an.FuncName(f), "L/testdata.") {
			continue
		}
		var held *an.Held
		an.AllInstrs(f, func(in ssa.Instruction) {
			fa, ok := in.(*ssa.FieldAddr)
			if !ok {
				return
			}
			fr, ok := an.AsField(fa)
			if !ok || !withMutex[fr.Struct] {
				return
			}
			if ft := fa.Type().String(); strings.Contains(ft, "sync.") {
				return
			}
			if held == nil {
				held = an.NewHeld(f)
			}
			k := key{fr.Struct, fr.Field}
			a := tab[k]
			if a == nil {
				a = &acc{locks: map[string]int{}}
				tab[k] = a
			}
			h := held.At(in)
			if len(h) == 0 {
				a.unlocked++
				isW := false
				for _, r := range *fa.Referrers() {
					if s, ok := r.(*ssa.Store); ok && s.Addr == fa {
						isW = true
					}
				}
				if isW {
					a.writesUnl++
				}
				a.unl = append(a.unl, an.FuncName(f)+map[bool]string{true: "(W)", false: ""}[isW])
			} else {
				a.locked++
				for l := range h {
					a.locks[l]++
				}
			}
		})
	}
	var keys []key
	for k := range tab {
		keys = append(keys, k)
	}
	sort.Slice(keys, func(i, j int) bool { return keys[i].T+keys[i].F < keys[j].T+keys[j].F })
	for _, k := range keys {
		a := tab[k]
		if a.locked == 0 {
			continue
		}
		fmt.Printf("XLOCK %s.%s locked=%d unlocked=%d (writes %d) locks=%v unlocked-in=%v\n", k.T, k.F, a.locked, a.unlocked, a.writesUnl, a.locks, uniq(a.unl))
	}
	c.Check("R-EXPLORE", "done", "exploration", true, 0, 1, "%d fields", len(tab))
}

func init() {
	if os.Getenv("RIECHECK_EXPLORE") == "" {
		return
	}
	register(&Prop{Spec: report.Spec{ID: "XWAIT", Explanation: "exploration", RuleText: "exploration", MinObs: 0}, Run: func(c *report.Ctx) {
		for _, t := range lockHeldAcrossWaits(c) {
			fmt.Printf("XWAIT %s | %s | %s\n", t.fn, t.lock, t.op)
		}
		c.Check("R-EXPLORE", "done", "exploration", true, 0, 1, "")
	}})
}

func init() {
	if os.Getenv("RIECHECK_EXPLORE") == "" {
		return
	}
	register(&Prop{Spec: report.Spec{ID: "XREACQ", Explanation: "exploration", RuleText: "exploration", MinObs: 0}, Run: func(c *report.Ctx) {
		for _, f := range repoFuncs(c) {
			cnt := map[string]int{}
			for _, o := range an.LockOps(f) {
				if o.Acquire {
					cnt[o.Path]++
				}
			}
			for p, n := range cnt {
				if n > 1 {
					fmt.Printf("XREACQ %s %s x%d\n", an.FuncName(f), p, n)
				}
			}
		}
		c.Check("R-EXPLORE", "done", "exploration", true, 0, 1, "")
	}})
}
