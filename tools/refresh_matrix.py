#!/usr/bin/env python3
"""Rewrites seeded/*/meta.json (caught_by, caught_keys) and seeded/MATRIX.md from corpus/RESULT.json
(run tools/corpus.py over the whole corpus first)."""
import json, os, glob
HERE = os.path.abspath(os.path.join(os.path.dirname(os.path.abspath(__file__)), ".."))
R = json.load(open(os.path.join(HERE, "corpus", "RESULT.json")))
rows = []
for m in sorted(glob.glob(os.path.join(HERE, "seeded", "*", "meta.json"))):
    meta = json.load(open(m)); sid = meta["id"]
    r = R.get(sid)
    if not r or r.get("kind") != "seed":
        print("no result for", sid); continue
    keys = {p: [k[len("violated "):] if k.startswith("violated ") else k for k in ks] for p, ks in r.get("keys", {}).items()}
    meta["caught_by"] = r["fired"]; meta["caught_keys"] = keys
    json.dump(meta, open(m, "w"), indent=1)
    own = sid.split("-")[0]
    first = "; ".join(keys.get(p, [""])[0] for p in ([own] if own in r["fired"] else r["fired"][:1]))
    rows.append((sid, own, r["fired"], first))
with open(os.path.join(HERE, "seeded", "MATRIX.md"), "w") as f:
    f.write("# Seeded changes vs checks (from tools/corpus.py via tools/refresh_matrix.py; rounds: Cxx-mN, -r2mN, -r3mN, -r4mN, -r5F<area>mN)\n\n| seed | breaks | caught by | first obligation reported by its own check |\n|---|---|---|---|\n")
    for sid, own, fired, first in rows:
        f.write("| %s | %s | %s | %s |\n" % (sid, own, ", ".join(fired) or "**missed**", first))
own = sum(1 for r in rows if r[1] in r[2])
print("seeds %d, reported by own check %d" % (len(rows), own))
