#!/bin/bash
# tryall.sh DIFF : apply DIFF to a scratch copy of /repo, run ALL checks in one process, print the non-zero results
set -u
HERE=$(cd "$(dirname "$0")/.." && pwd)
BIN=${RIECHECK_BIN:-$HERE/bin/riecheck}
D=$(mktemp -d ${TMPDIR:-/tmp}/rie-try-XXXXXX)
trap 'rm -rf "$D"' EXIT
rsync -a --exclude .git /repo/ "$D/repo/"
diff=$(realpath "$1")
( cd "$D/repo" && git apply --whitespace=nowarn "$diff" ) || { echo "patch does not apply"; exit 3; }
export GOFLAGS=-mod=mod GOPROXY=off GOSUMDB=off GOTOOLCHAIN=local; unset GOWORK
( cd "$D/repo" && go build ./... ) || { echo "does not build"; exit 3; }
"$BIN" -property all -repo "$D/repo" -verif "$HERE" -no-evidence 2>&1 | awk '
  /^ *violated |^UNRESOLVED|^ERROR/ {buf = buf "    " substr($0,1,220) "\n"; next}
  /^    found:/ { if (buf != "") buf = buf "      " substr($0,1,200) "\n"; next }
  /^RESULT / { seen=1; if ($3 != "rc=0") { printf "%s %s\n%s", $2, $3, buf; bad=1 } buf=""; next }
  END { if (!seen) { print "CHECKER-FAILED (no result)"; printf "%s", buf } else if (!bad) print "silent" }'
