package props

import (
	"go/constant"
	"go/token"
	"go/types"
	"sort"
	"strings"

	"golang.org/x/tools/go/ssa"

	"verif/checker/internal/an"
	"verif/checker/internal/report"
)

const errTypeRefPattern = `^(Runtime|Function)\.[A-Z][a-zA-Z]+$`

func init() {
	register(&Prop{
		Spec: report.Spec{
			ID: "C20",
			Explanation: "Two clauses are decided over ALL inputs: (1) the error-type allow-list is exact: the pattern the sanitiser really uses (read from the call site, following a package-level compiled regexp to its initialiser) accepts, with MatchString's substring-search semantics, exactly the language of ^(Runtime|Function)\\.[A-Z][a-zA-Z]+$ - decided by exploring the product of the two subset automata over a rune-class alphabet, with a shortest distinguishing string reported otherwise - and the fallback maps a 'Function.' prefix to Function.Unknown and everything else to Runtime.Unknown; " +
				"(2) every non-nil X-Ray cause returned with a nil error is dominated by a size test 'len(v) <= 64 KiB' on that very value (including the worst-case crop). Also decided: sanitiser coverage (every read of the error-type header flows only into the sanitiser, every FunctionError built in the handlers takes its type from the sanitiser or a platform constant, both cause sources pass the validator before being stored), invalid or field-less causes are errors, error bodies are the bytes read from the request, and the runtime identity string's budget is consistent (limit 128, the accounted prefix is the emitted one, separators accounted) with appends guarded by the remaining budget and an identity that ends in ')' never extended. " +
				"Added after the blind rounds: a cropped field is computed from that same field. " +
				"NOT decided: that cropped fields are prefixes of the originals beyond the shape of cropString; the <= 128 arithmetic itself (a linear invariant, not derived).",
			RuleText:    "one obligation for the language equivalence (states of the product automaton explored are reported), one per exit of the two size-bounded functions, per header read, per FunctionError literal, per cause source, per budget constant/guard",
			Assumptions: append([]string{"regexp/syntax compiles the pattern as package regexp does; only begin/end-of-text assertions occur (anything else makes the check fail rather than guess)"}, trusted...),
			MinObs:      27,
		},
		Run: runC20,
	})
}

func runC20(c *report.Ctx) {
	c.Clause("1 allow-list exactness")
	checkErrorTypeSanitiser(c)
	c.Clause("2 size bound dominates every result")
	checkCauseBound(c)
	c.Clause("3 sanitiser coverage")
	checkSanitiserCoverage(c)
	c.Clause("4 error bodies untouched")
	checkErrorBodies(c)
	checkCropKeepsField(c)
	checkRuntimeReleaseReturnedAsStored(c)
	c.Clause("5 runtime identity string")
	checkRuntimeRelease(c)
}

// patternUsedBy finds the regexp pattern whose match decides a branch in f.
func patternUsedBy(c *report.Ctx, f *ssa.Function) (pat string, site ssa.CallInstruction, how string) {
	for _, call := range an.CallsTo(f, "regexp.MatchString") {
		if s, ok := an.ConstString(call.Common().Args[0]); ok {
			return s, call, "regexp.MatchString(<constant>, input)"
		}
		return "", call, "non-constant pattern"
	}
	for _, call := range an.CallsTo(f, "regexp.Regexp.MatchString", "regexp.Regexp.Match") {
		recv := call.Common().Args[0]
		g := an.GlobalOf(recv)
		if g == "" {
			// local compiled regexp
			if cl, _ := an.CallOf(recv); cl != nil && (an.Callee(cl) == "regexp.MustCompile" || an.Callee(cl) == "regexp.Compile") {
				if s, ok := an.ConstString(cl.Call.Args[0]); ok {
					return s, call, "local " + an.Callee(cl)
				}
			}
			return "", call, "receiver is not a package-level regexp"
		}
		// find the initialiser store
		cands := append([]*ssa.Function(nil), repoFuncs(c)...)
		for _, sp := range c.P.SSAPkgs {
			if ini := sp.Func("init"); ini != nil {
				cands = append(cands, ini) // `var re = regexp.MustCompile(...)` is stored by the package initialiser
			}
		}
		for _, h := range cands {
			for _, st := range an.GlobalStores(h, g) {
				if cl, _ := an.CallOf(st.Val); cl != nil && (an.Callee(cl) == "regexp.MustCompile") {
					if s, ok := an.ConstString(cl.Call.Args[0]); ok {
						return s, call, "package-level " + g + " = regexp.MustCompile(<constant>)"
					}
				}
			}
		}
		return "", call, "initialiser of " + g + " not found"
	}
	return "", nil, "no regexp match call"
}

func checkErrorTypeSanitiser(c *report.Ctx) {
	f := fn(c, "L/fatalerror", "GetValidRuntimeOrFunctionErrorType")
	if f == nil {
		return
	}
	name := an.FuncName(f)
	pat, site, how := patternUsedBy(c, f)
	if site == nil || pat == "" {
		c.Check("R-CONST", name+"/pattern-language", "the sanitiser decides by a constant regular expression", false, fpos(f), 0, "%s", how)
		return
	}
	eq, witness, states, err := an.SearchLangEqual(pat, errTypeRefPattern)
	detail := sprintf("pattern %q (%s); product states explored: %d", pat, how, states)
	if err != nil {
		detail += "; error: " + err.Error()
	} else if !eq {
		detail += sprintf("; distinguishing input: %q", witness)
	}
	c.Analysed("automaton states explored", states)
	c.Check("R-CONST", name+"/pattern-language", "the set of error types passed on verbatim is exactly { Runtime.X, Function.X : X a capitalised word of letters } - the used pattern and the reference pattern accept the same strings under MatchString's search semantics, for all inputs", err == nil && eq, an.InstrPos(site), states, "%s", detail)
	// the matched input is the parameter; verbatim return only on the match edge
	args := site.Common().Args
	_, inputIsParam := args[len(args)-1].(*ssa.Parameter)
	facts := an.NewFacts(f)
	matched := func(b *ssa.BasicBlock, want bool) bool {
		return facts.Holds(b, func(ft an.Fact) bool {
			if ft.Val != want {
				return false
			}
			cl, _ := an.CallOf(ft.Cond)
			return cl != nil && ssa.Instruction(cl) == ssa.Instruction(site)
		})
	}
	okV, okF, okR := false, false, false
	nex := 0
	for _, e := range an.Exits(f) {
		nex++
		v := an.Strip(e.Vals[0], true)
		if _, isP := v.(*ssa.Parameter); isP {
			okV = matched(e.Ret.Block(), true)
			continue
		}
		s, _ := an.ConstString(v)
		switch s {
		case "Function.Unknown":
			okF = matched(e.Ret.Block(), false) && facts.Holds(e.Ret.Block(), func(ft an.Fact) bool {
				cl, _ := an.CallOf(ft.Cond)
				if cl == nil || an.Callee(cl) != "strings.HasPrefix" || !ft.Val {
					return false
				}
				p, k := an.ConstString(cl.Call.Args[1])
				return k && p == "Function."
			})
		case "Runtime.Unknown":
			okR = matched(e.Ret.Block(), false)
		}
	}
	c.Check("R-GUARD", name+"/verbatim-only-on-match", "the input is passed on verbatim only on the match edge, and it is the input itself that was matched", okV && inputIsParam && nex == 3, fpos(f), nex, "verbatim exit on the match edge: %v; matched value is the parameter: %v; exits: %d", okV, inputIsParam, nex)
	c.Check("R-CONST", name+"/fallback", "anything else becomes Function.Unknown when it starts with 'Function.', else Runtime.Unknown", okF && okR, fpos(f), 2, "Function.Unknown under HasPrefix(\"Function.\"): %v; Runtime.Unknown otherwise: %v", okF, okR)
}

func checkCauseBound(c *report.Ctx) {
	k := c.P.Const("L/rapi/model", "MaxErrorCauseSizeBytes")
	limit := int64(-1)
	if k != nil {
		limit, _ = an.ConstInt(k.Value)
	}
	c.Check("R-CONST", "L/rapi/model.MaxErrorCauseSizeBytes", "the cause size limit is 64 KiB", limit == 65536, token.NoPos, 1, "MaxErrorCauseSizeBytes = %d", limit)
	bounded := func(facts *an.Facts, b *ssa.BasicBlock, v ssa.Value) bool {
		return facts.Holds(b, func(ft an.Fact) bool {
			r, ok := an.AsRel(ft)
			if !ok {
				return false
			}
			for _, rr := range []an.Rel{r, r.Flip()} {
				if x, isLen := an.LenArg(rr.X); isLen && x == v && rr.Op == token.LEQ {
					if n, kk := an.ConstInt(rr.Y); kk && n == limit {
						return true
					}
				}
			}
			return false
		})
	}
	for _, spec := range []struct {
		pkg, fn string
		resIdx  int
	}{{"L/rapi/model", "(*ErrorCause).croppedJSON", 0}, {"L/rapi/model", "ValidatedErrorCauseJSON", 0}} {
		f := fn(c, spec.pkg, spec.fn)
		if f == nil {
			continue
		}
		facts := an.NewFacts(f)
		n := 0
		for i, e := range an.Exits(f) {
			v := e.Vals[spec.resIdx]
			if an.IsNil(v) {
				continue
			}
			if len(e.Vals) == 2 && !an.IsNil(e.Vals[1]) {
				continue // error exit
			}
			n++
			ok := false
			detail := ""
			if cl, _ := an.CallOf(v); cl != nil && an.Callee(cl) == "L/rapi/model.ErrorCause.croppedJSON" {
				ok = true
				detail = "result of croppedJSON (bounded there)"
			} else {
				ok = bounded(facts, e.Ret.Block(), v)
				detail = sprintf("facts: %s", factsString(facts.At(e.Ret.Block())))
			}
			c.Check("R-GUARD", sprintf("%s/exit%d-size-bound", an.FuncName(f), i), "a cause is returned (non-nil, no error) only on the taken edge of 'len(v) <= MaxErrorCauseSizeBytes' tested on that very value", ok, an.InstrPos(e.Ret), 1, "%s", detail)
		}
		c.Check("R-COUNT", an.FuncName(f)+"/non-nil-exits", "exits returning a cause were enumerated", n >= 2, fpos(f), n, "%d", n)
	}
	// invalid JSON / no recognised field => error
	if f := fn(c, "L/rapi/model", "ValidatedErrorCauseJSON"); f != nil {
		facts := an.NewFacts(f)
		okParse, okValid := false, false
		for _, e := range an.Exits(f) {
			if len(e.Vals) == 2 && !an.IsNil(e.Vals[1]) && an.IsNil(e.Vals[0]) {
				if facts.Holds(e.Ret.Block(), func(ft an.Fact) bool {
					return an.CmpNil(ft, false, func(v ssa.Value) bool { return an.IsResultOf(v, "L/rapi/model.newErrorCause", 1) })
				}) {
					okParse = true
				}
				if facts.Holds(e.Ret.Block(), func(ft an.Fact) bool {
					return !ft.Val && an.IsResultOf(ft.Cond, "L/rapi/model.ErrorCause.isValid", -1)
				}) {
					okValid = true
				}
			}
		}
		c.Check("R-GUARD", an.FuncName(f)+"/invalid-dropped", "invalid JSON and causes without any recognised field are rejected with an error (and therefore dropped by the callers)", okParse && okValid, fpos(f), 2, "parse error -> error: %v; !isValid() -> error: %v", okParse, okValid)
	}
	if f := fn(c, "L/rapi/model", "(*ErrorCause).isValid"); f != nil {
		// false exactly when all four are empty: decided per exit (and per incoming edge of a joined result) from the
		// emptiness facts known there - whatever way the condition is written (nested ifs, one &&-chain, one ||-chain
		// returned directly, early returns)
		four := []string{"WorkingDir", "Paths", "Exceptions", "Message"}
		fieldOf := func(x ssa.Value) string {
			if x == nil {
				return ""
			}
			if fr, k := an.AsField(an.Strip(x, false)); k && fr.Struct == "L/rapi/model.ErrorCause" {
				return fr.Field
			}
			if u, k := an.Strip(x, false).(*ssa.UnOp); k {
				if fr, k2 := an.AsField(u.X); k2 && fr.Struct == "L/rapi/model.ErrorCause" {
					return fr.Field
				}
			}
			return ""
		}
		facts := an.NewFacts(f)
		okFour, ncase := true, 0
		var why []string
		for _, e := range an.Exits(f) {
			if len(e.Vals) != 1 {
				continue
			}
			// (`return !(all four empty)`: the cases of the operand, with the outcome inverted)
			rv, inverted := e.Vals[0], false
			if u, isU := rv.(*ssa.UnOp); isU && u.Op == token.NOT {
				rv, inverted = u.X, true
			}
			for _, jc := range facts.JoinCases(rv, e.Ret.Block()) {
				ncase++
				if inverted {
					if b, isC := an.ConstBool(jc.Val); isC {
						jc.Val = ssa.NewConst(constant.MakeBool(!b), jc.Val.Type())
					} else {
						// the operand's last test stands for "that field is empty" when true: the result is its negation
						neg := an.Fact{Cond: jc.Val, Val: false}
						if x, _, nz := an.LenSign(neg); x != nil && nz {
							ok2 := fieldOf(x) != ""
							for _, fl := range four {
								if fl != fieldOf(x) {
									has := false
									for _, ft := range jc.Facts {
										if y, z, _ := an.LenSign(ft); y != nil && z && fieldOf(y) == fl {
											has = true
										}
									}
									ok2 = ok2 && has
								}
							}
							if !ok2 {
								okFour = false
								why = append(why, sprintf("!%s under %s", an.Path(jc.Val), factsString(jc.Facts)))
							}
							continue
						}
						okFour = false
						why = append(why, sprintf("!%s", an.Path(jc.Val)))
						continue
					}
				}
				empty, nonEmpty := map[string]bool{}, map[string]bool{}
				for _, ft := range jc.Facts {
					if x, z, nz := an.LenSign(ft); x != nil {
						if fl := fieldOf(x); fl != "" {
							if z {
								empty[fl] = true
							}
							if nz {
								nonEmpty[fl] = true
							}
						}
					}
				}
				allEmptyBut := func(skip string) bool {
					for _, fl := range four {
						if fl != skip && !empty[fl] {
							return false
						}
					}
					return true
				}
				good := false
				if b, isC := an.ConstBool(jc.Val); isC {
					if b {
						good = len(nonEmpty) >= 1
						if !good {
							// a plain join of the ways out of an &&-chain: each way in knows its own field non-empty
							var someNonEmpty func(b *ssa.BasicBlock, depth int) bool
							someNonEmpty = func(b *ssa.BasicBlock, depth int) bool {
								if len(b.Preds) == 0 || depth > 3 {
									return false
								}
								for _, p := range b.Preds {
									hit := false
									for _, ft := range facts.OnEdge(p, b) {
										if x, _, nz := an.LenSign(ft); x != nil && nz && fieldOf(x) != "" {
											hit = true
										}
									}
									if !hit && !someNonEmpty(p, depth+1) {
										return false
									}
								}
								return true
							}
							good = someNonEmpty(e.Ret.Block(), 0)
						}
					} else {
						good = allEmptyBut("")
					}
				} else {
					// the result is itself the last test: valid iff that field is non-empty, the others being empty
					if x, _, nz := an.LenSign(an.Fact{Cond: jc.Val, Val: true}); x != nil && nz {
						good = allEmptyBut(fieldOf(x)) && fieldOf(x) != ""
					}
				}
				if !good {
					okFour = false
					why = append(why, sprintf("%s under %s", an.Path(jc.Val), factsString(jc.Facts)))
				}
			}
		}
		c.Check("R-GUARD", an.FuncName(f)+"/four-fields", "a cause is valid when at least one of its four recognised fields is non-empty", okFour && ncase >= 2, fpos(f), ncase, "result cases: %d; not justified: %v", ncase, why)
	}
	if f := fn(c, "L/rapi/model", "newErrorCause"); f != nil {
		ok := len(an.CallsTo(f, "encoding/json.Unmarshal")) == 1
		c.Check("R-WIRE", an.FuncName(f)+"/parses", "the cause is parsed as JSON into the four recognised fields", ok, fpos(f), 1, "%v", ok)
	}
}

func checkSanitiserCoverage(c *report.Ctx) {
	const hdr = "Lambda-Runtime-Function-Error-Type"
	san := "L/fatalerror.GetValidRuntimeOrFunctionErrorType"
	nreads := 0
	for _, f := range repoFuncs(c) {
		if f.Pkg == nil || f.Pkg.Pkg.Path() != "go.amzn.com/lambda/rapi/handler" {
			continue
		}
		for _, call := range an.CallsTo(f, "net/http.Header.Get") {
			s, k := an.ConstString(call.Common().Args[1])
			if !k || s != hdr {
				continue
			}
			nreads++
			// every use of the value flows into the sanitiser (directly, or by being returned from a helper whose callers do)
			ok := usesOnlySanitised(c, call.Value(), san, 0)
			c.Check("R-WIRE", sprintf("header-read/%s", an.FuncName(f)), "the client-supplied error type header is used only as the sanitiser's input", ok, an.InstrPos(call), 1, "all uses reach %s: %v", san, ok)
		}
	}
	c.Check("R-COUNT", "header-read/sites", "the reads of the error type header were found", nreads >= 3, token.NoPos, nreads, "%d reads", nreads)
	// FunctionError literals in rapi/handler
	w := newWire(c, nil, nil)
	nlit := 0
	for _, f := range repoFuncs(c) {
		if f.Pkg == nil || f.Pkg.Pkg.Path() != "go.amzn.com/lambda/rapi/handler" {
			continue
		}
		for _, st := range an.Stores(f, "L/interop.FunctionError", "Type") {
			nlit++
			or := w.Origins(st.Val)
			ok := len(or) > 0
			for _, o := range or {
				if o != "call:"+san+"#0" && !strings.HasPrefix(o, "const:") {
					ok = false
				}
			}
			c.Check("R-WIRE", sprintf("function-error-type/%s#%d", an.FuncName(f), nlit), "an error type handed to the platform by a handler is either sanitised or a platform constant", ok, an.InstrPos(st), len(or), "origins: %v", or)
		}
	}
	c.Check("R-COUNT", "function-error-type/sites", "FunctionError literals in the handlers were found", nlit >= 4, token.NoPos, nlit, "%d", nlit)
	// X-Ray cause sources
	w.FollowReturns = func(callee string) bool {
		return strings.HasPrefix(callee, "L/rapi/handler.") && callee != "L/rapi/model.ValidatedErrorCauseJSON"
	}
	ncause := 0
	for _, f := range repoFuncs(c) {
		if f.Pkg == nil || f.Pkg.Pkg.Path() != "go.amzn.com/lambda/rapi/handler" {
			continue
		}
		for _, st := range an.Stores(f, "L/interop.InvokeErrorTraceData", "ErrorCause") {
			ncause++
			or := w.Origins(st.Val)
			ok := len(or) > 0
			for _, o := range or {
				if o != "call:L/rapi/model.ValidatedErrorCauseJSON#0" && o != "const:nil" {
					ok = false
				}
			}
			c.Check("R-WIRE", sprintf("xray-cause/%s#%d", an.FuncName(f), ncause), "an X-Ray cause stored for the tracer is the validator's output or nothing", ok, an.InstrPos(st), len(or), "origins: %v", or)
		}
	}
	c.Check("R-COUNT", "xray-cause/sites", "stores of the X-Ray cause were found", ncause >= 1, token.NoPos, ncause, "%d", ncause)
	// both helper sources return only validated data
	for _, h := range []string{"(*invocationErrorHandler).getValidatedErrorCause", "(*errorWithCauseRequest).getValidatedXRayCause"} {
		f := fn(c, "L/rapi/handler", h)
		if f == nil {
			continue
		}
		facts := an.NewFacts(f)
		ok := true
		for _, e := range an.Exits(f) {
			v := e.Vals[0]
			if an.IsNil(v) {
				continue
			}
			isV := an.IsResultOf(an.Strip(v, true), "L/rapi/model.ValidatedErrorCauseJSON", 0)
			nilErr := facts.Holds(e.Ret.Block(), func(ft an.Fact) bool {
				return an.CmpNil(ft, true, func(x ssa.Value) bool { return an.IsResultOf(x, "L/rapi/model.ValidatedErrorCauseJSON", 1) })
			})
			if !isV || !nilErr {
				ok = false
			}
		}
		c.Check("R-GUARD", an.FuncName(f)+"/validated-or-nil", "the helper returns the validator's output (on its nil-error edge) or nothing", ok, fpos(f), len(an.Exits(f)), "%v", ok)
	}
}

// usesOnlySanitised: every referrer of v is the sanitiser call's argument, a
// return (then the callers' uses are followed), a phi/conversion, or a store to
// a local whose loads are followed.
func usesOnlySanitised(c *report.Ctx, v ssa.Value, san string, depth int) bool {
	if v == nil || depth > 4 {
		return false
	}
	refs := v.Referrers()
	if refs == nil || len(*refs) == 0 {
		return true
	}
	for _, r := range *refs {
		switch x := r.(type) {
		case *ssa.Call:
			if an.Callee(x) == san {
				continue
			}
			return false
		case *ssa.Return:
			fn := x.Parent()
			for _, call := range callersIndex(c)[fn] {
				if cv := call.Value(); cv != nil {
					if !usesOnlySanitised(c, cv, san, depth+1) {
						return false
					}
				}
			}
			// interface/bound-method call sites of a method
			for _, st := range callSites(c, an.FuncName(fn)) {
				if cv := st.Call.Value(); cv != nil && !usesOnlySanitised(c, cv, san, depth+1) {
					return false
				}
			}
		case *ssa.Phi:
			if !usesOnlySanitised(c, x, san, depth+1) {
				return false
			}
		case *ssa.ChangeType:
			if !usesOnlySanitised(c, x, san, depth+1) {
				return false
			}
		case *ssa.DebugRef:
		default:
			return false
		}
	}
	return true
}

func checkErrorBodies(c *report.Ctx) {
	f := fn(c, "L/rapi/handler", "(*invocationErrorHandler).getErrorBody")
	if f != nil {
		ok := false
		for _, e := range an.Exits(f) {
			if len(e.Vals) == 2 && an.IsNil(e.Vals[1]) {
				if cl, idx := an.CallOf(e.Vals[0]); cl != nil && an.Callee(cl) == "io.ReadAll" && idx == 0 {
					if fr, k := an.AsField(an.Strip(cl.Call.Args[0], false)); k && fr.Field == "Body" {
						ok = true
					}
				}
			}
		}
		c.Check("R-WIRE", an.FuncName(f)+"/body-untouched", "the error body handed to the platform is exactly what was read from the request", ok, fpos(f), 1, "returns io.ReadAll(request.Body): %v", ok)
	}
	if h := fn(c, "L/rapi/handler", "(*invocationErrorHandler).ServeHTTP"); h != nil {
		w := newWire(c, nil, nil)
		var or []string
		for _, st := range an.Stores(h, "L/interop.ErrorInvokeResponse", "Payload") {
			or = w.Origins(st.Val)
		}
		ok := len(or) > 0
		for _, o := range or {
			if !strings.HasPrefix(o, "call:L/rapi/handler.invocationErrorHandler.getErrorBody") && o != "const:nil" {
				ok = false
			}
		}
		sort.Strings(or)
		c.Check("R-WIRE", an.FuncName(h)+"/payload-origin", "the payload of the error response comes from the body readers only (plain body, or the filtered body of the cause content type)", ok, fpos(h), len(or), "origins: %v", or)
	}
}

func checkRuntimeRelease(c *report.Ctx) {
	k := c.P.Const("L/appctx", "MaxRuntimeReleaseLength")
	lim := int64(-1)
	if k != nil {
		lim, _ = an.ConstInt(k.Value)
	}
	c.Check("R-CONST", "L/appctx.MaxRuntimeReleaseLength", "the runtime identity string is limited to 128 bytes", lim == 128, token.NoPos, 1, "%d", lim)
	f := fn(c, "L/appctx", "CreateRuntimeReleaseFromRequest")
	if f == nil {
		return
	}
	name := an.FuncName(f)
	facts := an.NewFacts(f)
	// budget initialiser: 128 - prefixLen - 3, prefixLen = phi(len(runtimeRelease), 7)
	var budget *ssa.BinOp
	an.AllInstrs(f, func(in ssa.Instruction) {
		if bo, ok := in.(*ssa.BinOp); ok && bo.Op == token.SUB {
			if n, k := an.ConstInt(bo.Y); k && n == 3 {
				if inner, k := bo.X.(*ssa.BinOp); k && inner.Op == token.SUB {
					if m, k := an.ConstInt(inner.X); k && m == lim {
						budget = bo
					}
				}
			}
		}
	})
	okBudget := budget != nil
	detail := "initialiser '128 - prefixLen - 3' not found"
	unknownLen := int64(-1)
	if okBudget {
		inner := budget.X.(*ssa.BinOp)
		pl := inner.Y
		okBudget = false
		if ph, k := pl.(*ssa.Phi); k {
			hasLen, hasConst := false, false
			for _, e := range ph.Edges {
				if x, isLen := an.LenArg(e); isLen {
					if _, isP := x.(*ssa.Parameter); isP {
						hasLen = true
					}
				}
				if n, isC := an.ConstInt(e); isC {
					hasConst = true
					unknownLen = n
				}
			}
			okBudget = hasLen && hasConst
			detail = sprintf("prefix length is len(runtimeRelease) or the constant %d for an empty one: %v", unknownLen, okBudget)
		} else if x, isLen := an.LenArg(pl); isLen {
			// the length of the very variable that is emitted as the prefix: the release, or the substituted name where
			// it is empty, chosen first - exact by construction, provided that variable IS what every emission starts with
			if ph, k := x.(*ssa.Phi); k && ph.Type().String() == "string" {
				hasParam, hasConst := false, false
				for _, e := range ph.Edges {
					if _, isP := e.(*ssa.Parameter); isP {
						hasParam = true
					}
					if sv, isC := an.ConstString(e); isC && sv != "" {
						hasConst = true
						unknownLen = int64(len(sv))
					}
				}
				starts := true
				for _, ch := range concatChains(f) {
					if len(ch.leaves) == 0 || ch.leaves[0] != ssa.Value(ph) {
						starts = false
					}
				}
				okBudget = hasParam && hasConst && starts
				detail = sprintf("prefix length is the length of the emitted prefix variable itself (release, or a %d-byte name for an empty one): %v", unknownLen, okBudget)
			} else {
				detail = "the prefix length does not account for the substituted name of an empty user agent"
			}
		} else {
			detail = "the prefix length does not account for the substituted name of an empty user agent"
		}
	}
	// what is emitted: every string concatenation of the function, flattened into its operands from left to right
	// (the statement `r += " (" + j + ")"` and the expression `r + " (" + j + ")"` associate differently and are the
	// same string; the single `return r` after `if r == "" { r = name }` and one return per arm are the same program)
	chains := concatChains(f)
	// the literal substituted for an empty release: a constant joined into the prefix variable, or a constant that
	// stands in the prefix position itself; every such constant must have the length the budget assumes
	var substs []string
	an.AllInstrs(f, func(in ssa.Instruction) {
		if ph, ok := in.(*ssa.Phi); ok {
			for _, e := range ph.Edges {
				if s, k := an.ConstString(e); k && s != "" && ph.Type().String() == "string" {
					substs = append(substs, s)
				}
			}
		}
	})
	for _, ch := range chains {
		if s, k := an.ConstString(ch.leaves[0]); k && s != "" {
			substs = append(substs, s)
		}
	}
	subst := ""
	okSubst := len(substs) > 0
	for _, s := range substs {
		subst = s
		if int64(len(s)) != unknownLen {
			okSubst = false
			break
		}
	}
	c.Check("R-CONST", name+"/budget-accounts-for-emitted-prefix", "the feature budget is 128 minus the length of the prefix that will really be emitted (the user agent, or the substituted name when it is empty) minus the 3 bytes of ' (' and ')'", okBudget && okSubst, fpos(f), 3, "%s; substituted name %q (length %d)", detail, subst, len(subst))
	// separators: prefix + " (" + join(features, " ") + ")" - in every concatenation, what follows the prefix is
	// exactly " (", the joined features, ")"
	var consts []string
	okChains := len(chains) > 0
	for _, ch := range chains {
		var shape []string
		if s, k := an.ConstString(ch.leaves[0]); k {
			// a constant may stand for the prefix only where the given release is known to be empty
			empty := facts.Holds(ch.root.Block(), func(ft an.Fact) bool {
				isParam := func(v ssa.Value) bool { _, isP := v.(*ssa.Parameter); return isP }
				if x, zero, _ := an.LenSign(ft); zero && isParam(x) {
					return true
				}
				return an.CmpEq(ft, true, isParam, func(v ssa.Value) bool { e, isC := an.ConstString(v); return isC && e == "" })
			})
			if !empty {
				consts = append(consts, s)
				shape = append(shape, "<constant prefix>")
			}
		}
		for _, v := range ch.leaves[1:] {
			if s, k := an.ConstString(v); k {
				consts = append(consts, s)
				shape = append(shape, s)
			} else if cl, _ := an.CallOf(v); cl != nil && an.Callee(cl) == "strings.Join" {
				shape = append(shape, "<join>")
			} else {
				shape = append(shape, "<?>")
			}
		}
		if strings.Join(shape, "|") != " (|<join>|)" {
			okChains = false
		}
	}
	sep := ""
	for _, call := range an.CallsTo(f, "strings.Join") {
		sep, _ = an.ConstString(call.Common().Args[1])
	}
	sort.Strings(consts)
	c.Check("R-CONST", name+"/delimiters", "the emitted delimiters are the ones the budget accounts for: ' (' and ')' (3 bytes) and one byte between features", okChains && sep == " ", fpos(f), 3, "concatenated constants after the prefix: %q; join separator: %q", consts, sep)
	// append guarded by featureLength <= availableLength - numberOfAppendedFeatures
	napp := 0
	okG := true
	an.AllInstrs(f, func(in ssa.Instruction) {
		call, ok := in.(*ssa.Call)
		if !ok || an.Callee(call) != "builtin.append" {
			return
		}
		napp++
		var guardSub *ssa.BinOp
		g := facts.Holds(call.Block(), func(ft an.Fact) bool {
			r, k := an.AsRel(ft)
			if !k {
				return false
			}
			for _, rr := range []an.Rel{r, r.Flip()} {
				if _, isLen := an.LenArg(rr.X); isLen && rr.Op == token.LEQ {
					if bo, k := rr.Y.(*ssa.BinOp); k && bo.Op == token.SUB {
						guardSub = bo
						return true
					}
				}
			}
			return false
		})
		if !g || !an.InLoop(call) {
			okG = false
		}
		// the budget is reduced and the delimiter count increased in the same block
		dec, inc := false, false
		for _, x := range call.Block().Instrs {
			if bo, k := x.(*ssa.BinOp); k {
				if bo.Op == token.SUB {
					if _, isLen := an.LenArg(bo.Y); isLen {
						dec = true
					}
				}
				if bo.Op == token.ADD {
					if n, kk := an.ConstInt(bo.Y); kk && n == 1 {
						inc = true
					}
				}
			}
		}
		// (the number of delimiters owed may also be the length of the very list the feature is appended to: it
		// then grows with the append itself)
		if guardSub != nil && len(call.Call.Args) >= 1 {
			if lv, isLen := an.LenArg(guardSub.Y); isLen && lv == call.Call.Args[0] {
				inc = true
			}
		}
		if !dec || !inc {
			okG = false
		}
	})
	c.Check("R-GUARD", name+"/append-within-budget", "a feature is appended only when it fits the remaining budget minus the delimiters already owed, and appending updates both", okG && napp == 1, fpos(f), napp, "append sites: %d; guarded and accounted: %v", napp, okG)
	// brackets are stripped from the features header
	nrep := 0
	for _, call := range an.CallsTo(f, "strings.ReplaceAll") {
		if s, k := an.ConstString(call.Common().Args[1]); k && (s == "(" || s == ")") {
			nrep++
		}
	}
	c.Check("R-GUARD", name+"/brackets-stripped", "brackets cannot be smuggled in through the feature list (so a trailing ')' really means features were appended)", nrep == 2, fpos(f), nrep, "%d ReplaceAll calls", nrep)
	// UpdateAppCtxWithRuntimeRelease: overwrite only when longer and not already ending in ')'
	if u := fn(c, "L/appctx", "UpdateAppCtxWithRuntimeRelease"); u != nil {
		uf := an.NewFacts(u)
		ok := false
		n, unjustified := 0, 0
		holds := func(alt []an.Fact, pred func(an.Fact) bool) bool {
			for _, ft := range alt {
				if pred(ft) {
					return true
				}
			}
			return false
		}
		for _, call := range an.CallsTo(u, "L/appctx.ApplicationContext.Store") {
			// (one store behind a flag that each arm computed is one store site per arm, under that arm's condition)
			alts := uf.Alternatives(call.Block())
			if len(alts) == 1 && len(call.Block().Preds) >= 2 {
				// one store after the arms joined (each arm leaves early where it must not store): one site per arm
				alts = nil
				for _, p := range call.Block().Preds {
					alts = append(alts, uf.OnEdge(p, call.Block()))
				}
			}
			for _, alt := range alts {
				n++
				longer := holds(alt, func(ft an.Fact) bool {
					r, k := an.AsRel(ft)
					if !k {
						return false
					}
					_, l1 := an.LenArg(r.X)
					_, l2 := an.LenArg(r.Y)
					return l1 && l2 && (r.Op == token.GTR || r.Op == token.LSS)
				})
				notClosed := holds(alt, func(ft an.Fact) bool {
					// (the same test by the library: !strings.HasSuffix(release, ")"))
					if cl, _ := an.CallOf(ft.Cond); cl != nil && an.Callee(cl) == "strings.HasSuffix" && !ft.Val && len(cl.Call.Args) == 2 {
						if sfx, isS := an.ConstString(cl.Call.Args[1]); isS && sfx == ")" {
							return true
						}
					}
					r, k := an.AsRel(ft)
					if !k || r.Op != token.NEQ {
						return false
					}
					n, isC := an.ConstInt(r.Y)
					return isC && n == ')'
				})
				// the other way to store: there is no identity yet (the stored release is known empty)
				noneYet := holds(alt, func(ft an.Fact) bool {
					x, z, _ := an.LenSign(ft)
					return x != nil && z && an.IsResultOf(an.Strip(x, true), "L/appctx.GetRuntimeRelease", -1)
				})
				if longer && notClosed {
					ok = true
				} else if !noneYet {
					unjustified++
				}
			}
		}
		c.Check("R-GUARD", an.FuncName(u)+"/fixed-once-features-appended", "an existing identity is replaced only by a longer one and only while it does not yet end in ')' (features are appended once)", ok && n == 2 && unjustified == 0, fpos(u), n, "store sites: %d; guarded overwrite present: %v; stores neither guarded nor made while no identity exists: %d", n, ok, unjustified)
	}
}

// concatChains returns the string concatenations of fn, each flattened into its operands from left to right
// ((a + b) + (c + d) is a, b, c, d). Only outermost concatenations are listed.
type concatChain struct {
	root   *ssa.BinOp
	leaves []ssa.Value
}

func concatChains(fn *ssa.Function) []concatChain {
	isCat := func(v ssa.Value) *ssa.BinOp {
		bo, ok := v.(*ssa.BinOp)
		if !ok || bo.Op != token.ADD {
			return nil
		}
		if bt, isB := bo.Type().Underlying().(*types.Basic); !isB || bt.Info()&types.IsString == 0 {
			return nil
		}
		return bo
	}
	inner := map[*ssa.BinOp]bool{}
	var all []*ssa.BinOp
	an.AllInstrs(fn, func(in ssa.Instruction) {
		if v, ok := in.(ssa.Value); ok {
			if bo := isCat(v); bo != nil {
				all = append(all, bo)
				for _, o := range []ssa.Value{bo.X, bo.Y} {
					if ib := isCat(o); ib != nil {
						inner[ib] = true
					}
				}
			}
		}
	})
	var flat func(v ssa.Value, depth int) []ssa.Value
	flat = func(v ssa.Value, depth int) []ssa.Value {
		if bo := isCat(v); bo != nil && depth < 16 {
			return append(flat(bo.X, depth+1), flat(bo.Y, depth+1)...)
		}
		return []ssa.Value{v}
	}
	var out []concatChain
	for _, bo := range all {
		if !inner[bo] {
			out = append(out, concatChain{bo, flat(bo, 0)})
		}
	}
	return out
}

var _ = report.Discharged
