package props

// Rules added after the fifth blind round of seeded changes (per-file prompts, DESIGN 10.12).

import (
	"go/token"
	"go/types"
	"sort"
	"strings"

	"golang.org/x/tools/go/ssa"

	"verif/checker/internal/an"
	"verif/checker/internal/report"
)

// round5Rules: which of the rules of this file each property runs after its own.
var round5Rules = map[string][]func(*report.Ctx){
	"C01": {checkProxyWriteKeepsBody},
	"C04": {checkSuspendConsumesRelease},
	"C05": {checkTeardownEntryPointsUnconditional, checkTimeoutArmAlwaysResets},
	"C06": {checkInitFailuresClosed},
	"C07": {checkInitFailuresClosed, checkTeardownEntryPointsUnconditional},
	"C08": {checkTeardownEntryPointsUnconditional},
	"C09": {checkAgentReleaseUnconditional, checkSuspendConsumesRelease, checkTeardownEntryPointsUnconditional, checkDeadlineUnit, checkShutdownFuncOrder},
	"C12": {checkCurrentInvokeIDTruthful},
	"C02": {checkCurrentInvokeIDTruthful},
	"C13": {checkSuspendConsumesRelease, checkExtensionsFlagOn},
	"C03": {checkExtensionsFlagOn},
	"C14": {checkProxyWriteKeepsBody},
	"C18": {checkUpdateCredentialsApplied, checkInitTypeBeforeServer},
}

// beforeEveryReturn reports whether on every path from the entry of f to every reachable return an instruction
// satisfying is has been executed; n is the number of such instructions in f.
func beforeEveryReturn(f *ssa.Function, is func(ssa.Instruction) bool) (n int, ok bool, where token.Pos) {
	an.AllInstrs(f, func(in ssa.Instruction) {
		if is(in) {
			n++
		}
	})
	ord := an.NewOrder(f, func(in ssa.Instruction) uint64 {
		if is(in) {
			return 1
		}
		return 0
	})
	ok = n > 0
	for _, e := range an.Exits(f) {
		if !ord.Reached(e.Ret) {
			continue
		}
		if must, _ := ord.Before(e.Ret); must&1 == 0 {
			ok = false
			if where == token.NoPos {
				where = an.InstrPos(e.Ret)
			}
		}
	}
	return
}

// returnReachableAvoiding: can a return be reached from the start of block b without executing an instruction
// satisfying stop?
func returnReachableAvoiding(b *ssa.BasicBlock, stop func(ssa.Instruction) bool) bool {
	seen := map[*ssa.BasicBlock]bool{}
	var walk func(x *ssa.BasicBlock) bool
	walk = func(x *ssa.BasicBlock) bool {
		if seen[x] {
			return false
		}
		seen[x] = true
		for _, in := range x.Instrs {
			if stop(in) {
				return false
			}
			if _, isRet := in.(*ssa.Return); isRet {
				return true
			}
		}
		for _, s := range x.Succs {
			if walk(s) {
				return true
			}
		}
		return false
	}
	return walk(b)
}

type mustPass struct {
	pkg, fn string
	key     string
	what    string
	is      func(in ssa.Instruction) bool
}

func isStoreOf(structName, field string, val func(ssa.Value) bool) func(ssa.Instruction) bool {
	return func(in ssa.Instruction) bool {
		st, ok := in.(*ssa.Store)
		if !ok {
			return false
		}
		fr, ok := an.AsField(st.Addr)
		return ok && fr.Struct == structName && fr.Field == field && (val == nil || val(st.Val))
	}
}

func isPlainCallTo(names ...string) func(ssa.Instruction) bool {
	return func(in ssa.Instruction) bool {
		if _, ok := in.(*ssa.Call); !ok {
			return false
		}
		return an.IsCallTo(in, names...)
	}
}

func runMustPass(c *report.Ctx, rules []mustPass) {
	for _, r := range rules {
		f := fn(c, r.pkg, r.fn)
		if f == nil {
			continue
		}
		n, ok, where := beforeEveryReturn(f, r.is)
		if where == token.NoPos {
			where = fpos(f)
		}
		c.Check("R-ORDER", an.FuncName(f)+"/"+r.key, r.what, ok, where, n, "sites: %d; passed on every path to every return: %v", n, ok)
	}
}

func constFalse(v ssa.Value) bool { b, ok := an.ConstBool(v); return ok && !b }
func constTrue(v ssa.Value) bool  { b, ok := an.ConstBool(v); return ok && b }

// checkAgentReleaseUnconditional: releasing an extension posts the release whatever state the extension is in
// (an extension busy with an event finds it at its next poll - that is how it gets its SHUTDOWN event).
func checkAgentReleaseUnconditional(c *report.Ctx) {
	rel := isPlainCallTo("L/core.ManagedThread.Release", "L/core.Suspendable.Release")
	runMustPass(c, []mustPass{
		{"L/core", "(*ExternalAgent).Release", "always-releases", "releasing an external extension posts the release on every path (sticky wake-up: an extension still busy with an event finds it at its next poll and receives its SHUTDOWN event)", rel},
		{"L/core", "(*InternalAgent).Release", "always-releases", "releasing an internal extension posts the release on every path", rel},
	})
}

// checkSuspendConsumesRelease: a parked thread that is released consumes the release (exactly one wake-up per
// Release: the next poll parks again instead of being answered with the same event).
func checkSuspendConsumesRelease(c *report.Ctx) {
	runMustPass(c, []mustPass{
		{"L/core", "(*ManagedThread).SuspendUnsafe", "consumes-the-release", "every return from the park primitive has reset the operator condition (one Release answers one poll: a SHUTDOWN or INVOKE event is delivered exactly once)", isStoreOf("L/core.ManagedThread", "operatorConditionValue", constFalse)},
	})
}

// checkTeardownEntryPointsUnconditional: the teardown entry points do their work whatever the state.
func checkTeardownEntryPointsUnconditional(c *report.Ctx) {
	runMustPass(c, []mustPass{
		{"L/rapid", "handleShutdown", "always-shuts-down", "a shutdown request always runs the shutdown choreography (extensions launched before the runtime registered are signalled and reaped too)", isPlainCallTo("L/rapid.shutdownContext.shutdown")},
		{"L/rapid", "(*rapidContext).Clear", "always-reinitialises", "clearing the execution context re-initialises it whatever phase the old generation was in (a reset during an unfinished init included)", isPlainCallTo("L/rapid.reinitialize")},
	})
}

// checkInitFailuresClosed: the init-result channel is closed on both outcomes.
func checkInitFailuresClosed(c *report.Ctx) {
	runMustPass(c, []mustPass{
		{"L/rapidcore", "(*Server).awaitInitCompletion", "closes-init-failures", "the init-failure channel is closed whether init succeeded or failed (every later wait for initialisation returns at once instead of blocking until the function timeout)", func(in ssa.Instruction) bool {
			call, ok := in.(*ssa.Call)
			if !ok {
				return false
			}
			b, ok := call.Call.Value.(*ssa.Builtin)
			return ok && b.Name() == "close" && len(call.Call.Args) == 1 && an.IsFieldLoad(call.Call.Args[0], srvT, "initFailures")
		}},
	})
}

// checkCancelUnconditional: cancelling a latch marks it cancelled, records the error and wakes the waiters
// whatever its counters say (a latch whose condition is met can still be waited on after the next re-arm).
func checkCancelUnconditional(c *report.Ctx) {
	runMustPass(c, []mustPass{
		{"L/core", "(*gateImpl).CancelWithError", "always-marks-cancelled", "CancelWithError sets the cancelled mark on every path, open latch or not (the mark must survive re-arming until Clear)", isStoreOf(gateT, "canceled", constTrue)},
		{"L/core", "(*gateImpl).CancelWithError", "always-records-error", "CancelWithError records the error on every path", isStoreOf(gateT, "err", func(v ssa.Value) bool { _, ok := v.(*ssa.Parameter); return ok })},
		{"L/core", "(*gateImpl).CancelWithError", "always-wakes-waiters", "CancelWithError broadcasts on every path", isPlainCallTo("sync.Cond.Broadcast")},
	})
}

// checkProxyWriteKeepsBody: the front end's response proxy accepts every body the core hands it.
func checkProxyWriteKeepsBody(c *report.Ctx) {
	f := fn(c, "M/cmd/aws-lambda-rie", "(*ResponseWriterProxy).Write")
	if f == nil {
		return
	}
	n, ok, where := beforeEveryReturn(f, isStoreOf("M/cmd/aws-lambda-rie.ResponseWriterProxy", "Body", func(v ssa.Value) bool { _, k := v.(*ssa.Parameter); return k }))
	errs := 0
	for _, e := range an.Exits(f) {
		if len(e.Vals) == 2 && !an.IsNil(e.Vals[1]) {
			errs++
		}
	}
	if where == token.NoPos {
		where = fpos(f)
	}
	c.Check("R-ORDER", an.FuncName(f)+"/keeps-every-body", "the response proxy keeps the body it is given on every path and never refuses one (the size limit is the core's: 6 MiB + 100 bytes must arrive intact)", ok && errs == 0, where, n, "stores of the body: %d, on every path: %v; exits with an error: %d", n, ok, errs)
}

// checkUpdateCredentialsApplied: a restore that reports success has replaced the credentials.
func checkUpdateCredentialsApplied(c *report.Ctx) {
	f := fn(c, "L/core", "(*credentialsServiceImpl).UpdateCredentials")
	if f == nil {
		return
	}
	is := isPlainCallTo("L/core.credentialsServiceImpl.SetCredentials")
	ord := an.NewOrder(f, func(in ssa.Instruction) uint64 {
		if is(in) {
			return 1
		}
		return 0
	})
	n, ok := 0, true
	var where = fpos(f)
	for _, e := range an.Exits(f) {
		if len(e.Vals) != 1 || !an.IsNil(e.Vals[0]) || !ord.Reached(e.Ret) {
			continue
		}
		n++
		if must, _ := ord.Before(e.Ret); must&1 == 0 {
			ok = false
			where = an.InstrPos(e.Ret)
		}
	}
	c.Check("R-ORDER", an.FuncName(f)+"/success-means-replaced", "UpdateCredentials returns nil only after SetCredentials ran (the credentials endpoint reflects the most recent restore, whatever the expiry dates)", ok && n >= 1, where, n, "success exits: %d, all after SetCredentials: %v", n, ok)
}

var _ = types.Universe
var _ = sort.Strings
var _ = strings.HasPrefix

// selectArmEntry returns the block entered when select sel chose state k.
func selectArmEntry(sel *ssa.Select, k int) *ssa.BasicBlock {
	for _, ref := range *sel.Referrers() {
		ex, ok := ref.(*ssa.Extract)
		if !ok || ex.Index != 0 {
			continue
		}
		for _, r2 := range *ex.Referrers() {
			bo, ok := r2.(*ssa.BinOp)
			if !ok || bo.Op != token.EQL {
				continue
			}
			if n, isC := an.ConstInt(bo.Y); !isC || int(n) != k {
				continue
			}
			for _, r3 := range *bo.Referrers() {
				if iff, ok := r3.(*ssa.If); ok {
					return iff.Block().Succs[0]
				}
			}
		}
	}
	return nil
}

// checkTimeoutArmAlwaysResets: once the watchdog fired, Invoke cannot return without having reset the environment.
func checkTimeoutArmAlwaysResets(c *report.Ctx) {
	inv := fn(c, rapidcP, "(*Server).Invoke")
	if inv == nil {
		return
	}
	var arm *ssa.BasicBlock
	an.AllInstrs(inv, func(in ssa.Instruction) {
		sel, ok := in.(*ssa.Select)
		if !ok || arm != nil {
			return
		}
		for k, st := range sel.States {
			if st.Dir == types.RecvOnly && chanName(st.Chan) == "timeoutChan" {
				arm = selectArmEntry(sel, k)
			}
		}
	})
	if arm == nil {
		c.Unresolved("ANCHOR", srvT+".Invoke/timeout-case", "no select case of Server.Invoke receives from the watchdog's channel")
		return
	}
	isReset := isPlainCallTo(srvT + ".Reset")
	leak := returnReachableAvoiding(arm, isReset)
	pos := fpos(inv)
	if len(arm.Instrs) > 0 {
		pos = an.InstrPos(arm.Instrs[0])
	}
	c.Check("R-ORDER", an.FuncName(inv)+"/timeout-case-always-resets", "from the moment the watchdog's timeout was received no path leads to a return without a (synchronous) Reset: a timed-out invocation is never answered with the old processes still in place", !leak, pos, 1, "a return is reachable from the timeout case without passing Reset: %v", leak)
}

// checkCurrentInvokeIDTruthful: the id validator's source says "no invocation" only when there is no reservation.
func checkCurrentInvokeIDTruthful(c *report.Ctx) {
	f := fn(c, rapidcP, "(*Server).GetCurrentInvokeID")
	if f == nil {
		return
	}
	facts := an.NewFacts(f)
	n, ok, idOK := 0, true, false
	pos := fpos(f)
	for _, e := range an.Exits(f) {
		if len(e.Vals) != 1 {
			continue
		}
		if s, isC := an.ConstString(e.Vals[0]); isC && s == "" {
			n++
			if !facts.Holds(e.Ret.Block(), func(ft an.Fact) bool { return an.CmpNil(ft, true, loadOf(srvT, "invokeCtx")) }) {
				ok = false
				pos = an.InstrPos(e.Ret)
			}
			continue
		}
		if fr, isF := an.AsField(e.Vals[0]); isF && fr.Field == "InvokeID" {
			idOK = true
		}
	}
	c.Check("R-GUARD", an.FuncName(f)+"/empty-only-without-reservation", "GetCurrentInvokeID answers \"\" only when there is no invocation context, and the context's id otherwise (a duplicate submission for the in-flight id is refused by the lifecycle automaton with 403, not by the id check with 400)", ok && idOK && n >= 1, pos, n, "empty-string exits: %d, all under invokeCtx == nil: %v; other exits return the token's InvokeID: %v", n, ok, idOK)
}

// multiplierOf: v == k * p for the parameter p, through conversions, constant multiplications and the
// unit-preserving time.Duration accessors.
func multiplierOf(v ssa.Value, p *ssa.Parameter, depth int) (int64, bool) {
	if depth > 12 {
		return 0, false
	}
	v = an.Strip(v, true)
	switch x := v.(type) {
	case *ssa.Parameter:
		if x == p {
			return 1, true
		}
	case *ssa.BinOp:
		if x.Op == token.MUL {
			if k, ok := an.ConstInt(x.Y); ok {
				if m, ok2 := multiplierOf(x.X, p, depth+1); ok2 {
					return m * k, true
				}
			}
			if k, ok := an.ConstInt(x.X); ok {
				if m, ok2 := multiplierOf(x.Y, p, depth+1); ok2 {
					return m * k, true
				}
			}
		}
	case *ssa.Call:
		switch an.Callee(x) {
		case "time.Duration.Nanoseconds":
			return multiplierOf(x.Call.Args[0], p, depth+1)
		}
	}
	return 0, false
}

// checkDeadlineUnit: the reset deadline is "now (monotonic) + timeoutMs milliseconds" in nanoseconds.
func checkDeadlineUnit(c *report.Ctx) {
	f := fn(c, rapidcP, "deadlineNsFromTimeoutMs")
	if f == nil || len(f.Params) != 1 {
		return
	}
	ok, detail := false, "no exit of the form Monotime() + k*timeoutMs"
	for _, e := range an.Exits(f) {
		if len(e.Vals) != 1 {
			continue
		}
		bo, isB := an.Strip(e.Vals[0], true).(*ssa.BinOp)
		if !isB || bo.Op != token.ADD {
			continue
		}
		for _, pair := range [][2]ssa.Value{{bo.X, bo.Y}, {bo.Y, bo.X}} {
			if cl, _ := an.CallOf(an.Strip(pair[0], true)); cl != nil && an.Callee(cl) == "L/metering.Monotime" {
				if m, k := multiplierOf(pair[1], f.Params[0], 0); k {
					ok = m == 1000000
					detail = sprintf("Monotime() + %d * timeoutMs", m)
				}
			}
		}
	}
	c.Check("R-CONST", an.FuncName(f)+"/milliseconds-to-nanoseconds", "the reset deadline handed to the shutdown choreography is the monotonic clock plus timeoutMs * 1 000 000 ns (TERM-before-KILL and the SHUTDOWN deadline are fractions of it)", ok, fpos(f), 1, "%s", detail)
}

// checkShutdownFuncOrder: shutdown functions run in the order they were registered (the sandbox's own reset was
// registered by the constructor, the front end's os.Exit afterwards).
func checkShutdownFuncOrder(c *report.Ctx) {
	f := fn(c, rapidcP, "(*SandboxBuilder).AddShutdownFunc")
	if f == nil {
		return
	}
	sbT := "L/rapidcore.SandboxBuilder"
	ok, n := false, 0
	for _, st := range an.Stores(f, sbT, "shutdownFuncs") {
		n++
		cl, _ := an.CallOf(st.Val)
		if cl == nil {
			continue
		}
		if b, isB := cl.Call.Value.(*ssa.Builtin); !isB || b.Name() != "append" || len(cl.Call.Args) != 2 {
			continue
		}
		// append(<the field>, <slice holding the parameter>)
		if an.IsFieldLoad(cl.Call.Args[0], sbT, "shutdownFuncs") {
			ok = true
		}
	}
	c.Check("R-ORDER", an.FuncName(f)+"/appends", "a shutdown function is appended after the ones registered before it (on SIGTERM the sandbox reset - TERM, SHUTDOWN events, reaping - runs before the front end's os.Exit)", ok && n == 1, fpos(f), n, "stores to shutdownFuncs: %d; of the form append(shutdownFuncs, f): %v", n, ok)
	// the constructor registers the reset before anybody else can register anything
	if nb := fn(c, rapidcP, "NewSandboxBuilder"); nb != nil {
		has := false
		for _, a := range an.WithAnon(nb) {
			if len(an.Calls(a, func(s string) bool { return strings.HasSuffix(s, ".Reset") })) > 0 {
				has = true
			}
		}
		c.Check("R-ORDER", an.FuncName(nb)+"/registers-reset-first", "the sandbox's own teardown is the first shutdown function (registered by the constructor)", has && len(an.CallsTo(nb, sbT+".AddShutdownFunc")) >= 1, fpos(nb), 1, "constructor registers a shutdown function that resets the sandbox: %v", has)
	}
}

// checkExtensionsFlagOn: the emulator enables the Extensions API unconditionally (internal extensions register
// over the API and are not files).
func checkExtensionsFlagOn(c *report.Ctx) {
	m := fn(c, "M/cmd/aws-lambda-rie", "main")
	if m == nil {
		return
	}
	n, ok := 0, true
	for _, call := range an.CallsTo(m, "L/rapidcore.SandboxBuilder.SetExtensionsFlag") {
		n++
		if b, isC := an.ConstBool(call.Common().Args[1]); !isC || !b {
			ok = false
		}
	}
	c.Check("R-CONST", "M/cmd/aws-lambda-rie.main/extensions-enabled", "the front end switches the Extensions API on unconditionally", ok && n == 1, fpos(m), n, "SetExtensionsFlag calls: %d, with the constant true: %v", n, ok)
}

// checkInitTypeBeforeServer: the init type is recorded before the API server (whose router reads it) is built.
func checkInitTypeBeforeServer(c *report.Ctx) {
	f := fn(c, "L/rapid", "Start")
	if f == nil {
		return
	}
	st := an.CallsTo(f, "L/appctx.StoreInitType")
	srv := an.CallsTo(f, "L/rapi.NewServer")
	ok := len(st) == 1 && len(srv) == 1 && an.InstrDominates(st[0], srv[0])
	c.Check("R-ORDER", an.FuncName(f)+"/init-type-before-router", "the init type (snapshot mode or not) is stored in the application context before the Runtime API server is constructed: the router decides at construction time whether the restore and credentials routes exist", ok, fpos(f), len(st)+len(srv), "StoreInitType: %d, NewServer: %d, in that order: %v", len(st), len(srv), ok)
}
