package props

import (
	"go/token"
	"go/types"
	"strings"

	"golang.org/x/tools/go/ssa"

	"verif/checker/internal/an"
	"verif/checker/internal/report"
)

func init() {
	register(&Prop{
		Spec: report.Spec{
			ID: "C04",
			Explanation: "The invoke barrier's single-goroutine obligations are decided on every path of doInvoke and its closures: barriers are re-armed first (and the re-arm reaches every gate), the agents-ready count is exactly len(INVOKE-subscribed internal) + len(INVOKE-subscribed external), obtained with the INVOKE event constant, the renderer built from this invocation's request is installed before anybody is released, exactly the two subscriber slices whose lengths were summed are released (once per element), then the runtime, and the invocation is reported complete only after AwaitRuntimeResponse, AwaitRuntimeReady and (when extensions are active) AwaitAgentsReady returned nil; " +
				"init/invoke/reset/shutdown handling is serialised by the handler mutex; the INVOKE event's request id, ARN, deadline source and trace id come from the same Invoke record as the runtime's headers; the invoke gates are walked through only by the transitions that mean 'response sent', 'runtime asked for next' and 'extension asked for next'. " +
				"Added after the blind rounds: the caller's tracing headers are handed on verbatim; the latch rules of C11; the in-flight reservation is released only by its own invocation; no connection deadlines on the long polls. " +
				"NOT decided: event ordering as observed by the processes; exact deadlines; interleavings (reduced to the barrier primitive, C11).",
			RuleText:    "one obligation per adjacent pair of orchestration steps, per nil edge, per wiring edge, per release loop, per gate-arrival call site",
			Assumptions: append([]string{"the tracer wrappers call the function they are given exactly once (checked in C03 for the emulator's tracer)"}, trusted...),
			MinObs:      40,
		},
		Run: runC04,
	})
}

// checkFrontEndInvokeRecord: the Invoke record the front end hands to the sandbox carries the caller's
// tracing headers verbatim (they end up in the INVOKE event and in the runtime's headers), a fresh
// request id, and the request body.
func checkFrontEndInvokeRecord(c *report.Ctx) {
	f := fn(c, "M/cmd/aws-lambda-rie", "InvokeHandler")
	if f == nil {
		return
	}
	for field, hdr := range map[string]string{"TraceID": "X-Amzn-Trace-Id", "LambdaSegmentID": "X-Amzn-Segment-Id"} {
		sts := an.Stores(f, "L/interop.Invoke", field)
		ok := len(sts) == 1
		got := "?"
		for _, st := range sts {
			cl, _ := an.CallOf(st.Val) // no conversion, no helper in between: the value itself
			if cl == nil || an.Callee(cl) != "net/http.Header.Get" {
				ok = false
				got = an.Path(st.Val)
				continue
			}
			k, isC := an.ConstString(cl.Call.Args[1])
			got = "Header.Get(" + k + ")"
			if !isC || k != hdr {
				ok = false
			}
		}
		c.Check("R-WIRE", an.FuncName(f)+"/invoke-record/"+field, "the caller's "+hdr+" header is handed on unchanged (the extensions' INVOKE event and the runtime's trace header carry exactly what the caller sent)", ok, fpos(f), len(sts), "stored value: %s", got)
	}
}

func runC04(c *report.Ctx) {
	checkFrontEndInvokeRecord(c)
	checkNoServerTimeouts(c)
	checkInvokeRefusalPath(c) // the in-flight reservation is released by nobody but its own invocation
	checkRegisteredAgentsSize(c)
	checkRegisterHandlers(c) // what an extension subscribed to is what it asked for
	c.Clause("0 the barrier primitive (shared with C11)")
	checkGatePrimitive(c)
	c.Clause("1 doInvoke order")
	outer := fn(c, "L/rapid", "doInvoke$1")
	if outer == nil {
		return
	}
	checkChain(c, outer, "invocation", []step{
		callStep("InitializeBarriers", true, false, invokeFlowI+"InitializeBarriers"),
		callStep("GetSubscribedInternalAgents", false, true, regSvcI+"GetSubscribedInternalAgents"),
		callStep("GetSubscribedExternalAgents", false, true, regSvcI+"GetSubscribedExternalAgents"),
		callStep("SetAgentsReadyCount", true, true, invokeFlowI+"SetAgentsReadyCount"),
		callStep("release+await response (invoke subsegment)", true, false, "L/telemetry.Tracer.CaptureInvokeSubsegment"),
		callStep("await runtime ready (overhead subsegment)", true, false, "L/telemetry.Tracer.CaptureOverheadSubsegment"),
		callStep("SendInvokeRuntimeDone", false, false, "L/interop.EventsAPI.SendInvokeRuntimeDone"),
		callStep("AwaitAgentsReady", true, true, invokeFlowI+"AwaitAgentsReady"),
	}, successNilErr)
	facts := an.NewFacts(outer)
	name := an.FuncName(outer)
	// count = uint16(len(intAgents) + len(extAgents)), both from the INVOKE subscription queries
	var intAlloc, extAlloc *ssa.Alloc
	var intQ, extQ ssa.Value // the two subscription queries: "the counted slices" are whatever holds their results
	okEvent := true
	for _, q := range []struct {
		callee string
		dst    **ssa.Alloc
	}{{regSvcI + "GetSubscribedInternalAgents", &intAlloc}, {regSvcI + "GetSubscribedExternalAgents", &extAlloc}} {
		for _, call := range an.CallsTo(outer, q.callee) {
			if s, k := an.ConstString(call.Common().Args[0]); !k || s != "INVOKE" {
				okEvent = false
			}
			if v := call.Value(); v != nil {
				for _, ref := range *v.Referrers() {
					if st, k := ref.(*ssa.Store); k {
						if al, k := st.Addr.(*ssa.Alloc); k {
							*q.dst = al
						}
					}
				}
				if q.dst == &intAlloc {
					intQ = v
				} else {
					extQ = v
				}
			}
			g := guardedByTrue(facts, call, "L/extensions.AreEnabled")
			c.Check("R-GUARD", sprintf("%s/guard/%s", name, strings.TrimPrefix(q.callee, regSvcI)), "subscribers are queried exactly when extensions are enabled", g, an.InstrPos(call), 1, "under extensions.AreEnabled(): %v", g)
		}
	}
	c.Check("R-CONST", name+"/subscription-event", "the parties of an invocation are the extensions subscribed to INVOKE (not SHUTDOWN, not all)", okEvent && intQ != nil && extQ != nil, fpos(outer), 2, "both queries use the INVOKE constant: %v", okEvent)
	for _, call := range an.CallsTo(outer, invokeFlowI+"SetAgentsReadyCount") {
		okSum := false
		if bo, k := an.Strip(call.Common().Args[0], true).(*ssa.BinOp); k && bo.Op == token.ADD {
			lx, k1 := an.LenArg(bo.X)
			ly, k2 := an.LenArg(bo.Y)
			if k1 && k2 && intQ != nil && extQ != nil {
				ox, oy := queryOrigins(outer, lx), queryOrigins(outer, ly)
				only := func(o map[ssa.Value]bool, q ssa.Value) bool { return len(o) == 1 && o[q] }
				okSum = only(ox, intQ) && only(oy, extQ) || only(ox, extQ) && only(oy, intQ)
			}
		}
		c.Check("R-WIRE", name+"/count-is-number-of-subscribers", "the number of extensions awaited is exactly the number of INVOKE subscribers (internal + external) about to be released", okSum, an.InstrPos(call), 2, "argument is len(intAgents)+len(extAgents) of the queried slices: %v", okSum)
	}
	checkInvokeWaitsForExtensions(c)

	// the release closure
	var rel, ovh *ssa.Function
	for _, call := range an.CallsTo(outer, "L/telemetry.Tracer.CaptureInvokeSubsegment") {
		rel = closureArg(call)
	}
	for _, call := range an.CallsTo(outer, "L/telemetry.Tracer.CaptureOverheadSubsegment") {
		ovh = closureArg(call)
	}
	if rel == nil || ovh == nil {
		c.Unresolved("ANCHOR", "L/rapid.doInvoke/closures", "release / overhead closures not found")
		return
	}
	isRelAgent := func(in ssa.Instruction) bool {
		return an.IsCallTo(in, "L/core.ExternalAgent.Release", "L/core.InternalAgent.Release")
	}
	checkChain(c, rel, "release", []step{
		callStep("NewInvokeRenderer", false, false, "L/rapi/rendering.NewInvokeRenderer"),
		callStep("SetRenderer", false, false, "L/rapi/rendering.EventRenderingService.SetRenderer"),
		{name: "release subscribed extensions", opt: true, match: isRelAgent},
		callStep("release runtime", false, false, "L/core.Runtime.Release"),
		callStep("AwaitRuntimeResponse", true, false, invokeFlowI+"AwaitRuntimeResponse"),
	}, successNilOrResultOf(invokeFlowI+"AwaitRuntimeResponse"))
	rname := an.FuncName(rel)
	// renderer built from this invocation's request and buffer; the renderer installed is that one
	for _, call := range an.CallsTo(rel, "L/rapi/rendering.NewInvokeRenderer") {
		a := call.Common().Args
		okReq := isFreeVarLoad(a[1], "invokeRequest") && isFreeVarLoad(a[2], "requestBuffer")
		if !okReq {
			// under whatever name they were captured: the values are doInvoke's own request and buffer parameters
			p1, p2 := capturedParam(rel, a[1]), capturedParam(rel, a[2])
			okReq = p1 != nil && p2 != nil && p1.Name() == "invokeRequest" && p2.Name() == "requestBuffer" && an.FuncName(p1.Parent()) == "L/rapid.doInvoke" && p2.Parent() == p1.Parent()
		}
		c.Check("R-WIRE", rname+"/renderer-from-this-request", "the event rendered to runtime and extensions is built from this invocation's request record and buffer", okReq, an.InstrPos(call), 2, "NewInvokeRenderer(ctx, invokeRequest, requestBuffer, ...): %v", okReq)
	}
	for _, call := range an.CallsTo(rel, "L/rapi/rendering.EventRenderingService.SetRenderer") {
		w := newWire(c, nil, nil)
		or := w.Origins(call.Common().Args[1])
		ok := len(or) == 1 && or[0] == "call:L/rapi/rendering.NewInvokeRenderer#0"
		c.Check("R-WIRE", rname+"/installs-that-renderer", "the renderer installed for this invocation is the one just built", ok, an.InstrPos(call), 1, "origins: %v", or)
	}
	// release loops: over the very slices counted, once per element
	relSites := an.Calls(rel, func(s string) bool { return s == "L/core.ExternalAgent.Release" || s == "L/core.InternalAgent.Release" })
	c.Check("R-COUNT", rname+"/release-sites", "there is one release loop per extension kind", len(relSites) == 2, fpos(rel), len(relSites), "%d release sites", len(relSites))
	rfacts := an.NewFacts(rel)
	for _, rs := range relSites {
		kind := "extAgents"
		alloc := extAlloc
		if an.Callee(rs) == "L/core.InternalAgent.Release" {
			kind, alloc = "intAgents", intAlloc
		}
		recv := rs.Common().Args[0]
		okLoop := false
		detail := ""
		if u, k := recv.(*ssa.UnOp); k && u.Op == token.MUL {
			if ia, k := u.X.(*ssa.IndexAddr); k {
				slice := ia.X
				fromCounted := freeVarBinding(rel, slice) == ssa.Value(alloc) && alloc != nil
				if !fromCounted {
					// the slice may reach the closure through a cell of its own: it is the counted one if all it can
					// hold is the result of that kind's query
					q := extQ
					if kind == "intAgents" {
						q = intQ
					}
					o := queryOrigins(rel, slice)
					fromCounted = q != nil && len(o) == 1 && o[q]
				}
				// loop bound is len(same slice), index runs from 0 in steps of 1
				full := false
				if bo := loopBound(rs.Block()); bo != nil {
					if x, isLen := an.LenArg(bo.Y); isLen && x == slice && bo.Op == token.LSS {
						if idx, k := bo.X.(*ssa.BinOp); k && idx.Op == token.ADD {
							if n, k := an.ConstInt(idx.Y); k && n == 1 {
								if phi, k := idx.X.(*ssa.Phi); k {
									for _, e := range phi.Edges {
										if n, k := an.ConstInt(e); k && n == -1 {
											full = true
										}
									}
								}
								full = full && ia.Index == ssa.Value(idx)
							}
						}
					}
				}
				okLoop = fromCounted && full && an.InLoop(rs)
				detail = sprintf("ranges over the counted %s slice: %v; full range, one release per element: %v", kind, fromCounted, full)
			}
		}
		g := guardedByTrue(rfacts, rs, "L/extensions.AreEnabled")
		c.Check("R-WIRE", sprintf("%s/release-loop/%s", rname, kind), "exactly the extensions that were counted are released, once each (subscribers get one INVOKE event, the others none)", okLoop && g, an.InstrPos(rs), 2, "%s; under extensions.AreEnabled(): %v", detail, g)
	}
	// runtime released is the registered runtime
	for _, call := range an.CallsTo(rel, "L/core.Runtime.Release") {
		b := freeVarBinding(rel, derefOnce(call.Common().Args[0]))
		ok := false
		if al, k := b.(*ssa.Alloc); k {
			for _, ref := range *al.Referrers() {
				if st, k := ref.(*ssa.Store); k && an.IsResultOf(st.Val, regSvcI+"GetRuntime", -1) {
					ok = true
				}
			}
		}
		c.Check("R-WIRE", rname+"/releases-registered-runtime", "the runtime released is the one registered for this generation", ok, an.InstrPos(call), 1, "runtime <- registrationService.GetRuntime(): %v", ok)
	}
	// overhead closure returns AwaitRuntimeReady
	ex := an.Exits(ovh)
	okO := len(ex) == 1 && an.IsResultOf(ex[0].Vals[0], invokeFlowI+"AwaitRuntimeReady", -1)
	c.Check("R-ORDER", an.FuncName(ovh)+"/returns-await", "the overhead step's result is AwaitRuntimeReady's (the runtime asked for the next invocation)", okO, fpos(ovh), 1, "%v", okO)

	c.Clause("2 handler serialisation")
	checkHandlersSerialised(c)
	c.Clause("3 event content")
	checkHeaderWiring(c)
	c.Clause("4 completion requires response and next")
	want := map[string][]string{
		invokeFlowI + "RuntimeResponse":      {"L/core.RuntimeInvocationErrorResponseState.ResponseSent", "L/core.RuntimeInvocationResponseState.ResponseSent"},
		invokeFlowI + "RuntimeReady":         {"L/core.RuntimeResponseSentState.Ready"},
		invokeFlowI + "AgentReady":           {"L/core.ExternalAgentRunningState.Ready", "L/core.InternalAgentRunningState.Ready"},
		invokeFlowI + "AwaitRuntimeResponse": {"L/rapid.doInvoke"}, // (in closures of doInvoke; the table names the declared function)
		invokeFlowI + "AwaitRuntimeReady":    {"L/rapid.doInvoke"},
		invokeFlowI + "AwaitAgentsReady":     {"L/rapid.doInvoke"},
		invokeFlowI + "SetAgentsReadyCount":  {"L/rapid.doInvoke"},
		invokeFlowI + "InitializeBarriers":   {"L/rapid.doInvoke"},
	}
	for callee, w := range want {
		got := siteFns(callSites(c, callee))
		for i := range got {
			got[i] = stripAnon(got[i])
		}
		got = uniq(got)
		c.Check("R-WHO", "invoke-gates/"+strings.TrimPrefix(callee, "L/core."), "the invoke barriers are re-armed, sized, awaited and walked through only by the documented parties", strings.Join(got, ",") == strings.Join(w, ","), token.NoPos, len(got), "callers: %v", got)
	}
	c.Clause("5 re-arm")
	checkFlow(c, "invokeFlowSynchronizationImpl", []string{"InitializeBarriers"}, map[string]string{"InitializeBarriers": "Reset"},
		[][]string{ // each await waits on the gate its arrival walks through
			{"RuntimeReady", "AwaitRuntimeReady", ""},
			{"RuntimeResponse", "AwaitRuntimeResponse", ""},
			{"AgentReady", "AwaitAgentsReady", "SetAgentsReadyCount"},
		})
	// the renderer serves runtime and agents from the same Invoke record
	if ra := fn(c, "L/rapi/rendering", "(*InvokeRenderer).RenderAgentEvent"); ra != nil {
		ok := false
		for _, st := range an.Stores(ra, "L/rapi/model.AgentInvokeEvent", "RequestID") {
			// RequestID <- (renderer.invoke).ID : the record read is the renderer's own
			if ld, k := an.Strip(st.Val, false).(*ssa.UnOp); k {
				if fa, k2 := ld.X.(*ssa.FieldAddr); k2 {
					if fr, k3 := an.AsField(fa); k3 && fr.Struct == "L/interop.Invoke" && fr.Field == "ID" {
						ok = loadOf("L/rapi/rendering.InvokeRenderer", "invoke")(fa.X)
					}
				}
			}
		}
		c.Check("R-WIRE", an.FuncName(ra)+"/same-invoke-record", "the INVOKE event is built from the same Invoke record the runtime's headers are rendered from", ok, fpos(ra), 1, "%v", ok)
	}
}

func loadedAlloc(v ssa.Value) *ssa.Alloc {
	if u, ok := v.(*ssa.UnOp); ok && u.Op == token.MUL {
		if a, ok := u.X.(*ssa.Alloc); ok {
			return a
		}
	}
	return nil
}

func derefOnce(v ssa.Value) ssa.Value { return v }

func isFreeVarLoad(v ssa.Value, name string) bool {
	if u, ok := v.(*ssa.UnOp); ok && u.Op == token.MUL {
		if fv, ok := u.X.(*ssa.FreeVar); ok {
			return fv.Name() == name
		}
	}
	return false
}

// freeVarBinding: v is a load of free variable fv of closure f; returns what
// the enclosing function bound to it (the captured variable's alloc).
func freeVarBinding(f *ssa.Function, v ssa.Value) ssa.Value {
	u, ok := v.(*ssa.UnOp)
	if !ok || u.Op != token.MUL {
		return nil
	}
	fv, ok := u.X.(*ssa.FreeVar)
	if !ok {
		return nil
	}
	idx := -1
	for i, x := range f.FreeVars {
		if x == fv {
			idx = i
		}
	}
	p := f.Parent()
	if p == nil || idx < 0 {
		return nil
	}
	var res ssa.Value
	an.AllInstrs(p, func(in ssa.Instruction) {
		if mc, ok := in.(*ssa.MakeClosure); ok && mc.Fn == ssa.Value(f) {
			res = mc.Bindings[idx]
		}
	})
	return res
}

// loopBound finds the comparison controlling the innermost rangeindex loop of block b.
func loopBound(b *ssa.BasicBlock) *ssa.BinOp {
	for _, p := range b.Preds {
		if ifi, ok := p.Instrs[len(p.Instrs)-1].(*ssa.If); ok && p.Succs[0] == b {
			if bo, ok := ifi.Cond.(*ssa.BinOp); ok {
				return bo
			}
		}
	}
	return nil
}

var _ = report.Discharged

// closureArg returns the function literal handed to a tracer wrapper call,
// looking through WithError / WithErrorCause decorators.
func closureArg(call ssa.CallInstruction) *ssa.Function {
	args := call.Common().Args
	if len(args) == 0 {
		return nil
	}
	v := args[len(args)-1]
	for i := 0; i < 4; i++ {
		switch x := v.(type) {
		case *ssa.MakeClosure:
			f, _ := x.Fn.(*ssa.Function)
			return f
		case *ssa.Function:
			return x
		case *ssa.Call:
			cal := an.Callee(x)
			if cal == "L/telemetry.Tracer.WithError" || cal == "L/telemetry.Tracer.WithErrorCause" {
				v = x.Call.Args[len(x.Call.Args)-1]
				continue
			}
			return nil
		default:
			return nil
		}
	}
	return nil
}

// checkHandlersSerialised: init, invoke, reset and shutdown handling run one at a time, under the handler mutex
// held by the wrapper for the whole of the handler body.
func checkHandlersSerialised(c *report.Ctx) {
	for _, h := range []struct{ m, inner string }{{"HandleInit", "handleInit"}, {"HandleInvoke", "handleInvoke"}, {"HandleReset", "handleReset"}, {"HandleShutdown", "handleShutdown"}} {
		f := fn(c, "L/rapid", "(*rapidContext)."+h.m)
		if f == nil {
			continue
		}
		held := an.NewHeld(f)
		lp := f.Params[0].Name() + ".handlerExecutionMutex"
		calls := an.CallsTo(f, "L/rapid."+h.inner)
		ok := len(calls) == 1 && held.At(calls[0])[lp] && held.Defers[lp]
		sites := callSites(c, "L/rapid."+h.inner)
		c.Check("R-LOCK", "L/rapid.rapidContext."+h.m+"/serialised", "invocations, resets and shutdowns are handled one at a time (handler mutex held around the handler body, which has no other caller)", ok && len(sites) == 1, fpos(f), 2, "held: %v; callers of the body: %v", ok, siteFns(sites))
	}
}

// checkInvokeWaitsForExtensions: an invocation is complete - and its reservation given back - only after every
// registered extension, internal ones included, asked for its next event.
func checkInvokeWaitsForExtensions(c *report.Ctx) {
	outer := fn(c, "L/rapid", "doInvoke$1")
	if outer == nil {
		return
	}
	facts := an.NewFacts(outer)
	name := an.FuncName(outer)
	// AwaitAgentsReady under HasActiveExtensions
	for _, call := range an.CallsTo(outer, invokeFlowI+"AwaitAgentsReady") {
		g := facts.Holds(call.Block(), func(ft an.Fact) bool { return ft.Val && an.IsResultOf(ft.Cond, rapidCtxT+".HasActiveExtensions", -1) })
		c.Check("R-GUARD", name+"/guard/AwaitAgentsReady", "the invocation waits for the extensions whenever any extension is registered", g, an.InstrPos(call), 1, "under HasActiveExtensions(): %v", g)
	}
	if h := fn(c, "L/rapid", "(*rapidContext).HasActiveExtensions"); h != nil {
		ok := len(an.CallsTo(h, "L/extensions.AreEnabled")) == 1 && len(an.CallsTo(h, regSvcI+"CountAgents")) == 1
		c.Check("R-GUARD", an.FuncName(h)+"/definition", "'active extensions' means extensions enabled and at least one registered", ok, fpos(h), 2, "%v", ok)
	}
}

// queryOrigins: the call results a slice value can hold, followed through joins (nil edges ignored), local and
// captured cells (every store into them) and closure bindings.
func queryOrigins(g *ssa.Function, v ssa.Value) map[ssa.Value]bool {
	out := map[ssa.Value]bool{}
	seen := map[ssa.Value]bool{}
	var walk func(g *ssa.Function, v ssa.Value, depth int)
	walk = func(g *ssa.Function, v ssa.Value, depth int) {
		if v == nil || seen[v] || depth > 12 {
			return
		}
		seen[v] = true
		v = an.Strip(v, true)
		switch x := v.(type) {
		case *ssa.Const:
		case *ssa.Phi:
			for _, e := range x.Edges {
				walk(g, e, depth+1)
			}
		case *ssa.Call:
			out[x] = true
		case *ssa.Alloc:
			for _, h := range an.WithAnon(outermost(x.Parent())) {
				an.AllInstrs(h, func(in ssa.Instruction) {
					if st, ok := in.(*ssa.Store); ok && chanCell(st.Addr) == ssa.Value(x) {
						walk(h, st.Val, depth+1)
					}
				})
			}
		case *ssa.UnOp:
			if x.Op == token.MUL {
				switch a := x.X.(type) {
				case *ssa.Alloc:
					walk(g, a, depth+1)
				case *ssa.FieldAddr:
					// a field of a local record that only this function and its closures fill: whatever was stored there
					rec, isLocal := chanCell(a.X).(*ssa.Alloc)
					if !isLocal || !recordIsPrivate(rec) {
						out[x] = true
						break
					}
					found := false
					for _, h := range an.WithAnon(outermost(rec.Parent())) {
						an.AllInstrs(h, func(in ssa.Instruction) {
							if st, ok := in.(*ssa.Store); ok {
								if fa, ok := st.Addr.(*ssa.FieldAddr); ok && fa.Field == a.Field && chanCell(fa.X) == ssa.Value(rec) {
									found = true
									walk(h, st.Val, depth+1)
								}
							}
						})
					}
					if !found {
						out[x] = true
					}
				case *ssa.FreeVar:
					if cell := chanCell(a); cell != ssa.Value(a) {
						walk(g, cell, depth+1)
					} else {
						out[x] = true
					}
				default:
					out[x] = true
				}
			} else {
				out[x] = true
			}
		default:
			out[v] = true
		}
	}
	walk(g, v, 0)
	return out
}

// recordIsPrivate: a local struct value whose address goes nowhere but into field accesses and closure cells, so
// that the stores to its fields seen in the function and its closures are all the stores there are.
func recordIsPrivate(rec *ssa.Alloc) bool {
	if _, isStruct := rec.Type().Underlying().(*types.Pointer).Elem().Underlying().(*types.Struct); !isStruct {
		return false
	}
	ok := true
	var visit func(v ssa.Value, depth int)
	visit = func(v ssa.Value, depth int) {
		if depth > 6 || v.Referrers() == nil {
			return
		}
		for _, ref := range *v.Referrers() {
			switch r := ref.(type) {
			case *ssa.FieldAddr, *ssa.DebugRef:
			case *ssa.MakeClosure:
				fn := r.Fn.(*ssa.Function)
				for i, b := range r.Bindings {
					if b == v && i < len(fn.FreeVars) {
						visit(fn.FreeVars[i], depth+1)
					}
				}
			default:
				ok = false
			}
		}
	}
	visit(rec, 0)
	return ok
}

// capturedParam follows a value read from a captured variable back to the parameter it holds: v is a load of a free
// variable of f whose cell, in the enclosing function(s), is stored to exactly once, with a parameter (possibly
// through further levels of capture). The variable's own name does not matter.
func capturedParam(f *ssa.Function, v ssa.Value) *ssa.Parameter {
	for depth := 0; depth < 6 && f != nil; depth++ {
		if p, ok := v.(*ssa.Parameter); ok {
			return p
		}
		u, ok := v.(*ssa.UnOp)
		if !ok || u.Op != token.MUL {
			return nil
		}
		var cell ssa.Value = u.X
		for {
			fv, isFV := cell.(*ssa.FreeVar)
			if !isFV {
				break
			}
			idx := -1
			for i, x := range f.FreeVars {
				if x == fv {
					idx = i
				}
			}
			par := f.Parent()
			if idx < 0 || par == nil {
				return nil
			}
			var bound ssa.Value
			an.AllInstrs(par, func(in ssa.Instruction) {
				if mc, isMC := in.(*ssa.MakeClosure); isMC && mc.Fn == ssa.Value(f) && idx < len(mc.Bindings) {
					bound = mc.Bindings[idx]
				}
			})
			if bound == nil {
				return nil
			}
			cell, f = bound, par
		}
		a, isA := cell.(*ssa.Alloc)
		if !isA {
			return nil
		}
		var val ssa.Value
		n := 0
		for _, ref := range *a.Referrers() {
			if st, isSt := ref.(*ssa.Store); isSt && st.Addr == ssa.Value(a) {
				n++
				val = st.Val
			}
		}
		if n != 1 {
			return nil
		}
		v = val
	}
	return nil
}
