package props

// Rules added after the eighth blind round (fourth pass per file).

import (
	"go/token"
	"go/types"
	"sort"
	"strings"

	"golang.org/x/tools/go/ssa"

	"verif/checker/internal/an"
	"verif/checker/internal/report"
)

func init() {
	add := func(id string, fs ...func(*report.Ctx)) { round5Rules[id] = append(round5Rules[id], fs...) }
	add("C01", checkFrontEndInvokeForwards, checkNoStrictJSONOnRequests, checkErrorBodyAlwaysRead, checkInvokeHeaderGuards, checkSendAddressing)
	add("C14", checkFrontEndInvokeForwards)
	add("C04", checkReadyCountAlwaysSet, checkAgentEventRenderIsReadOnly)
	add("C05", checkKillsByProcessName, checkCarriersAll, checkResetReachesCarriers)
	add("C09", checkKillsByProcessName, checkAgentListingsLookAtNoAgent, checkGenerationBumped)
	add("C06", checkExitErrorRecordsFault, checkFailureStatusUnconditional, checkNoGoQuotingInJSON, checkShutdownWhateverIsCached)
	add("C07", checkAppCtxMapUnderLock, checkCarriersAll, checkInvokeFlowPairs, checkTokenBucket, checkSupervisorExec)
	add("C08", checkAppCtxShape, checkOnlyOwnMiddleware)
	add("C10", checkRouteAlwaysReachesInvokeHandler)
	add("C15", checkResetForwardsRequest, checkSubscribedEventsNeverNil, checkAgentListingsLookAtNoAgent, checkRuntimeWrappers, checkTracerWrappers, checkNoOpTracerStateless)
	add("C16", checkExcludedKeysNotCredentials, checkCustomerValueNotFiltered)
	add("C17", checkTrailersReadAfterCopy, checkAdditionalHeadersAllCopied, checkWriterIsNoReaderFrom, checkThrottlerDoneOwnedByCtor, checkTrailersPassedAsIs)
	add("C18", checkInitFlowHoldsGatesOnly, checkRestoreOnlyForwards, checkLockPairing)
	add("C19", checkChildOutputAsRequested)
	add("C20", checkNoGoQuotingInJSON)
}

var round9Text = map[string]string{
	"C01": "Round 9: the front end's Invoke hands the request on untouched; request decoders are not strict about unknown fields; the error body is read whatever the Content-Length says; invoke headers are guarded by emptiness only.",
	"C04": "Round 9: the agents gate is sized whenever extensions are enabled; rendering the INVOKE event writes nothing in the renderer.",
	"C05": "Round 9: an extension is killed under the name it was started under.",
	"C06": "Round 9: an accepted exit error has recorded the fault; the failure status does not depend on the body; no JSON is built with %q; the shutdown after a failed init does not depend on what is cached.",
	"C07": "Round 9: the application context's map is touched under its mutex only.",
	"C08": "Round 9: the application context is the map and its mutex, nothing else.",
	"C09": "Round 9: listing the agents looks at no agent.",
	"C10": "Round 9: every request to the invoke route reaches InvokeHandler.",
	"C15": "Round 9: a reset request reaches rapid unchanged; SubscribedEvents is never nil.",
	"C16": "Round 9: no credentials variable is withheld from extensions; a customer value is kept whatever it is.",
	"C17": "Round 9: trailers are read after the copy; every additional header is copied; the limiting writer offers no ReadFrom; the throttler's done channel is the constructor's; the request's trailer map itself is passed on.",
	"C18": "Round 9: the init flow holds gates only; Restore only forwards.",
	"C19": "Round 9: the child's output goes where the request says (nil means /dev/null).",
}

var _ = func() bool {
	for id, t := range round9Text {
		round5Text[id] += " " + t
	}
	return true
}()

func checkInvokeFlowPairs(c *report.Ctx) {
	checkFlow(c, "invokeFlowSynchronizationImpl", []string{"CancelWithError", "Clear", "InitializeBarriers"}, map[string]string{"CancelWithError": "CancelWithError", "Clear": "Clear", "InitializeBarriers": "Reset"},
		[][]string{
			{"RuntimeReady", "AwaitRuntimeReady", ""},
			{"RuntimeResponse", "AwaitRuntimeResponse", ""},
			{"AgentReady", "AwaitAgentsReady", "SetAgentsReadyCount"},
		})
}

func checkGenerationBumped(c *report.Ctx) { checkJustification(c, "names-embed-generation") }

// noStoresTo: f (with closures) stores to no field of the named struct.
func storesIntoStruct(f *ssa.Function, structName string) []string {
	var out []string
	for _, g := range an.WithAnon(f) {
		an.AllInstrs(g, func(in ssa.Instruction) {
			if st, ok := in.(*ssa.Store); ok {
				if fr, ok := an.AsField(st.Addr); ok && fr.Struct == structName {
					out = append(out, fr.Field)
				}
			}
		})
	}
	sort.Strings(out)
	return out
}

// checkFrontEndInvokeForwards (C01, C14): the event is bounded where it is read (bufferInvokeRequest); the front end's
// Invoke hands the request record on as it got it.
func checkFrontEndInvokeForwards(c *report.Ctx) {
	f := fn(c, rapidcP, "(*EmulatorAPI).Invoke")
	if f == nil {
		return
	}
	w := storesIntoStruct(f, "L/interop.Invoke")
	lim := an.CallsTo(f, "io.LimitReader")
	c.Check("R-NOEFFECT", an.FuncName(f)+"/forwards-untouched", "the front end's Invoke changes nothing in the request (no second, different size limit on the event)", len(w) == 0 && len(lim) == 0, fpos(f), 1, "fields of the request written: %v; LimitReader calls: %d", w, len(lim))
}

// checkNoStrictJSONOnRequests (C01): documents sent by the front end may carry members this version does not know.
func checkNoStrictJSONOnRequests(c *report.Ctx) {
	who := siteFns(callSites(c, "encoding/json.Decoder.DisallowUnknownFields"))
	c.Check("R-WHO", "json/no-strict-decoding", "no decoder of the repository refuses unknown members (a customer-headers document with an extra member is a valid invoke)", len(who) == 0, token.NoPos, 1, "DisallowUnknownFields called in: %v", who)
}

// checkErrorBodyAlwaysRead (C01, C20): chunked requests have ContentLength -1; the error body is read regardless.
func checkErrorBodyAlwaysRead(c *report.Ctx) {
	f := fn(c, "L/rapi/handler", "(*invocationErrorHandler).getErrorBody")
	if f == nil {
		return
	}
	ord := an.NewOrder(f, func(in ssa.Instruction) uint64 {
		if an.IsCallTo(in, "io.ReadAll", "io/ioutil.ReadAll") {
			return 1
		}
		return 0
	})
	n, ok := 0, true
	pos := fpos(f)
	for _, e := range an.Exits(f) {
		if !an.IsNil(e.Vals[len(e.Vals)-1]) {
			continue
		}
		n++
		if must, _ := ord.Before(e.Ret); must&1 == 0 {
			ok = false
			pos = an.InstrPos(e.Ret)
		}
	}
	c.Check("R-ORDER", an.FuncName(f)+"/always-read", "every successful exit has read the request body to its end (whatever Content-Length says: a chunked report has none)", ok && n >= 1, pos, n, "successful exits: %d, each after ReadAll: %v", n, ok)
}

// checkInvokeHeaderGuards (C01): a header of the event is omitted exactly when its value is empty.
func checkInvokeHeaderGuards(c *report.Ctx) {
	f := c.P.Func(rendP, "renderInvokeHeaders")
	if f == nil || len(f.Blocks) == 0 {
		f = fn(c, rendP, "(*InvokeRenderer).RenderRuntimeEvent")
	} else {
		c.Analysed("functions", 1)
	}
	if f == nil {
		return
	}
	n, ok := 0, true
	pos := fpos(f)
	var bad []string
	for _, g := range an.WithAnon(f) {
		facts := an.NewFacts(g)
		for _, call := range an.CallsTo(g, "net/http.Header.Set") {
			key, isConst := an.ConstString(call.Common().Args[1])
			if isConst && !strings.HasPrefix(key, "Lambda-Runtime-") {
				continue // Content-Type has a default instead
			}
			if !isConst {
				key = "(from a table)"
			}
			n++
			for _, ft := range facts.At(call.Block()) {
				bo, isBO := ft.Cond.(*ssa.BinOp)
				if isBO && (bo.Op == token.EQL || bo.Op == token.NEQ) {
					if s, isC := an.ConstString(bo.Y); isC && s == "" {
						continue
					}
					if s, isC := an.ConstString(bo.X); isC && s == "" {
						continue
					}
				}
				// conditions of the enclosing renderer (payload present, ...) do not mention a call result on strings
				if cl, _ := an.CallOf(an.Strip(ft.Cond, true)); cl != nil && strings.HasPrefix(an.Callee(cl), "strings.") {
					ok = false
					pos = an.InstrPos(call)
					bad = append(bad, key+": "+an.Callee(cl))
				}
			}
		}
	}
	c.Check("R-GUARD", rendP+".renderInvokeHeaders/omitted-only-when-empty", "an event header is left out exactly when there is nothing to put in it (net/http neutralises line breaks itself: a value with one is still a value)", ok && n >= 1, pos, n, "header sets: %d; guarded by a test on the value's content: %v", n, bad)
}

// checkReadyCountAlwaysSet (C04): with extensions enabled the agents gate is sized for every invocation, also to 0
// (it is created with a placeholder count that no set of arrivals can reach).
func checkReadyCountAlwaysSet(c *report.Ctx) {
	outer := fn(c, "L/rapid", "doInvoke$1")
	if outer == nil {
		return
	}
	facts := an.NewFacts(outer)
	enabledFalse := func(b *ssa.BasicBlock) bool {
		return facts.Holds(b, func(ft an.Fact) bool {
			cl, _ := an.CallOf(an.Strip(ft.Cond, true))
			return cl != nil && an.Callee(cl) == "L/extensions.AreEnabled" && !ft.Val
		})
	}
	ord := an.NewOrderPruned(outer, func(in ssa.Instruction) uint64 {
		if an.IsCallTo(in, invokeFlowI+"SetAgentsReadyCount") {
			return 1
		}
		return 0
	}, func(from, to *ssa.BasicBlock) bool {
		// the edge taken when extensions are disabled
		iff, isIf := from.Instrs[len(from.Instrs)-1].(*ssa.If)
		if !isIf || len(from.Succs) != 2 || from.Succs[0] == from.Succs[1] {
			return enabledFalse(to) && !enabledFalse(from)
		}
		cond, neg := iff.Cond, false
		for i := 0; i < 4; i++ {
			if u, ok := cond.(*ssa.UnOp); ok && u.Op == token.NOT {
				cond, neg = u.X, !neg
				continue
			}
			break
		}
		cl, _ := an.CallOf(an.Strip(cond, true))
		if cl == nil || an.Callee(cl) != "L/extensions.AreEnabled" {
			return false
		}
		falseSucc := from.Succs[1]
		if neg {
			falseSucc = from.Succs[0]
		}
		return to == falseSucc
	})
	n, ok := 0, true
	pos := fpos(outer)
	for _, call := range an.CallsTo(outer, "L/telemetry.Tracer.CaptureInvokeSubsegment") {
		n++
		if !ord.Reached(call) {
			continue
		}
		if must, _ := ord.Before(call); must&1 == 0 {
			ok = false
			pos = an.InstrPos(call)
		}
	}
	c.Check("R-ORDER", an.FuncName(outer)+"/agents-gate-always-sized", "when extensions are enabled the number of awaited extensions is set before the invocation is released, on every path (zero subscribers included: the gate's initial count is a placeholder nobody reaches)", ok && n == 1, pos, n, "release sites: %d, SetAgentsReadyCount certainly before them when extensions are enabled: %v", n, ok)
}

// checkAgentEventRenderIsReadOnly (C04): all subscribed extensions render from the same renderer at the same time.
func checkAgentEventRenderIsReadOnly(c *report.Ctx) {
	f := fn(c, rendP, "(*InvokeRenderer).RenderAgentEvent")
	if f == nil {
		return
	}
	var bad []string
	n := 0
	for _, g := range an.WithAnon(f) {
		an.AllInstrs(g, func(in ssa.Instruction) {
			fa, ok := in.(*ssa.FieldAddr)
			if !ok {
				return
			}
			fr, ok := an.AsField(fa)
			if !ok || fr.Struct != rendP+".InvokeRenderer" {
				return
			}
			n++
			for _, r := range *fa.Referrers() {
				if ld, isLd := r.(*ssa.UnOp); isLd && ld.Op == token.MUL {
					continue
				}
				if _, isDbg := r.(*ssa.DebugRef); isDbg {
					continue
				}
				bad = append(bad, fr.Field)
			}
		})
	}
	bad = uniq(bad)
	c.Check("R-NOEFFECT", an.FuncName(f)+"/reads-only", "rendering the INVOKE event only reads the renderer (every subscribed extension polls it concurrently): no field is written or handed out by address", len(bad) == 0 && n >= 1, fpos(f), n, "field accesses: %d; fields written or address-taken: %v", n, bad)
}

// checkKillsByProcessName (C05, C09): processes are started, awaited and killed under extension-<name>-<generation>.
func checkKillsByProcessName(c *report.Ctx) {
	f := fn(c, "L/rapid", "(*shutdownContext).shutdownAgents")
	if f == nil {
		return
	}
	w := newWire(c, nil, nil)
	n, ok := 0, true
	pos := fpos(f)
	var orgs []string
	for _, g := range an.WithAnon(f) {
		for _, T := range []string{"L/supervisor/model.KillRequest", "L/supervisor/model.TerminateRequest"} {
			for _, st := range an.Stores(g, T, "Name") {
				n++
				o := w.Origins(st.Val)
				orgs = append(orgs, o...)
				good := false
				for _, x := range o {
					if strings.HasPrefix(x, "call:fmt.Sprintf") {
						good = true
					}
					if strings.HasPrefix(x, "field:") {
						good = false
						break
					}
				}
				if !good {
					ok = false
					pos = an.InstrPos(st)
				}
			}
		}
	}
	c.Check("R-WIRE", an.FuncName(f)+"/signals-by-process-name", "an extension is signalled under the process name it was started under (extension-<name>-<generation>), not under the agent's name", ok && n >= 2, pos, n, "request names set: %d; origins: %v", n, uniq(orgs))
}

// checkExitErrorRecordsFault (C06, C15): an accepted exit-error report has recorded Extension.ExitError.
func checkExitErrorRecordsFault(c *report.Ctx) {
	f := fn(c, "L/rapi/handler", "(*agentExitErrorHandler).ServeHTTP")
	if f == nil {
		return
	}
	ord := an.NewOrder(f, func(in ssa.Instruction) uint64 {
		if an.IsCallTo(in, "L/appctx.StoreFirstFatalError") {
			return 1
		}
		return 0
	})
	n, ok := 0, true
	pos := fpos(f)
	for _, call := range an.CallsTo(f, "L/rapi/rendering.RenderAccepted") {
		n++
		if must, _ := ord.Before(call); must&1 == 0 {
			ok = false
			pos = an.InstrPos(call)
		}
	}
	c.Check("R-ORDER", an.FuncName(f)+"/accepted-means-recorded", "202 is answered only after the fault was recorded, for external and internal extensions alike", ok && n >= 1, pos, n, "Accepted sites: %d, each after StoreFirstFatalError: %v", n, ok)
}

// checkFailureStatusUnconditional (C06): a failed init or invoke is answered 502 whether or not there is a body.
func checkFailureStatusUnconditional(c *report.Ctx) {
	f := fn(c, "M/cmd/aws-lambda-rie", "InvokeHandler")
	if f == nil {
		return
	}
	inv := an.CallsTo(f, "M/cmd/aws-lambda-rie.Sandbox.Invoke")
	n, ok := 0, true
	pos := fpos(f)
	if len(inv) == 1 {
		for _, e := range []string{"L/rapidcore.ErrInitDoneFailed", "L/rapidcore.ErrInvokeDoneFailed"} {
			// on the paths taken when the sandbox reported e: a status is written before every return
			ord := an.NewOrderPruned(f, func(in ssa.Instruction) uint64 {
				if in == ssa.Instruction(inv[0]) {
					return 2
				}
				if call, isCall := in.(ssa.CallInstruction); isCall && strings.HasSuffix(an.Callee(call), ".WriteHeader") {
					return 1
				}
				return 0
			}, assumeErrIs(inv[0].Value(), e))
			for _, x := range an.Exits(f) {
				if !ord.Reached(x.Ret) {
					continue
				}
				must, _ := ord.Before(x.Ret)
				if must&2 == 0 {
					continue // returned before the sandbox was called
				}
				n++
				if must&1 == 0 {
					ok = false
					pos = an.InstrPos(x.Ret)
				}
			}
		}
	}
	c.Check("R-ORDER", an.FuncName(f)+"/failure-always-gets-a-status", "the exits for 'init failed' and 'invoke failed' have written a status on every path (an empty body is still a failure)", ok && n >= 2, pos, n, "failure exits: %d, each after WriteHeader: %v", n, ok)
}

// checkNoGoQuotingInJSON (C06, C20): %q is Go syntax; a JSON document built with it is invalid for some strings.
func checkNoGoQuotingInJSON(c *report.Ctx) {
	var bad []string
	n := 0
	for _, f := range repoFuncs(c) {
		if strings.HasPrefix(an.FuncName(f), "L/testdata.") {
			continue
		}
		for _, call := range an.Calls(f, func(s string) bool { return oneOf(s, "fmt.Sprintf", "fmt.Fprintf", "fmt.Appendf") }) {
			for _, a := range call.Common().Args {
				if s, ok := an.ConstString(a); ok {
					n++
					if strings.Contains(s, "%q") && strings.Contains(s, "{\"") {
						bad = append(bad, an.FuncName(f))
					}
				}
			}
		}
	}
	c.Check("R-WHO", "json/no-percent-q-documents", "no JSON document is assembled with %q (control and invalid bytes come out as Go escapes no JSON parser accepts)", len(bad) == 0 && n >= 10, token.NoPos, n, "format strings: %d; JSON-looking ones with %%q in: %v", n, uniq(bad))
}

// checkShutdownWhateverIsCached (C06, C09): after a failed first init the extensions are shut down whether the runtime
// reported the error itself or not.
func checkShutdownWhateverIsCached(c *report.Ctx) {
	inv := fn(c, rapidcP, "(*Server).Invoke")
	if inv == nil {
		return
	}
	n, ok := 0, true
	pos := fpos(inv)
	for _, g := range an.WithAnon(inv) {
		facts := an.NewFacts(g)
		for _, call := range an.CallsTo(g, srvT+".Shutdown") {
			n++
			if facts.Holds(call.Block(), func(ft an.Fact) bool {
				return an.CmpNil(ft, true, func(v ssa.Value) bool { return an.IsResultOf(v, srvT+".getCachedInitErrorResponse", -1) }) ||
					an.CmpNil(ft, false, func(v ssa.Value) bool { return an.IsResultOf(v, srvT+".getCachedInitErrorResponse", -1) })
			}) {
				ok = false
				pos = an.InstrPos(call)
			}
		}
	}
	c.Check("R-GUARD", an.FuncName(inv)+"/shutdown-independent-of-cache", "the shutdown that cleans up after a failed init does not depend on whether an init error response is cached", ok && n == 1, pos, n, "Shutdown sites: %d, none under a test of the cached response: %v", n, ok)
}

// checkAppCtxMapUnderLock (C07): every access to the application context's map is made with its mutex held - at the
// access, not merely where the map reference was read.
func checkAppCtxMapUnderLock(c *report.Ctx) {
	T := "L/appctx.applicationContext"
	n := 0
	var bad []string
	pos := token.NoPos
	isMap := func(v ssa.Value) bool { return an.IsFieldLoad(an.Strip(v, false), T, "m") }
	for _, f := range repoFuncs(c) {
		if !strings.HasPrefix(an.FuncName(f), "L/appctx.") {
			continue
		}
		var held *an.Held
		an.AllInstrs(f, func(in ssa.Instruction) {
			touches := false
			switch x := in.(type) {
			case *ssa.Lookup:
				touches = isMap(x.X)
			case *ssa.MapUpdate:
				touches = isMap(x.Map)
			case *ssa.Range:
				touches = isMap(x.X)
			case *ssa.Call:
				if b, ok := x.Call.Value.(*ssa.Builtin); ok && (b.Name() == "delete" || b.Name() == "len") && len(x.Call.Args) > 0 {
					touches = isMap(x.Call.Args[0])
				}
			}
			if !touches {
				return
			}
			n++
			if held == nil {
				held = an.NewHeld(f)
			}
			ok := false
			for l := range held.At(in) {
				if strings.HasSuffix(l, ".mux") {
					ok = true
				}
			}
			if !ok {
				bad = append(bad, an.FuncName(f))
				pos = an.InstrPos(in)
			}
		})
	}
	c.Check("R-LOCK", T+"/map-accessed-under-mutex", "the application context's map is read and written only while its mutex is held (a lookup after the unlock races with Store and Delete and aborts the process)", len(bad) == 0 && n >= 4, pos, n, "map accesses: %d; without the mutex in: %v", n, uniq(bad))
}

// checkAppCtxShape (C08): what Delete deletes is all there is.
func checkAppCtxShape(c *report.Ctx) {
	var names []string
	for _, f := range structFields(c, "L/appctx", "applicationContext") {
		names = append(names, f.Name())
	}
	sort.Strings(names)
	c.Check("R-SHAPE", "L/appctx.applicationContext/map-and-mutex", "the application context holds its entries in one map under one mutex (a second store, mirror or cache would have to be cleared by every Delete and reset as well)", strings.Join(names, ",") == "m,mux", token.NoPos, len(names), "fields: %v", names)
}

// checkRouteAlwaysReachesInvokeHandler (C10): concurrency is refused by the sandbox (Reserve), which also gives the
// reservation back; the route itself refuses nothing.
func checkRouteAlwaysReachesInvokeHandler(c *report.Ctx) {
	f := fn(c, "M/cmd/aws-lambda-rie", "startHTTPServer")
	if f == nil {
		return
	}
	n, ok := 0, true
	pos := fpos(f)
	for _, g := range f.AnonFuncs {
		calls := an.CallsTo(g, "M/cmd/aws-lambda-rie.InvokeHandler")
		if len(calls) == 0 {
			continue
		}
		n++
		ord := an.NewOrder(g, func(in ssa.Instruction) uint64 {
			if an.IsCallTo(in, "M/cmd/aws-lambda-rie.InvokeHandler") {
				return 1
			}
			return 0
		})
		for _, e := range an.Exits(g) {
			if must, _ := ord.Before(e.Ret); must&1 == 0 {
				ok = false
				pos = an.InstrPos(e.Ret)
			}
		}
	}
	c.Check("R-ORDER", an.FuncName(f)+"/route-always-dispatches", "every request to the invoke route is handed to InvokeHandler (refusing a concurrent caller is the sandbox's decision, made under its own bookkeeping)", ok && n == 1, pos, n, "route closures: %d, InvokeHandler on every path: %v", n, ok)
}

// checkResetForwardsRequest (C15): rapid tells reasons apart by exact spelling ("timeout" only for its own runtime-done).
func checkResetForwardsRequest(c *report.Ctx) {
	f := fn(c, rapidcP, "(SandboxContext).Reset")
	if f == nil {
		return
	}
	w := storesIntoStruct(f, "L/interop.Reset")
	c.Check("R-NOEFFECT", an.FuncName(f)+"/request-untouched", "the reset request reaches rapid as it was made (reason and deadline unchanged)", len(w) == 0, fpos(f), 1, "fields of the request written: %v", w)
}

// checkSubscribedEventsNeverNil (C15): the status line of an extension lists its events as a JSON array, also when empty.
func checkSubscribedEventsNeverNil(c *report.Ctx) {
	for _, T := range []string{"ExternalAgent", "InternalAgent"} {
		f := fn(c, coreP, "(*"+T+").SubscribedEvents")
		if f == nil {
			continue
		}
		n, ok := 0, true
		for _, e := range an.Exits(f) {
			n++
			for _, leaf := range an.PhiLeaves(e.Vals[0]) {
				if an.IsNil(leaf) {
					ok = false
				}
			}
		}
		c.Check("R-SHAPE", an.FuncName(f)+"/never-nil", "the list of subscribed events is an empty list, never nil, when there are none (it is rendered into the extension's status line)", ok && n >= 1, fpos(f), n, "exits: %d, none able to return nil: %v", n, ok)
	}
}

// checkAgentListingsLookAtNoAgent (C09, C15): the listings used for shutdown and for the status lines contain every
// registered agent, whatever its state.
func checkAgentListingsLookAtNoAgent(c *report.Ctx) {
	for _, m := range []string{"GetExternalAgents", "GetInternalAgents"} {
		f := fn(c, coreP, "(*registrationServiceImpl)."+m)
		if f == nil {
			continue
		}
		var looks []string
		n := 0
		for _, g := range an.WithAnon(f) {
			an.AllInstrs(g, func(in ssa.Instruction) {
				switch x := in.(type) {
				case ssa.CallInstruction:
					n++
					if cal := an.Callee(x); strings.HasPrefix(cal, coreP+".ExternalAgent.") || strings.HasPrefix(cal, coreP+".InternalAgent.") {
						looks = append(looks, cal)
					}
				case *ssa.FieldAddr:
					if fr, ok := an.AsField(x); ok && (fr.Struct == coreP+".ExternalAgent" || fr.Struct == coreP+".InternalAgent") {
						looks = append(looks, fr.Struct+"."+fr.Field)
					}
				}
			})
		}
		c.Check("R-SHAPE", an.FuncName(f)+"/lists-every-agent", "the listing contains every registered agent: building it calls no method of an agent and reads no field of one", len(looks) == 0 && n >= 1, fpos(f), n, "looks at: %v", uniq(looks))
	}
}

// checkExcludedKeysNotCredentials (C16): extensions get the same credentials variables as the runtime.
func checkExcludedKeysNotCredentials(c *report.Ctx) {
	f := fn(c, "L/rapidcore/env", "(*Environment).AgentExecEnv")
	if f == nil {
		return
	}
	// the names the extensions' filter withholds by name (the filter predicate decided per class of names)
	excl := map[string]bool{}
	decided := false
	if calls := an.CallsTo(f, "L/rapidcore/env.mapExclude"); len(calls) == 1 {
		if sp, ok := decideStringPred(closureOf(calls[0].Common().Args[1])); ok {
			decided = true
			for _, k := range sp.TrueFor {
				excl[k] = true
			}
		}
	}
	var cred []string
	for _, g := range repoFuncs(c) {
		if !strings.HasPrefix(an.FuncName(g), "L/rapidcore/env.") {
			continue
		}
		an.AllInstrs(g, func(in ssa.Instruction) {
			if mu, ok := in.(*ssa.MapUpdate); ok && an.IsFieldLoad(an.Strip(mu.Map, false), "L/rapidcore/env.Environment", "credentials") {
				if s, ok := an.ConstString(mu.Key); ok {
					cred = append(cred, s)
				}
			}
		})
	}
	cred = uniq(cred)
	var both []string
	for _, k := range cred {
		if excl[k] {
			both = append(both, k)
		}
	}
	c.Check("R-CONST", "L/rapidcore/env.extensionExcludedKeys/no-credentials-withheld", "none of the variables of the credentials layer is on the extensions' exclusion list", decided && len(both) == 0 && len(cred) >= 5 && len(excl) >= 3, fpos(f), len(cred), "credential variables: %v; excluded ones: %v", cred, both)
}

// checkCustomerValueNotFiltered (C16): a customer variable is kept for what its name is, not for what it holds.
func checkCustomerValueNotFiltered(c *report.Ctx) {
	f := fn(c, "L/rapidcore/env", "CustomerEnvironmentVariables")
	if f == nil {
		return
	}
	facts := an.NewFacts(f)
	n, ok := 0, true
	pos := fpos(f)
	an.AllInstrs(f, func(in ssa.Instruction) {
		mu, isMU := in.(*ssa.MapUpdate)
		if !isMU {
			return
		}
		n++
		for _, ft := range facts.At(mu.Block()) {
			bo, isBO := ft.Cond.(*ssa.BinOp)
			if isBO && (an.Strip(bo.X, false) == mu.Value || an.Strip(bo.Y, false) == mu.Value) {
				ok = false
				pos = an.InstrPos(mu)
			}
		}
	})
	c.Check("R-GUARD", an.FuncName(f)+"/value-not-tested", "whether a variable is the customer's depends on its name only (a variable set to the empty string is set)", ok && n == 1, pos, n, "stores into the customer map: %d, none under a test of the value: %v", n, ok)
}

// checkTrailersReadAfterCopy (C17): net/http fills the request's trailers when the body has been read to its end.
func checkTrailersReadAfterCopy(c *report.Ctx) {
	f := fn(c, "L/core/directinvoke", "sendStreamingInvokeResponse")
	if f == nil {
		return
	}
	var sel *ssa.Select
	an.AllInstrs(f, func(in ssa.Instruction) {
		if s, ok := in.(*ssa.Select); ok && sel == nil {
			for _, st := range s.States {
				if st.Dir == types.RecvOnly && (chanName(st.Chan) == "copyDone" || strings.Contains(st.Chan.Type().String(), "CopyDoneResult")) {
					sel = s
				}
			}
		}
	})
	n, ok := 0, true
	pos := fpos(f)
	for _, call := range an.CallsTo(f, "net/http.Header.Get") {
		if p, isP := an.Strip(call.Common().Args[0], false).(*ssa.Parameter); !isP || !strings.Contains(p.Type().String(), "http.Header") {
			continue
		}
		n++
		if sel == nil || !an.InstrDominates(sel, call) {
			ok = false
			pos = an.InstrPos(call)
		}
	}
	c.Check("R-ORDER", an.FuncName(f)+"/trailers-after-copy", "the runtime's trailers are read after the wait for the copy (they do not exist before the body reached its end)", ok && n >= 2 && sel != nil, pos, n, "reads of the trailers: %d, all after the select on the copy's result: %v", n, ok)
}

// checkAdditionalHeadersAllCopied (C17): the response-mode header travels to the reply stream with the others: the
// buffered path reads it back from there.
func checkAdditionalHeadersAllCopied(c *report.Ctx) {
	f := fn(c, "L/core/directinvoke", "SendDirectInvokeResponse")
	if f == nil {
		return
	}
	facts := an.NewFacts(f)
	n, ok := 0, true
	pos := fpos(f)
	for _, call := range an.CallsTo(f, "net/http.Header.Add", "net/http.Header.Set") {
		if !an.InLoop(call) {
			continue
		}
		args := call.Common().Args
		if len(args) != 3 {
			continue
		}
		if _, isC := an.ConstString(args[1]); isC {
			continue
		}
		n++
		for _, ft := range facts.At(call.Block()) {
			bo, isBO := ft.Cond.(*ssa.BinOp)
			if isBO && (an.Strip(bo.X, false) == args[1] || an.Strip(bo.Y, false) == args[1]) {
				ok = false
				pos = an.InstrPos(call)
			}
		}
	}
	c.Check("R-GUARD", an.FuncName(f)+"/every-additional-header-copied", "each additional header is put on the reply stream, whatever its name", ok && n == 1, pos, n, "copy loops: %d, none selecting by key: %v", n, ok)
}

// checkWriterIsNoReaderFrom (C17): io.Copy hands the whole copy to a destination that offers ReadFrom.
func checkWriterIsNoReaderFrom(c *report.Ctx) {
	has := c.P.Func(bwP, "(*BandwidthLimitingWriter).ReadFrom") != nil
	c.Check("R-SHAPE", bwP+".BandwidthLimitingWriter/no-ReadFrom", "the limiting writer does not implement io.ReaderFrom: io.Copy then drives it through Write, whose chunking and accounting the other rules cover", !has, token.NoPos, 1, "declares ReadFrom: %v", has)
}

// checkThrottlerDoneOwnedByCtor (C17): stop() hands the refill goroutine its stop token on the channel both share.
func checkThrottlerDoneOwnedByCtor(c *report.Ctx) {
	var who []string
	for f, sts := range storesTo(c, bwP+".Throttler", "done") {
		if len(sts) > 0 {
			who = append(who, an.FuncName(f))
		}
	}
	sort.Strings(who)
	closes := 0
	if f := c.P.Func(bwP, "(*Throttler).stop"); f != nil {
		closes = len(an.CallsTo(f, "builtin.close"))
	}
	c.Check("R-WHO", bwP+".Throttler.done/set-by-constructor-only", "the channel on which stop() meets the refill goroutine is the one the constructor made: it is never replaced or closed", strings.Join(who, ",") == bwP+".NewThrottler" && closes == 0, token.NoPos, len(who)+1, "assigned in: %v; closes in stop(): %d", who, closes)
}

// checkTrailersPassedAsIs (C17): the trailer map net/http fills in place is the one handed on.
func checkTrailersPassedAsIs(c *report.Ctx) {
	f := fn(c, "L/rapi/handler", "(*invocationResponseHandler).ServeHTTP")
	if f == nil {
		return
	}
	n, ok := 0, true
	for _, st := range an.Stores(f, "L/interop.StreamableInvokeResponse", "Trailers") {
		n++
		if !an.IsFieldLoad(an.Strip(st.Val, false), "net/http.Request", "Trailer") {
			ok = false
		}
	}
	c.Check("R-WIRE", an.FuncName(f)+"/trailers-are-the-requests-own", "the response handed to the sandbox carries the request's own trailer map (filled in place once the body has been read), not a copy taken before", ok && n == 1, fpos(f), n, "stores: %d, of request.Trailer itself: %v", n, ok)
}

// checkInitFlowHoldsGatesOnly (C18): what Clear and CancelWithError reach is all there is in the flow objects.
func checkInitFlowHoldsGatesOnly(c *report.Ctx) {
	for _, T := range []string{"initFlowSynchronizationImpl", "invokeFlowSynchronizationImpl"} {
		var other []string
		n := 0
		for _, f := range structFields(c, coreP, T) {
			n++
			if an.TypeName(f.Type()) != coreP+".Gate" {
				other = append(other, f.Name())
			}
		}
		c.Check("R-SHAPE", coreP+"."+T+"/gates-only", "the flow object consists of gates (every piece of state in it is reached by Clear and by CancelWithError)", len(other) == 0 && n >= 3, token.NoPos, n, "fields that are not gates: %v", other)
	}
}

// checkRestoreOnlyForwards (C18): awaiting the init consumes its one failure message; only Invoke and AwaitInitialized may.
func checkRestoreOnlyForwards(c *report.Ctx) {
	who := siteFns(callSites(c, srvT+".awaitInitialized"))
	for i := range who {
		who[i] = stripAnon(who[i])
	}
	who = uniq(who)
	c.Check("R-WHO", srvT+".awaitInitialized/callers", "the wait for the initialisation (which consumes the one failure message) is made by Invoke and AwaitInitialized only", strings.Join(who, ",") == srvT+".AwaitInitialized,"+srvT+".Invoke", token.NoPos, len(who), "callers: %v", who)
}

// checkChildOutputAsRequested (C19): a nil writer means /dev/null to os/exec; anything else means a pipe and a copying
// goroutine that Wait waits for.
func checkChildOutputAsRequested(c *report.Ctx) {
	f := fn(c, "L/supervisor", "(*LocalSupervisor).Exec")
	if f == nil {
		return
	}
	n, ok := 0, true
	for _, fld := range [][2]string{{"Stdout", "StdoutWriter"}, {"Stderr", "StderrWriter"}} {
		k := 0
		for _, st := range an.Stores(f, "os/exec.Cmd", fld[0]) {
			k++
			n++
			if !an.IsFieldLoad(an.Strip(st.Val, false), "L/supervisor/model.ExecRequest", fld[1]) {
				ok = false
			}
		}
		if k != 1 {
			ok = false
		}
	}
	c.Check("R-WIRE", an.FuncName(f)+"/output-writers-as-requested", "the child's stdout and stderr are exactly the request's writers (left nil when unset: os/exec then uses /dev/null and Wait does not depend on descendants holding a pipe)", ok && n == 2, fpos(f), n, "stores: %d, each the request's field itself: %v", n, ok)
}
