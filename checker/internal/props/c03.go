package props

import (
	"go/token"
	"strings"

	"golang.org/x/tools/go/ssa"

	"verif/checker/internal/an"
	"verif/checker/internal/report"
)

const (
	initFlowI   = "L/core.InitFlowSynchronization."
	invokeFlowI = "L/core.InvokeFlowSynchronization."
	regSvcI     = "L/core.RegistrationService."
	supExec     = "L/supervisor/model.ProcessSupervisor.Exec"
	rapidCtxT   = "L/rapid.rapidContext"
)

func init() {
	register(&Prop{
		Spec: report.Spec{
			ID: "C03",
			Explanation: "The ordering obligations of the init barrier that hold inside one goroutine are decided on every path of the orchestration functions: extension discovery keeps exactly the non-directory entries and names them by base name; doInitExtensions sets the register count to the number of paths before the loop, creates one agent and starts at most one process per path, and reports success only after AwaitExternalAgentsRegistered returned nil; " +
				"doRuntimeDomainInit reaches 'initDone = true' only through [extensions enabled => doInitExtensions nil] -> PreregisterRuntime nil -> runtime Exec nil -> AwaitRuntimeRestoreReady nil -> TurnOff -> [SetAgentsReadyCount(GetRegisteredAgentsSize()) nil -> AwaitAgentsReady nil]; doInvoke releases nobody unless initDone holds or the inline init returned nil; registration inserts are dominated by 'service on' under the mutex and only TurnOff closes / Clear re-opens it; the parties park inside their next call (automaton cells) and only the documented states arrive at the init gates. " +
				"Added after the blind rounds: the registration count is armed before any extension is created or started; the latch rules of C11; the registration maps are emptied by a reset; the API server sets no connection deadlines. " +
				"NOT decided: that an accepted registration's HTTP response precedes the runtime start in real time; supervisor behaviour; liveness under all arrival orders (reduced to the barrier primitive, C11).",
			RuleText:    "one obligation per adjacent pair of orchestration steps, per nil-edge, per success exit, per guard, per gate-arrival call site",
			Assumptions: append([]string{"the tracer wrappers call the function they are given exactly once and return its result (checked for the emulator's NoOpTracer)"}, trusted...),
			MinObs:      45,
		},
		Run: runC03,
	})
}

func runC03(c *report.Ctx) {
	c.Clause("1 extension discovery")
	checkAgentDiscovery(c)
	c.Clause("2 doInitExtensions")
	checkDoInitExtensions(c)
	c.Clause("3 doRuntimeDomainInit")
	checkDoRuntimeDomainInit(c)
	c.Clause("4 nothing released before init is done")
	checkReleaseAfterInit(c)
	c.Clause("5 registration closes")
	checkRegistrationCloses(c)
	c.Clause("6-7 parking and gate bookkeeping")
	checkInitGateArrivals(c)
	c.Clause("8 the barrier primitive (shared with C11)")
	checkGatePrimitive(c)
	checkNoServerTimeouts(c)
	checkAgentMapsCleared(c) // identifiers of an earlier generation must not resolve and walk the new generation's gates
	checkRegisteredAgentsSize(c)
	checkTracerWrappers(c)
}

func checkAgentDiscovery(c *report.Ctx) {
	f := fn(c, "L/agents", "ListExternalAgentPaths")
	if f == nil {
		return
	}
	facts := an.NewFacts(f)
	n := 0
	ok := true
	detail := ""
	an.AllInstrs(f, func(in ssa.Instruction) {
		call, isCall := in.(*ssa.Call)
		if !isCall || an.Callee(call) != "builtin.append" {
			return
		}
		n++
		notDir := facts.Holds(call.Block(), func(ft an.Fact) bool { return !ft.Val && an.IsResultOf(ft.Cond, "io/fs.DirEntry.IsDir", -1) })
		// appended value: path.Join("/", dir, file.Name())
		joined := false
		if sl, k := call.Call.Args[1].(*ssa.Slice); k {
			if al, k := sl.X.(*ssa.Alloc); k {
				for _, ref := range *al.Referrers() {
					if ia, k := ref.(*ssa.IndexAddr); k {
						for _, r2 := range *ia.Referrers() {
							if st, k := r2.(*ssa.Store); k {
								if jc, _ := an.CallOf(st.Val); jc != nil && an.Callee(jc) == "path.Join" {
									strs := variadicValues(jc.Call.Args[0])
									if len(strs) == 3 {
										s0, k0 := an.ConstString(strs[0])
										_, isParam := strs[1].(*ssa.Parameter)
										joined = k0 && s0 == "/" && isParam && an.IsResultOf(strs[2], "io/fs.DirEntry.Name", -1)
									}
								}
							}
						}
					}
				}
			}
		}
		if !notDir || !joined || !an.InLoop(call) {
			ok = false
		}
		detail = sprintf("guarded by !IsDir(): %v; value is path.Join(\"/\", dir, entry.Name()): %v; inside the directory loop: %v", notDir, joined, an.InLoop(call))
	})
	c.Check("R-GUARD", an.FuncName(f)+"/non-directories-only", "every non-directory entry directly under the extensions directory, and nothing else, becomes an extension path (named by the entry's own name)", ok && n == 1, fpos(f), n, "%s", detail)
	rd := an.CallsTo(f, "os.ReadDir")
	c.Check("R-COUNT", an.FuncName(f)+"/reads-directory", "the directory is listed once, non-recursively", len(rd) == 1, fpos(f), len(rd), "%d ReadDir calls", len(rd))
}

// variadicValues returns the values stored in a variadic slice argument, by index.
func variadicValues(a ssa.Value) []ssa.Value {
	sl, ok := a.(*ssa.Slice)
	if !ok {
		return nil
	}
	al, ok := sl.X.(*ssa.Alloc)
	if !ok {
		return nil
	}
	m := map[int64]ssa.Value{}
	max := int64(-1)
	for _, ref := range *al.Referrers() {
		if ia, ok := ref.(*ssa.IndexAddr); ok {
			n, _ := an.ConstInt(ia.Index)
			for _, r2 := range *ia.Referrers() {
				if st, ok := r2.(*ssa.Store); ok {
					m[n] = st.Val
					if n > max {
						max = n
					}
				}
			}
		}
	}
	out := make([]ssa.Value, max+1)
	for k, v := range m {
		out[k] = v
	}
	return out
}

func checkDoInitExtensions(c *report.Ctx) {
	f := fn(c, "L/rapid", "doInitExtensions")
	if f == nil {
		return
	}
	name := an.FuncName(f)
	checkChain(c, f, "extension launch", []step{
		callStep("SetExternalAgentsRegisterCount", true, false, initFlowI+"SetExternalAgentsRegisterCount"),
		callStep("AwaitExternalAgentsRegistered", true, false, initFlowI+"AwaitExternalAgentsRegistered"),
	}, successNilErr)
	// count argument = uint16(len(agentPaths)), set before the loop
	for _, call := range an.CallsTo(f, initFlowI+"SetExternalAgentsRegisterCount") {
		x, isLen := an.LenArg(call.Common().Args[0])
		_, isParam := x.(*ssa.Parameter)
		c.Check("R-WIRE", name+"/register-count-is-number-of-paths", "the number of registrations awaited is the number of extensions about to be launched", isLen && isParam && !an.InLoop(call), an.InstrPos(call), 1, "argument is len(agentPaths): %v; outside the loop: %v", isLen && isParam, !an.InLoop(call))
	}
	// the expected number of registrations is announced before the first extension process is started: an
	// extension that registers while its siblings are still being launched must find the gate armed (an
	// arrival at a gate whose count is still 0 is refused, the refusal is ignored by the state machine, and
	// init would then wait forever for a registration that already happened)
	{
		setc := an.CallsTo(f, initFlowI+"SetExternalAgentsRegisterCount")
		isSet := map[ssa.Instruction]bool{}
		for _, s := range setc {
			if _, plain := s.(*ssa.Call); plain {
				isSet[s] = true
			}
		}
		ord := an.NewOrder(f, func(in ssa.Instruction) uint64 {
			if isSet[in] {
				return 1
			}
			return 0
		})
		okB, nx := true, 0
		for _, ex := range an.CallsTo(f, supExec) {
			nx++
			if must, _ := ord.Before(ex); must&1 == 0 {
				okB = false
			}
		}
		for _, cr := range an.CallsTo(f, regSvcI+"CreateExternalAgent") {
			nx++
			if must, _ := ord.Before(cr); must&1 == 0 {
				okB = false
			}
		}
		c.Check("R-ORDER", name+"/count-armed-before-any-launch", "the number of registrations to wait for is set before any extension is created or started", okB && nx >= 2, fpos(f), nx, "launch/creation sites: %d, all after SetExternalAgentsRegisterCount: %v", nx, okB)
	}
	// per iteration: one CreateExternalAgent(path.Base(agentPath)), at most one Exec, channel after nil Exec (C07)
	creates := an.CallsTo(f, regSvcI+"CreateExternalAgent")
	execs := an.CallsTo(f, supExec)
	okLoop := len(creates) == 1 && len(execs) == 1 && an.InLoop(creates[0]) && an.InLoop(execs[0]) && an.InstrDominates(creates[0], execs[0])
	c.Check("R-COUNT", name+"/one-agent-one-process-per-path", "each extension path yields exactly one agent object and at most one process start, the agent first", okLoop, fpos(f), 2, "create sites: %d, exec sites: %d", len(creates), len(execs))
	if len(creates) == 1 {
		bc, _ := an.CallOf(creates[0].Common().Args[0])
		okBase := bc != nil && an.Callee(bc) == "path.Base" && isRangeElem(bc.Call.Args[0])
		c.Check("R-WIRE", name+"/agent-named-by-base-name", "an external extension is named by the base name of its path", okBase, an.InstrPos(creates[0]), 1, "CreateExternalAgent(path.Base(agentPath)): %v", okBase)
		facts := an.NewFacts(f)
		if len(execs) == 1 {
			nilCreate := facts.Holds(execs[0].Block(), func(ft an.Fact) bool {
				return an.CmpNil(ft, true, func(v ssa.Value) bool {
					cl, idx := an.CallOf(v)
					return cl != nil && ssa.Instruction(cl) == ssa.Instruction(creates[0]) && idx == 1
				})
			})
			c.Check("R-GUARD", name+"/exec-after-agent-created", "a process is started only for an agent that was created (registration open, name free)", nilCreate, an.InstrPos(execs[0]), 1, "facts: %s", factsString(facts.At(execs[0].Block())))
			// Exec's Path is the ranged path
			okPath := false
			for _, st := range an.Stores(f, "L/supervisor/model.ExecRequest", "Path") {
				okPath = isRangeElem(st.Val)
			}
			c.Check("R-WIRE", name+"/exec-path", "the process started is the extension file itself", okPath, an.InstrPos(execs[0]), 1, "ExecRequest.Path is the loop's path: %v", okPath)
		}
	}
}

func isRangeElem(v ssa.Value) bool {
	v = an.Strip(v, true)
	if u, ok := v.(*ssa.UnOp); ok && u.Op == token.MUL {
		_, isIA := u.X.(*ssa.IndexAddr)
		return isIA
	}
	return false
}

func checkDoRuntimeDomainInit(c *report.Ctx) {
	f := fn(c, "L/rapid", "doRuntimeDomainInit")
	if f == nil {
		return
	}
	name := an.FuncName(f)
	isTrue := func(v ssa.Value) bool { b, ok := an.ConstBool(v); return ok && b }
	ok := checkChain(c, f, "runtime domain init", []step{
		callStep("doInitExtensions", true, true, "L/rapid.doInitExtensions"),
		callStep("PreregisterRuntime", true, false, regSvcI+"PreregisterRuntime"),
		callStep("runtime Exec", true, false, supExec),
		callStep("createExitedChannel", false, false, "L/rapid.shutdownContext.createExitedChannel"),
		callStep("AwaitRuntimeRestoreReady", true, false, initFlowI+"AwaitRuntimeRestoreReady"),
		callStep("TurnOff", false, false, regSvcI+"TurnOff"),
		callStep("GetRegisteredAgentsSize", false, true, regSvcI+"GetRegisteredAgentsSize"),
		callStep("SetAgentsReadyCount", true, true, initFlowI+"SetAgentsReadyCount"),
		callStep("AwaitAgentsReady", true, true, initFlowI+"AwaitAgentsReady"),
		storeStep("initDone = true", rapidCtxT, "initDone", isTrue),
	}, successNilErr)
	_ = ok
	facts := an.NewFacts(f)
	// guarded steps sit under extensions.AreEnabled()
	for _, callee := range []string{"L/rapid.doInitExtensions", initFlowI + "SetAgentsReadyCount", initFlowI + "AwaitAgentsReady"} {
		for _, call := range an.CallsTo(f, callee) {
			g := guardedByTrue(facts, call, "L/extensions.AreEnabled")
			c.Check("R-GUARD", sprintf("%s/guard/%s", name, strings.TrimPrefix(callee, "L/")), "the extension steps run exactly when extensions are enabled", g, an.InstrPos(call), 1, "under extensions.AreEnabled(): %v", g)
		}
	}
	// the guarded awaits' error edges leave the function: initDone store has their nil facts when they ran.
	// Decided on the CFG without the error edges of the guarded calls: the store stays reachable, and with them
	// removed no path reaches the store from a failing guarded call.
	for _, callee := range []string{"L/rapid.doInitExtensions", initFlowI + "SetAgentsReadyCount", initFlowI + "AwaitAgentsReady"} {
		for _, call := range an.CallsTo(f, callee) {
			v := call.Value()
			errLeaves := false
			for _, b := range f.Blocks {
				if facts.Holds(b, func(ft an.Fact) bool {
					return an.CmpNil(ft, false, func(x ssa.Value) bool { return an.Strip(x, false) == ssa.Value(v) })
				}) {
					if _, isRet := b.Instrs[len(b.Instrs)-1].(*ssa.Return); isRet {
						errLeaves = true
					}
				}
			}
			c.Check("R-GUARD", sprintf("%s/error-edge-returns/%s", name, strings.TrimPrefix(callee, "L/")), "a failing extension step aborts the initialisation (its error edge returns)", errLeaves, an.InstrPos(call), 1, "error edge returns: %v", errLeaves)
		}
	}
	// count argument is the registered size obtained after TurnOff
	for _, call := range an.CallsTo(f, initFlowI+"SetAgentsReadyCount") {
		okArg := an.IsResultOf(call.Common().Args[0], regSvcI+"GetRegisteredAgentsSize", -1)
		c.Check("R-WIRE", name+"/ready-count-is-registered-size", "the number of extensions awaited at the ready barrier is the number registered when registration closed", okArg, an.InstrPos(call), 1, "argument is GetRegisteredAgentsSize(): %v", okArg)
	}
	// the runtime registered is a fresh automaton on the two flows
	for _, call := range an.CallsTo(f, regSvcI+"PreregisterRuntime") {
		okRt := an.IsResultOf(call.Common().Args[0], "L/core.NewRuntime", -1)
		c.Check("R-WIRE", name+"/fresh-runtime", "each initialisation registers a freshly created runtime automaton", okRt, an.InstrPos(call), 1, "argument is NewRuntime(...): %v", okRt)
	}
	// the process started is the bootstrap command
	okCmd := false
	for _, st := range an.Stores(f, "L/supervisor/model.ExecRequest", "Domain") {
		if s, k := an.ConstString(st.Val); k && s == "runtime" {
			okCmd = true
		}
	}
	c.Check("R-CONST", name+"/runtime-domain", "the runtime is started in the runtime domain", okCmd, fpos(f), 1, "Domain constant: %v", okCmd)
}

func checkReleaseAfterInit(c *report.Ctx) {
	outer := fn(c, "L/rapid", "doInvoke$1")
	if outer == nil {
		return
	}
	facts := an.NewFacts(outer)
	// inline init: under !initDone; its error edge returns
	inits := an.CallsTo(outer, "L/telemetry.Tracer.CaptureInitSubsegment")
	okInit := len(inits) == 1
	detail := sprintf("%d inline init sites", len(inits))
	if okInit {
		call := inits[0]
		notDone := facts.Holds(call.Block(), func(ft an.Fact) bool { return !ft.Val && loadOf(rapidCtxT, "initDone")(ft.Cond) })
		// the closure passed runs doRuntimeDomainInit
		inner := false
		for _, a := range outer.AnonFuncs {
			if len(an.CallsTo(a, "L/rapid.doRuntimeDomainInit")) == 1 {
				ex := an.Exits(a)
				inner = len(ex) == 1 && an.IsResultOf(ex[0].Vals[0], "L/rapid.doRuntimeDomainInit", -1)
			}
		}
		okInit = notDone && inner
		detail = sprintf("inline init only when !initDone: %v; closure returns doRuntimeDomainInit's result: %v", notDone, inner)
	}
	c.Check("R-GUARD", an.FuncName(outer)+"/inline-init", "an invocation arriving before initialisation completed runs the initialisation inline", okInit, fpos(outer), 1, "%s", detail)
	// every later step (InitializeBarriers and the release closure) is reached with initDone true or inline init nil
	for _, callee := range []string{invokeFlowI + "InitializeBarriers", "L/telemetry.Tracer.CaptureInvokeSubsegment"} {
		for _, call := range an.CallsTo(outer, callee) {
			b := call.Block()
			ok := facts.Holds(b, func(ft an.Fact) bool { return ft.Val && loadOf(rapidCtxT, "initDone")(ft.Cond) }) ||
				(len(inits) == 1 && facts.Holds(b, func(ft an.Fact) bool {
					return an.CmpNil(ft, true, func(v ssa.Value) bool { return an.Strip(v, false) == ssa.Value(inits[0].Value()) })
				}))
			// join of the two: use the pruned CFG (error edge of the inline init removed): the call must be unreachable otherwise
			if !ok && len(inits) == 1 {
				ord := an.NewOrderPruned(outer, func(ssa.Instruction) uint64 { return 0 }, func(from, to *ssa.BasicBlock) bool {
					ifi, isIf := from.Instrs[len(from.Instrs)-1].(*ssa.If)
					if !isIf {
						return false
					}
					cnd, pol := normC(ifi.Cond)
					bo, isBo := cnd.(*ssa.BinOp)
					if !isBo || !(an.IsNil(bo.Y) || an.IsNil(bo.X)) {
						return false
					}
					x := bo.X
					if an.IsNil(bo.X) {
						x = bo.Y
					}
					if an.Strip(x, false) != ssa.Value(inits[0].Value()) {
						return false
					}
					nonNilOnTrue := (bo.Op == token.NEQ) == pol
					if nonNilOnTrue {
						return from.Succs[0] == to
					}
					return from.Succs[1] == to
				})
				// error edge of inline init must end in return before reaching call
				errReturns := true
				for _, bb := range outer.Blocks {
					if facts.Holds(bb, func(ft an.Fact) bool {
						return an.CmpNil(ft, false, func(v ssa.Value) bool { return an.Strip(v, false) == ssa.Value(inits[0].Value()) })
					}) {
						for _, s := range bb.Succs {
							if !facts.Holds(s, func(ft an.Fact) bool {
								return an.CmpNil(ft, false, func(v ssa.Value) bool { return an.Strip(v, false) == ssa.Value(inits[0].Value()) })
							}) {
								errReturns = false
							}
						}
					}
				}
				ok = ord.Reached(call) && errReturns
			}
			c.Check("R-GUARD", sprintf("%s/after-init/%s", an.FuncName(outer), strings.TrimPrefix(callee, "L/")), "barriers are armed and parties released only when initialisation is done (initDone) or the inline initialisation just succeeded", ok, an.InstrPos(call), 1, "reached only with init done or inline init nil: %v", ok)
		}
	}
}

func checkRegistrationCloses(c *report.Ctx) {
	// insert guards: shared with C13 (service on, under mutex)
	RS := "L/core.registrationServiceImpl"
	isState := loadOf(RS, "state")
	for _, fnName := range []string{"CreateInternalAgent", "CreateExternalAgent"} {
		f := fn(c, coreP, "(*registrationServiceImpl)."+fnName)
		if f == nil {
			continue
		}
		facts := an.NewFacts(f)
		held := an.NewHeld(f)
		ins := an.Calls(f, func(s string) bool { return strings.HasSuffix(s, "AgentsMap.Insert") })
		ok := len(ins) == 1
		if ok {
			on := facts.Holds(ins[0].Block(), func(ft an.Fact) bool {
				return an.CmpEq(ft, true, isState, func(v ssa.Value) bool { n, k := an.ConstInt(v); return k && n == 0 })
			})
			ok = on && held.At(ins[0])[f.Params[0].Name()+".mutex"]
		}
		c.Check("R-GUARD", an.FuncName(f)+"/refused-once-closed", "a registration is recorded only while registration is open, test and insert being one critical section (once TurnOff ran, i.e. once the first invocation can be delivered, registration is refused)", ok, fpos(f), 1, "insert guarded by state == on under the mutex: %v", ok)
		offErr := false
		for _, e := range an.Exits(f) {
			if len(e.Vals) == 2 && an.GlobalOf(e.Vals[1]) == "L/core.ErrRegistrationServiceOff" {
				offErr = true
			}
		}
		c.Check("R-CONST", an.FuncName(f)+"/closed-error", "a late registration is refused with ErrRegistrationServiceOff", offErr, fpos(f), 1, "%v", offErr)
	}
	w := storesTo(c, RS, "state")
	var closers []string
	for fw, sts := range w {
		for _, st := range sts {
			if n, k := an.ConstInt(st.Val); k && n == 1 {
				closers = append(closers, an.FuncName(fw))
			}
		}
	}
	c.Check("R-WHO", RS+".state/closed-only-by-TurnOff", "registration is closed only by TurnOff", strings.Join(closers, ",") == RS+".TurnOff", token.NoPos, len(w), "closers: %v", closers)
	sites := callSites(c, regSvcI+"TurnOff")
	c.Check("R-WHO", regSvcI+"TurnOff/callers", "TurnOff is called only by the runtime domain initialisation, after the runtime reached its first poll", strings.Join(siteFns(sites), ",") == "L/rapid.doRuntimeDomainInit", token.NoPos, len(sites), "callers: %v", siteFns(sites))
}

// checkInitGateArrivals: who arrives at / sizes / awaits the four init gates.
func checkInitGateArrivals(c *report.Ctx) {
	want := map[string][]string{
		initFlowI + "ExternalAgentRegistered":        {"L/core.ExternalAgentStartedState.Register"},
		initFlowI + "RuntimeRestoreReady":            {"L/core.RuntimeStartedState.Ready", "L/core.RuntimeStartedState.RestoreReady"},
		initFlowI + "RuntimeReady":                   {"L/core.RuntimeRestoringState.Ready", "L/core.RuntimeStartedState.Ready"},
		initFlowI + "AgentReady":                     {"L/core.ExternalAgentRegisteredState.Ready", "L/core.InternalAgentRegisteredState.Ready"},
		initFlowI + "SetExternalAgentsRegisterCount": {"L/rapid.doInitExtensions"},
		initFlowI + "SetAgentsReadyCount":            {"L/rapid.doRuntimeDomainInit"},
		initFlowI + "AwaitExternalAgentsRegistered":  {"L/rapid.doInitExtensions"},
		initFlowI + "AwaitRuntimeRestoreReady":       {"L/rapid.doRuntimeDomainInit"},
		initFlowI + "AwaitAgentsReady":               {"L/rapid.doRuntimeDomainInit"},
		initFlowI + "AwaitRuntimeReadyWithDeadline":  {"L/rapid.handleRestore"},
		"L/core.Suspendable.SuspendUnsafe": {"L/core.ExternalAgent.SuspendUnsafe", "L/core.ExternalAgentRegisteredState.Ready", "L/core.ExternalAgentRunningState.Ready", "L/core.InternalAgent.SuspendUnsafe", "L/core.InternalAgentRegisteredState.Ready", "L/core.InternalAgentRunningState.Ready",
			"L/core.RuntimeReadyState.Ready", "L/core.RuntimeResponseSentState.Ready", "L/core.RuntimeRestoringState.Ready", "L/core.RuntimeStartedState.Ready", "L/core.RuntimeStartedState.RestoreReady"},
	}
	for callee, w := range want {
		got := siteFns(callSites(c, callee))
		c.Check("R-WHO", "init-gates/"+strings.TrimPrefix(callee, "L/core."), "the init barriers are sized, awaited and walked through only by the documented parties (a party arrives exactly in the transition that parks it)", strings.Join(got, ",") == strings.Join(w, ","), token.NoPos, len(got), "callers: %v", got)
	}
}

// checkTracerWrappers: the emulator's tracer calls the wrapped function exactly once and returns its result.
func checkTracerWrappers(c *report.Ctx) {
	for _, m := range []string{"CaptureInvokeSegment", "CaptureInitSubsegment", "CaptureInvokeSubsegment", "CaptureOverheadSubsegment"} {
		f := fn(c, "L/telemetry", "(*NoOpTracer)."+m)
		if f == nil {
			continue
		}
		ex := an.Exits(f)
		ok := len(ex) == 1
		if ok {
			cl, _ := an.CallOf(ex[0].Vals[0])
			ok = cl != nil
			if ok {
				_, isParam := cl.Call.Value.(*ssa.Parameter)
				ok = isParam
			}
		}
		ncalls := 0
		an.AllInstrs(f, func(in ssa.Instruction) {
			if _, k := in.(ssa.CallInstruction); k {
				ncalls++
			}
		})
		c.Check("R-COUNT", an.FuncName(f)+"/calls-once", "the tracer wrapper runs the wrapped step exactly once, synchronously, and returns its result (the orchestration order seen in the closures is the execution order)", ok && ncalls == 1, fpos(f), 1, "single call of the parameter, result returned: %v", ok && ncalls == 1)
	}
	for _, m := range []string{"WithErrorCause", "WithError"} {
		f := fn(c, "L/telemetry", "(*NoOpTracer)."+m)
		if f == nil {
			continue
		}
		ex := an.Exits(f)
		ok := len(ex) == 1
		if ok {
			_, ok = ex[0].Vals[0].(*ssa.Parameter)
		}
		c.Check("R-COUNT", an.FuncName(f)+"/identity", "the error-decorating wrapper returns the function it was given", ok, fpos(f), 1, "%v", ok)
	}
	// the emulator is built with this tracer
	if b := fn(c, rapidcP, "NewSandboxBuilder"); b != nil {
		ok := false
		for _, st := range an.Stores(b, "L/rapid.Sandbox", "Tracer") {
			ok = an.IsResultOf(an.Strip(st.Val, false), "L/telemetry.NewNoOpTracer", -1)
		}
		c.Check("R-WIRE", an.FuncName(b)+"/tracer", "the emulator's sandbox uses the no-op tracer", ok, fpos(b), 1, "%v", ok)
	}
}

var _ = report.Discharged
