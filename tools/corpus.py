#!/usr/bin/env python3
"""Runs the whole variant corpus against the current checker, one process per variant (all properties, one load):
  seeded/*/patch.diff            expected: reported by at least one check (and by its own property's check: flagged if not)
  selftest/Cxx/<name>.diff       expected: reported by Cxx        (neg-*: silent on Cxx)
  selftest/ALL/neg-*.diff        expected: silent on every check
usage: corpus.py [-j N] [substring filters...]   Writes corpus/RESULT.json and prints the unexpected ones."""
import glob, json, os, shutil, subprocess, sys, tempfile, concurrent.futures as cf
HERE = os.path.abspath(os.path.join(os.path.dirname(os.path.abspath(__file__)), ".."))
BIN = os.environ.get("RIECHECK_BIN", os.path.join(HERE, "bin", "riecheck"))
ENV = dict(os.environ, GOFLAGS="-mod=mod", GOPROXY="off", GOSUMDB="off", GOTOOLCHAIN="local"); ENV.pop("GOWORK", None)
args = sys.argv[1:]; jobs = 6
if args and args[0] == "-j": jobs = int(args[1]); args = args[2:]
items = []
for m in sorted(glob.glob(os.path.join(HERE, "seeded", "*", "patch.diff"))):
    sid = os.path.basename(os.path.dirname(m)); items.append(("seed", sid, m, sid.split("-")[0]))
for m in sorted(glob.glob(os.path.join(HERE, "selftest", "C*", "*.diff"))):
    prop = os.path.basename(os.path.dirname(m)); name = os.path.basename(m)[:-5]
    items.append(("self-neg" if name.startswith("neg-") else "self", prop + "/" + name, m, prop))
for m in sorted(glob.glob(os.path.join(HERE, "selftest", "ALL", "neg-*.diff"))):
    items.append(("neg", os.path.basename(m)[:-5], m, None))
# generated negatives: selftest/ALL/neg-gen-<name>.gen holds {"tool": <checker/cmd/tool>, "args": [...]}; the tool rewrites
# the scratch copy in place into the same program written differently (every local renamed, every condition negated, ...)
for m in sorted(glob.glob(os.path.join(HERE, "selftest", "ALL", "neg-gen-*.gen"))):
    items.append(("neg", os.path.basename(m)[:-4], m, None))
if args: items = [it for it in items if any(a in it[1] or a == it[0] for a in args)]
TOOLS = {}
def tool(name):
    if name not in TOOLS:
        out = os.path.join(tempfile.gettempdir(), "rie-gen-" + name)
        subprocess.run(["go", "build", "-o", out, "./cmd/" + name], cwd=os.path.join(HERE, "checker"), env=ENV, check=True)
        TOOLS[name] = out
    return TOOLS[name]
for it in items:
    if it[2].endswith(".gen"): tool(json.load(open(it[2]))["tool"])
def run(it):
    kind, name, diff, prop = it
    scratch = tempfile.mkdtemp(prefix="rie-corpus-")
    try:
        dst = os.path.join(scratch, "repo")
        shutil.copytree("/repo", dst, ignore=shutil.ignore_patterns(".git"))
        if diff.endswith(".gen"):
            spec = json.load(open(diff))
            if subprocess.run([tool(spec["tool"]), dst] + spec.get("args", []), env=ENV, capture_output=True).returncode != 0:
                return it, None, "generator failed"
            if subprocess.run(["go", "build", "./..."], cwd=dst, env=ENV, capture_output=True).returncode != 0:
                return it, None, "generated variant does not build"
        elif subprocess.run(["git", "apply", "--whitespace=nowarn", diff], cwd=dst, capture_output=True).returncode != 0:
            return it, None, "does not apply"
        pr = subprocess.run([BIN, "-property", "all", "-repo", dst, "-verif", HERE, "-no-evidence"], env=ENV, capture_output=True, text=True)
        res, keys, cur = {}, {}, []
        for l in pr.stdout.splitlines():
            ls = l.strip()
            if ls.startswith(("violated ", "UNRESOLVED", "ERROR")): cur.append(ls[:200])
            if l.startswith("RESULT "):
                p, rc = l.split()[1], int(l.split()[2][3:]); res[p] = rc; keys[p] = cur; cur = []
        if not res: return it, None, "no result: " + (pr.stdout + pr.stderr)[-300:]
        return it, res, keys
    finally:
        shutil.rmtree(scratch, ignore_errors=True)
out, bad = {}, 0
with cf.ThreadPoolExecutor(max_workers=jobs) as ex:
    for it, res, keys in ex.map(run, items):
        kind, name, diff, prop = it
        if res is None:
            print("BROKEN", kind, name, keys); bad += 1; out[name] = {"kind": kind, "error": keys}; continue
        fired = sorted(p for p, rc in res.items() if rc == 1); undec = sorted(p for p, rc in res.items() if rc not in (0, 1))
        verdict = "ok"
        if kind == "seed":
            if not fired: verdict = "MISSED"
            elif prop not in fired: verdict = "caught-elsewhere"
        elif kind == "self":
            if prop not in fired: verdict = "MISSED"
        elif kind == "self-neg":
            if prop in fired or prop in undec: verdict = "FALSE-ALARM"
        elif kind == "neg":
            if fired or undec: verdict = "FALSE-ALARM"
        if undec and kind != "neg" and verdict == "ok": verdict = "ok(undecided:%s)" % ",".join(undec)
        out[name] = {"kind": kind, "fired": fired, "undecided": undec, "verdict": verdict, "keys": {p: k[:3] for p, k in keys.items() if k}}
        if verdict not in ("ok",):
            bad += verdict in ("MISSED", "FALSE-ALARM")
            print("%-16s %-8s %-44s fired=%s undecided=%s" % (verdict, kind, name, ",".join(fired), ",".join(undec)), flush=True)
            if verdict == "FALSE-ALARM":
                for p in fired + undec:
                    for k in keys.get(p, [])[:2]: print("      ", p, k[:160])
os.makedirs(os.path.join(HERE, "corpus"), exist_ok=True)
json.dump(out, open(os.path.join(HERE, "corpus", "RESULT.json"), "w"), indent=1, sort_keys=True)
n = len(out); print("variants %d; missed/false-alarm/broken: %d" % (n, bad))
