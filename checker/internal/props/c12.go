package props

import (
	"go/token"
	"go/types"
	"sort"
	"strings"

	"golang.org/x/tools/go/ssa"

	"verif/checker/internal/an"
	"verif/checker/internal/report"
)

// The documented runtime lifecycle (docs in lambda/core/doc.go and the
// Runtime API specification), one line per non-refusing cell. Everything not
// listed is REFUSE. Notation of a cell: ordered effects ';'-separated, then
// the kinds of results the call can return.
//
//	set(T)                      the current state becomes the T object installed by NewRuntime
//	init.X / invoke.X           arrival X on the init / invoke flow
//	park                        the calling thread is suspended until released by the platform
var runtimeRef = map[string]map[string]string{
	"RuntimeStartedState": {
		// first /next: restore phase skipped, runtime ready, wait for first invoke, then running
		"Ready": "set(RuntimeReadyState);init.RuntimeRestoreReady;init.RuntimeReady;park;set(RuntimeRunningState) -> ErrConcurrentStateModification|flowerr|nil",
		// /restore/next: parked until restore, then restoring
		"RestoreReady": "set(RuntimeRestoreReadyState);init.RuntimeRestoreReady;park;set(RuntimeRestoringState) -> ErrConcurrentStateModification|flowerr|nil",
		// /init/error is accepted only before the first /next
		"InitError": "set(RuntimeInitErrorState) -> nil",
	},
	"RuntimeRestoringState": {
		"Ready":        "set(RuntimeReadyState);init.RuntimeReady;park;set(RuntimeRunningState) -> ErrConcurrentStateModification|flowerr|nil",
		"RestoreError": "set(RuntimeRestoreErrorState);init.CancelWithError(L/interop.ErrRestoreHookUserError) -> nil",
	},
	"RuntimeReadyState": {
		"Ready": "park;set(RuntimeRunningState) -> ErrConcurrentStateModification|nil",
	},
	"RuntimeRunningState": {
		// repeated /next before responding: same invocation again, no state change
		"Ready":                   " -> nil",
		"InvocationResponse":      "set(RuntimeInvocationResponseState) -> nil",
		"InvocationErrorResponse": "set(RuntimeInvocationErrorResponseState) -> nil",
	},
	"RuntimeInvocationResponseState": {
		"ResponseSent": "set(RuntimeResponseSentState);invoke.RuntimeResponse -> flowerr",
	},
	"RuntimeInvocationErrorResponseState": {
		"ResponseSent": "set(RuntimeResponseSentState);invoke.RuntimeResponse -> flowerr",
	},
	"RuntimeResponseSentState": {
		"Ready": "set(RuntimeReadyState);invoke.RuntimeReady;park;set(RuntimeRunningState) -> ErrConcurrentStateModification|flowerr|nil",
	},
	"RuntimeInitErrorState":    {},
	"RuntimeRestoreReadyState": {},
	"RuntimeRestoreErrorState": {},
}

var runtimeStateNames = map[string]string{
	"RuntimeStartedState": "Started", "RuntimeInitErrorState": "InitError", "RuntimeReadyState": "Ready", "RuntimeRunningState": "Running",
	"RuntimeRestoreReadyState": "RestoreReady", "RuntimeRestoringState": "Restoring", "RuntimeInvocationResponseState": "InvocationResponse",
	"RuntimeInvocationErrorResponseState": "InvocationErrorResponse", "RuntimeResponseSentState": "RuntimeResponseSentState", "RuntimeRestoreErrorState": "RuntimeRestoreErrorState",
}

func init() {
	register(&Prop{
		Spec: report.Spec{
			ID: "C12",
			Explanation: "The complete runtime lifecycle automaton is extracted from the state-object pattern (10 state types x 7 calls, read from go/types method sets and the SSA of every overriding method, with set(<field>) resolved through NewRuntime's wiring) and compared cell by cell with the documented automaton; refused calls are proved effect-free (the base methods consist of 'return ErrNotAllowed' only); " +
				"the current state has a single writer reachable only through locking wrappers; each HTTP handler performs its transition before any other effect and answers 403 InvalidStateTransition without effect when refused; the route table has the documented methods/patterns, request-id routes are wrapped in the id validator (400), restore routes and the credentials router are mounted only in snapshot mode; the park primitive waits in a loop. " +
				"Added after the blind rounds: refusal-path, restore-guard and reply-sink rules; Runtime.Release always posts the sticky release; no connection deadlines on the long polls. " +
				"NOT decided: wake-up timing, HTTP status as seen on the wire (net/http, chi are trusted), behaviour over call sequences beyond what follows from the per-cell automaton.",
			RuleText:    "one obligation per automaton cell, per base method, per wrapper, per handler ordering rule, per route; non-trivial when an SSA function, method-set selection or call site was inspected",
			Assumptions: append([]string{"chi answers 404/405 for unregistered routes/methods (library behaviour)", "effects hidden behind interface calls other than the flow/park/setState vocabulary are reported as 'call X' effects and therefore flagged, not ignored"}, trusted...),
			MinObs:      120,
		},
		Run: runC12,
	})
}

func runtimeFSM() fsmSpec {
	return fsmSpec{Owner: "Runtime", Iface: "RuntimeState", Base: "disallowEveryTransitionByDefault", Ctor: "NewRuntime", OwnerRef: "runtime",
		SetState: "setStateUnsafe", Current: "currentState", Skip: []string{"Name"}, Reference: runtimeRef, Initial: "RuntimeStartedState"}
}

func runC12(c *report.Ctx) {
	c.Clause("1 automaton")
	spec := runtimeFSM()
	m := extractFSM(c, spec)
	checkFSM(c, spec, m)
	if m != nil {
		checkStateNames(c, "L/core.Runtime", m.states, runtimeStateNames)
	}
	c.Clause("2 park primitive")
	checkManagedThread(c)
	c.Clause("2b a repeated next returns the same invocation")
	checkEventBuffer(c, false)
	c.Clause("3 handlers")
	checkRuntimeHandlers(c)
	c.Clause("3b the reservation a runtime answers to is released only by its own success; restore releases only a parked runtime")
	checkInvokeRefusalPath(c)
	checkHandleRestore(c)
	checkNoServerTimeouts(c)
	checkRuntimeReleaseUnconditional(c)
	checkReplySinkGuards(c)
	checkTransitionBeforeBody(c)
	checkOnlyOwnMiddleware(c)
	c.Clause("4 routes")
	checkRuntimeRoutes(c)
}

// checkManagedThread: SuspendUnsafe waits in a loop on the release flag and
// consumes it; Release sets it under the lock and signals.
func checkManagedThread(c *report.Ctx) {
	T := "L/core.ManagedThread"
	sus := fn(c, coreP, "(*ManagedThread).SuspendUnsafe")
	rel := fn(c, coreP, "(*ManagedThread).Release")
	if sus == nil || rel == nil {
		return
	}
	facts := an.NewFacts(sus)
	waits := an.CallsTo(sus, condWait)
	okWait := len(waits) == 1
	detail := sprintf("%d Wait calls", len(waits))
	if okWait {
		w := waits[0]
		flagFalse := facts.Holds(w.Block(), func(f an.Fact) bool { return !f.Val && loadOf(T, "operatorConditionValue")(f.Cond) })
		okWait = an.InLoop(w) && flagFalse
		detail = sprintf("in loop: %v; guarded by !operatorConditionValue: %v", an.InLoop(w), flagFalse)
	}
	c.Check("R-GUARD", T+".SuspendUnsafe/wait-in-loop", "a parked thread waits in a loop until the release flag is set (/next blocks until an invocation is available; spurious wake-ups re-test)", okWait, fpos(sus), 1, "%s", detail)
	sts := an.Stores(sus, T, "operatorConditionValue")
	okConsume := len(sts) == 1
	if okConsume {
		v, isC := an.ConstBool(sts[0].Val)
		okConsume = isC && !v && facts.Holds(sts[0].Block(), func(f an.Fact) bool { return f.Val && loadOf(T, "operatorConditionValue")(f.Cond) })
	}
	c.Check("R-ORDER", T+".SuspendUnsafe/consumes-release", "the release flag is consumed (reset to false) only after it was observed set, so one release wakes one park", okConsume, fpos(sus), len(sts), "%d stores", len(sts))
	held := an.NewHeld(rel)
	rs := an.Stores(rel, T, "operatorConditionValue")
	sig := an.CallsTo(rel, condSig, condBcast)
	okRel := len(rs) == 1 && len(sig) == 1
	if okRel {
		v, isC := an.ConstBool(rs[0].Val)
		lp := rel.Params[0].Name() + ".operatorCondition.L"
		okRel = isC && v && held.At(rs[0])[lp] && held.At(sig[0])[lp] && an.InstrDominates(rs[0], sig[0])
	}
	c.Check("R-SIGNAL", T+".Release/set-then-signal-under-lock", "Release sets the flag and signals while holding the thread's mutex (no lost wake-up)", okRel, fpos(rel), len(rs)+len(sig), "stores: %d, signals: %d", len(rs), len(sig))
	w := storesTo(c, T, "operatorConditionValue")
	var others []string
	for f := range w {
		n := an.FuncName(f)
		if !oneOf(n, T+".SuspendUnsafe", T+".Release", "L/core.NewManagedThread") {
			others = append(others, n)
		}
	}
	c.Check("R-WHO", T+".operatorConditionValue/writers", "the release flag is written only by Release, SuspendUnsafe and the constructor", len(others) == 0, fpos(rel), len(w), "other writers: %v", others)
}

// handlerRule: in function f, the transition call `trans` must precede every
// effect; its error edge must render 403 InvalidStateTransition and return.
type handlerRule struct {
	pkg, fn     string
	transitions []string // callee names of the transition calls
	pureBefore  []string // callees allowed before the transition
}

var effectCalleesPrefix = []string{
	"L/interop.InvokeResponseSender.", "L/interop.Server.", "L/appctx.Store", "L/core.Runtime.ResponseSent",
	"L/rapi/rendering.EventRenderingService.RenderRuntimeEvent", "L/rapi/rendering.EventRenderingService.RenderAgentEvent", "L/rapi/rendering.RenderAccepted",
	"L/core.RegistrationService.CreateInternalAgent",
}

var agentTransitions = []string{"Register", "Ready", "InitError", "ExitError", "ShutdownFailed", "Exited", "LaunchError", "Release", "SetState"}

func isEffectCall(cal string) bool {
	for _, p := range effectCalleesPrefix {
		if strings.HasPrefix(cal, p) {
			return true
		}
	}
	for _, owner := range []string{"L/core.ExternalAgent.", "L/core.InternalAgent.", "L/core.Runtime."} {
		if strings.HasPrefix(cal, owner) && oneOf(strings.TrimPrefix(cal, owner), append(agentTransitions, "RestoreReady", "InvocationResponse", "InvocationErrorResponse", "ResponseSent", "RestoreError")...) {
			return true
		}
	}
	return false
}

func checkRuntimeHandlers(c *report.Ctx) {
	rt := "L/core.Runtime."
	rules := []handlerRule{
		{"L/rapi/handler", "(*invocationNextHandler).ServeHTTP", []string{rt + "Ready"}, nil},
		{"L/rapi/handler", "(*restoreNextHandler).ServeHTTP", []string{rt + "RestoreReady"}, nil},
		{"L/rapi/handler", "(*invocationResponseHandler).ServeHTTP", []string{rt + "InvocationResponse"}, nil},
		{"L/rapi/handler", "(*invocationErrorHandler).ServeHTTP", []string{rt + "InvocationErrorResponse"}, nil},
		{"L/rapi/handler", "(*restoreErrorHandler).ServeHTTP", []string{rt + "RestoreError"}, nil},
		{"L/rapi/handler", "(*initErrorHandler).ServeHTTP", []string{rt + "RestoreError", rt + "InitError"}, nil},
	}
	for _, r := range rules {
		f := fn(c, r.pkg, r.fn)
		if f == nil {
			continue
		}
		checkTransitionFirst(c, f, r.transitions, "L/core.Runtime.", "L/rapi/rendering.ErrorTypeInvalidStateTransition")
	}
}

// checkTransitionFirst decides, for an HTTP handler f:
//   - every effect call is preceded on all paths by a transition call whose
//     nil edge is known at that point ("transition first");
//   - on the error edge of each transition the handler renders 403 with the
//     given error type constant and returns without any effect call.
func checkTransitionFirst(c *report.Ctx, f *ssa.Function, transitions []string, ownerPrefix, errTypeConst string) {
	name := an.FuncName(f)
	facts := an.NewFacts(f)
	var trans []ssa.CallInstruction
	for _, t := range transitions {
		trans = append(trans, an.CallsTo(f, t)...)
	}
	c.Check("R-COUNT", name+"/transition-sites", "the handler performs its state transition(s): "+strings.Join(transitions, ", "), len(trans) == len(transitions), fpos(f), len(trans), "%d transition call sites", len(trans))
	isTrans := map[ssa.Instruction]bool{}
	transVal := map[ssa.Value]bool{}
	for _, t := range trans {
		isTrans[t] = true
		if tv := t.Value(); tv != nil {
			transVal[tv] = true
		}
	}
	// error edges of tested transitions: If(cond) where cond compares a transition result with nil
	errEdge := func(from, to *ssa.BasicBlock) bool {
		ifi, ok := from.Instrs[len(from.Instrs)-1].(*ssa.If)
		if !ok {
			return false
		}
		cnd, pol := normC(ifi.Cond)
		bo, ok := cnd.(*ssa.BinOp)
		if !ok || (bo.Op != token.NEQ && bo.Op != token.EQL) {
			return false
		}
		var x ssa.Value
		if an.IsNil(bo.Y) {
			x = bo.X
		} else if an.IsNil(bo.X) {
			x = bo.Y
		} else {
			return false
		}
		if !transVal[an.Strip(x, false)] {
			return false
		}
		// edge index on which "x != nil" holds
		nonNilOnTrue := (bo.Op == token.NEQ) == pol
		if nonNilOnTrue {
			return from.Succs[0] == to && from.Succs[1] != to
		}
		return from.Succs[1] == to && from.Succs[0] != to
	}
	// every transition result is tested against nil by a branch
	for ti, t := range trans {
		tested := false
		if tv := t.Value(); tv != nil {
			for _, ref := range *tv.Referrers() {
				if bo, ok := ref.(*ssa.BinOp); ok && (an.IsNil(bo.X) || an.IsNil(bo.Y)) {
					for _, r2 := range *bo.Referrers() {
						if _, ok := r2.(*ssa.If); ok {
							tested = true
						}
					}
				}
			}
		}
		c.Check("R-GUARD", sprintf("%s/transition%d-result-tested", name, ti), "the result of the transition is tested before anything else depends on it", tested, an.InstrPos(t), 1, "result compared with nil in a branch: %v", tested)
	}
	ord := an.NewOrderPruned(f, func(in ssa.Instruction) uint64 {
		if isTrans[in] {
			return 1
		}
		return 0
	}, errEdge)
	neff := 0
	an.AllInstrs(f, func(ins ssa.Instruction) {
		call, ok := ins.(ssa.CallInstruction)
		if !ok {
			return
		}
		cal := an.Callee(call)
		if !isEffectCall(cal) || oneOf(cal, transitions...) {
			return
		}
		if !ord.Reached(ins) {
			return // only reachable over an error edge: judged by the refusal rule below
		}
		neff++
		must, _ := ord.Before(ins)
		c.Check("R-ORDER", sprintf("%s/effect-after-transition/%s", name, cal), "the effect happens only on paths on which a state transition was performed and accepted (nil), so a refused or unknown caller has no effect", must&1 != 0, an.InstrPos(ins), 1,
			"a transition certainly precedes on the accepted paths: %v", must&1 != 0)
	})
	c.Check("R-COUNT", name+"/has-effects", "the handler's effect calls were recognised", neff >= 1, fpos(f), neff, "%d effect calls", neff)
	// error edge: 403 + return, no effects
	for ti, t := range trans {
		tv := t.Value()
		var errBlocks []*ssa.BasicBlock
		for _, b := range f.Blocks {
			if facts.Holds(b, func(ft an.Fact) bool {
				return an.CmpNil(ft, false, func(v ssa.Value) bool { return tv != nil && an.Strip(v, false) == ssa.Value(tv) })
			}) {
				errBlocks = append(errBlocks, b)
			}
		}
		// a shared tail that does nothing but return (the join after an if/else chain) belongs to the edge
		for i := 0; i < len(errBlocks); i++ {
			for _, s := range errBlocks[i].Succs {
				if !containsBlock(errBlocks, s) && inertTail(s) {
					errBlocks = append(errBlocks, s)
				}
			}
		}
		rendered, returned, effects := false, false, 0
		for _, b := range errBlocks {
			for _, ins := range b.Instrs {
				if call, ok := ins.(ssa.CallInstruction); ok {
					cal := an.Callee(call)
					if cal == "L/rapi/rendering.RenderForbiddenWithTypeMsg" {
						args := call.Common().Args
						if len(args) >= 3 {
							if s, ok := an.ConstString(args[2]); ok && s == constString(c, errTypeConst) && s != "" {
								rendered = true
							}
						}
					} else if isEffectCall(cal) {
						effects++
					}
				}
				if _, ok := ins.(*ssa.Return); ok {
					returned = true
				}
			}
		}
		// all error-edge blocks end the handler: none flows back into an accepted path
		flowsOn := false
		inErr := map[*ssa.BasicBlock]bool{}
		for _, b := range errBlocks {
			inErr[b] = true
		}
		for _, b := range errBlocks {
			for _, s := range b.Succs {
				if !inErr[s] {
					flowsOn = true
				}
			}
		}
		c.Check("R-NOEFFECT", sprintf("%s/refusal%d", name, ti), "a refused transition is answered with 403 "+constString(c, errTypeConst)+" and the handler returns without any effect", len(errBlocks) > 0 && rendered && returned && effects == 0 && !flowsOn,
			an.InstrPos(t), len(errBlocks), "error-edge blocks: %d, renders 403 with the error type: %v, returns: %v, effect calls on the edge: %d, falls through to the accepted path: %v", len(errBlocks), rendered, returned, effects, flowsOn)
	}
}

func containsBlock(bs []*ssa.BasicBlock, b *ssa.BasicBlock) bool {
	for _, x := range bs {
		if x == b {
			return true
		}
	}
	return false
}

// inertTail: everything reachable from b only joins and returns (no call, store, send or branch on a value).
func inertTail(b *ssa.BasicBlock) bool {
	seen := map[*ssa.BasicBlock]bool{}
	var walk func(b *ssa.BasicBlock) bool
	walk = func(b *ssa.BasicBlock) bool {
		if seen[b] {
			return true
		}
		seen[b] = true
		for _, ins := range b.Instrs {
			switch ins.(type) {
			case *ssa.Return, *ssa.Jump, *ssa.Phi, *ssa.DebugRef:
			default:
				return false
			}
		}
		for _, s := range b.Succs {
			if !walk(s) {
				return false
			}
		}
		return true
	}
	return walk(b)
}

// constString resolves "pkg.Name" of a string constant.
func constString(c *report.Ctx, q string) string {
	i := strings.LastIndex(q, ".")
	if i < 0 {
		return ""
	}
	k := c.P.Const(q[:i], q[i+1:])
	if k == nil {
		return ""
	}
	s, _ := an.ConstString(k.Value)
	return s
}

type routeInfo struct {
	method, pattern      string
	handlerCtor          string // constructor of the innermost handler
	wrappers             []string
	guardedByInitCaching bool
	pos                  token.Pos
}

// routesOf decodes router.<Method>(pattern, handlerExpr.ServeHTTP) calls of fn.
func routesOf(c *report.Ctx, f *ssa.Function) []routeInfo {
	var out []routeInfo
	facts := an.NewFacts(f)
	an.AllInstrs(f, func(in ssa.Instruction) {
		call, ok := in.(*ssa.Call)
		if !ok {
			return
		}
		cal := an.Callee(call)
		if !strings.HasPrefix(cal, "github.com/go-chi/chi.Mux.") {
			return
		}
		meth := strings.TrimPrefix(cal, "github.com/go-chi/chi.Mux.")
		if !in2(meth, "Get", "Post", "Put", "Delete", "Patch", "Head", "Options", "Handle", "HandleFunc", "Method", "MethodFunc", "Mount") {
			return
		}
		args := call.Call.Args
		if len(args) < 3 {
			return
		}
		pat, _ := an.ConstString(args[1])
		ri := routeInfo{method: meth, pattern: pat, pos: call.Pos()}
		// handler: bound method closure ServeHTTP$bound(recv) or MakeInterface
		h := args[2]
		ri.handlerCtor, ri.wrappers = decodeHandler(h)
		ri.guardedByInitCaching = facts.Holds(call.Block(), func(ft an.Fact) bool {
			return an.CmpEq(ft, true, func(v ssa.Value) bool { return an.IsResultOf(v, "L/appctx.LoadInitType", -1) }, func(v ssa.Value) bool {
				n, ok := an.ConstInt(v)
				if !ok {
					return false
				}
				k := c.P.Const("L/appctx", "InitCaching")
				if k == nil {
					return false
				}
				kn, _ := an.ConstInt(k.Value)
				return kn == n
			})
		})
		out = append(out, ri)
	})
	out = append(out, routesFromTable(f)...)
	return out
}

// routesFromTable recognises routes registered from a local table: a slice/array literal of structs holding the
// registering method value (router.Get, router.Post, ...), a constant pattern and the handler, applied in a loop
// (`for _, r := range routes { r.register(r.pattern, r.handler.ServeHTTP) }`).
func routesFromTable(f *ssa.Function) []routeInfo {
	var out []routeInfo
	// the loop: a call of a function value read from a field of a table element
	applied := map[string]bool{} // struct type string -> applied in a loop
	an.AllInstrs(f, func(in ssa.Instruction) {
		call, ok := in.(*ssa.Call)
		if !ok || call.Call.IsInvoke() || call.Call.StaticCallee() != nil {
			return
		}
		if ld, ok := call.Call.Value.(*ssa.UnOp); ok && ld.Op == token.MUL {
			if fa, ok := ld.X.(*ssa.FieldAddr); ok && an.InLoop(call) {
				applied[fa.X.Type().String()] = true
			}
		}
		if fv, ok := call.Call.Value.(*ssa.Field); ok && an.InLoop(call) {
			applied[types.NewPointer(fv.X.Type()).String()] = true
		}
	})
	if len(applied) == 0 {
		return nil
	}
	an.AllInstrs(f, func(in ssa.Instruction) {
		arr, ok := in.(*ssa.Alloc)
		if !ok {
			return
		}
		at, ok := arr.Type().Underlying().(*types.Pointer).Elem().Underlying().(*types.Array)
		if !ok {
			return
		}
		if _, isStruct := at.Elem().Underlying().(*types.Struct); !isStruct || !applied[types.NewPointer(at.Elem()).String()] {
			return
		}
		for _, r := range *arr.Referrers() {
			ea, ok := r.(*ssa.IndexAddr)
			if !ok {
				continue
			}
			if _, constIdx := ea.Index.(*ssa.Const); !constIdx {
				continue
			}
			ri := routeInfo{pos: ea.Pos()}
			for _, r2 := range *ea.Referrers() {
				fa, ok := r2.(*ssa.FieldAddr)
				if !ok {
					continue
				}
				for _, r3 := range *fa.Referrers() {
					st, ok := r3.(*ssa.Store)
					if !ok || st.Addr != ssa.Value(fa) {
						continue
					}
					if mc, ok := st.Val.(*ssa.MakeClosure); ok {
						name := mc.Fn.(*ssa.Function).Name()
						if strings.HasSuffix(name, "$bound") && strings.Contains(mc.Fn.(*ssa.Function).String(), "go-chi/chi.Mux") {
							ri.method = strings.TrimSuffix(name, "$bound")
							continue
						}
					}
					if s, k := an.ConstString(st.Val); k {
						ri.pattern = s
						continue
					}
					ri.handlerCtor, ri.wrappers = decodeHandler(st.Val)
				}
			}
			if ri.method != "" && ri.pattern != "" {
				out = append(out, ri)
			}
		}
	})
	return out
}

func in2(s string, set ...string) bool { return oneOf(s, set...) }

// decodeHandler unwraps   wrapper(wrapper2(NewXHandler(...))).ServeHTTP
func decodeHandler(v ssa.Value) (ctor string, wrappers []string) {
	for depth := 0; depth < 8; depth++ {
		v = an.Strip(v, false)
		switch x := v.(type) {
		case *ssa.MakeClosure:
			// bound method value: bindings[0] is the receiver
			if len(x.Bindings) == 1 {
				v = x.Bindings[0]
				continue
			}
			return "closure " + an.FuncName(x.Fn.(*ssa.Function)), wrappers
		case *ssa.Call:
			cal := an.Callee(x)
			if strings.HasPrefix(cal, "L/rapi/middleware.") {
				wrappers = append(wrappers, strings.TrimPrefix(cal, "L/rapi/middleware."))
				if len(x.Call.Args) >= 1 {
					v = x.Call.Args[0]
					continue
				}
			}
			return cal, wrappers
		case *ssa.Function:
			return an.FuncName(x), wrappers
		default:
			return an.Path(v), wrappers
		}
	}
	return "?", wrappers
}

func checkRuntimeRoutes(c *report.Ctx) {
	f := fn(c, "L/rapi", "NewRouter")
	if f == nil {
		return
	}
	routes := routesOf(c, f)
	type want struct {
		method, pattern, ctor string
		wrappers              []string
		snapshotOnly          bool
	}
	wants := []want{
		{"Get", "/runtime/invocation/next", "L/rapi/handler.NewInvocationNextHandler", nil, false},
		{"Post", "/runtime/invocation/{awsrequestid}/response", "L/rapi/handler.NewInvocationResponseHandler", []string{"AwsRequestIDValidator"}, false},
		{"Post", "/runtime/invocation/{awsrequestid}/error", "L/rapi/handler.NewInvocationErrorHandler", []string{"AwsRequestIDValidator"}, false},
		{"Post", "/runtime/init/error", "L/rapi/handler.NewInitErrorHandler", nil, false},
		{"Get", "/runtime/restore/next", "L/rapi/handler.NewRestoreNextHandler", nil, true},
		{"Post", "/runtime/restore/error", "L/rapi/handler.NewRestoreErrorHandler", nil, true},
		{"Get", "/ping", "L/rapi/handler.NewPingHandler", nil, false},
	}
	seen := map[string]bool{}
	for _, w := range wants {
		var got *routeInfo
		for i := range routes {
			if routes[i].pattern == w.pattern && routes[i].method == w.method {
				got = &routes[i]
			}
		}
		key := "L/rapi.NewRouter/route/" + w.method + " " + w.pattern
		if got == nil {
			c.Check("R-CONST", key, "the documented route is registered", false, fpos(f), 0, "route not found among %d registrations", len(routes))
			continue
		}
		seen[w.method+" "+w.pattern] = true
		ok := got.handlerCtor == w.ctor && strings.Join(got.wrappers, ",") == strings.Join(w.wrappers, ",") && got.guardedByInitCaching == w.snapshotOnly
		c.Check("R-CONST", key, sprintf("route %s %s is served by %s%s%s", w.method, w.pattern, strings.TrimPrefix(w.ctor, "L/rapi/handler."), wrapText(w.wrappers), snapText(w.snapshotOnly)), ok, got.pos, 1,
			"handler %s wrappers %v, registered only under LoadInitType()==InitCaching: %v", got.handlerCtor, got.wrappers, got.guardedByInitCaching)
	}
	var extra []string
	for _, r := range routes {
		if !seen[r.method+" "+r.pattern] {
			extra = append(extra, r.method+" "+r.pattern)
		}
	}
	sort.Strings(extra)
	c.Check("R-CONST", "L/rapi.NewRouter/no-undocumented-routes", "no undocumented Runtime API route exists (unknown routes answer 404/405)", len(extra) == 0, fpos(f), len(routes), "extra routes: %v", extra)
	// every route whose pattern carries a request id is wrapped by the validator
	for _, r := range routes {
		if strings.Contains(r.pattern, "{awsrequestid}") {
			c.Check("R-WHO", "L/rapi.NewRouter/id-route-validated/"+r.method+" "+r.pattern, "a route carrying a request id is validated before its handler runs", oneOf("AwsRequestIDValidator", r.wrappers...), r.pos, 1, "wrappers: %v", r.wrappers)
		}
	}
	checkRequestIDValidator(c)
	// credentials router mounted only in snapshot mode (rapi.NewServer)
	ns := fn(c, "L/rapi", "NewServer")
	if ns != nil {
		facts := an.NewFacts(ns)
		calls := an.CallsTo(ns, "L/rapi.CredentialsAPIRouter")
		ok := len(calls) == 1
		if ok {
			ok = facts.Holds(calls[0].Block(), func(ft an.Fact) bool {
				return an.CmpEq(ft, true, func(v ssa.Value) bool { return an.IsResultOf(v, "L/appctx.LoadInitType", -1) }, func(v ssa.Value) bool { _, k := an.ConstInt(v); return k })
			})
		}
		pos := fpos(ns)
		if len(calls) > 0 {
			pos = an.InstrPos(calls[0])
		}
		c.Check("R-GUARD", "L/rapi.NewServer/credentials-router-snapshot-only", "the credentials endpoint is mounted only in snapshot (init caching) mode", ok, pos, len(calls), "%d mount sites", len(calls))
	}
}

func wrapText(w []string) string {
	if len(w) == 0 {
		return ""
	}
	return " behind " + strings.Join(w, ",")
}
func snapText(b bool) string {
	if b {
		return " and exists only in snapshot mode"
	}
	return ""
}

// checkRequestIDValidator: next.ServeHTTP only when id is non-empty and equals the current id; else 400.
func checkRequestIDValidator(c *report.Ctx) {
	outer := fn(c, "L/rapi/middleware", "AwsRequestIDValidator")
	if outer == nil {
		return
	}
	var inner *ssa.Function
	for _, a := range an.WithAnon(outer) {
		if a != outer && len(an.CallsTo(a, "net/http.Handler.ServeHTTP")) > 0 {
			inner = a
		}
	}
	if inner == nil {
		// the validator written as a handler type of its own: what serves a request is the ServeHTTP method of the
		// concrete value the constructor returns (the mirror image of handlerFuncOfCtor)
		inner = servingMethodOfCtor(c, outer)
	}
	if inner == nil {
		c.Unresolved("ANCHOR", "L/rapi/middleware.AwsRequestIDValidator/closure", "validator closure calling next.ServeHTTP not found")
		return
	}
	facts := an.NewFacts(inner)
	isID := func(v ssa.Value) bool { return an.IsResultOf(v, "github.com/go-chi/chi.URLParam", -1) }
	isCur := func(v ssa.Value) bool { return an.IsResultOf(v, "L/interop.Server.GetCurrentInvokeID", -1) }
	for _, call := range an.CallsTo(inner, "net/http.Handler.ServeHTTP") {
		b := call.Block()
		nonEmpty := facts.Holds(b, func(ft an.Fact) bool {
			return an.CmpEq(ft, false, isID, func(v ssa.Value) bool { s, ok := an.ConstString(v); return ok && s == "" })
		})
		equal := facts.Holds(b, func(ft an.Fact) bool { return an.CmpEq(ft, true, isID, isCur) })
		c.Check("R-GUARD", "L/rapi/middleware.AwsRequestIDValidator/next-only-for-current-id", "the wrapped handler runs only when the URL id is non-empty and equals the id of the invocation in flight", nonEmpty && equal, an.InstrPos(call), 2, "facts: %s", factsString(facts.At(b)))
	}
	// the refusing edge renders InvalidRequestID (400)
	refuse := an.CallsTo(inner, "L/rapi/rendering.RenderInvalidRequestID")
	min, max := an.Count(inner, func(in ssa.Instruction) bool {
		return an.IsCallTo(in, "L/rapi/rendering.RenderInvalidRequestID", "net/http.Handler.ServeHTTP")
	})
	c.Check("R-CONST", "L/rapi/middleware.AwsRequestIDValidator/refusal-renders-400", "a wrong or stale id is answered by RenderInvalidRequestID: on every path the request is either handed on or refused that way, exactly once", len(refuse) >= 1 && min == 1 && max == 1, fpos(inner), len(refuse), "%d refusal render sites; handed on or refused per path: min %d, max %d", len(refuse), min, max)
	if r := c.P.Func("L/rapi/rendering", "RenderInvalidRequestID"); r != nil {
		ok := false
		for _, call := range an.CallsTo(r, "L/rapi/rendering.renderErrorResponse", "L/rapi/rendering.RenderJSON", "L/rapi/rendering.renderJSON") {
			for _, a := range call.Common().Args {
				if n, k := an.ConstInt(a); k && n == 400 {
					ok = true
				}
			}
		}
		an.AllInstrs(r, func(in ssa.Instruction) {
			if call, k := in.(ssa.CallInstruction); k {
				for _, a := range call.Common().Args {
					if n, k2 := an.ConstInt(a); k2 && n == 400 {
						ok = true
					}
				}
			}
		})
		c.Check("R-CONST", "L/rapi/rendering.RenderInvalidRequestID/status-400", "RenderInvalidRequestID answers with status 400", ok, r.Pos(), 1, "constant 400 passed on: %v", ok)
	}
}
