package props

import (
	"go/token"
	"sort"
	"strings"

	"golang.org/x/tools/go/ssa"

	"verif/checker/internal/an"
	"verif/checker/internal/report"
)

const evAPI = "L/interop.EventsAPI."

func init() {
	register(&Prop{
		Spec: report.Spec{
			ID: "C15",
			Explanation: "Nesting and 'success only if the step succeeded' are path properties of three functions whose emission sites are all static; they are decided per path. doRuntimeDomainInit emits init-start exactly once and first, registers init-report as its first defer (so it runs last, exactly once on every exit), registers the extension status lines and init-runtime-done later (the latter only after the runtime was started, hence at most once), all three tagged with the function's phase parameter, which its two callers set to Init and Invoke; " +
				"a reaching-definitions dataflow over the status variable shows that an exit can carry 'success' only on the nil edge of AwaitRuntimeRestoreReady (the runtime reached its poll) and 'error' only together with a failure; the error type is nil exactly for success, else the first fatal error or Runtime.Unknown; the events watcher records the first fatal error before it cancels the flows, so the woken handler reads it. doInvoke emits invoke-start exactly once on every path and runtime-done at most once, after it, with status success only behind the nil edges of response and runtime-next; handleReset emits runtime-done only for the reasons failure/timeout; handleRestore defers exactly one restore-runtime-done whose status is error iff the result is an error. Extension status lines are one per known extension, wired from name, state name, subscriptions and error type, and every state reports its own name. " +
				"Added after the blind rounds: the first-fatal-error record lives until the teardown; a refused fault report does not occupy it; every unexpected exit yields an error; the latch rules of C11. " +
				"NOT decided: correlation with what 'really happened' beyond these gates; ordering of events emitted from different goroutines.",
			RuleText:    "one obligation per emission site rule, per exit of the status dataflow, per wiring edge, per state name",
			Assumptions: trusted,
			MinObs:      40,
		},
		Run: runC15,
	})
}

func runC15(c *report.Ctx) {
	c.Clause("1 init events nesting")
	checkInitEvents(c)
	c.Clause("2 init runtime-done status")
	checkInitStatusDataflow(c)
	checkGatePrimitive(c)           // the status derives from the await results of the barrier primitive
	checkFirstFatalErrorLifetime(c) // runtime-done/reset status and error type are read from this record
	checkAgentFaultReports(c)       // a refused report must not occupy the first-fault slot
	checkWatcherErrorNonNil(c)
	c.Clause("3 invoke events")
	checkInvokeEvents(c)
	c.Clause("4 reset runtime-done")
	checkResetRuntimeDone(c)
	c.Clause("5 restore runtime-done")
	checkRestoreEvent(c)
	c.Clause("6 extension status lines")
	checkExtensionStatusLines(c)
	c.Clause("7 first fault recorded before the handler is woken")
	checkWatcherRecordsBeforeCancel(c)
}

func checkInitEvents(c *report.Ctx) {
	f := fn(c, "L/rapid", "doRuntimeDomainInit")
	if f == nil {
		return
	}
	name := an.FuncName(f)
	starts := an.CallsTo(f, "L/rapid.sendInitStartLogEvent")
	okStart := len(starts) == 1 && starts[0].Block() == f.Blocks[0]
	if okStart {
		// first: no other event emission, defer or process start precedes it
		for _, in := range f.Blocks[0].Instrs {
			if in == ssa.Instruction(starts[0]) {
				break
			}
			if _, isDefer := in.(*ssa.Defer); isDefer {
				okStart = false
			}
			if call, ok := in.(ssa.CallInstruction); ok && strings.HasPrefix(an.Callee(call), "L/rapid.send") {
				okStart = false
			}
		}
		_, plain := starts[0].(*ssa.Call)
		okStart = okStart && plain
	}
	c.Check("R-COUNT", name+"/init-start-once-and-first", "each initialisation emits exactly one init-start, before anything else", okStart, fpos(f), len(starts), "%d sites; in the entry block before any defer/emission: %v", len(starts), okStart)
	// defers in registration order
	var defers []*ssa.Defer
	an.AllInstrs(f, func(in ssa.Instruction) {
		if d, ok := in.(*ssa.Defer); ok {
			defers = append(defers, d)
		}
	})
	kind := func(d *ssa.Defer) string {
		cal := an.Callee(d)
		if cal == "L/rapid.sendInitReportLogEvent" {
			return "report"
		}
		if cl := deferClosure(d); cl != nil {
			if len(an.CallsTo(cl, "L/rapid.logAgentsInitStatus")) == 1 {
				return "extension-status"
			}
			if len(an.CallsTo(cl, "L/rapid.sendInitRuntimeDoneLogEvent")) == 1 {
				return "runtime-done"
			}
			// the report deferred as a closure (its arguments read at exit instead of at registration): the same
			// deferred emission as far as its place among the defers goes
			if rep := an.CallsTo(cl, "L/rapid.sendInitReportLogEvent"); len(rep) == 1 {
				fixed := true
				for _, a := range rep[0].Common().Args {
					if !fixedAtRegistration(d, a) {
						fixed = false
					}
				}
				if fixed {
					return "report"
				}
			}
		}
		if strings.Contains(cal, "RecordInitEndTime") {
			return "xray"
		}
		return "other:" + cal
	}
	var kinds []string
	idx := map[string]*ssa.Defer{}
	for _, d := range defers {
		k := kind(d)
		kinds = append(kinds, k)
		idx[k] = d
	}
	okOrder := len(kinds) >= 3 && kinds[0] == "report" && idx["extension-status"] != nil && idx["runtime-done"] != nil
	if okOrder {
		okOrder = an.InstrDominates(idx["report"], idx["extension-status"]) && an.InstrDominates(idx["extension-status"], idx["runtime-done"])
		// all in straight-line code (registered exactly once, not in a loop / branch that can be skipped for report)
		okOrder = okOrder && idx["report"].Block() == f.Blocks[0] && !an.InLoop(idx["runtime-done"])
	}
	c.Check("R-ORDER", name+"/defer-order", "init-report is the first registered defer (runs last, once, on every exit); the extension status lines and init-runtime-done are registered later (run before it), in that order", okOrder, fpos(f), len(defers), "defers in registration order: %v", kinds)
	// each event function called nowhere else in this function
	for _, cal := range []string{"L/rapid.sendInitReportLogEvent", "L/rapid.sendInitRuntimeDoneLogEvent", "L/rapid.logAgentsInitStatus"} {
		n := 0
		for _, g := range an.WithAnon(f) {
			n += len(an.CallsTo(g, cal))
		}
		c.Check("R-COUNT", name+"/single-site/"+strings.TrimPrefix(cal, "L/rapid."), "the event has a single emission site", n == 1, fpos(f), n, "%d sites", n)
	}
	// runtime-done defer registered after the runtime Exec
	ex := an.CallsTo(f, supExec)
	okAfter := len(ex) == 1 && idx["runtime-done"] != nil && an.InstrDominates(ex[0], idx["runtime-done"])
	c.Check("R-ORDER", name+"/runtime-done-after-start", "init-runtime-done is emitted at most once and only for initialisations that got as far as starting the runtime", okAfter, fpos(f), 2, "defer registered after the runtime Exec: %v", okAfter)
	// phase parameter passed through
	okPhase := true
	nph := 0
	for _, g := range an.WithAnon(f) {
		for _, call := range an.CallsTo(g, "L/rapid.sendInitStartLogEvent", "L/rapid.sendInitReportLogEvent", "L/rapid.sendInitRuntimeDoneLogEvent") {
			nph++
			a := call.Common().Args
			last := a[len(a)-1]
			if !isParamOrFree(last, "phase") {
				okPhase = false
			}
		}
	}
	c.Check("R-WIRE", name+"/phase-tag", "all init events of one initialisation carry the same phase tag, the one the caller passed", okPhase && nph == 3, fpos(f), nph, "%d emission sites use the phase parameter: %v", nph, okPhase)
	// callers' phases
	got := map[string]string{}
	for _, st := range callSites(c, "L/rapid.doRuntimeDomainInit") {
		a := st.Call.Common().Args
		s := ""
		if n, k := an.ConstInt(a[len(a)-1]); k {
			for _, nm := range []string{"LifecyclePhaseInit", "LifecyclePhaseInvoke"} {
				if kc := c.P.Const("L/interop", nm); kc != nil {
					if kn, _ := an.ConstInt(kc.Value); kn == n {
						s = strings.ToLower(strings.TrimPrefix(nm, "LifecyclePhase"))
					}
				}
			}
		}
		root := st.Fn
		for root.Parent() != nil {
			root = root.Parent()
		}
		got[an.FuncName(root)] = s
	}
	c.Check("R-CONST", name+"/callers-phase", "the first init is tagged 'init', an initialisation run inside an invocation is tagged 'invoke'", got["L/rapid.handleInit"] == "init" && got["L/rapid.doInvoke"] == "invoke" && len(got) == 2, fpos(f), len(got), "callers: %v", got)
}

// addrWrites lists the stores made through address x (a cell, a captured variable, a field of one) anywhere in the
// function that owns it and the closures it is handed to; ok is false when the address is used in a way that is
// not followed (passed on, stored somewhere, ...).
func addrWrites(x ssa.Value, depth int) (stores []*ssa.Store, ok bool) {
	refs := x.Referrers()
	if refs == nil || depth > 4 {
		return nil, false
	}
	for _, ref := range *refs {
		switch r := ref.(type) {
		case *ssa.UnOp:
			if r.Op != token.MUL {
				return nil, false
			}
		case *ssa.DebugRef:
		case *ssa.Store:
			if r.Addr != x || r.Val == x {
				return nil, false
			}
			stores = append(stores, r)
		case *ssa.FieldAddr:
			sub, subOK := addrWrites(r, depth+1)
			if !subOK {
				return nil, false
			}
			stores = append(stores, sub...)
		case *ssa.MakeClosure:
			child, isF := r.Fn.(*ssa.Function)
			if !isF {
				return nil, false
			}
			for i, b := range r.Bindings {
				if b == x {
					if i >= len(child.FreeVars) {
						return nil, false
					}
					sub, subOK := addrWrites(child.FreeVars[i], depth+1)
					if !subOK {
						return nil, false
					}
					stores = append(stores, sub...)
				}
			}
		default:
			return nil, false
		}
	}
	return stores, true
}

// fixedAtRegistration: v, an argument computed inside the closure that d defers, has at exit the value it had when
// d was registered: a constant, or read (possibly field by field) from a captured variable that is written once, in
// the registering function, before the registration. `defer func() { f(x) }()` is then `defer f(x)`.
func fixedAtRegistration(d *ssa.Defer, v ssa.Value) bool {
	mc, isMC := d.Call.Value.(*ssa.MakeClosure)
	if !isMC {
		return false
	}
	cl, _ := mc.Fn.(*ssa.Function)
	if cl == nil {
		return false
	}
	if _, isC := v.(*ssa.Const); isC {
		return true
	}
	u, ok := v.(*ssa.UnOp)
	if !ok || u.Op != token.MUL {
		return false
	}
	addr := u.X
	for {
		fa, isFA := addr.(*ssa.FieldAddr)
		if !isFA {
			break
		}
		addr = fa.X
	}
	fv, isFV := addr.(*ssa.FreeVar)
	if !isFV {
		return false
	}
	for i, x := range cl.FreeVars {
		if x != fv || i >= len(mc.Bindings) {
			continue
		}
		cell, isCell := mc.Bindings[i].(*ssa.Alloc)
		if !isCell {
			return false
		}
		stores, followed := addrWrites(cell, 0)
		if !followed || len(stores) != 1 || stores[0].Addr != ssa.Value(cell) {
			return false
		}
		return stores[0].Parent() == d.Parent() && an.InstrDominates(stores[0], d)
	}
	return false
}

func deferClosure(d *ssa.Defer) *ssa.Function {
	switch v := d.Call.Value.(type) {
	case *ssa.MakeClosure:
		f, _ := v.Fn.(*ssa.Function)
		return f
	case *ssa.Function:
		return v
	}
	return nil
}

func isParamOrFree(v ssa.Value, name string) bool {
	if p, ok := v.(*ssa.Parameter); ok {
		return p.Name() == name
	}
	if isFreeVarLoad(v, name) {
		return true
	}
	// a captured variable under another name that holds the parameter and nothing else (one store, of the parameter)
	if u, ok := v.(*ssa.UnOp); ok && u.Op == token.MUL {
		if _, isFV := u.X.(*ssa.FreeVar); isFV && u.Parent() != nil {
			if cell, isCell := freeVarBinding(u.Parent(), v).(*ssa.Alloc); isCell && cell.Referrers() != nil {
				n, okp := 0, false
				for _, ref := range *cell.Referrers() {
					if st, isSt := ref.(*ssa.Store); isSt && st.Addr == ssa.Value(cell) {
						n++
						if p, isP := st.Val.(*ssa.Parameter); isP && p.Name() == name {
							okp = true
						}
					}
				}
				if n == 1 && okp {
					return true
				}
			}
		}
	}
	return isParamOrCaptured(v, name)
}

// checkInitStatusDataflow: reaching constant stores to runtimeDoneStatus at every exit.
func checkInitStatusDataflow(c *report.Ctx) {
	f := fn(c, "L/rapid", "doRuntimeDomainInit")
	if f == nil {
		return
	}
	name := an.FuncName(f)
	// the status variable: the local whose value the deferred closure hands to the init-runtime-done event
	status := emittedCell(f, "L/rapid.sendInitRuntimeDoneLogEvent", 2)
	if status == nil {
		c.Unresolved("ANCHOR", name+"/runtimeDoneStatus", "status variable not found")
		return
	}
	// the deferred closure passes the variable's value
	wired := false
	for _, g := range f.AnonFuncs {
		for _, call := range an.CallsTo(g, "L/rapid.sendInitRuntimeDoneLogEvent") {
			if freeVarBinding(g, call.Common().Args[2]) == ssa.Value(status) {
				wired = true
			}
		}
	}
	c.Check("R-WIRE", name+"/status-variable-emitted", "init-runtime-done reports the value of the status variable at exit", wired, fpos(f), 1, "%v", wired)
	// reaching definitions (may) of constant stores
	type rd = map[string]bool
	in := map[*ssa.BasicBlock]rd{}
	out := map[*ssa.BasicBlock]rd{}
	transfer := func(b *ssa.BasicBlock, s rd) rd {
		cur := rd{}
		for k := range s {
			cur[k] = true
		}
		for _, ins := range b.Instrs {
			if st, ok := ins.(*ssa.Store); ok && st.Addr == ssa.Value(status) {
				v, _ := an.ConstString(st.Val)
				cur = rd{v: true}
			}
		}
		return cur
	}
	changed := true
	for changed {
		changed = false
		for _, b := range f.Blocks {
			s := rd{}
			for _, p := range b.Preds {
				for k := range out[p] {
					s[k] = true
				}
			}
			in[b] = s
			o := transfer(b, s)
			if len(o) != len(out[b]) {
				out[b] = o
				changed = true
			} else {
				for k := range o {
					if !out[b][k] {
						out[b] = o
						changed = true
					}
				}
			}
		}
	}
	facts := an.NewFacts(f)
	var awaitRR ssa.CallInstruction
	for _, call := range an.CallsTo(f, initFlowI+"AwaitRuntimeRestoreReady") {
		awaitRR = call
	}
	var rtDefer *ssa.Defer
	an.AllInstrs(f, func(ins ssa.Instruction) {
		if d, ok := ins.(*ssa.Defer); ok {
			if cl := deferClosure(d); cl != nil && len(an.CallsTo(cl, "L/rapid.sendInitRuntimeDoneLogEvent")) == 1 {
				rtDefer = d
			}
		}
	})
	if awaitRR == nil || rtDefer == nil {
		c.Unresolved("ANCHOR", name+"/status-dataflow", "AwaitRuntimeRestoreReady call or the runtime-done defer not found")
		return
	}
	n := 0
	for i, e := range an.Exits(f) {
		if !an.InstrDominates(rtDefer, e.Ret) {
			continue // the event is not emitted on this exit
		}
		n++
		vals := out[e.Ret.Block()]
		reached := facts.Holds(e.Ret.Block(), func(ft an.Fact) bool {
			return an.CmpNil(ft, true, func(v ssa.Value) bool { return an.Strip(v, false) == ssa.Value(awaitRR.Value()) })
		})
		okS := !vals["success"] || reached
		c.Check("R-GUARD", sprintf("%s/status/exit%d-success-only-if-runtime-polled", name, i), "init-runtime-done can say 'success' only when the runtime reached its next (or restore) poll: the exit lies on the nil edge of AwaitRuntimeRestoreReady", okS, an.InstrPos(e.Ret), len(vals), "status values possible here: %v; runtime poll awaited successfully: %v", keysOf(vals), reached)
		failing := len(e.Vals) == 1 && !an.IsNil(e.Vals[0])
		okE := !vals["error"] || failing
		c.Check("R-GUARD", sprintf("%s/status/exit%d-error-only-on-failure", name, i), "init-runtime-done says 'error' only when the initialisation fails", okE, an.InstrPos(e.Ret), len(vals), "status values possible here: %v; exit fails: %v", keysOf(vals), failing)
		if !reached {
			okOnly := len(vals) == 1 && vals["error"]
			c.Check("R-GUARD", sprintf("%s/status/exit%d-error-before-runtime-polled", name, i), "an exit taken before the runtime reached its poll reports 'error'", okOnly, an.InstrPos(e.Ret), len(vals), "status values possible here: %v", keysOf(vals))
		}
	}
	c.Check("R-COUNT", name+"/status/exits", "exits with the runtime-done defer active were enumerated", n >= 4, fpos(f), n, "%d exits", n)
	// status constants
	for k, want := range map[string]string{"RuntimeDoneSuccess": "success", "RuntimeDoneError": "error"} {
		kc := c.P.Const("L/telemetry", k)
		s := ""
		if kc != nil {
			s, _ = an.ConstString(kc.Value)
		}
		c.Check("R-CONST", "L/telemetry."+k, "status constant", s == want, token.NoPos, 1, "%q", s)
	}
	// getFirstFatalError: nil iff success
	if g := fn(c, "L/rapid", "getFirstFatalError"); g != nil {
		gf := an.NewFacts(g)
		ok := true
		nn := 0
		for _, e := range an.Exits(g) {
			isSucc := gf.Holds(e.Ret.Block(), func(ft an.Fact) bool {
				return an.CmpEq(ft, true, func(v ssa.Value) bool { _, k := v.(*ssa.Parameter); return k }, func(v ssa.Value) bool { s, k := an.ConstString(v); return k && s == "success" })
			})
			if an.IsNil(e.Vals[0]) != isSucc {
				ok = false
			}
			if !an.IsNil(e.Vals[0]) {
				nn++
			}
		}
		fb := false
		an.AllInstrs(g, func(ins ssa.Instruction) {
			if st, k := ins.(*ssa.Store); k {
				if s, k2 := an.ConstString(st.Val); k2 && s == "Runtime.Unknown" {
					fb = true
				}
			}
			if ph, k := ins.(*ssa.Phi); k {
				for _, e := range ph.Edges {
					if s, k2 := an.ConstString(e); k2 && s == "Runtime.Unknown" {
						fb = true
					}
				}
			}
		})
		lf := len(an.CallsTo(g, "L/appctx.LoadFirstFatalError")) == 1
		c.Check("R-GUARD", an.FuncName(g)+"/error-type", "the error type attached to a status is absent exactly for success, else the first recorded fault, else Runtime.Unknown", ok && nn == 1 && fb && lf, fpos(g), 3, "nil iff success: %v; loads the first fatal error: %v; falls back to Runtime.Unknown: %v", ok, lf, fb)
	}
}

func checkInvokeEvents(c *report.Ctx) {
	outer := fn(c, "L/rapid", "doInvoke$1")
	if outer == nil {
		return
	}
	name := an.FuncName(outer)
	isStart := func(in ssa.Instruction) bool { return an.IsCallTo(in, "L/rapid.sendInvokeStartLogEvent") }
	isDone := func(in ssa.Instruction) bool { return an.IsCallTo(in, evAPI+"SendInvokeRuntimeDone") }
	min, max := an.Count(outer, isStart)
	c.Check("R-COUNT", name+"/invoke-start-exactly-once", "each dispatched invocation emits exactly one invoke-start, on the inline-init-failure path as well as on the normal path", min == 1 && max == 1, fpos(outer), 2, "per path: min %d, max %d", min, max)
	_, dmax := an.Count(outer, isDone)
	c.Check("R-COUNT", name+"/runtime-done-at-most-once", "at most one runtime-done is emitted by the invocation itself", dmax <= 1, fpos(outer), 1, "max per path: %d", dmax)
	facts := an.NewFacts(outer)
	ord := an.NewOrder(outer, func(in ssa.Instruction) uint64 {
		if isStart(in) {
			return 1
		}
		return 0
	})
	resp := an.CallsTo(outer, "L/telemetry.Tracer.CaptureInvokeSubsegment")
	ovh := an.CallsTo(outer, "L/telemetry.Tracer.CaptureOverheadSubsegment")
	for _, d := range an.Calls(outer, func(s string) bool { return s == evAPI+"SendInvokeRuntimeDone" }) {
		must, _ := ord.Before(d)
		nilOf := func(calls []ssa.CallInstruction) bool {
			if len(calls) != 1 {
				return false
			}
			return facts.Holds(d.Block(), func(ft an.Fact) bool {
				return an.CmpNil(ft, true, func(v ssa.Value) bool { return an.Strip(v, false) == ssa.Value(calls[0].Value()) })
			})
		}
		status := ""
		// Status field of the literal passed
		for _, st := range an.Stores(outer, "L/interop.InvokeRuntimeDoneData", "Status") {
			status, _ = an.ConstString(st.Val)
		}
		ok := must&1 != 0 && nilOf(resp) && nilOf(ovh) && status == "success"
		c.Check("R-GUARD", name+"/runtime-done-success-is-truthful", "runtime-done with status success is emitted after invoke-start and only when the runtime posted its response and came back for the next invocation", ok, an.InstrPos(d), 3, "after start: %v; response awaited nil: %v; runtime-next awaited nil: %v; status %q", must&1 != 0, nilOf(resp), nilOf(ovh), status)
	}
	// invoke-start content
	for _, g := range []string{"sendInvokeStartLogEvent"} {
		f := fn(c, "L/rapid", g)
		if f == nil {
			continue
		}
		ok := false
		for _, st := range an.Stores(f, "L/interop.InvokeStartData", "RequestID") {
			_, ok = st.Val.(*ssa.Parameter)
		}
		n := len(an.CallsTo(f, evAPI+"SendInvokeStart"))
		c.Check("R-WIRE", an.FuncName(f)+"/request-id", "invoke-start names the invocation being dispatched", ok && n == 1, fpos(f), 2, "RequestID from the parameter: %v; emissions: %d", ok, n)
	}
	for _, call := range an.CallsTo(outer, "L/rapid.sendInvokeStartLogEvent") {
		a := call.Common().Args
		ok := false
		if fr, k := an.AsField(an.Strip(a[1], false)); k && fr.Struct == "L/interop.Invoke" && fr.Field == "ID" {
			ok = true
		}
		c.Check("R-WIRE", sprintf("%s/start-request-id@%s", name, c.P.Pos(call.Pos())[strings.LastIndex(c.P.Pos(call.Pos()), ":")+1:]), "invoke-start is given this invocation's request id", ok, an.InstrPos(call), 1, "%v", ok)
	}
}

func checkResetRuntimeDone(c *report.Ctx) {
	f := fn(c, "L/rapid", "handleReset")
	if f == nil {
		return
	}
	name := an.FuncName(f)
	facts := an.NewFacts(f)
	dones := an.CallsTo(f, evAPI+"SendInvokeRuntimeDone")
	ok := len(dones) == 1
	// the call is only reachable when Reason == "failure" || Reason == "timeout": on the false edges of both the call is unreachable
	if ok {
		// blocks where both comparisons are known false must not dominate... check: no fact-set at the call says both false
		bothFalse := facts.Holds(dones[0].Block(), func(ft an.Fact) bool {
			return an.CmpEq(ft, false, loadOf("L/interop.Reset", "Reason"), func(v ssa.Value) bool { s, k := an.ConstString(v); return k && s == "timeout" })
		}) && facts.Holds(dones[0].Block(), func(ft an.Fact) bool {
			return an.CmpEq(ft, false, loadOf("L/interop.Reset", "Reason"), func(v ssa.Value) bool { s, k := an.ConstString(v); return k && s == "failure" })
		})
		// reachable-from-guard: the block testing `Reason == "failure"` then `== "timeout"` dominates the call and its both-false edge bypasses it
		var guards []*ssa.If
		an.AllInstrs(f, func(in ssa.Instruction) {
			if i, k := in.(*ssa.If); k {
				if bo, k2 := i.Cond.(*ssa.BinOp); k2 && bo.Op == token.EQL && loadOf("L/interop.Reset", "Reason")(bo.X) {
					guards = append(guards, i)
				}
			}
		})
		dom := false
		for _, g := range guards {
			if g.Block().Dominates(dones[0].Block()) {
				dom = true
			}
		}
		ok = !bothFalse && dom && guardBypasses(f, dones[0])
	}
	c.Check("R-GUARD", name+"/runtime-done-only-for-failure-or-timeout", "a reset emits runtime-done only when its reason is 'failure' or 'timeout' (an invocation was interrupted)", ok, fpos(f), len(dones), "%d emission sites; guarded by the reason test: %v", len(dones), ok)
	// reasons the emulator passes
	var reasons []string
	for _, st := range callSites(c, srvT+".Reset") {
		if strings.HasPrefix(an.FuncName(st.Fn), "L/rapidcore/standalone") {
			continue
		}
		s, k := an.ConstString(st.Call.Common().Args[1])
		if !k {
			s = "<dynamic>"
		}
		reasons = append(reasons, s)
	}
	sort.Strings(reasons)
	dead := true
	for _, r := range reasons {
		if r == "failure" || r == "timeout" || r == "<dynamic>" {
			dead = false
		}
	}
	c.Check("R-CONST", name+"/emulator-reasons", "the emulator's own resets use reasons for which no second runtime-done is emitted (at most one runtime-done per invocation holds trivially there)", dead && len(reasons) >= 3, fpos(f), len(reasons), "reasons passed by the emulator: %v", reasons)
}

// guardBypasses: there is a path from entry to an exit that avoids the instruction
// (i.e. it is conditional), and every path to it passes a test of Reset.Reason.
func guardBypasses(f *ssa.Function, at ssa.Instruction) bool {
	ord := an.NewOrder(f, func(in ssa.Instruction) uint64 {
		if in == at {
			return 1
		}
		return 0
	})
	for _, e := range an.Exits(f) {
		if must, _ := ord.Before(e.Ret); must&1 == 0 {
			return true
		}
	}
	return false
}

func checkRestoreEvent(c *report.Ctx) {
	f := fn(c, "L/rapid", "handleRestore")
	if f == nil {
		return
	}
	name := an.FuncName(f)
	n := 0
	var d *ssa.Defer
	// the event is sent by the helper of the pinned tree, or directly (the helper written out in the closure)
	emitters := []string{"L/rapid.sendRestoreRuntimeDoneLogEvent", "L/interop.EventsAPI.SendRestoreRuntimeDone"}
	for _, g := range an.WithAnon(f) {
		n += len(an.CallsTo(g, emitters...))
	}
	an.AllInstrs(f, func(in ssa.Instruction) {
		if x, ok := in.(*ssa.Defer); ok {
			if cl := deferClosure(x); cl != nil && len(an.CallsTo(cl, emitters...)) == 1 {
				d = x
			}
		}
	})
	ok := n == 1 && d != nil && d.Block() == f.Blocks[0]
	c.Check("R-COUNT", name+"/restore-runtime-done-once", "every restore emits exactly one restore-runtime-done (deferred in the entry block)", ok, fpos(f), n, "%d sites; deferred at entry: %v", n, d != nil)
	// status error iff returned error non-nil: every exit returning a non-nil error has 'error' as the only reaching value
	// the status variable: the local whose value the deferred closure hands to the restore-runtime-done event
	status := emittedCell(f, "L/rapid.sendRestoreRuntimeDoneLogEvent", 1)
	if status == nil {
		// written out: the local whose value the closure stores into the event's Status field
		for _, g := range f.AnonFuncs {
			for _, st := range an.Stores(g, "L/interop.RestoreRuntimeDoneData", "Status") {
				if a, ok := freeVarBinding(g, st.Val).(*ssa.Alloc); ok {
					status = a
				}
			}
		}
	}
	if status == nil {
		c.Unresolved("ANCHOR", name+"/restoreStatus", "status variable not found")
		return
	}
	okS := true
	detail := []string{}
	for _, e := range an.Exits(f) {
		last := lastStoreBefore(e.Ret, status)
		failing := !an.IsNil(e.Vals[len(e.Vals)-1])
		isPhi := false
		if _, k := an.Strip(e.Vals[len(e.Vals)-1], false).(*ssa.Phi); k {
			isPhi = true
		}
		detail = append(detail, sprintf("exit@%d status=%s failing=%v", c.P.Fset.Position(an.InstrPos(e.Ret)).Line, last, failing))
		if failing && !isPhi && last != "error" {
			// an exit that certainly fails must have stored error... except the credentials failure, which precedes the status logic
			if an.GlobalOf(e.Vals[len(e.Vals)-1]) != "L/interop.ErrRestoreUpdateCredentials" {
				okS = false
			}
		}
		if !failing && last == "error" {
			okS = false
		}
	}
	// the final exit: status = error exactly under err != nil
	facts := an.NewFacts(f)
	for _, st := range restoreStores(f, status) {
		if s, _ := an.ConstString(st.Val); s == "error" {
			g := facts.Holds(st.Block(), func(ft an.Fact) bool { r, k := an.AsRel(ft); return k && r.Op == token.NEQ && an.IsNil(r.Y) })
			if !g {
				// ... or where the error returned from here on is one just made (fmt.Errorf / errors.New never return
				// nil): the store stands in an arm that flows into the returned join with such a value
				for _, e := range an.Exits(f) {
					ph, isPhi := an.Strip(e.Vals[len(e.Vals)-1], false).(*ssa.Phi)
					if !isPhi {
						// (the arm has its own return, handing back the error it just made)
						if cl, _ := an.CallOf(an.Strip(e.Vals[len(e.Vals)-1], false)); cl != nil && oneOf(an.Callee(cl), "fmt.Errorf", "errors.New") && len(st.Block().Instrs) > 0 && len(e.Ret.Block().Instrs) > 0 && an.InstrDominates(st, e.Ret) && an.InstrDominates(cl, st) {
							g = true
						}
						continue
					}
					for i, p := range ph.Block().Preds {
						if p == st.Block() && i < len(ph.Edges) {
							if cl, _ := an.CallOf(ph.Edges[i]); cl != nil && oneOf(an.Callee(cl), "fmt.Errorf", "errors.New") {
								g = true
							}
						}
					}
				}
			}
			if !g {
				okS = false
			}
		}
	}
	c.Check("R-GUARD", name+"/restore-status-truthful", "restore-runtime-done says 'error' exactly when the restore reports an error (stored under err != nil, after the first-fatal-error override)", okS, fpos(f), len(detail), "%v", detail)
}

func restoreStores(f *ssa.Function, a *ssa.Alloc) []*ssa.Store {
	var out []*ssa.Store
	an.AllInstrs(f, func(in ssa.Instruction) {
		if st, ok := in.(*ssa.Store); ok && st.Addr == ssa.Value(a) {
			out = append(out, st)
		}
	})
	return out
}

// lastStoreBefore returns the constant most recently stored to a on the dominator chain of at.
func lastStoreBefore(at ssa.Instruction, a *ssa.Alloc) string {
	for b := at.Block(); b != nil; b = b.Idom() {
		for i := len(b.Instrs) - 1; i >= 0; i-- {
			if st, ok := b.Instrs[i].(*ssa.Store); ok && st.Addr == ssa.Value(a) {
				if b == at.Block() || true {
					s, _ := an.ConstString(st.Val)
					return s
				}
			}
		}
	}
	return ""
}

func checkExtensionStatusLines(c *report.Ctx) {
	f := fn(c, "L/rapid", "logAgentsInitStatus")
	if f != nil {
		sends := an.CallsTo(f, evAPI+"SendExtensionInit")
		ai := an.CallsTo(f, regSvcI+"AgentsInfo")
		ok := len(sends) == 1 && len(ai) == 1 && an.InLoop(sends[0])
		got := map[string]string{}
		for _, st := range an.Stores(f, "L/interop.ExtensionInitData", "") {
			fr, _ := an.AsField(st.Addr)
			if src, k := an.AsField(an.Strip(st.Val, false)); k {
				got[fr.Field] = src.Field
			}
		}
		wired := got["AgentName"] == "Name" && got["State"] == "State" && got["ErrorType"] == "ErrorType" && got["Subscriptions"] == "Subscriptions"
		c.Check("R-WIRE", an.FuncName(f)+"/one-line-per-extension", "one status line per known extension, carrying its name, state, subscriptions and error type", ok && wired, fpos(f), 4, "loop over AgentsInfo(): %v; fields: %v", ok, got)
	}
	if g := fn(c, coreP, "(*registrationServiceImpl).AgentsInfo"); g != nil {
		// both loops build AgentInfo{Name, GetState().Name(), SubscribedEvents(), ErrorType()}
		nlit := 0
		ok := true
		for _, st := range an.Stores(g, "L/core.AgentInfo", "") {
			fr, _ := an.AsField(st.Addr)
			v := an.Strip(st.Val, false)
			switch fr.Field {
			case "Name":
				if src, k := an.AsField(v); !k || src.Field != "Name" {
					ok = false
				}
				nlit++
			case "State":
				if cl, _ := an.CallOf(v); cl == nil || !strings.HasSuffix(an.Callee(cl), "AgentState.Name") {
					ok = false
				}
			case "Subscriptions":
				if cl, _ := an.CallOf(v); cl == nil || !strings.HasSuffix(an.Callee(cl), ".SubscribedEvents") {
					ok = false
				}
			case "ErrorType":
				if cl, _ := an.CallOf(v); cl == nil || !strings.HasSuffix(an.Callee(cl), ".ErrorType") {
					ok = false
				}
			}
		}
		c.Check("R-WIRE", an.FuncName(g)+"/fields", "the reported state is the extension's current state name, with its real subscriptions and reported error type, for external and internal extensions alike", ok && nlit == 2, fpos(g), nlit, "literals: %d; all fields from the agent: %v", nlit, ok)
	}
	for _, spec := range []fsmSpec{externalFSM(), internalFSM()} {
		if m := extractFSM(c, spec); m != nil {
			checkStateNames(c, "L/core."+spec.Owner, m.states, agentStateNames)
		}
	}
}

// checkWatcherRecordsBeforeCancel: in watchEvents the first fatal error is stored
// before the flows are cancelled (the woken handler reads it for its error status).
func checkWatcherRecordsBeforeCancel(c *report.Ctx) {
	f := fn(c, "L/rapid", "(*rapidContext).watchEvents")
	if f == nil {
		return
	}
	stores := an.CallsTo(f, "L/appctx.StoreFirstFatalError")
	cancels := an.CallsTo(f, regSvcI+"CancelFlows")
	// the two recordings: two calls with the fault type written out, or one call handed the type the
	// classification chose (read per incoming edge of the join)
	wfacts := an.NewFacts(f)
	recs, _ := constRecordings(f, wfacts, "L/appctx.StoreFirstFatalError", 1)
	nrec := recordingCount(f, wfacts, "L/appctx.StoreFirstFatalError", 1)
	ok := nrec == 2 && len(cancels) == 1
	if ok {
		isd := an.CallsTo(f, "L/rapid.shutdownContext.isShuttingDown")
		isSD := func(v ssa.Value) bool {
			for _, s := range isd {
				if sv := s.Value(); sv != nil && v == ssa.Value(sv) {
					return true
				}
			}
			return false
		}
		// paths on which the exit was classified as expected (shutting down) carry a nil error and are
		// not cancelled (C08); on all other paths a store must precede the cancel within the iteration
		ord := an.NewOrderPruned(f, func(in ssa.Instruction) uint64 {
			if an.IsCallTo(in, "L/appctx.StoreFirstFatalError") {
				return 1
			}
			return 0
		}, func(from, to *ssa.BasicBlock) bool {
			ifi, k := from.Instrs[len(from.Instrs)-1].(*ssa.If)
			if !k {
				return false
			}
			cnd, pol := normC(ifi.Cond)
			if !isSD(cnd) {
				return false
			}
			// edge on which isShuttingDown() is true
			if pol {
				return from.Succs[0] == to
			}
			return from.Succs[1] == to
		})
		must, _ := ord.Before(cancels[0])
		// the loop's back edge would carry a store of the previous iteration: require the store to be
		// in a block that does not come after the cancel in the same iteration
		ok = must&1 != 0
		for _, s := range stores {
			if cancels[0].Block().Dominates(s.Block()) {
				ok = false
			}
		}
		if ok {
			// must-before across the back edge is vacuous unless it also holds on the first iteration:
			// the entry path into the loop has no store, so must&1 != 0 proves the store is on every
			// unpruned path of the iteration itself
			ok = true
		}
	}
	c.Check("R-ORDER", an.FuncName(f)+"/record-before-cancel", "for an unexpected exit the watcher records the first fatal error (Runtime.ExitError / Extension.Crash) before it cancels the flows, so the handler woken by the cancellation finds it", ok, fpos(f), nrec+len(cancels), "stores: %d, cancels: %d, every non-nil error definition is accompanied by a store that precedes the cancel: %v", nrec, len(cancels), ok)
	// the two constants
	var kinds []string
	seenKind := map[ssa.CallInstruction]map[string]bool{}
	for _, r := range recs {
		if seenKind[r.call] == nil {
			seenKind[r.call] = map[string]bool{}
		}
		if !seenKind[r.call][r.kind] {
			seenKind[r.call][r.kind] = true
			kinds = append(kinds, r.kind)
		}
	}
	for _, s := range stores {
		if len(seenKind[s]) == 0 {
			kinds = append(kinds, "") // (a recording whose type is not a constant on any edge)
		}
	}
	sort.Strings(kinds)
	c.Check("R-CONST", an.FuncName(f)+"/fault-types", "a runtime exit is recorded as Runtime.ExitError, any other process exit as Extension.Crash", strings.Join(kinds, ",") == "Extension.Crash,Runtime.ExitError", fpos(f), len(kinds), "%v", kinds)
}

// sameBranchRegion: b reaches c without leaving through a join that other branches also reach first;
// approximated by: c has a single predecessor chain back to b.
func sameBranchRegion(b, cblk *ssa.BasicBlock) bool {
	for cur := cblk; cur != nil; {
		if cur == b {
			return true
		}
		if len(cur.Preds) != 1 {
			return false
		}
		cur = cur.Preds[0]
	}
	return false
}

var _ = report.Discharged

// emittedCell finds the local of f whose value a closure of f passes as argument idx to callee.
func emittedCell(f *ssa.Function, callee string, idx int) *ssa.Alloc {
	var cell *ssa.Alloc
	for _, g := range f.AnonFuncs {
		for _, call := range an.CallsTo(g, callee) {
			if idx < len(call.Common().Args) {
				if a, ok := freeVarBinding(g, call.Common().Args[idx]).(*ssa.Alloc); ok {
					cell = a
				}
			}
		}
	}
	return cell
}
