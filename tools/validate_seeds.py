#!/usr/bin/env python3
"""Confirms sub-agent seeded changes in ONE scratch worktree of /repo HEAD (outside /repo and /verif):
clean tree + demo passes; with patch: builds, full suite passes, demo fails. Writes /tmp/seedout/validation.json."""
import json, os, re, subprocess, sys, glob, shutil, time
SEEDOUT = os.environ.get("SEEDOUT", "/tmp/seedout")
SUFFIX = os.environ.get("SEED_SUFFIX", "")
ENV = dict(os.environ, GOFLAGS="-mod=mod", GOPROXY="off", GOSUMDB="off", GOTOOLCHAIN="local"); ENV.pop("GOWORK", None)
WT = "/tmp/seedval"
def sh(cmd, cwd=WT, timeout=600):
    try:
        r = subprocess.run(cmd, cwd=cwd, env=ENV, shell=True, capture_output=True, text=True, timeout=timeout)
        return r.returncode, (r.stdout + r.stderr)[-1500:]
    except subprocess.TimeoutExpired:
        return 124, "timeout"
def clean():
    sh("git checkout -q -- . && git clean -fdq")
subprocess.run("git -C /repo worktree remove --force %s 2>/dev/null; git -C /repo worktree add -q --detach %s HEAD" % (WT, WT), shell=True, check=True)
only = sys.argv[1:]
out = {}
if os.path.exists(os.path.join(SEEDOUT, "validation.json")):
    out = json.load(open(os.path.join(SEEDOUT, "validation.json")))
for d in sorted(glob.glob(SEEDOUT + "/" + os.environ.get("SEED_GLOB", "C*"))):
    prop = os.path.basename(d)
    for m in ("m1", "m2", "m3"):
        if m == "m3" and not os.path.exists(os.path.join(d, "m3.diff")): continue
        key = prop + "-" + m
        if only and key not in only and prop not in only: continue
        patch = os.path.join(d, m + ".diff")
        demos = glob.glob(os.path.join(d, m + "_demo*"))
        if not os.path.exists(patch) or not demos:
            out[key] = {"ok": False, "why": "missing files"}; continue
        demo = demos[0]
        head = open(demo).read(600)
        mm = re.search(r"\./((?:cmd|lambda)/[\w/\-]+?)/?(?:\s|$)", head)
        rr = re.search(r"-run\s+'?\"?([\w|^$.*]+)", head)
        if not mm or not rr:
            out[key] = {"ok": False, "why": "cannot parse demo header", "head": head[:200]}; continue
        pkg, run = mm.group(1), rr.group(1)
        res = {"pkg": pkg, "run": run}
        clean()
        dst = os.path.join(WT, pkg, "zz_seed_%s_%s_test.go" % (prop.lower(), m))
        shutil.copy(demo, dst)
        t0 = time.time()
        rc, o = sh("go test -vet=off -count=1 -run '%s' ./%s/" % (run, pkg), timeout=180)
        res["demo_clean_rc"] = rc; res["demo_clean_secs"] = round(time.time() - t0, 1)
        if rc != 0: res["demo_clean_out"] = o[-500:]
        os.remove(dst)
        rc, o = sh("git apply --whitespace=nowarn %s" % patch)
        res["apply_rc"] = rc
        if rc != 0:
            res["apply_out"] = o[-300:]; out[key] = dict(res, ok=False, why="patch does not apply"); clean(); continue
        rc, o = sh("go build ./...")
        res["build_rc"] = rc
        rc, o = sh("go test -vet=off -count=1 ./... 2>&1 | grep -v '^ok\\|no test files' | head -20", timeout=300)
        res["suite_nonok"] = o.strip()[-600:]
        shutil.copy(demo, dst)
        rc, o = sh("go test -vet=off -count=1 -run '%s' ./%s/" % (run, pkg), timeout=180)
        res["demo_mut_rc"] = rc; res["demo_mut_tail"] = o[-400:]
        res["ok"] = res["demo_clean_rc"] == 0 and res["build_rc"] == 0 and res["suite_nonok"] == "" and res["demo_mut_rc"] != 0
        out[key] = res
        clean()
        print(key, "OK" if res["ok"] else "NOT-OK", {k: v for k, v in res.items() if k.endswith("_rc")}, flush=True)
        json.dump(out, open(os.path.join(SEEDOUT, "validation.json"), "w"), indent=1)
subprocess.run("git -C /repo worktree remove --force %s" % WT, shell=True)
