package props

// Rules added after the sixth blind round of seeded changes (per-file prompts, second pass; DESIGN 10.15).

import (
	"go/token"
	"go/types"
	"sort"
	"strings"

	"golang.org/x/tools/go/ssa"

	"verif/checker/internal/an"
	"verif/checker/internal/report"
)

// round6Text: the sentence added to each property's explanation for the rules of this file.
var round6Text = map[string]string{
	"C01": "the park primitive sets and signals under its lock; Invoke.TraceID has no writer but the receivers of the request.",
	"C02": "RenderInteropError recognises both refusal sentinels; the runtime automaton and its locking wrappers are checked here too.",
	"C03": "the listing loop runs over the whole directory listing.",
	"C04": "GetSubscribed*Agents lists exactly the IsSubscribed extensions; the tracing object is omitted only for an empty header; handlers answer once.",
	"C05": "the reservation is cancelled inside the server's critical section; an exit notification closes its channel exactly once; no new wait under a lock.",
	"C06": "bytes of a pooled buffer do not escape; callers of Server.Release are tabled; the synthetic init error is cached only when none is; the invoke steps fail the invocation when they fail; barriers are re-armed with Reset.",
	"C07": "the sandbox keeps the init request's own environment object; the buffered direct-invoke path always reports; map writes need the exclusive lock; a failed wait for init carries type and message; a started process is registered and watched.",
	"C08": "lock pairing on every path; the function metadata is written by SetFunctionMetadata only.",
	"C09": "termination signals have a single owner and the front end never stops its own server; every reset passes its reason and deadline to the choreography.",
	"C10": "callers of Server.Release are tabled; the body read is the request's own.",
	"C12": "RenderInteropError recognises both refusal sentinels.",
	"C13": "function metadata survives resets; registration is refused with the documented types only; the reply carries the identifier header.",
	"C14": "the response handler hands on request.Body itself; no MaxBytes/Timeout wrapper in front of the API router.",
	"C16": "every entry of the exec request's environment is passed on; SetHandler always stores; builder settings precede Create.",
	"C17": "the reservation token compared comes from the URL; recognised modes are returned as declared constants; the buffered path always reports.",
	"C18": "SetCredentials always stores; in snapshot mode the environment is filled by the variant that takes no credentials.",
	"C19": "a started process is registered and watched.",
	"C20": "bytes of a pooled buffer do not escape.",
}

// (a package-level initialiser: it runs before the init functions that register the properties)
var _ = func() bool {
	for id, t := range round6Text {
		round5Text[id] += " Added after the sixth blind round (DESIGN 10.15): " + t
	}
	return true
}()

func init() {
	add := func(id string, fs ...func(*report.Ctx)) { round5Rules[id] = append(round5Rules[id], fs...) }
	add("C01", checkManagedThread, checkTraceIDWriters)
	add("C02", checkInteropErrorMapping, checkRuntimeWrappersLocked)
	add("C03", checkAgentListingWhole)
	add("C04", checkSubscribedAgentsFiltered, checkTracingValueVerbatim, checkTraceIDWriters, checkHandlersReplyOnce, checkManagedThread)
	add("C05", checkReleaseUnderMutex, checkHandleProcessExit, checkNoNewWaitUnderLock)
	add("C06", checkPooledBuffersDoNotEscape, checkReleaseCallers, checkCachedInitErrorGuard, checkInvokeSequence, checkInvokeBarriersReset)
	add("C07", checkSandboxEnvShared, checkBufferedDirectAlwaysReports, checkMapWritesExclusive, checkInitFailureCarriesError, checkStartedMeansWatched)
	add("C08", checkLockPairing, checkFunctionMetadataWriters)
	add("C09", checkSingleSignalHandler, checkManagedThread, checkTeardownBeforeAnswer)
	add("C10", checkReleaseCallers, checkFrontEndReadsBody)
	add("C12", checkInteropErrorMapping)
	add("C13", checkFunctionMetadataWriters, checkRegistrationRefusals, checkRegisterTellsIdentifier)
	add("C14", checkResponseBodyUnwrapped, checkNoBodyLimitWrappers)
	add("C16", checkExecEnvComplete, checkSetHandlerUnconditional, checkConfigureBeforeCreate)
	add("C17", checkReservationTokenFromRequest, checkResponseModeConstants, checkBufferedDirectAlwaysReports)
	add("C18", checkSetCredentialsUnconditional, checkCredentialsNotInEnvironment)
	add("C20", checkPooledBuffersDoNotEscape)
	add("C19", checkStartedMeansWatched)
}

// checkInteropErrorMapping: a submission the platform has already answered for, or whose id is not the in-flight
// one, is refused with 400 InvalidRequestID - both sentinels, whichever way they are compared.
func checkInteropErrorMapping(c *report.Ctx) {
	f := fn(c, "L/rapi/rendering", "RenderInteropError")
	if f == nil || len(f.Params) != 3 {
		return
	}
	facts := an.NewFacts(f)
	got := map[string]bool{}
	for _, call := range an.CallsTo(f, "L/rapi/rendering.RenderInvalidRequestID") {
		// which sentinels can hold on the way here (each `||` arm contributes one)
		_ = call
	}
	an.AllInstrs(f, func(in ssa.Instruction) {
		switch x := in.(type) {
		case *ssa.BinOp:
			if x.Op == token.EQL {
				for _, pair := range [][2]ssa.Value{{x.X, x.Y}, {x.Y, x.X}} {
					if pair[0] == ssa.Value(f.Params[2]) {
						if g := an.GlobalOf(pair[1]); g != "" {
							got[g] = true
						}
					}
				}
			}
		case *ssa.Call:
			if an.Callee(x) == "errors.Is" && len(x.Call.Args) == 2 && an.Strip(x.Call.Args[0], false) == ssa.Value(f.Params[2]) {
				if g := an.GlobalOf(x.Call.Args[1]); g != "" {
					got[g] = true
				}
			}
		}
	})
	_ = facts
	ok := got["L/interop.ErrInvalidInvokeID"] && got["L/interop.ErrResponseSent"]
	rend := len(an.CallsTo(f, "L/rapi/rendering.RenderInvalidRequestID")) == 1
	c.Check("R-GUARD", an.FuncName(f)+"/both-refusals-are-400", "ErrInvalidInvokeID and ErrResponseSent are both recognised (and answered with InvalidRequestID); anything else is a platform fault", ok && rend, fpos(f), len(got), "sentinels tested: %v; renders InvalidRequestID once: %v", keysOf(got), rend)
}

// checkRuntimeWrappersLocked: the runtime's lifecycle automaton (locking wrappers included) is checked where the
// acceptance of a submission is decided.
func checkRuntimeWrappersLocked(c *report.Ctx) {
	spec := runtimeFSM()
	m := extractFSM(c, spec)
	checkFSM(c, spec, m)
}

// checkAgentListingWhole: the listing walks the whole directory listing (no prefix of it).
func checkAgentListingWhole(c *report.Ctx) {
	f := fn(c, "L/agents", "ListExternalAgentPaths")
	if f == nil {
		return
	}
	var bad []string
	pos := fpos(f)
	an.AllInstrs(f, func(in ssa.Instruction) {
		sl, ok := in.(*ssa.Slice)
		if !ok {
			return
		}
		for _, leaf := range an.PhiLeaves(sl.X) {
			if an.IsResultOf(leaf, "os.ReadDir", 0) || an.IsResultOf(leaf, "io/ioutil.ReadDir", 0) {
				bad = append(bad, an.Describe(in))
				pos = an.InstrPos(in)
			}
		}
	})
	c.Check("R-WIRE", an.FuncName(f)+"/whole-listing", "the loop runs over the complete directory listing (a cut before the directory filter drops extension files that sort late)", len(bad) == 0, pos, 1, "sub-slices of the listing: %v", bad)
}

// checkSubscribedAgentsFiltered: the parties of an invocation (and of a shutdown) are exactly the subscribed ones.
func checkSubscribedAgentsFiltered(c *report.Ctx) {
	for _, name := range []string{"GetSubscribedInternalAgents", "GetSubscribedExternalAgents"} {
		f := fn(c, coreP, "(*registrationServiceImpl)."+name)
		if f == nil {
			continue
		}
		// every append happens under IsSubscribed(eventType) == true
		appends, guarded := 0, true
		for _, g := range an.WithAnon(f) {
			facts := an.NewFacts(g)
			an.AllInstrs(g, func(in ssa.Instruction) {
				call, ok := in.(*ssa.Call)
				if !ok {
					return
				}
				if b, isB := call.Call.Value.(*ssa.Builtin); !isB || b.Name() != "append" {
					return
				}
				appends++
				if !facts.Holds(in.Block(), func(ft an.Fact) bool {
					cl, _ := an.CallOf(ft.Cond)
					if !ft.Val || cl == nil {
						return false
					}
					if strings.HasSuffix(an.Callee(cl), "Agent.IsSubscribed") {
						return true
					}
					// a predicate handed in as a function value: the closure must be "IsSubscribed(event)"
					if k := closureBehind(cl); k != nil {
						for _, e := range an.Exits(k) {
							if len(e.Vals) != 1 {
								return false
							}
							rc, _ := an.CallOf(e.Vals[0])
							if rc == nil || !strings.HasSuffix(an.Callee(rc), "Agent.IsSubscribed") {
								return false
							}
						}
						return true
					}
					return false
				}) {
					guarded = false
				}
			})
		}
		// nothing but that list is returned
		direct := true
		for _, e := range an.Exits(f) {
			for _, leaf := range an.PhiLeaves(e.Vals[0]) {
				if cl, _ := an.CallOf(an.Strip(leaf, false)); cl != nil {
					if b, isB := cl.Call.Value.(*ssa.Builtin); !isB || b.Name() != "append" {
						direct = false
					}
				}
			}
		}
		c.Check("R-GUARD", an.FuncName(f)+"/only-subscribed", "the list holds exactly the extensions for which IsSubscribed(event) is true (an extension that did not subscribe to INVOKE is neither sent the event nor waited for)", appends >= 1 && guarded && direct, fpos(f), appends, "appends: %d, all under IsSubscribed: %v; no other list returned: %v", appends, guarded, direct)
	}
}

// checkTracingValueVerbatim: the tracing object of the INVOKE event is left out only for an empty value.
func checkTracingValueVerbatim(c *report.Ctx) {
	f := fn(c, "L/rapi/model", "NewXRayTracing")
	if f == nil || len(f.Params) != 1 {
		return
	}
	facts := an.NewFacts(f)
	n, ok := 0, true
	pos := fpos(f)
	for _, e := range an.Exits(f) {
		if len(e.Vals) != 1 || !an.IsNil(e.Vals[0]) {
			continue
		}
		n++
		if !facts.Holds(e.Ret.Block(), func(ft an.Fact) bool {
			if x, zero, _ := an.LenSign(ft); x != nil && zero && an.Strip(x, false) == ssa.Value(f.Params[0]) {
				return true
			}
			if bo, isB := ft.Cond.(*ssa.BinOp); isB && bo.X == ssa.Value(f.Params[0]) {
				if s, isC := an.ConstString(bo.Y); isC && s == "" && (bo.Op == token.EQL && ft.Val || bo.Op == token.NEQ && !ft.Val) {
					return true
				}
			}
			return false
		}) {
			ok = false
			pos = an.InstrPos(e.Ret)
		}
	}
	c.Check("R-GUARD", an.FuncName(f)+"/nil-only-for-empty", "extensions get the caller's trace header value whatever its shape; the tracing object is omitted only when the value is empty", ok && n >= 1, pos, n, "nil exits: %d, all under value == \"\": %v", n, ok)
}

// checkTraceIDWriters: the trace header value of an invocation is set where the request is received and nowhere else.
func checkTraceIDWriters(c *report.Ctx) {
	allowed := map[string]bool{"M/cmd/aws-lambda-rie.InvokeHandler": true, "L/core/directinvoke.ReceiveDirectInvoke": true, "L/rapidcore/standalone.InvokeHandler": true, "L/rapidcore/standalone.Execute": true}
	var bad []string
	n := 0
	pos := token.NoPos
	for _, f := range repoFuncs(c) {
		if strings.HasPrefix(an.FuncName(f), "L/testdata.") {
			continue
		}
		for _, st := range an.Stores(f, "L/interop.Invoke", "TraceID") {
			n++
			root := f
			for root.Parent() != nil {
				root = root.Parent()
			}
			if !allowed[an.FuncName(root)] {
				bad = append(bad, an.FuncName(f))
				pos = an.InstrPos(st)
			}
		}
	}
	c.Check("R-WHO", "L/interop.Invoke.TraceID/writers", "the trace header value of an invocation is written only by the code that receives the request (runtime and extensions are then given the same, unaltered value)", len(bad) == 0 && n >= 1, pos, n, "writers: %d; unexpected: %v", n, uniq(bad))
}

// checkReleaseUnderMutex: the reservation is cancelled inside the server's critical section.
func checkReleaseUnderMutex(c *report.Ctx) {
	f := fn(c, rapidcP, "(*Server).Release")
	if f == nil {
		return
	}
	held := an.NewHeld(f)
	lp := f.Params[0].Name() + ".mutex"
	n, ok := 0, true
	pos := fpos(f)
	an.AllInstrs(f, func(in ssa.Instruction) {
		fa, isFA := in.(*ssa.FieldAddr)
		if !isFA {
			return
		}
		fr, k := an.AsField(fa)
		if !k || fr.Struct != srvT || !oneOf(fr.Field, "reservationCancel", "invokeCtx", "reservationContext") {
			return
		}
		n++
		if !held.At(in)[lp] {
			ok = false
			pos = an.InstrPos(in)
		}
	})
	c.Check("R-LOCK", an.FuncName(f)+"/reservation-under-mutex", "Release touches the reservation (cancel function, context, invoke context) only while holding the server mutex: cancelled and cleared in one critical section, so a response cannot pass the guards in between and then block forever", ok && n >= 3, pos, n, "accesses: %d, all under the mutex: %v", n, ok)
}

// checkPooledBuffersDoNotEscape: bytes taken from a pooled buffer do not outlive its return to the pool.
func checkPooledBuffersDoNotEscape(c *report.Ctx) {
	npool := 0
	var bad []string
	pos := token.NoPos
	for _, f := range repoFuncs(c) {
		if strings.HasPrefix(an.FuncName(f), "L/testdata.") {
			continue
		}
		puts := an.Calls(f, func(s string) bool { return s == "sync.Pool.Put" })
		if len(puts) == 0 {
			continue
		}
		npool++
		// pooled objects: results of Pool.Get (through the type assertion)
		pooled := map[ssa.Value]bool{}
		an.AllInstrs(f, func(in ssa.Instruction) {
			if ta, ok := in.(*ssa.TypeAssert); ok {
				if cl, _ := an.CallOf(ta.X); cl != nil && an.Callee(cl) == "sync.Pool.Get" {
					pooled[ta] = true
				}
			}
			if ex, ok := in.(*ssa.Extract); ok {
				if ta, ok := ex.Tuple.(*ssa.TypeAssert); ok {
					if cl, _ := an.CallOf(ta.X); cl != nil && an.Callee(cl) == "sync.Pool.Get" {
						pooled[ex] = true
					}
				}
			}
		})
		// aliases of their storage
		alias := map[ssa.Value]bool{}
		an.AllInstrs(f, func(in ssa.Instruction) {
			call, ok := in.(*ssa.Call)
			if !ok || len(call.Call.Args) == 0 || !pooled[call.Call.Args[0]] {
				return
			}
			if oneOf(an.Callee(call), "bytes.Buffer.Bytes", "bytes.Buffer.Next") {
				alias[call] = true
			}
		})
		for changed := true; changed; {
			changed = false
			an.AllInstrs(f, func(in ssa.Instruction) {
				v, isV := in.(ssa.Value)
				if !isV || alias[v] {
					return
				}
				switch x := in.(type) {
				case *ssa.Slice:
					if alias[x.X] {
						alias[v], changed = true, true
					}
				case *ssa.Phi:
					for _, e := range x.Edges {
						if alias[e] {
							alias[v], changed = true, true
						}
					}
				case *ssa.Call:
					if oneOf(an.Callee(x), "bytes.TrimSuffix", "bytes.TrimSpace", "bytes.TrimPrefix", "bytes.TrimRight", "bytes.Trim") && len(x.Call.Args) > 0 && alias[x.Call.Args[0]] {
						alias[v], changed = true, true
					}
				}
			})
		}
		deferredPut := false
		for _, p := range puts {
			if _, isD := p.(*ssa.Defer); isD {
				deferredPut = true
			}
		}
		ord := an.NewOrder(f, func(in ssa.Instruction) uint64 {
			if call, ok := in.(*ssa.Call); ok && an.Callee(call) == "sync.Pool.Put" {
				return 1
			}
			return 0
		})
		an.AllInstrs(f, func(in ssa.Instruction) {
			var rands []*ssa.Value
			uses := false
			for _, r := range in.Operands(rands) {
				if *r != nil && alias[*r] {
					uses = true
				}
			}
			if !uses {
				return
			}
			if v, isV := in.(ssa.Value); isV && alias[v] {
				return
			}
			// after a Put the bytes belong to somebody else
			if _, may := ord.Before(in); may&1 != 0 {
				bad = append(bad, an.FuncName(f)+": "+an.Describe(in)+" after Put")
				pos = an.InstrPos(in)
				return
			}
			if !deferredPut {
				return
			}
			// with a deferred Put: the bytes must be consumed here, not kept or handed out
			switch x := in.(type) {
			case *ssa.Return:
				bad = append(bad, an.FuncName(f)+": returns bytes of a pooled buffer")
				pos = an.InstrPos(in)
			case *ssa.Store:
				if alias[x.Val] {
					bad = append(bad, an.FuncName(f)+": stores bytes of a pooled buffer")
					pos = an.InstrPos(in)
				}
			case *ssa.Call:
				cal := an.Callee(x)
				if strings.HasSuffix(cal, "ResponseWriter.Write") || strings.HasPrefix(cal, "encoding/json.Unmarshal") || strings.HasPrefix(cal, "bytes.Equal") {
					return
				}
				if b, isB := x.Call.Value.(*ssa.Builtin); isB && oneOf(b.Name(), "len", "cap", "copy", "append") {
					if b.Name() != "append" || len(x.Call.Args) > 0 && !alias[x.Call.Args[0]] {
						return
					}
				}
				bad = append(bad, an.FuncName(f)+": passes bytes of a pooled buffer to "+cal)
				pos = an.InstrPos(in)
			case *ssa.Convert:
				// string(b) copies
			}
		})
	}
	sort.Strings(bad)
	c.Check("R-WIRE", "pooled-buffers/bytes-do-not-escape", "where a buffer is taken from a sync.Pool and given back, its bytes are not used after the Put, returned, stored or handed to code that may keep them (the next user of the buffer would overwrite a reply, a cached error body or an error cause already handed out)", len(bad) == 0, pos, npool, "functions returning buffers to a pool: %d; escaping uses: %v", npool, uniq(bad))
}

// checkReleaseCallers: the reservation is released by the invocation that made it, by a reset and by the failed-init
// path - by nobody else.
func checkReleaseCallers(c *report.Ctx) {
	want := map[string]bool{srvT + ".Invoke": true, srvT + ".Reset": true, srvT + ".Clear": true, srvT + ".AwaitInitialized": true, srvT + ".Reserve": true, srvT + ".AwaitRelease": true}
	sites := callSites(c, srvT+".Release")
	var bad []string
	pos := token.NoPos
	for _, s := range sites {
		root := s.Fn
		for root.Parent() != nil {
			root = root.Parent()
		}
		if !want[an.FuncName(root)] {
			bad = append(bad, an.FuncName(root))
			pos = an.InstrPos(s.Call)
		}
	}
	c.Check("R-WHO", srvT+".Release/callers", "the reservation is given back only by Server.Invoke (its own invocation ended), Reset/Clear, AwaitInitialized (failed first init), AwaitRelease (reset during the invocation) and a failed Reserve: not by a refused second caller, and not by the shutdown that precedes the suppressed init", len(bad) == 0 && len(sites) >= 4, pos, len(sites), "call sites: %d; unexpected callers: %v", len(sites), uniq(bad))
}

// checkCachedInitErrorGuard: the runtime's own init-error payload is never replaced by the synthetic one.
func checkCachedInitErrorGuard(c *report.Ctx) {
	inv := fn(c, rapidcP, "(*Server).Invoke")
	if inv == nil {
		return
	}
	n, ok := 0, true
	pos := fpos(inv)
	for _, g := range an.WithAnon(inv) {
		facts := an.NewFacts(g)
		for _, call := range an.CallsTo(g, srvT+".setCachedInitErrorResponse") {
			n++
			if !facts.Holds(call.Block(), func(ft an.Fact) bool {
				return an.CmpNil(ft, true, func(v ssa.Value) bool { return an.IsResultOf(v, srvT+".getCachedInitErrorResponse", -1) })
			}) {
				ok = false
				pos = an.InstrPos(call)
			}
		}
	}
	c.Check("R-GUARD", an.FuncName(inv)+"/synthetic-init-error-only-if-none-cached", "Invoke caches its synthetic (empty) init error only when no init error is cached yet: a payload the runtime posted to /init/error is what the caller gets", ok && n >= 1, pos, n, "cache writes in Invoke: %d, all under getCachedInitErrorResponse() == nil: %v", n, ok)
}

// checkInvokeSequence: the steps of an invocation, each failing the invocation when it fails (shared with C04).
func checkInvokeSequence(c *report.Ctx) {
	outer := fn(c, "L/rapid", "doInvoke$1")
	if outer == nil {
		return
	}
	checkChain(c, outer, "invocation", []step{
		callStep("InitializeBarriers", true, false, invokeFlowI+"InitializeBarriers"),
		callStep("SetAgentsReadyCount", true, true, invokeFlowI+"SetAgentsReadyCount"),
		callStep("release+await response (invoke subsegment)", true, false, "L/telemetry.Tracer.CaptureInvokeSubsegment"),
		callStep("await runtime ready (overhead subsegment)", true, false, "L/telemetry.Tracer.CaptureOverheadSubsegment"),
		callStep("AwaitAgentsReady", true, true, invokeFlowI+"AwaitAgentsReady"),
	}, successNilErr)
}

// checkInvokeBarriersReset: re-arming the invoke barriers keeps a cancellation in force (Reset, not Clear).
func checkInvokeBarriersReset(c *report.Ctx) {
	f := fn(c, coreP, "(*invokeFlowSynchronizationImpl).InitializeBarriers")
	if f == nil {
		return
	}
	// a Reset site is counted once per barrier it re-arms: a call on a barrier field is one; a call on the elements of
	// a local collection filled with barrier fields and looped over (`for _, g := range []Gate{s.a, s.b, s.c} { g.Reset() }`,
	// also behind a variadic helper) is one per field in the collection
	resets := 0
	for _, call := range an.Calls(f, func(s string) bool { return s == "L/core.Gate.Reset" || s == gateT+".Reset" }) {
		if fs, hd := gateElemFields(call, "L/core.invokeFlowSynchronizationImpl"); hd != nil && len(fs) > 0 {
			distinct := map[string]bool{}
			for _, fld := range fs {
				distinct[fld] = true
			}
			resets += len(distinct)
		} else {
			resets++
		}
	}
	clears := len(an.Calls(f, func(s string) bool {
		return s == "L/core.Gate.Clear" || s == gateT+".Clear" || strings.HasSuffix(s, "invokeFlowSynchronizationImpl.Clear")
	}))
	c.Check("R-FANOUT", an.FuncName(f)+"/re-arms-without-clearing", "the barriers of a new invocation are re-armed with Reset (a cancellation recorded while the environment was idle stays in force and fails the invocation at once), never cleared", resets == 3 && clears == 0, fpos(f), resets+clears, "Reset calls: %d, Clear calls: %d", resets, clears)
}

var _ = types.Universe

// checkSandboxEnvShared: re-initialisations inside invocations work on the very environment object the first
// init filled in (a copy taken before the init ran has neither the stored variables nor the "stored" mark).
func checkSandboxEnvShared(c *report.Ctx) {
	f := fn(c, rapidcP, "(SandboxContext).Init")
	if f == nil {
		return
	}
	n, ok := 0, true
	pos := fpos(f)
	for _, st := range an.Stores(f, "L/interop.SandboxInfoFromInit", "EnvironmentVariables") {
		n++
		if !(an.IsFieldLoad(an.Strip(st.Val, false), "L/interop.Init", "EnvironmentVariables") && an.IsInput(st.Val)) {
			ok = false
			pos = an.InstrPos(st)
		}
	}
	c.Check("R-WIRE", an.FuncName(f)+"/environment-shared-with-init", "the environment kept for suppressed inits is the init request's own environment object (pointer identity), not a copy", ok && n == 1, pos, n, "stores: %d, of init.EnvironmentVariables itself: %v", n, ok)
}

// checkBufferedDirectAlwaysReports: after the copy the buffered direct-invoke path always hands its metrics to the
// waiting FastInvoke, whatever the copy's outcome.
func checkBufferedDirectAlwaysReports(c *report.Ctx) {
	g := fn(c, diP, "sendPayloadLimitedResponse")
	if g == nil {
		return
	}
	copies := an.CallsTo(g, "io.Copy")
	isSend := func(in ssa.Instruction) bool {
		s, ok := in.(*ssa.Send)
		if !ok {
			return false
		}
		_, isP := s.Chan.(*ssa.Parameter)
		return isP
	}
	ok := len(copies) == 1
	n := 0
	if ok {
		ord := an.NewOrder(g, func(in ssa.Instruction) uint64 {
			if isSend(in) {
				return 1
			}
			return 0
		})
		for _, e := range an.Exits(g) {
			if !an.InstrDominates(copies[0], e.Ret) {
				continue
			}
			n++
			if must, _ := ord.Before(e.Ret); must&1 == 0 {
				ok = false
			}
		}
	}
	c.Check("R-ORDER", an.FuncName(g)+"/always-reports", "every return after the copy has sent the response metrics on the channel FastInvoke waits on (a truncated copy included: otherwise the invocation never gets an outcome)", ok && n >= 1, fpos(g), n, "returns after the copy: %d, all after the send: %v", n, ok)
}

// checkMapWritesExclusive: a map is not written under a read lock.
func checkMapWritesExclusive(c *report.Ctx) {
	n := 0
	var bad []string
	pos := token.NoPos
	for _, f := range repoFuncs(c) {
		if strings.HasPrefix(an.FuncName(f), "L/testdata.") {
			continue
		}
		writes := false
		var wpos token.Pos
		an.AllInstrs(f, func(in ssa.Instruction) {
			switch x := in.(type) {
			case *ssa.MapUpdate:
				if _, isF := an.AsField(x.Map); isF {
					writes, wpos = true, an.InstrPos(in)
				}
			case *ssa.Call:
				if b, isB := x.Call.Value.(*ssa.Builtin); isB && b.Name() == "delete" && len(x.Call.Args) > 0 {
					if _, isF := an.AsField(x.Call.Args[0]); isF {
						writes, wpos = true, an.InstrPos(in)
					}
				}
			}
		})
		if !writes {
			continue
		}
		r, w := 0, 0
		an.AllInstrs(f, func(in ssa.Instruction) {
			call, ok := in.(ssa.CallInstruction)
			if !ok {
				return
			}
			switch an.Callee(call) {
			case "sync.RWMutex.RLock":
				r++
			case "sync.RWMutex.Lock", "sync.Mutex.Lock":
				w++
			}
		})
		if r+w > 0 {
			n++
		}
		if r > 0 && w == 0 {
			bad = append(bad, an.FuncName(f))
			pos = wpos
		}
	}
	c.Check("R-LOCK", "map-writes-under-exclusive-lock", "no function writes a map field while the only lock it takes is a read lock (two such writers, or a writer and a reader, abort the process with 'concurrent map writes')", len(bad) == 0 && n >= 5, pos, n, "functions writing a map under a lock: %d; under RLock only: %v", n, bad)
}

// checkInitFailureCarriesError: a failed wait for initialisation always carries the failure's type and message.
func checkInitFailureCarriesError(c *report.Ctx) {
	f := fn(c, rapidcP, "(*Server).awaitInitialized")
	if f == nil {
		return
	}
	respT := "L/rapidcore.initCompletionResponse"
	isMsg := isStoreOf(respT, "InitErrorMessage", nil)
	isTyp := isStoreOf(respT, "InitErrorType", nil)
	ord := an.NewOrder(f, func(in ssa.Instruction) uint64 {
		var m uint64
		if isMsg(in) {
			m |= 1
		}
		if isTyp(in) {
			m |= 2
		}
		return m
	})
	n, ok := 0, true
	pos := fpos(f)
	for _, e := range an.ExitTuples(f) {
		if len(e.Vals) < 2 || an.IsNil(e.Vals[len(e.Vals)-1]) {
			continue
		}
		n++
		if must, _ := ord.Before(e.Ret); must&3 == 3 {
			continue
		}
		if e.From != nil {
			if must, _ := ord.Before(e.From.Instrs[len(e.From.Instrs)-1]); must&3 == 3 {
				continue
			}
		}
		// or the two travel as results of their own, straight from the failure that was received
		gotMsg, gotTyp := false, false
		for _, v := range e.Vals[:len(e.Vals)-1] {
			if loadOf("L/interop.InitFailure", "ErrorMessage")(v) {
				gotMsg = true
			}
			if loadOf("L/interop.InitFailure", "ErrorType")(v) {
				gotTyp = true
			}
		}
		if !gotMsg || !gotTyp {
			ok = false
			pos = an.InstrPos(e.Ret)
		}
	}
	c.Check("R-ORDER", an.FuncName(f)+"/failure-carries-type-and-message", "every failing return has filled in the init error type and message (Invoke calls .Error() on the message in a goroutine nobody recovers)", ok && n >= 1, pos, n, "failing exits: %d, all after both stores: %v", n, ok)
}

// checkFunctionMetadataWriters: what extensions are told about the function is set once per emulator, by the init
// request, and survives resets (a re-initialisation does not set it again).
func checkFunctionMetadataWriters(c *report.Ctx) {
	w := storesTo(c, "L/core.registrationServiceImpl", "functionMetadata")
	var bad []string
	n := 0
	for f, sts := range w {
		n += len(sts)
		if an.FuncName(f) != "L/core.registrationServiceImpl.SetFunctionMetadata" {
			bad = append(bad, an.FuncName(f))
		}
	}
	// whole-struct replacement of the service would overwrite it too
	c.Check("R-WHO", "L/core.registrationServiceImpl.functionMetadata/writers", "the function metadata is written by SetFunctionMetadata only (not by Clear: the init that follows a reset does not supply it again)", len(bad) == 0 && n == 1, token.NoPos, n, "writers: %d; unexpected: %v", n, bad)
}

// checkSingleSignalHandler: termination signals are taken in one place (which runs the shutdown functions in order
// and only then lets the process end).
func checkSingleSignalHandler(c *report.Ctx) {
	sites := callSites(c, "os/signal.Notify")
	var bad []string
	pos := token.NoPos
	for _, s := range sites {
		root := s.Fn
		for root.Parent() != nil {
			root = root.Parent()
		}
		if !strings.HasPrefix(an.FuncName(root), "L/rapidcore.") {
			bad = append(bad, an.FuncName(root))
			pos = an.InstrPos(s.Call)
		}
	}
	var stops []string
	for _, s := range callSites(c, "net/http.Server.Shutdown", "net/http.Server.Close") {
		if strings.HasPrefix(an.FuncName(s.Fn), "M/cmd/aws-lambda-rie.") {
			stops = append(stops, an.FuncName(s.Fn))
			pos = an.InstrPos(s.Call)
		}
	}
	c.Check("R-WHO", "os/signal.Notify/single-owner", "SIGTERM/SIGINT are taken by the sandbox builder's handler only, and the front end does not stop its own server (main would return and the process end before the runtime was signalled and reaped)", len(bad) == 0 && len(stops) == 0 && len(sites) >= 1, pos, len(sites), "signal.Notify sites: %d; outside rapidcore: %v; front-end server stopped by: %v", len(sites), bad, stops)
}

// checkRegistrationRefusals: registration is refused for the documented reasons only.
func checkRegistrationRefusals(c *report.Ctx) {
	for _, h := range []struct {
		fn   string
		want []string
	}{
		{"(*agentRegisterHandler).registerExternalAgent", []string{"errAgentInvalidState", "errAgentNameInvalid", "errInvalidEventType"}},
		{"(*agentRegisterHandler).registerInternalAgent", []string{"errAgentInvalidState", "errAgentRegistrationClosed", "errInvalidEventType", "errTooManyExtensions"}},
	} {
		f := fn(c, "L/rapi/handler", h.fn)
		if f == nil {
			continue
		}
		got := map[string]bool{}
		for _, call := range an.CallsTo(f, "L/rapi/rendering.RenderForbiddenWithTypeMsg") {
			v := an.Strip(call.Common().Args[2], true)
			if s, ok := an.ConstString(v); ok {
				got[s] = true
			}
		}
		want := map[string]bool{}
		for _, k := range h.want {
			if kc := c.P.Const("L/rapi/handler", k); kc != nil {
				s, _ := an.ConstString(kc.Value)
				want[s] = true
			}
		}
		var extra []string
		for k := range got {
			if !want[k] {
				extra = append(extra, k)
			}
		}
		sort.Strings(extra)
		c.Check("R-GUARD", an.FuncName(f)+"/refusal-types", "registration is refused only with the documented error types (a further refusal, e.g. a count limit on extensions the platform itself launched, keeps the init barrier closed for ever)", len(extra) == 0 && len(got) >= 2, fpos(f), len(got), "refusal types: %v; undocumented: %v", keysOf(got), extra)
	}
}

// checkResponseBodyUnwrapped: the response handler hands the request body itself to the platform.
func checkResponseBodyUnwrapped(c *report.Ctx) {
	f := fn(c, "L/rapi/handler", "(*invocationResponseHandler).ServeHTTP")
	if f == nil {
		return
	}
	n, ok := 0, true
	pos := fpos(f)
	for _, st := range an.Stores(f, "L/interop.StreamableInvokeResponse", "Payload") {
		n++
		for _, leaf := range an.PhiLeaves(st.Val) {
			if !(an.IsFieldLoad(an.Strip(leaf, false), "net/http.Request", "Body") && an.IsInput(leaf)) {
				ok = false
				pos = an.InstrPos(st)
			}
		}
	}
	c.Check("R-WIRE", an.FuncName(f)+"/payload-is-request-body", "the payload handed to SendResponse is the request's body itself (a limited view makes every oversized response look like limit+1 bytes: the error no longer states the real size)", ok && n == 1, pos, n, "stores: %d, of request.Body itself: %v", n, ok)
}

// checkNoBodyLimitWrappers: request bodies are limited where the property says, nowhere else.
func checkNoBodyLimitWrappers(c *report.Ctx) {
	var bad []string
	pos := token.NoPos
	n := 0
	for _, f := range repoFuncs(c) {
		name := an.FuncName(f)
		if !strings.HasPrefix(name, "L/rapi.") && !strings.HasPrefix(name, "L/rapi/") {
			continue
		}
		n++
		for _, call := range an.CallsTo(f, "net/http.MaxBytesHandler", "net/http.MaxBytesReader", "net/http.TimeoutHandler") {
			bad = append(bad, name+": "+an.Callee(call))
			pos = an.InstrPos(call)
		}
	}
	c.Check("R-WHO", "L/rapi/no-body-limit-wrappers", "the Runtime API does not cap or time out request bodies on its own (the response limit is decided on the complete body by the core; a cap in front of it turns an oversized response into a read error)", len(bad) == 0 && n >= 20, pos, n, "functions examined: %d; wrappers: %v", n, bad)
}

// checkExecEnvComplete: every variable of the exec request reaches the child.
func checkExecEnvComplete(c *report.Ctx) {
	f := fn(c, supP, "(*LocalSupervisor).Exec")
	if f == nil {
		return
	}
	facts := an.NewFacts(f)
	n := 0
	var extra []string
	pos := fpos(f)
	var loopHead *ssa.BasicBlock
	an.AllInstrs(f, func(in ssa.Instruction) {
		if nx, ok := in.(*ssa.Next); ok && loopHead == nil {
			loopHead = nx.Block()
		}
	})
	if loopHead == nil {
		c.Check("R-GUARD", an.FuncName(f)+"/every-variable-passed", "the environment map is walked", false, pos, 0, "no range over the environment map")
		return
	}
	before := map[string]bool{}
	for _, ft := range facts.At(loopHead) {
		before[factsString([]an.Fact{ft})] = true
	}
	an.AllInstrs(f, func(in ssa.Instruction) {
		if !an.InLoop(in) {
			return
		}
		// an entry is added by append, or stored into the next slot of a slice sized for the map
		switch x := in.(type) {
		case *ssa.Call:
			if b, isB := x.Call.Value.(*ssa.Builtin); !isB || b.Name() != "append" {
				return
			}
		case *ssa.Store:
			ia, isIA := x.Addr.(*ssa.IndexAddr)
			if !isIA {
				return
			}
			if bo, isCat := x.Val.(*ssa.BinOp); !isCat || bo.Op != token.ADD {
				return // (the entry is the concatenation key + "=" + value)
			}
			if bt, isStr := x.Val.Type().Underlying().(*types.Basic); !isStr || bt.Info()&types.IsString == 0 {
				return
			}
			if a, isA := ia.X.(*ssa.Alloc); isA && a.Comment == "varargs" {
				return // the argument list of the append itself
			}
		default:
			return
		}
		n++
		for _, ft := range facts.At(in.Block()) {
			s := factsString([]an.Fact{ft})
			if before[s] {
				continue
			}
			// the loop's own "there is a next element" test
			if ex, isE := ft.Cond.(*ssa.Extract); isE {
				if _, isNext := ex.Tuple.(*ssa.Next); isNext && ex.Index == 0 && ft.Val {
					continue
				}
			}
			extra = append(extra, s)
			pos = an.InstrPos(in)
		}
	})
	c.Check("R-GUARD", an.FuncName(f)+"/every-variable-passed", "every entry of the exec request's environment map is appended to the child's environment, unconditionally (values with newlines or tabs included)", n == 1 && len(extra) == 0, pos, n, "appends in the loop: %d; conditions on the way: %v", n, extra)
}

// checkSetHandlerUnconditional: SetHandler sets.
func checkSetHandlerUnconditional(c *report.Ctx) {
	f := fn(c, "L/rapidcore/env", "(*Environment).SetHandler")
	if f == nil {
		return
	}
	n, ok, where := beforeEveryReturn(f, func(in ssa.Instruction) bool {
		mu, isM := in.(*ssa.MapUpdate)
		if !isM || !an.IsFieldLoad(mu.Map, envT, "runtime") {
			return false
		}
		s, isC := an.ConstString(mu.Key)
		_, isP := mu.Value.(*ssa.Parameter)
		return isC && s == "_HANDLER" && isP
	})
	if where == token.NoPos {
		where = fpos(f)
	}
	c.Check("R-ORDER", an.FuncName(f)+"/always-sets", "SetHandler stores the handler it is given on every path (the init request's handler replaces whatever the process environment preloaded)", ok, where, n, "runtime[_HANDLER] = handler sites: %d, on every path: %v", n, ok)
}

// checkConfigureBeforeCreate: the front end configures the sandbox builder before it creates the sandbox.
func checkConfigureBeforeCreate(c *report.Ctx) {
	m := fn(c, "M/cmd/aws-lambda-rie", "main")
	if m == nil {
		return
	}
	sbT := "L/rapidcore.SandboxBuilder"
	isCreate := func(in ssa.Instruction) bool { return an.IsCallTo(in, sbT+".Create") }
	ord := an.NewOrder(m, func(in ssa.Instruction) uint64 {
		if isCreate(in) {
			return 1
		}
		return 0
	})
	n := 0
	var late []string
	pos := fpos(m)
	an.AllInstrs(m, func(in ssa.Instruction) {
		call, ok := in.(*ssa.Call)
		if !ok {
			return
		}
		cal := an.Callee(call)
		if !strings.HasPrefix(cal, sbT+".Set") && cal != sbT+".AddShutdownFunc" {
			return
		}
		n++
		if _, may := ord.Before(in); may&1 != 0 {
			late = append(late, strings.TrimPrefix(cal, sbT+"."))
			pos = an.InstrPos(in)
		}
	})
	handler := len(an.CallsTo(m, sbT+".SetHandler")) == 1
	c.Check("R-ORDER", "M/cmd/aws-lambda-rie.main/configure-before-create", "every setting of the sandbox builder (the command-line handler included) is made before Create copies the settings into the sandbox", len(late) == 0 && handler && n >= 3, pos, n, "builder settings in main: %d; SetHandler called: %v; after Create: %v", n, handler, late)
}

// checkReservationTokenFromRequest: the token checked against the reservation is the one in the request's URL.
func checkReservationTokenFromRequest(c *report.Ctx) {
	f := fn(c, diP, "ReceiveDirectInvoke")
	if f == nil {
		return
	}
	n, ok := 0, true
	pos := fpos(f)
	for _, st := range an.Stores(f, "L/interop.Invoke", "ReservationToken") {
		n++
		cl, _ := an.CallOf(an.Strip(st.Val, false))
		if cl == nil || an.Callee(cl) != "github.com/go-chi/chi.URLParam" {
			ok = false
			pos = an.InstrPos(st)
		}
	}
	c.Check("R-WIRE", an.FuncName(f)+"/reservation-token-from-url", "the reservation token compared with the reserved one is taken from the request's URL (taken from the reservation itself the comparison is vacuous and a stale or foreign token is accepted)", ok && n == 1, pos, n, "stores: %d, from chi.URLParam: %v", n, ok)
}

// checkResponseModeConstants: a recognised function response mode is reported as the declared constant, whatever the
// spelling it arrived in.
func checkResponseModeConstants(c *report.Ctx) {
	f := fn(c, "L/interop", "ConvertToFunctionResponseMode")
	if f == nil || len(f.Params) != 1 {
		return
	}
	n, ok := 0, true
	pos := fpos(f)
	var dep func(v ssa.Value, depth int) bool
	dep = func(v ssa.Value, depth int) bool {
		if depth > 6 || v == nil {
			return false
		}
		if v == ssa.Value(f.Params[0]) {
			return true
		}
		switch x := v.(type) {
		case *ssa.Convert:
			return dep(x.X, depth+1)
		case *ssa.ChangeType:
			return dep(x.X, depth+1)
		case *ssa.Phi:
			for _, e := range x.Edges {
				if dep(e, depth+1) {
					return true
				}
			}
		}
		return false
	}
	for _, e := range an.Exits(f) {
		if len(e.Vals) != 2 || !an.IsNil(e.Vals[1]) {
			continue
		}
		n++
		if dep(e.Vals[0], 0) {
			ok = false
			pos = an.InstrPos(e.Ret)
		}
		// a constant is returned on the edge where the header was found equal to that very constant
		if s, isC := an.ConstString(e.Vals[0]); isC {
			facts := an.NewFacts(f)
			if !facts.Holds(e.Ret.Block(), func(ft an.Fact) bool {
				cl, _ := an.CallOf(ft.Cond)
				if !ft.Val || cl == nil || an.Callee(cl) != "strings.EqualFold" {
					return false
				}
				a, _ := an.ConstString(cl.Call.Args[1])
				b, _ := an.ConstString(cl.Call.Args[0])
				return a == s || b == s
			}) {
				ok = false
				pos = an.InstrPos(e.Ret)
			}
		}
	}
	c.Check("R-WIRE", an.FuncName(f)+"/returns-declared-constants", "the mode returned for a recognised header value is a declared constant, not the header's own spelling (later comparisons are exact)", ok && n >= 1, pos, n, "successful exits: %d, none returning the input text: %v", n, ok)
}

// checkSetCredentialsUnconditional: SetCredentials stores what it is given.
func checkSetCredentialsUnconditional(c *report.Ctx) {
	f := fn(c, coreP, "(*credentialsServiceImpl).SetCredentials")
	if f == nil {
		return
	}
	n, ok, where := beforeEveryReturn(f, func(in ssa.Instruction) bool {
		mu, isM := in.(*ssa.MapUpdate)
		return isM && an.IsFieldLoad(mu.Map, "L/core.credentialsServiceImpl", "credentials")
	})
	if where == token.NoPos {
		where = fpos(f)
	}
	c.Check("R-ORDER", an.FuncName(f)+"/always-stores", "SetCredentials stores the credentials (expiry included) on every path", ok, where, n, "stores into the credentials map: %d, on every path: %v", n, ok)
}

// checkCredentialsNotInEnvironment: in snapshot mode the credentials go to the credentials service, and the
// environment is filled by the variant that takes no credentials.
func checkCredentialsNotInEnvironment(c *report.Ctx) {
	f := fn(c, "L/rapid", "(*rapidContext).acceptInitRequestForInitCaching")
	if f == nil {
		return
	}
	seen := map[*ssa.Function]bool{}
	var plain []string
	caching := 0
	var visit func(g *ssa.Function, depth int)
	visit = func(g *ssa.Function, depth int) {
		if g == nil || seen[g] || depth > 3 {
			return
		}
		seen[g] = true
		an.AllInstrs(g, func(in ssa.Instruction) {
			call, ok := in.(ssa.CallInstruction)
			if !ok {
				return
			}
			switch an.Callee(call) {
			case envT + ".StoreEnvironmentVariablesFromInit":
				plain = append(plain, an.FuncName(g))
			case envT + ".StoreEnvironmentVariablesFromInitForInitCaching":
				caching++
			}
			if sc := call.Common().StaticCallee(); sc != nil && sc.Pkg != nil && strings.HasPrefix(sc.Pkg.Pkg.Path(), "go.amzn.com/lambda/rapid") {
				visit(sc, depth+1)
			}
		})
	}
	visit(f, 0)
	c.Check("R-WHO", an.FuncName(f)+"/credentials-stay-out-of-the-environment", "in snapshot mode the environment is filled by StoreEnvironmentVariablesFromInitForInitCaching only (the plain variant puts the temporary credentials into the environment of the runtime and of every extension)", len(plain) == 0 && caching == 1, fpos(f), caching+len(plain), "init-caching store calls: %d; plain store reached from: %v", caching, plain)
}

// checkRegisterTellsIdentifier: a successful registration tells the extension its identifier, in the header, before
// the body is rendered.
func checkRegisterTellsIdentifier(c *report.Ctx) {
	f := fn(c, "L/rapi/handler", "(*agentRegisterHandler).renderResponse")
	if f == nil {
		return
	}
	k := c.P.Const("L/rapi/handler", "LambdaAgentIdentifier")
	want := ""
	if k != nil {
		want, _ = an.ConstString(k.Value)
	}
	var sets []ssa.Instruction
	for _, call := range an.CallsTo(f, "net/http.Header.Set") {
		a := call.Common().Args
		if s, isC := an.ConstString(a[1]); isC && s == want && want != "" {
			if _, isP := an.Strip(a[2], false).(*ssa.Parameter); isP {
				sets = append(sets, call)
			}
		}
	}
	ok := len(sets) == 1
	if ok {
		for _, r := range an.CallsTo(f, "L/rapi/rendering.RenderJSON") {
			if !an.InstrDominates(sets[0], r) {
				ok = false
			}
		}
	}
	c.Check("R-ORDER", an.FuncName(f)+"/identifier-header", "the registration reply carries the extension's identifier in the "+want+" header, set before the body is written (every later call must present it)", ok, fpos(f), len(sets), "header set from the identifier parameter: %d; before RenderJSON: %v", len(sets), ok)
}

// closureBehind resolves the function a call through a captured variable reaches: the callee value is a load of a
// free variable whose cell, in the enclosing function, is stored exactly once, with a closure or named function.
func closureBehind(call *ssa.Call) *ssa.Function {
	v := call.Call.Value
	if sc := call.Call.StaticCallee(); sc != nil {
		return sc
	}
	ld, ok := v.(*ssa.UnOp)
	if !ok || ld.Op != token.MUL {
		return nil
	}
	fv, ok := ld.X.(*ssa.FreeVar)
	if !ok {
		return nil
	}
	g := call.Parent()
	parent := g.Parent()
	if parent == nil {
		return nil
	}
	idx := -1
	for i, x := range g.FreeVars {
		if x == fv {
			idx = i
		}
	}
	var cell ssa.Value
	an.AllInstrs(parent, func(in ssa.Instruction) {
		if mc, ok := in.(*ssa.MakeClosure); ok && mc.Fn == ssa.Value(g) && idx >= 0 && idx < len(mc.Bindings) {
			cell = mc.Bindings[idx]
		}
	})
	al, ok := cell.(*ssa.Alloc)
	if !ok {
		return nil
	}
	var fnv *ssa.Function
	n := 0
	for _, r := range *al.Referrers() {
		if st, ok := r.(*ssa.Store); ok && st.Addr == ssa.Value(al) {
			n++
			switch x := an.Strip(st.Val, false).(type) {
			case *ssa.MakeClosure:
				fnv, _ = x.Fn.(*ssa.Function)
			case *ssa.Function:
				fnv = x
			}
		}
	}
	if n != 1 {
		return nil
	}
	return fnv
}
