package props

import (
	"fmt"
	"go/token"
	"go/types"
	"os"
	"sort"
	"strings"

	"golang.org/x/tools/go/ssa"

	"verif/checker/internal/an"
	"verif/checker/internal/report"
)

// R-ERRID - error identity flow. A consumer that tells errors apart by identity
// (`err == ErrX`, `switch err { case ErrX: }`) or by concrete type
// (`switch err.(type) { case *T: }`, `err.(*T)`) relies on the producer handing
// the sentinel / the typed error through unchanged. For every such comparison
// whose subject is the error result of a call into the repository, the set of
// errors the callee can return is computed through the call graph (returns are
// followed through every function the VTA graph resolves for the call, through
// φ-nodes, local variables and named results); the compared sentinel or type
// must be in that set. Wrapping the error on the way (fmt.Errorf("...%w")),
// returning a different sentinel, or converting it loses the identity and makes
// the consumer's case unreachable: the behaviour behind that case is gone.

type errLeafSet map[string]bool

type errIDEngine struct {
	c    *report.Ctx
	memo map[*ssa.Function]map[int]errLeafSet
	busy map[*ssa.Function]bool
}

func newErrIDEngine(c *report.Ctx) *errIDEngine {
	return &errIDEngine{c: c, memo: map[*ssa.Function]map[int]errLeafSet{}, busy: map[*ssa.Function]bool{}}
}

// leavesOfValue: what identities can v (an error-typed value inside fn) have.
func (e *errIDEngine) leavesOfValue(v ssa.Value, depth int, seen map[ssa.Value]bool, out errLeafSet) {
	if v == nil || seen[v] {
		return
	}
	seen[v] = true
	if depth > 8 {
		out["?depth"] = true
		return
	}
	switch x := v.(type) {
	case *ssa.Const:
		if x.Value == nil {
			out["nil"] = true
		} else {
			out["?const"] = true
		}
	case *ssa.Phi:
		for _, ed := range x.Edges {
			e.leavesOfValue(ed, depth, seen, out)
		}
	case *ssa.MakeInterface:
		out["type:"+an.TypeName(x.X.Type())] = true
	case *ssa.ChangeInterface:
		e.leavesOfValue(x.X, depth, seen, out)
	case *ssa.ChangeType:
		e.leavesOfValue(x.X, depth, seen, out)
	case *ssa.TypeAssert:
		e.leavesOfValue(x.X, depth, seen, out)
	case *ssa.Extract:
		if call, ok := x.Tuple.(*ssa.Call); ok {
			e.leavesOfCall(call, x.Index, depth, out)
		} else if ta, ok := x.Tuple.(*ssa.TypeAssert); ok && x.Index == 0 {
			e.leavesOfValue(ta.X, depth, seen, out)
		} else if sel, ok := x.Tuple.(*ssa.Select); ok && x.Index >= 2 {
			// value received in a select case: whatever is sent on that channel
			ri := 0
			for _, st := range sel.States {
				if st.Dir == types.RecvOnly {
					if ri == x.Index-2 {
						e.sentOn(st.Chan, x.Parent(), depth, seen, out)
					}
					ri++
				}
			}
		} else {
			out["?extract"] = true
		}
	case *ssa.Call:
		e.leavesOfCall(x, 0, depth, out)
	case *ssa.UnOp:
		if x.Op == token.ARROW {
			e.sentOn(x.X, x.Parent(), depth, seen, out)
			return
		}
		if x.Op != token.MUL {
			out["?op"] = true
			return
		}
		switch a := x.X.(type) {
		case *ssa.Global:
			out["global:"+an.Path(a)] = true
		case *ssa.Alloc:
			n := 0
			for _, ref := range *a.Referrers() {
				if st, ok := ref.(*ssa.Store); ok && st.Addr == ssa.Value(a) {
					n++
					e.leavesOfValue(st.Val, depth, seen, out)
				}
			}
			if n == 0 {
				out["nil"] = true // zero value of a named result
			}
		case *ssa.FieldAddr:
			// a value parked in a struct field: whatever any function stores there
			fr, _ := an.AsField(a)
			n := 0
			for _, sts := range storesTo(e.c, fr.Struct, fr.Field) {
				for _, st := range sts {
					n++
					e.leavesOfValue(st.Val, depth+1, seen, out)
				}
			}
			if n == 0 {
				out["field:"+fr.Struct+"."+fr.Field] = true
			}
		case *ssa.FreeVar:
			// captured variable: the cell bound at the closure's creation
			fn := a.Parent()
			found := false
			if p := fn.Parent(); p != nil {
				for i, fv := range fn.FreeVars {
					if fv != a {
						continue
					}
					for _, g := range an.WithAnon(p) {
						an.AllInstrs(g, func(in ssa.Instruction) {
							if mc, ok := in.(*ssa.MakeClosure); ok && mc.Fn == ssa.Value(fn) && i < len(mc.Bindings) {
								if cell, ok := mc.Bindings[i].(*ssa.Alloc); ok {
									found = true
									e.storesInto(cell, depth, seen, out)
								}
							}
						})
					}
				}
			}
			if !found {
				out["?captured"] = true
			}
		default:
			out["?load"] = true
		}
	case *ssa.Parameter:
		// the arguments at every call site the call graph knows
		fn := x.Parent()
		idx := -1
		for i, p := range fn.Params {
			if p == x {
				idx = i
			}
		}
		n := 0
		for _, site := range callersIndex(e.c)[fn] {
			args := site.Common().Args
			off := 0
			if site.Common().IsInvoke() {
				off = 1 // the receiver is not among Args of an interface call
			}
			if idx-off >= 0 && idx-off < len(args) {
				n++
				e.leavesOfValue(args[idx-off], depth+1, seen, out)
			}
		}
		if n == 0 {
			out["param:"+x.Name()] = true
		}
	case *ssa.Field:
		fr, _ := an.AsField(x)
		out["field:"+fr.Struct+"."+fr.Field] = true
	default:
		out["?"+strings.TrimPrefix(strings.TrimPrefix(typeString(v), "*ssa."), "ssa.")] = true
	}
}

func typeString(v any) string {
	switch v.(type) {
	case *ssa.Lookup:
		return "lookup"
	case *ssa.Index:
		return "index"
	case *ssa.Next:
		return "next"
	}
	return "value"
}

// leavesOfCall: identities of result idx of the call.
func (e *errIDEngine) leavesOfCall(call ssa.CallInstruction, idx, depth int, out errLeafSet) {
	cal := an.Callee(call)
	switch cal {
	case "fmt.Errorf", "errors.New":
		out["fresh:"+cal] = true
		// an error handed to Errorf is wrapped (or flattened into text): its identity does not survive
		if cal == "fmt.Errorf" && len(call.Common().Args) == 2 {
			for _, a := range variadicValues(call.Common().Args[1]) {
				if mi, ok := a.(*ssa.MakeInterface); ok {
					a = mi.X
				}
				if ci, ok := a.(*ssa.ChangeInterface); ok {
					a = ci.X
				}
				if !types.Identical(a.Type(), types.Universe.Lookup("error").Type()) {
					continue
				}
				inner := errLeafSet{}
				e.leavesOfValue(a, depth+1, map[ssa.Value]bool{}, inner)
				for k := range inner {
					if strings.HasPrefix(k, "global:") || strings.HasPrefix(k, "type:") {
						out["wrapped:"+k] = true
					}
				}
			}
		}
		return
	}
	var callees []*ssa.Function
	if sc := call.Common().StaticCallee(); sc != nil {
		callees = append(callees, sc)
	} else if n := e.c.P.CallGraph().Nodes[call.Parent()]; n != nil {
		for _, ed := range n.Out {
			if ed.Site == call && ed.Callee != nil && ed.Callee.Func != nil {
				callees = append(callees, ed.Callee.Func)
			}
		}
	}
	n := 0
	for _, g := range callees {
		if g.Pkg == nil || g.Pkg.Pkg == nil || !strings.HasPrefix(g.Pkg.Pkg.Path(), "go.amzn.com") || len(g.Blocks) == 0 {
			continue
		}
		if strings.HasPrefix(an.FuncName(g), "L/testdata.") || strings.Contains(an.FuncName(g), "/mocks.") {
			continue
		}
		n++
		for k := range e.returns(g, idx, depth+1) {
			out[k] = true
		}
	}
	if n == 0 {
		if strings.HasPrefix(cal, "L/") || strings.HasPrefix(cal, "M/") {
			out["?unresolved:"+cal] = true // a call into the repository for which the call graph knows no body (dead code, mocks only)
		} else {
			out["ext:"+cal] = true
		}
	}
}

func (e *errIDEngine) returns(g *ssa.Function, idx, depth int) errLeafSet {
	if m, ok := e.memo[g]; ok {
		if s, ok := m[idx]; ok {
			return s
		}
	}
	if e.busy[g] {
		return errLeafSet{}
	}
	e.busy[g] = true
	defer delete(e.busy, g)
	out := errLeafSet{}
	for _, ex := range an.Exits(g) {
		if idx < len(ex.Vals) {
			e.leavesOfValue(ex.Vals[idx], depth, map[ssa.Value]bool{}, out)
		}
	}
	if e.memo[g] == nil {
		e.memo[g] = map[int]errLeafSet{}
	}
	e.memo[g][idx] = out
	return out
}

type errCompare struct {
	fn      *ssa.Function
	at      ssa.Instruction
	subject ssa.Value
	want    string // "global:..." or "type:..."
}

// errComparisons lists identity/type comparisons of error values in f.
func errComparisons(f *ssa.Function) []errCompare {
	var out []errCompare
	isErr := func(t types.Type) bool {
		return types.Identical(t, types.Universe.Lookup("error").Type())
	}
	an.AllInstrs(f, func(in ssa.Instruction) {
		switch x := in.(type) {
		case *ssa.BinOp:
			if x.Op != token.EQL && x.Op != token.NEQ {
				return
			}
			for _, pair := range [][2]ssa.Value{{x.X, x.Y}, {x.Y, x.X}} {
				if g := an.GlobalOf(pair[1]); g != "" && isErr(pair[0].Type()) && an.GlobalOf(pair[0]) == "" {
					out = append(out, errCompare{f, in, pair[0], "global:" + g})
				}
			}
		case *ssa.TypeAssert:
			if isErr(x.X.Type()) {
				if _, isIface := x.AssertedType.Underlying().(*types.Interface); !isIface {
					out = append(out, errCompare{f, in, x.X, "type:" + an.TypeName(x.AssertedType)})
				}
			}
		}
	})
	return out
}

// checkErrorIdentity applies R-ERRID to the consumers selected by scope. dead lists comparisons that
// are known to be unreachable on the pinned tree (consumer function + wanted identity -> reason).
func checkErrorIdentity(c *report.Ctx, scope func(fnName string) bool, dead map[string]string, min int) {
	eng := newErrIDEngine(c)
	n := 0
	for _, f := range repoFuncs(c) {
		name := an.FuncName(f)
		if !scope(name) {
			continue
		}
		for _, cmp := range errComparisons(f) {
			leaves := errLeafSet{}
			eng.leavesOfValue(cmp.subject, 0, map[ssa.Value]bool{}, leaves)
			// only subjects that come (at least partly) out of calls resolved inside the repository are decidable
			// identities the chase could not resolve make a missing identity undecidable (results of calls outside
			// the repository - "ext:" - cannot be one of the repository's sentinels or error types and do not)
			decidable := len(leaves) > 0
			for k := range leaves {
				if strings.HasPrefix(k, "?") || strings.HasPrefix(k, "param:") || strings.HasPrefix(k, "field:") {
					decidable = false
				}
			}
			if leaves[cmp.want] {
				decidable = true
			}
			key := name + "/" + strings.TrimPrefix(strings.TrimPrefix(cmp.want, "global:"), "type:")
			if !decidable {
				if os.Getenv("RIECHECK_EXPLORE") != "" {
					fmt.Printf("UNDECIDABLE %s: %v\n", key, keysOfSet(leaves))
				}
				c.Note("R-ERRID not decidable for %s (subject has origins outside the resolved call graph: %v)", key, keysOfSet(leaves))
				continue
			}
			n++
			ok := leaves[cmp.want]
			if !ok && strings.HasPrefix(cmp.want, "type:") {
				// pointer/non-pointer spelling
				ok = leaves["type:*"+strings.TrimPrefix(cmp.want, "type:")] || leaves["type:"+strings.TrimPrefix(strings.TrimPrefix(cmp.want, "type:"), "*")]
			}
			if ok && leaves["wrapped:"+cmp.want] {
				c.Check("R-ERRID", key+"/not-wrapped", "no function on the way wraps the compared error (fmt.Errorf) on one of its paths: a wrapped sentinel no longer equals itself and the consumer falls into its default case", false, an.InstrPos(cmp.at), 1, "%s also reaches the comparison wrapped by fmt.Errorf", cmp.want)
			}
			if why, isDead := dead[key]; isDead && !ok {
				c.Check("R-ERRID", key, "comparison listed as unreachable on the pinned tree: "+why, true, an.InstrPos(cmp.at), 1, "producers return: %v", keysOfSet(leaves))
				continue
			}
			c.Check("R-ERRID", key, "the error a handler tells apart by identity or type reaches it unchanged from the function that produces it (not wrapped, converted or replaced on the way)", ok, an.InstrPos(cmp.at), len(leaves), "compared with %s; the callee(s) can return: %v", cmp.want, keysOfSet(leaves))
		}
	}
	c.Check("R-COUNT", "R-ERRID/instances", "error comparisons with a producer inside the repository were found", n >= min, token.NoPos, n, "%d comparisons decided", n)
}

func keysOfSet(m errLeafSet) []string {
	var ks []string
	for k := range m {
		ks = append(ks, k)
	}
	sort.Strings(ks)
	return ks
}

// storesInto: identities of everything stored into a local cell (by the function tree it belongs to).
func (e *errIDEngine) storesInto(cell *ssa.Alloc, depth int, seen map[ssa.Value]bool, out errLeafSet) {
	root := cell.Parent()
	for root.Parent() != nil {
		root = root.Parent()
	}
	n := 0
	for _, g := range an.WithAnon(root) {
		an.AllInstrs(g, func(in ssa.Instruction) {
			st, ok := in.(*ssa.Store)
			if !ok {
				return
			}
			addr := st.Addr
			if fv, isFV := addr.(*ssa.FreeVar); isFV {
				// store through a captured reference to the same cell
				fn := fv.Parent()
				for i, v := range fn.FreeVars {
					if v != fv || fn.Parent() == nil {
						continue
					}
					for _, h := range an.WithAnon(root) {
						an.AllInstrs(h, func(in2 ssa.Instruction) {
							if mc, ok := in2.(*ssa.MakeClosure); ok && mc.Fn == ssa.Value(fn) && i < len(mc.Bindings) && mc.Bindings[i] == ssa.Value(cell) {
								n++
								e.leavesOfValue(st.Val, depth, seen, out)
							}
						})
					}
				}
				return
			}
			if addr == ssa.Value(cell) {
				n++
				e.leavesOfValue(st.Val, depth, seen, out)
			}
		})
	}
	if n == 0 {
		out["nil"] = true
	}
}

// sentOn: identities of every value sent on the channel named like ch within the function tree of fn
// (channels are matched by the variable or field they live in).
func (e *errIDEngine) sentOn(ch ssa.Value, fn *ssa.Function, depth int, seen map[ssa.Value]bool, out errLeafSet) {
	name := chanName(ch)
	root := fn
	for root.Parent() != nil {
		root = root.Parent()
	}
	var scope []*ssa.Function
	if u, ok := ch.(*ssa.UnOp); ok {
		if _, isField := u.X.(*ssa.FieldAddr); isField {
			scope = repoFuncs(e.c) // a channel stored in a struct: any function may send on it
		}
	}
	if scope == nil {
		scope = an.WithAnon(root)
	}
	n := 0
	for _, g := range scope {
		an.AllInstrs(g, func(in ssa.Instruction) {
			switch x := in.(type) {
			case *ssa.Send:
				if chanName(x.Chan) == name {
					n++
					e.leavesOfValue(x.X, depth+1, seen, out)
				}
			case *ssa.Select:
				for _, st := range x.States {
					if st.Dir == types.SendOnly && chanName(st.Chan) == name {
						n++
						e.leavesOfValue(st.Send, depth+1, seen, out)
					}
				}
			}
		})
	}
	if n == 0 {
		out["?chan:"+name] = true
	}
}

// frontEndDeadCases: cases of the front end's error switch that the emulator's Server.Invoke cannot
// produce on the pinned tree (FastInvoke's error is only logged by Server.Invoke; the reserve-side and
// reply-side refusals belong to the managed platform's multi-step API). Listed so that R-ERRID reports
// only cases that WERE reachable and stop being so.
var frontEndDeadCases = map[string]string{}

func init() {
	for _, e := range []string{"ErrInternalServerError", "ErrReserveReservationDone", "ErrNotReserved", "ErrAlreadyReplied", "ErrAlreadyInvocating", "ErrInvokeReservationDone", "ErrInvokeResponseAlreadyWritten"} {
		frontEndDeadCases["M/cmd/aws-lambda-rie.InvokeHandler/L/rapidcore."+e] = "Server.Invoke cannot return it on the pinned tree (legacy case of the managed platform's API)"
	}
}

func scopeFrontEnd(n string) bool {
	return n == "M/cmd/aws-lambda-rie.InvokeHandler" || strings.HasPrefix(n, "L/rapidcore.Server.Invoke")
}

func scopeReplyPath(n string) bool {
	return n == "L/rapi/handler.invocationResponseHandler.ServeHTTP" || n == "L/rapidcore.Server.trySendDefaultErrorResponse" || n == "L/rapi/rendering.RenderInteropError"
}

func scopeAgentHandlers(n string) bool {
	return strings.HasPrefix(n, "L/rapi/handler.agent") || strings.HasPrefix(n, "L/rapi/handler.runtimeLogs")
}
