package props

// Rules added after the seventh blind round (third pass per file): each is a necessary condition of the property
// named in its text, read off one seeded change and phrased over the construct, not over its spelling.

import (
	"go/token"
	"go/types"
	"sort"
	"strings"

	"golang.org/x/tools/go/ssa"

	"verif/checker/internal/an"
	"verif/checker/internal/report"
)

func init() {
	add := func(id string, fs ...func(*report.Ctx)) { round5Rules[id] = append(round5Rules[id], fs...) }
	add("C01", checkEventBufferedOnEveryPoll)
	add("C12", checkEventBufferedOnEveryPoll, checkNoParkUnderForeignLock)
	add("C04", checkNoQuoteInMarshalJSON, checkIsSubscribedIsLookup)
	add("C05", checkFrontEndInitDoesNotWait, checkShutdownSharesOfRemaining, checkReleaseAlwaysCancels, checkResetTearsDownBeforeServerLock, checkNoParkUnderForeignLock)
	add("C06", checkOnlyResetCancelsWithResetError, checkIsSubscribedIsLookup)
	add("C07", checkNoParkUnderForeignLock, checkPidWrittenOnce)
	add("C08", checkExitChannelsRemadeOnlyAfterWait, checkNoOpTracerStateless, checkNoParkUnderForeignLock)
	add("C09", checkAgentNameVerbatim, checkCountAgentsCountsAll, checkShutdownDeadlineFromNow, checkShutdownSharesOfRemaining, checkPidWrittenOnce)
	add("C03", checkAgentNameVerbatim, checkCountAgentsCountsAll)
	add("C14", checkEventBufferOnlyThroughLimit)
	add("C15", checkExtensionInitDataPerAgent, checkRuntimeDoneBeforeTeardown)
	add("C16", checkAPIAddressStoredOnlyWhenParsed, checkListenOnce, checkCustomerFilterUsesAllGroups, checkDefaultsBeforeSystemEnvironment, checkCredentialsNotInEnvironment)
	add("C17", checkCopyErrorIsTheCopys, checkNoUnguardedDivision, checkConnSavedInContext, checkBandwidthConstants, checkResetAwaitsSenderAck, checkNoQuoteInMarshalJSON)
	add("C18", checkInitCachingPublishesCredentials, checkCredentialsFoundMeansReturned, checkRuntimeWrappers)
	add("C19", checkKillIgnoresSyscallResult)
	add("C20", checkRuntimeReleaseOnlyOnRuntimeRouter, checkCropStringIsByteSlice, checkNoQuoteInMarshalJSON)
	// rules that existed and were not shared with the property the seed was written for
	add("C03", checkInitFlowPairs)
	add("C06", checkTracerWrappers)
	add("C07", checkGlobals)
	add("C10", checkNoNewWaitUnderLock)
}

func checkInitFlowPairs(c *report.Ctx) {
	checkFlow(c, "initFlowSynchronizationImpl", []string{"CancelWithError", "Clear"}, map[string]string{"CancelWithError": "CancelWithError", "Clear": "Clear"},
		[][]string{
			{"RuntimeReady", "AwaitRuntimeReady", ""},
			{"RuntimeRestoreReady", "AwaitRuntimeRestoreReady", ""},
			{"AgentReady", "AwaitAgentsReady", "SetAgentsReadyCount"},
			{"ExternalAgentRegistered", "AwaitExternalAgentsRegistered", "SetExternalAgentsRegisterCount"},
		})
}

func checkRuntimeWrappers(c *report.Ctx) {
	spec := runtimeFSM()
	if m := extractFSM(c, spec); m != nil {
		checkFSM(c, spec, m)
	}
}

var round8Text = map[string]string{
	"C01": "Round 8: every poll with a payload goes through bufferInvokeRequest before it writes the buffer.",
	"C04": "Round 8: no hand-written JSON marshaller quotes with strconv.Quote; IsSubscribed is the plain lookup in the subscription set.",
	"C05": "Round 8: the front end's Init only starts initialisation; the runtime's share of a shutdown is a share of the remaining time; Release cancels the reservation whenever there is one; Reset tears the sandbox down before it takes the server mutex; no function outside core holds a mutex across a call that parks on a condition variable.",
	"C06": "Round 8: only HandleReset cancels the flows with the reset error; IsSubscribed is the plain lookup.",
	"C07": "Round 8: no mutex is held across a parking call; a process's pid is written when it is registered and never again.",
	"C08": "Round 8: the exit-channel map is re-made only by its constructor and after the wait of clearExitedChannel; the no-op tracer has no state.",
	"C09": "Round 8: an agent is registered under the name it was launched with; every agent counts; the shutdown after a failed init gets its allowance from the moment it starts.",
	"C14": "Round 8: the event buffer is filled through the size limit only.",
	"C16": "Round 8: the Runtime API address is stored only when host and port parsed; the API server listens once, on the configured address; the customer filter consults all five reserved groups; the front end's defaults are set before the system's environment is copied over them.",
	"C17": "Round 8: the copy's error is io.Copy's; no division by an unguarded quantity in the limiter; the connection is saved in the request context; the bandwidth constants have their documented values; a reset waits for the sender's acknowledgement.",
	"C18": "Round 8: init caching always publishes the credentials; credentials found are credentials returned; the runtime's transitions run under its lock.",
	"C19": "Round 8: the result of kill(2) is not an outcome of Kill.",
	"C20": "Round 8: the runtime-release middleware sits on the runtime's router only; cropString cuts bytes.",
	"C15": "Round 8: each extension's init record is built from that extension alone; runtimeDone is reported before the teardown deletes the recorded fault.",
}

var _ = func() bool {
	for id, t := range round8Text {
		round5Text[id] += " " + t
	}
	return true
}()

const rendP = "L/rapi/rendering"

// checkEventBufferedOnEveryPoll (C01, C12): a poll that has a payload to hand out goes through bufferInvokeRequest
// (which reads the event once, under the renderer's mutex) before it writes the buffer: no shortcut past the mutex.
func checkEventBufferedOnEveryPoll(c *report.Ctx) {
	f := fn(c, rendP, "(*InvokeRenderer).RenderRuntimeEvent")
	if f == nil {
		return
	}
	ord := an.NewOrder(f, func(in ssa.Instruction) uint64 {
		if an.IsCallTo(in, rendP+".InvokeRenderer.bufferInvokeRequest") {
			return 1
		}
		return 0
	})
	n, ok := 0, true
	pos := fpos(f)
	for _, call := range an.CallsTo(f, "bytes.Buffer.Bytes") {
		recv := call.Common().Args[0]
		if !loadOf(rendP+".InvokeRenderer", "requestBuffer")(recv) {
			continue
		}
		n++
		if must, _ := ord.Before(call); must&1 == 0 {
			ok = false
			pos = an.InstrPos(call)
		}
	}
	c.Check("R-ORDER", an.FuncName(f)+"/buffered-before-written", "the buffered event is read out only after bufferInvokeRequest ran on this poll (it fills the buffer once, under the renderer's mutex; a poll that skips it can see a half-filled buffer)", ok && n >= 1, pos, n, "reads of the request buffer: %d, each certainly after bufferInvokeRequest: %v", n, ok)
}

// checkNoQuoteInMarshalJSON (C04, C20): strconv.Quote is Go quoting, not JSON quoting (\x.. and \U escapes, invalid
// UTF-8 kept): a hand-written MarshalJSON that uses it emits invalid JSON for some strings and the event is lost.
func checkNoQuoteInMarshalJSON(c *report.Ctx) {
	var bad []string
	n := 0
	for _, f := range repoFuncs(c) {
		if f.Name() != "MarshalJSON" && f.Name() != "MarshalText" {
			continue
		}
		n++
		for _, g := range an.WithAnon(f) {
			for _, call := range an.Calls(g, func(s string) bool {
				return strings.HasPrefix(s, "strconv.Quote") || strings.HasPrefix(s, "strconv.AppendQuote")
			}) {
				bad = append(bad, an.FuncName(f)+" calls "+an.Callee(call))
			}
		}
	}
	sort.Strings(bad)
	c.Check("R-WHO", "json/no-go-quoting-in-marshallers", "no MarshalJSON of the repository builds its output with strconv.Quote (Go string syntax is not JSON: unprintable and invalid bytes come out as \\x.. and \\U........ escapes, which make the document invalid)", len(bad) == 0, token.NoPos, n+1, "marshallers: %d; Go-quoting ones: %v", n, bad)
}

// checkIsSubscribedIsLookup (C04, C06): the invoke barrier is sized by IsSubscribed; an agent that reported an error
// but still lives must keep counting, so the answer depends on the subscription set alone.
func checkIsSubscribedIsLookup(c *report.Ctx) {
	for _, T := range []string{"ExternalAgent", "InternalAgent"} {
		f := fn(c, coreP, "(*"+T+").IsSubscribed")
		if f == nil {
			continue
		}
		ok := true
		n := 0
		for _, e := range an.Exits(f) {
			n++
			v := e.Vals[0]
			ex, isEx := v.(*ssa.Extract)
			if !isEx || ex.Index != 1 {
				ok = false
				continue
			}
			lk, isLk := ex.Tuple.(*ssa.Lookup)
			if !isLk || !lk.CommaOk || !an.IsFieldLoad(lk.X, coreP+"."+T, "events") {
				ok = false
			}
		}
		c.Check("R-SHAPE", an.FuncName(f)+"/plain-lookup", "IsSubscribed answers from the subscription set alone (the invoke barrier counts and releases by it: an extension in an error state that still runs is still awaited)", ok && n >= 1, fpos(f), n, "exits: %d, each the comma-ok of a lookup in events: %v", n, ok)
	}
}

// checkFrontEndInitDoesNotWait (C05): the front end calls Init and then Invoke under its init mutex; the timeout
// clock runs inside Invoke only, so Init must return at once.
func checkFrontEndInitDoesNotWait(c *report.Ctx) {
	f := fn(c, rapidcP, "(*EmulatorAPI).Init")
	if f == nil {
		return
	}
	var callees []string
	for _, g := range an.WithAnon(f) {
		an.AllInstrs(g, func(in ssa.Instruction) {
			if call, ok := in.(ssa.CallInstruction); ok {
				if cal := an.Callee(call); strings.HasPrefix(cal, "L/rapidcore.") || strings.HasPrefix(cal, "L/interop.") {
					callees = append(callees, cal)
				}
			}
		})
	}
	sort.Strings(callees)
	ok := len(callees) == 1 && (callees[0] == srvT+".Init" || callees[0] == "L/interop.Server.Init")
	c.Check("R-WHO", an.FuncName(f)+"/only-starts-init", "the front end's Init hands the request to Server.Init and returns: it waits for nothing (initialisation is awaited inside Invoke, where the timeout runs)", ok, fpos(f), len(callees), "calls into the sandbox: %v", callees)
}

// checkShutdownSharesOfRemaining (C05, C09): the runtime's deadline within a shutdown is a share of the time that
// is left (deadline - now), not of the absolute deadline.
func checkShutdownSharesOfRemaining(c *report.Ctx) {
	f := fn(c, "L/rapid", "(*shutdownContext).shutdown")
	if f == nil {
		return
	}
	n, ok := 0, true
	pos := fpos(f)
	var isRemaining func(v ssa.Value, depth int) bool
	isRemaining = func(v ssa.Value, depth int) bool {
		if depth > 6 {
			return false
		}
		v = an.Strip(v, true)
		switch x := v.(type) {
		case *ssa.Phi:
			for _, e := range x.Edges {
				if n, isC := an.ConstInt(e); isC && n == 0 {
					continue
				}
				if !isRemaining(e, depth+1) {
					return false
				}
			}
			return true
		case *ssa.BinOp:
			return x.Op == token.SUB && an.IsResultOf(an.Strip(x.Y, true), "L/metering.Monotime", -1)
		case *ssa.Convert:
			return isRemaining(x.X, depth+1)
		}
		return false
	}
	an.AllInstrs(f, func(in ssa.Instruction) {
		bo, isBO := in.(*ssa.BinOp)
		if !isBO || bo.Op != token.MUL {
			return
		}
		if _, isF := bo.Type().Underlying().(*types.Basic); !isF || bo.Type().Underlying().(*types.Basic).Info()&types.IsFloat == 0 {
			return
		}
		var other ssa.Value
		if k, isC := bo.Y.(*ssa.Const); isC && k.Value != nil {
			other = bo.X
		} else if k, isC := bo.X.(*ssa.Const); isC && k.Value != nil {
			other = bo.Y
		} else {
			return
		}
		n++
		if !isRemaining(other, 0) {
			ok = false
			pos = an.InstrPos(in)
		}
	})
	c.Check("R-WIRE", an.FuncName(f)+"/share-of-remaining-time", "the runtime's share of a shutdown is a fraction of the time remaining until the deadline (deadline - now, floored at 0)", ok && n == 1, pos, n, "share computations: %d, of the remaining time: %v", n, ok)
}

// checkReleaseAlwaysCancels (C05): AwaitRelease waits on the reservation context; Release must cancel it whenever
// there is one, whatever else is true of the invocation.
func checkReleaseAlwaysCancels(c *report.Ctx) {
	f := fn(c, rapidcP, "(*Server).Release")
	if f == nil {
		return
	}
	isCancelField := func(v ssa.Value) bool { return loadOf(srvT, "reservationCancel")(an.Strip(v, false)) }
	var cancelCalls []ssa.Instruction
	an.AllInstrs(f, func(in ssa.Instruction) {
		if call, ok := in.(*ssa.Call); ok && !call.Call.IsInvoke() && isCancelField(call.Call.Value) {
			cancelCalls = append(cancelCalls, in)
		}
	})
	facts := an.NewFacts(f)
	isCall := map[ssa.Instruction]bool{}
	for _, in := range cancelCalls {
		isCall[in] = true
	}
	// an edge on which the cancel function is known to be nil needs no call
	ord := an.NewOrderPruned(f, func(in ssa.Instruction) uint64 {
		if isCall[in] {
			return 1
		}
		return 0
	}, func(from, to *ssa.BasicBlock) bool {
		iff, isIf := from.Instrs[len(from.Instrs)-1].(*ssa.If)
		if !isIf || len(from.Succs) != 2 {
			return false
		}
		for k := 0; k < 2; k++ {
			if from.Succs[k] == to && from.Succs[1-k] != to && an.CmpNil(an.Fact{Cond: iff.Cond, Val: k == 0}, true, isCancelField) {
				return true
			}
		}
		return false
	})
	_ = facts
	n, ok := 0, true
	pos := fpos(f)
	for _, e := range an.Exits(f) {
		if len(e.Vals) != 1 || !an.IsNil(e.Vals[0]) || !ord.Reached(e.Ret) {
			continue
		}
		n++
		if must, _ := ord.Before(e.Ret); must&1 == 0 {
			ok = false
			pos = an.InstrPos(e.Ret)
		}
	}
	c.Check("R-ORDER", an.FuncName(f)+"/cancels-whenever-reserved", "a successful Release has cancelled the reservation context if there is one (the release thread of Invoke waits on it: a condition on anything else leaves it waiting)", ok && n >= 1 && len(cancelCalls) >= 1, pos, n, "cancel call sites: %d; successful exits: %d, each after the cancel unless there is none: %v", len(cancelCalls), n, ok)
}

// checkResetTearsDownBeforeServerLock (C05): the reply sink holds the server mutex while it reads the runtime's
// body; the reset must reach the sandbox (which kills the runtime) without queuing for that mutex.
func checkResetTearsDownBeforeServerLock(c *report.Ctx) {
	f := fn(c, rapidcP, "(*Server).Reset")
	if f == nil {
		return
	}
	lockers := map[string]bool{}
	for _, g := range repoFuncs(c) {
		if !strings.HasPrefix(an.FuncName(g), srvT+".") {
			continue
		}
		for _, o := range an.LockOps(g) {
			if o.Acquire && strings.HasSuffix(o.Path, ".mutex") {
				lockers[an.FuncName(g)] = true
			}
		}
	}
	var bad []string
	n := 0
	pos := fpos(f)
	for _, g := range an.WithAnon(f) {
		resets := an.CallsTo(g, "L/interop.SandboxContext.Reset", "L/rapidcore.SandboxContext.Reset")
		if len(resets) == 0 {
			continue
		}
		n += len(resets)
		ord := an.NewOrder(g, func(in ssa.Instruction) uint64 {
			if call, ok := in.(ssa.CallInstruction); ok && lockers[an.Callee(call)] {
				return 1
			}
			if o := an.LockOps1(in); o.Acquire && strings.HasSuffix(o.Path, ".mutex") {
				return 1
			}
			return 0
		})
		for _, r := range resets {
			if _, may := ord.Before(r); may&1 != 0 {
				bad = append(bad, an.FuncName(g))
				pos = an.InstrPos(r)
			}
		}
		// the goroutine that performs the reset starts after whatever its creator did first: an acquisition in the
		// enclosing function(s) before the closure is made precedes the hand-over just the same
		for child, par := g, g.Parent(); par != nil; child, par = par, par.Parent() {
			pord := an.NewOrder(par, func(in ssa.Instruction) uint64 {
				if call, ok := in.(ssa.CallInstruction); ok && lockers[an.Callee(call)] {
					return 1
				}
				if o := an.LockOps1(in); o.Acquire && strings.HasSuffix(o.Path, ".mutex") {
					return 1
				}
				return 0
			})
			an.AllInstrs(par, func(in ssa.Instruction) {
				if mc, ok := in.(*ssa.MakeClosure); ok && mc.Fn == ssa.Value(child) {
					if _, may := pord.Before(mc); may&1 != 0 {
						bad = append(bad, an.FuncName(par))
						pos = an.InstrPos(mc)
					}
				}
			})
		}
	}
	c.Check("R-ORDER", an.FuncName(f)+"/teardown-before-server-mutex", "the reset hands over to the sandbox (which terminates the processes) before anything that takes the server mutex: a reply sink stalled on the runtime's body holds that mutex until the runtime is gone", len(bad) == 0 && n == 1 && len(lockers) >= 5, pos, n, "sandbox reset sites: %d; preceded by an acquisition of the server mutex in: %v (methods taking it: %d)", n, bad, len(lockers))
}

// checkOnlyResetCancelsWithResetError (C06): flows cancelled with errResetReceived make the next invoke return
// silently (a reset is under way); only HandleReset may say so.
func checkOnlyResetCancelsWithResetError(c *report.Ctx) {
	var who []string
	n := 0
	for _, st := range callSites(c, "L/core.RegistrationService.CancelFlows") {
		args := st.Call.Common().Args
		if len(args) == 0 {
			continue
		}
		n++
		if an.GlobalOf(an.Strip(args[len(args)-1], false)) == "L/rapid.errResetReceived" {
			who = append(who, stripAnon(an.FuncName(st.Fn)))
		}
	}
	who = uniq(who)
	c.Check("R-WHO", "L/rapid.errResetReceived/only-reset-cancels-with-it", "the flows are cancelled with the reset error by HandleReset alone (a shutdown that is followed by a suppressed init, or any other path, must not make the next invoke believe a reset is in progress)", strings.Join(who, ",") == "L/rapid.rapidContext.HandleReset" && n >= 2, token.NoPos, n, "CancelFlows sites: %d; with errResetReceived in: %v", n, who)
}

// checkNoParkUnderForeignLock (C05, C07, C08, C12): parking on a condition variable releases that variable's own
// lock only; any other mutex held by a caller stays held for as long as the party is parked.
func checkNoParkUnderForeignLock(c *report.Ctx) {
	cg := c.P.CallGraph()
	parks := map[*ssa.Function]bool{}
	for _, f := range repoFuncs(c) {
		if len(an.CallsTo(f, "sync.Cond.Wait")) > 0 {
			parks[f] = true
		}
	}
	direct := len(parks)
	for changed := true; changed; {
		changed = false
		for _, f := range repoFuncs(c) {
			if parks[f] {
				continue
			}
			if n := cg.Nodes[f]; n != nil {
				for _, e := range n.Out {
					if _, isGo := e.Site.(*ssa.Go); isGo {
						continue
					}
					if parks[e.Callee.Func] {
						parks[f] = true
						changed = true
						break
					}
				}
			}
		}
	}
	var bad []string
	sites := 0
	pos := token.NoPos
	for _, f := range repoFuncs(c) {
		name := an.FuncName(f)
		if strings.HasPrefix(name, coreP+".") || strings.HasPrefix(name, "L/testdata.") {
			continue // the automata park under their own condition's lock, by construction (C11)
		}
		var held *an.Held
		n := cg.Nodes[f]
		if n == nil {
			continue
		}
		for _, e := range n.Out {
			if e.Site == nil || !parks[e.Callee.Func] {
				continue
			}
			if _, isCall := e.Site.(*ssa.Call); !isCall {
				continue
			}
			if strings.HasPrefix(an.FuncName(e.Callee.Func), coreP+".") == false && e.Site.Common().StaticCallee() != nil {
				continue // reported at the innermost holder: the call into core
			}
			sites++
			if held == nil {
				held = an.NewHeld(f)
			}
			for l := range held.At(e.Site) {
				if i := strings.LastIndex(l, "."); i >= 0 {
					l = l[i+1:]
				}
				k := name + "|" + l
				if _, tabled := waitsUnderLock[k]; tabled {
					continue
				}
				bad = append(bad, name+" holds "+l+" across "+an.FuncName(e.Callee.Func))
				pos = an.InstrPos(e.Site)
			}
		}
	}
	bad = uniq(bad)
	c.Check("R-LOCK", "no-park-under-foreign-lock", "outside the automata of package core no function holds a mutex across a call that can park on a condition variable (a parked poller would keep that mutex through resets and generations), apart from the tabled handler serialisation", len(bad) == 0 && direct >= 2 && sites >= 10, pos, sites, "functions that wait on a condition variable: %d; calls into parking functions from outside core: %d; made with a mutex held: %v", direct, sites, bad)
}

// checkPidWrittenOnce (C07, C09): the pid in the process table is what Kill and Terminate signal; it is written
// when the process is registered and never changed (0 would address the emulator's own process group).
func checkPidWrittenOnce(c *report.Ctx) {
	var who []string
	n := 0
	for f, sts := range storesTo(c, "L/supervisor.process", "pid") {
		for range sts {
			n++
			who = append(who, an.FuncName(f))
		}
	}
	sort.Strings(who)
	c.Check("R-WHO", "L/supervisor.process.pid/written-at-registration-only", "a process's pid is stored once, by Exec when it registers the started process (never cleared or replaced: pid 0 means 'my own process group' to kill(2) and getpgid(2))", n == 1 && who[0] == "L/supervisor.LocalSupervisor.Exec", token.NoPos, n, "stores to process.pid: %v", who)
}

// checkExitChannelsRemadeOnlyAfterWait (C08): a late exit notification looks its channel up in runtimeDomainExited
// and panics when it is gone; the map is replaced only by the constructor and by clearExitedChannel after it waited.
func checkExitChannelsRemadeOnlyAfterWait(c *report.Ctx) {
	var who []string
	for f, sts := range storesTo(c, "L/rapid.shutdownContext", "runtimeDomainExited") {
		if len(sts) > 0 {
			who = append(who, stripAnon(an.FuncName(f)))
		}
	}
	who = uniq(who)
	want := "L/rapid.newShutdownContext,L/rapid.shutdownContext.clearExitedChannel"
	c.Check("R-WHO", "L/rapid.shutdownContext.runtimeDomainExited/replaced-by", "the table of exit channels is replaced only where it is created and after clearExitedChannel has waited for the processes (a process reaped later still finds its channel)", strings.Join(who, ",") == want, token.NoPos, len(who), "functions assigning the map: %v", who)
}

// checkNoOpTracerStateless (C08): the tracer is one object for the life of the process; the no-op one must not be
// able to carry anything from one invocation (or generation) to the next.
func checkNoOpTracerStateless(c *report.Ctx) {
	fs := structFields(c, "L/telemetry", "NoOpTracer")
	var names []string
	for _, f := range fs {
		names = append(names, f.Name())
	}
	c.Check("R-SHAPE", "L/telemetry.NoOpTracer/stateless", "the no-op tracer has no fields: it lives as long as the process and is touched by no reset, so whatever it could remember would leak into later invocations", len(names) == 0, token.NoPos, 1, "fields: %v", names)
}

// checkAgentNameVerbatim (C03, C09): rapid launches an extension under its file's base name and looks its process
// up under agent.Name at shutdown; the two agree only if the name is stored as given.
func checkAgentNameVerbatim(c *report.Ctx) {
	for _, T := range []string{"ExternalAgent", "InternalAgent"} {
		f := fn(c, coreP, "New"+T)
		if f == nil {
			continue
		}
		n, ok := 0, true
		for _, st := range an.Stores(f, coreP+"."+T, "Name") {
			n++
			if p, isP := an.Strip(st.Val, false).(*ssa.Parameter); !isP || p != f.Params[0] {
				ok = false
			}
		}
		c.Check("R-WIRE", an.FuncName(f)+"/name-verbatim", "the agent carries exactly the name it was created with (the launcher and the shutdown address the process by it)", ok && n == 1, fpos(f), n, "stores to Name: %d, of the parameter itself: %v", n, ok)
	}
}

// checkCountAgentsCountsAll (C03, C09): 'no agents' decides whether a shutdown signals extensions at all.
func checkCountAgentsCountsAll(c *report.Ctx) {
	f := fn(c, coreP, "(*registrationServiceImpl).countAgentsUnsafe")
	if f == nil {
		return
	}
	// however the agents are counted (visitors, map sizes), the count looks at no agent: no method of an agent is
	// called and no field of one is read
	n, ok := 0, true
	var looks []string
	for _, g := range an.WithAnon(f) {
		an.AllInstrs(g, func(in ssa.Instruction) {
			switch x := in.(type) {
			case ssa.CallInstruction:
				n++
				if cal := an.Callee(x); strings.HasPrefix(cal, coreP+".ExternalAgent.") || strings.HasPrefix(cal, coreP+".InternalAgent.") {
					ok = false
					looks = append(looks, cal)
				}
			case *ssa.FieldAddr:
				if fr, isF := an.AsField(x); isF && (fr.Struct == coreP+".ExternalAgent" || fr.Struct == coreP+".InternalAgent") {
					ok = false
					looks = append(looks, fr.Struct+"."+fr.Field)
				}
			}
		})
	}
	_ = looks
	c.Check("R-SHAPE", an.FuncName(f)+"/every-agent-counts", "the number of agents is the number of registered agents whatever their state (a shutdown that finds 'none' kills the runtime at once and tells no extension)", ok && n >= 2, fpos(f), n, "calls made while counting: %d; looks at an agent: %v %v", n, !ok, looks)
}

// checkShutdownDeadlineFromNow (C09): the shutdown that follows a failed first init gets the reset allowance counted
// from the moment it starts, not from the arrival of the invoke that waited for the init.
func checkShutdownDeadlineFromNow(c *report.Ctx) {
	inv := fn(c, rapidcP, "(*Server).Invoke")
	if inv == nil {
		return
	}
	n, ok := 0, true
	pos := fpos(inv)
	for _, g := range an.WithAnon(inv) {
		awaits := an.CallsTo(g, srvT+".awaitInitialized")
		for _, st := range an.Stores(g, "L/interop.Shutdown", "DeadlineNs") {
			n++
			good := false
			clockReadAfterWait := func(v ssa.Value) bool {
				cl, _ := an.CallOf(an.Strip(v, true))
				if cl == nil || cl.Parent() != g || !oneOf(an.Callee(cl), "L/metering.Monotime", "L/rapidcore.deadlineNsFromTimeoutMs") {
					return false
				}
				for _, aw := range awaits {
					if an.InstrDominates(aw, cl) {
						return true
					}
				}
				return false
			}
			if bo, isBO := an.Strip(st.Val, true).(*ssa.BinOp); isBO && bo.Op == token.ADD {
				good = clockReadAfterWait(bo.X) || clockReadAfterWait(bo.Y)
			} else {
				good = clockReadAfterWait(st.Val) // deadlineNsFromTimeoutMs(allowance): reads the clock when called
			}
			if !good {
				ok = false
				pos = an.InstrPos(st)
			}
		}
	}
	c.Check("R-WIRE", an.FuncName(inv)+"/init-failure-shutdown-deadline", "the deadline of the shutdown after a failed init is the clock read after the wait for the init, plus the allowance", ok && n == 1, pos, n, "Shutdown deadlines set: %d, from a clock read after awaitInitialized: %v", n, ok)
}

// checkEventBufferOnlyThroughLimit (C14): whatever fills the request buffer reads through the size limit.
func checkEventBufferOnlyThroughLimit(c *report.Ctx) {
	f := fn(c, rendP, "(*InvokeRenderer).bufferInvokeRequest")
	if f == nil {
		return
	}
	isBuf := func(v ssa.Value) bool { return loadOf(rendP+".InvokeRenderer", "requestBuffer")(an.Strip(v, true)) }
	var bad []string
	n := 0
	an.AllInstrs(f, func(in ssa.Instruction) {
		call, ok := in.(ssa.CallInstruction)
		if !ok {
			return
		}
		args := call.Common().Args
		cal := an.Callee(call)
		for i, a := range args {
			if !isBuf(a) {
				continue
			}
			if i == 0 && !call.Common().IsInvoke() && strings.HasPrefix(cal, "bytes.Buffer.") {
				switch strings.TrimPrefix(cal, "bytes.Buffer.") {
				case "Len", "Bytes", "String", "Cap":
				case "ReadFrom":
					n++
					if len(args) < 2 || !an.IsResultOf(an.Strip(args[1], true), "io.LimitReader", -1) {
						bad = append(bad, "ReadFrom of something else than io.LimitReader(..)")
					}
				default:
					bad = append(bad, cal)
				}
				continue
			}
			bad = append(bad, "buffer handed to "+cal)
		}
	})
	c.Check("R-WHO", an.FuncName(f)+"/filled-through-the-limit-only", "the request buffer is written by ReadFrom(io.LimitReader(payload, MaxPayloadSize)) and by nothing else (not handed to a WriterTo, Copy or Write that would bypass the limit)", len(bad) == 0 && n == 1, fpos(f), n, "limited fills: %d; other writers: %v", n, bad)
}

// checkExtensionInitDataPerAgent (C15): each extension's init record is built from that extension alone.
func checkExtensionInitDataPerAgent(c *report.Ctx) {
	f := fn(c, "L/rapid", "logAgentsInitStatus")
	if f == nil {
		return
	}
	sends := an.CallsTo(f, "L/telemetry.EventsAPI.SendExtensionInit", "L/interop.EventsAPI.SendExtensionInit")
	if len(sends) == 0 {
		for _, call := range an.Calls(f, func(s string) bool { return strings.HasSuffix(s, ".SendExtensionInit") }) {
			sends = append(sends, call)
		}
	}
	var missing []string
	for _, fld := range []string{"AgentName", "State", "ErrorType", "Subscriptions"} {
		good := false
		for _, st := range an.Stores(f, "L/interop.ExtensionInitData", fld) {
			for _, s := range sends {
				if an.InstrDominates(st, s) && an.InLoop(st) {
					good = true
				}
			}
		}
		if !good {
			missing = append(missing, fld)
		}
	}
	c.Check("R-WIRE", an.FuncName(f)+"/record-per-agent", "every field of an extension's init record is written for each extension, unconditionally, before the record is sent (a record reused across iterations would carry the previous extension's error)", len(missing) == 0 && len(sends) == 1, fpos(f), 4, "send sites: %d; fields not certainly written per iteration: %v", len(sends), missing)
}

// checkRuntimeDoneBeforeTeardown (C15): the shutdown deletes the recorded first fault; runtimeDone reports it.
func checkRuntimeDoneBeforeTeardown(c *report.Ctx) {
	f := fn(c, "L/rapid", "handleReset")
	if f == nil {
		return
	}
	ord := an.NewOrder(f, func(in ssa.Instruction) uint64 {
		if an.IsCallTo(in, "L/rapid.shutdownContext.shutdown") {
			return 1
		}
		return 0
	})
	n, ok := 0, true
	pos := fpos(f)
	for _, g := range []*ssa.Function{f} {
		for _, call := range an.Calls(g, func(s string) bool { return strings.HasSuffix(s, ".SendInvokeRuntimeDone") }) {
			n++
			if _, may := ord.Before(call); may&1 != 0 {
				ok = false
				pos = an.InstrPos(call)
			}
		}
	}
	c.Check("R-ORDER", an.FuncName(f)+"/runtime-done-before-teardown", "the fault of the interrupted invocation is read and reported (runtimeDone) before the domain is shut down: the shutdown deletes the record", ok && n >= 1, pos, n, "reads/reports of the fault: %d, none after shutdown(): %v", n, ok)
}

// checkAPIAddressStoredOnlyWhenParsed (C16): AWS_LAMBDA_RUNTIME_API is rendered from the stored host and port; an
// address whose port did not parse must leave the earlier (default) address in place.
func checkAPIAddressStoredOnlyWhenParsed(c *report.Ctx) {
	f := fn(c, rapidcP, "(*SandboxBuilder).SetRuntimeAPIAddress")
	if f == nil {
		return
	}
	facts := an.NewFacts(f)
	n, ok := 0, true
	pos := fpos(f)
	for _, fld := range []string{"RuntimeAPIHost", "RuntimeAPIPort"} {
		for _, st := range an.Stores(f, "L/rapid.Sandbox", fld) {
			n++
			for _, callee := range []string{"net.SplitHostPort", "strconv.Atoi"} {
				if !facts.Holds(st.Block(), func(ft an.Fact) bool { return an.CmpNil(ft, true, errResultOf(callee)) }) {
					ok = false
					pos = an.InstrPos(st)
				}
			}
		}
	}
	c.Check("R-GUARD", an.FuncName(f)+"/stored-only-when-parsed", "host and port are stored only after both SplitHostPort and Atoi succeeded (a half-parsed address would be announced to the runtime while the server listens elsewhere)", ok && n == 2, pos, n, "stores: %d, each under both 'err == nil': %v", n, ok)
}

// checkListenOnce (C16): the address the API server listens on is the configured one (or, for port 0, the one the
// listener reports): one Listen, no fallback, and the port is assigned from the listener only.
func checkListenOnce(c *report.Ctx) {
	f := fn(c, "L/rapi", "(*Server).Listen")
	if f == nil {
		return
	}
	listens := an.CallsTo(f, "net.Listen")
	okP := true
	np := 0
	for _, st := range an.Stores(f, "L/rapi.Server", "port") {
		np++
		if _, isC := an.Strip(st.Val, true).(*ssa.Const); isC {
			okP = false
		}
	}
	c.Check("R-COUNT", an.FuncName(f)+"/listens-once-where-configured", "the Runtime API server binds once, to the configured address, and fails otherwise (the address was already announced to the processes); its port is only ever set from the listener", len(listens) == 1 && okP, fpos(f), len(listens)+np, "Listen calls: %d; port assignments: %d, none a constant: %v", len(listens), np, okP)
}

// checkCustomerFilterUsesAllGroups (C16): a variable is the customer's only if it is in none of the reserved groups.
func checkCustomerFilterUsesAllGroups(c *report.Ctx) {
	f := fn(c, "L/rapidcore/env", "CustomerEnvironmentVariables")
	if f == nil {
		return
	}
	groups := []string{"predefinedInternalEnvVarKeys", "predefinedPlatformEnvVarKeys", "predefinedRuntimeEnvVarKeys", "predefinedCredentialsEnvVarKeys", "predefinedPlatformUnreservedEnvVarKeys"}
	// (a result that is assigned and never used does not compile, so "called and used" is "consulted")
	consulted := map[string]bool{}
	lookups := 0
	for _, g := range an.WithAnon(f) {
		an.AllInstrs(g, func(in ssa.Instruction) {
			if _, ok := in.(*ssa.Lookup); ok {
				lookups++
			}
		})
		for _, grp := range groups {
			for _, call := range an.CallsTo(g, "L/rapidcore/env."+grp) {
				if v := call.Value(); v != nil && v.Referrers() != nil && len(*v.Referrers()) > 0 {
					consulted[grp] = true
				}
			}
		}
	}
	if lookups == 0 {
		consulted = map[string]bool{}
	}
	var missing []string
	for _, grp := range groups {
		if !consulted[grp] {
			missing = append(missing, grp)
		}
	}
	c.Check("R-COUNT", an.FuncName(f)+"/all-reserved-groups-filtered", "the customer's variables are those found in none of the five reserved groups (extensions receive the customer map without the runtime overlay, so a reserved runtime key left in it reaches them)", len(missing) == 0, fpos(f), len(groups), "groups not consulted by a lookup: %v", missing)
}

// checkDefaultsBeforeSystemEnvironment (C16): the front end's defaults are defaults: the system's values are copied
// over them, not the other way round.
func checkDefaultsBeforeSystemEnvironment(c *report.Ctx) {
	f := fn(c, "M/cmd/aws-lambda-rie", "InitHandler")
	if f == nil {
		return
	}
	envs := an.CallsTo(f, "os.Environ")
	n, ok := 0, true
	pos := fpos(f)
	an.AllInstrs(f, func(in ssa.Instruction) {
		mu, isMU := in.(*ssa.MapUpdate)
		if !isMU {
			return
		}
		if k, isC := an.ConstString(mu.Key); !isC || !strings.HasPrefix(k, "AWS_LAMBDA_") {
			return
		}
		n++
		for _, e := range envs {
			if !an.InstrDominates(mu, e) {
				ok = false
				pos = an.InstrPos(mu)
			}
		}
	})
	c.Check("R-ORDER", an.FuncName(f)+"/defaults-then-system", "the default AWS_LAMBDA_* values are put into the customer map before the system's environment is copied into it (so that values set on the system win)", ok && n == 5 && len(envs) == 1, pos, n, "default entries: %d, each before os.Environ(): %v", n, ok)
}

// checkCopyErrorIsTheCopys (C17): Complete/Truncated is decided from the error of BandwidthLimitingCopy, which is
// io.Copy's error and nothing else (Close has nothing to report; an interrupted copy stays an error).
func checkCopyErrorIsTheCopys(c *report.Ctx) {
	f := fn(c, bwP, "BandwidthLimitingCopy")
	if f == nil {
		return
	}
	n, ok := 0, true
	for _, e := range an.Exits(f) {
		n++
		if len(e.Vals) != 2 || !an.IsResultOf(an.Strip(e.Vals[1], false), "io.Copy", 1) {
			ok = false
		}
	}
	c.Check("R-ERRID", an.FuncName(f)+"/error-is-io-copys", "the copy reports exactly what io.Copy reported (an empty body is a complete copy; a copy cut short by the closing of the connection is not)", ok && n >= 1, fpos(f), n, "exits: %d, each returning io.Copy's error: %v", n, ok)
}

// checkNoUnguardedDivision (C17): the limiter runs in a goroutine of its own: a division by zero there ends the process.
func checkNoUnguardedDivision(c *report.Ctx) {
	var bad []string
	n := 0
	pos := token.NoPos
	for _, f := range repoFuncs(c) {
		if !strings.HasPrefix(an.FuncName(f), bwP+".") {
			continue
		}
		var facts *an.Facts
		an.AllInstrs(f, func(in ssa.Instruction) {
			bo, ok := in.(*ssa.BinOp)
			if !ok || (bo.Op != token.QUO && bo.Op != token.REM) {
				return
			}
			if bt, isB := bo.Type().Underlying().(*types.Basic); !isB || bt.Info()&types.IsInteger == 0 {
				return
			}
			if k, isC := an.ConstInt(bo.Y); isC && k != 0 {
				return
			}
			n++
			if facts == nil {
				facts = an.NewFacts(f)
			}
			guarded := facts.Holds(bo.Block(), func(ft an.Fact) bool {
				r, ok := an.AsRel(ft)
				if !ok {
					return false
				}
				for _, rr := range []an.Rel{r, r.Flip()} {
					if rr.X != bo.Y {
						continue
					}
					k, isC := an.ConstInt(rr.Y)
					if !isC {
						continue
					}
					switch rr.Op {
					case token.GTR:
						return k >= 0
					case token.GEQ:
						return k >= 1
					case token.NEQ:
						return k == 0
					}
				}
				return false
			})
			if !guarded {
				bad = append(bad, an.FuncName(f))
				pos = an.InstrPos(in)
			}
		})
	}
	c.Check("R-GUARD", bwP+"/no-unguarded-division", "every integer division or remainder of the bandwidth limiter has a non-zero constant divisor or is made where the divisor is known to be positive (legal header values make refill > capacity, elapsed = 0, ...)", len(bad) == 0 && n >= 1, pos, n, "divisions by a variable: %d; unguarded in: %v", n, uniq(bad))
}

// checkConnSavedInContext (C17): a reset that interrupts a streaming copy closes the runtime's connection, which it
// finds in the request context; the API server is the one that puts it there.
func checkConnSavedInContext(c *report.Ctx) {
	f := fn(c, "L/rapi", "NewServer")
	if f == nil {
		return
	}
	n, ok := 0, false
	for _, st := range an.Stores(f, "net/http.Server", "ConnContext") {
		n++
		if fnv, isF := an.Strip(st.Val, true).(*ssa.Function); isF && an.FuncName(fnv) == "L/rapi.SaveConnInContext" {
			ok = true
		}
	}
	c.Check("R-WIRE", an.FuncName(f)+"/conn-context", "the Runtime API server saves each connection in its requests' context (SaveConnInContext), where the streaming sender looks for it when a reset tells it to cut the response", ok && n == 1, fpos(f), n, "ConnContext set: %d, to SaveConnInContext: %v", n, ok)
}

// checkBandwidthConstants (C17): the documented ranges of the rate and burst headers.
func checkBandwidthConstants(c *report.Ctx) {
	want := map[string]int64{
		"ResponseBandwidthRate": 2 << 20, "ResponseBandwidthBurstSize": 6 << 20,
		"MinResponseBandwidthRate": 32 << 10, "MaxResponseBandwidthRate": 64 << 20,
		"MinResponseBandwidthBurstSize": 32 << 10, "MaxResponseBandwidthBurstSize": 64 << 20,
		"MaxPayloadSize": 6<<20 + 100,
	}
	var bad []string
	for name, v := range want {
		k := c.P.Const("L/interop", name)
		if k == nil {
			bad = append(bad, name+" missing")
			continue
		}
		if got, ok := an.ConstInt(k.Value); !ok || got != v {
			bad = append(bad, sprintf("%s = %d", name, got))
		}
	}
	sort.Strings(bad)
	c.Check("R-CONST", "L/interop/bandwidth-constants", "default rate 2 MiB/s and burst 6 MiB; accepted rate 32 KiB/s..64 MiB/s; accepted burst 32 KiB..64 MiB; payload limit 6 MiB + 100", len(bad) == 0, token.NoPos, len(want), "off: %v", bad)
}

// checkResetAwaitsSenderAck (C17): the streaming sender answers on the same channel when it has added its metrics;
// a reset that does not take that answer leaves the sender blocked under the server mutex.
func checkResetAwaitsSenderAck(c *report.Ctx) {
	f := fn(c, rapidcP, "(*Server).Reset")
	if f == nil {
		return
	}
	isChan := func(v ssa.Value) bool { return chanName(v) == "interruptedResponseChan" }
	n, ok := 0, true
	pos := fpos(f)
	for _, g := range an.WithAnon(f) {
		an.AllInstrs(g, func(in ssa.Instruction) {
			sel, isSel := in.(*ssa.Select)
			if !isSel {
				return
			}
			for k, st := range sel.States {
				if st.Dir != types.SendOnly || !isChan(st.Chan) {
					continue
				}
				n++
				arm := selectArmEntry(sel, k)
				if arm == nil {
					ok = false
					continue
				}
				// a receive from the same channel before the arm does anything else
				got := false
				for _, x := range arm.Instrs {
					if u, isU := x.(*ssa.UnOp); isU && u.Op == token.ARROW && isChan(u.X) {
						got = true
						break
					}
					if _, isCall := x.(ssa.CallInstruction); isCall {
						break
					}
				}
				if !got {
					ok = false
					pos = an.InstrPos(sel)
				}
			}
		})
	}
	c.Check("R-PAIR", an.FuncName(f)+"/waits-for-senders-answer", "having handed the reset to a streaming sender, Reset takes the sender's answer from the same channel before it goes on (the sender blocks on that answer while holding the server mutex)", ok && n == 1, pos, n, "hand-overs: %d, each followed at once by the receive: %v", n, ok)
}

// checkInitCachingPublishesCredentials (C18): a restore updates the one credentials document registered at init;
// init must therefore register it whatever the request carried.
func checkInitCachingPublishesCredentials(c *report.Ctx) {
	f := fn(c, "L/rapid", "(*rapidContext).acceptInitRequestForInitCaching")
	if f == nil {
		return
	}
	ord := an.NewOrder(f, func(in ssa.Instruction) uint64 {
		if an.IsCallTo(in, "L/core.CredentialsService.SetCredentials") {
			return 1
		}
		return 0
	})
	n, ok := 0, true
	pos := fpos(f)
	for _, e := range an.Exits(f) {
		if !an.IsNil(e.Vals[len(e.Vals)-1]) {
			continue
		}
		n++
		if must, _ := ord.Before(e.Ret); must&1 == 0 {
			ok = false
			pos = an.InstrPos(e.Ret)
		}
	}
	c.Check("R-ORDER", an.FuncName(f)+"/credentials-always-registered", "an accepted init request has registered the credentials document under the init-caching token, empty or not (UpdateCredentials at restore refuses unless exactly one is registered)", ok && n >= 1, pos, n, "accepting exits: %d, each after SetCredentials: %v", n, ok)
}

// checkCredentialsFoundMeansReturned (C18): the endpoint reflects the most recent restore: a token that is known
// gets its credentials, whatever they say about themselves.
func checkCredentialsFoundMeansReturned(c *report.Ctx) {
	f := fn(c, coreP, "(*credentialsServiceImpl).GetCredentials")
	if f == nil {
		return
	}
	facts := an.NewFacts(f)
	found := func(ft an.Fact) bool {
		ex, ok := ft.Cond.(*ssa.Extract)
		if !ok || ex.Index != 1 || !ft.Val {
			return false
		}
		lk, ok := ex.Tuple.(*ssa.Lookup)
		return ok && lk.CommaOk
	}
	n, ok := 0, true
	pos := fpos(f)
	for _, e := range an.Exits(f) {
		if !facts.Holds(e.Ret.Block(), found) {
			continue
		}
		n++
		if !an.IsNil(e.Vals[1]) || an.IsNil(e.Vals[0]) {
			ok = false
			pos = an.InstrPos(e.Ret)
		}
	}
	c.Check("R-GUARD", an.FuncName(f)+"/found-means-returned", "where the token was found the credentials are returned without error (no further condition: an omitted or past expiry is the caller's business)", ok && n == 1, pos, n, "exits on the found edge: %d, all returning the credentials: %v", n, ok)
}

// checkKillIgnoresSyscallResult (C19): kill(2) on a process that exited a moment ago fails with ESRCH; that is the
// outcome Kill is after, not a failure.
func checkKillIgnoresSyscallResult(c *report.Ctx) {
	f := fn(c, "L/supervisor", "kill")
	if f == nil {
		return
	}
	n, ok := 0, true
	pos := fpos(f)
	kills := map[ssa.Value]bool{}
	for _, call := range an.CallsTo(f, "syscall.Kill") {
		n++
		if v := call.Value(); v != nil {
			kills[v] = true
		}
	}
	facts := an.NewFacts(f)
	for _, e := range an.Exits(f) {
		// no return is made on a branch decided by kill(2)'s result, and none returns it
		if facts.Holds(e.Ret.Block(), func(ft an.Fact) bool {
			bo, isBO := ft.Cond.(*ssa.BinOp)
			if !isBO {
				return false
			}
			for _, side := range []ssa.Value{bo.X, bo.Y} {
				for _, leaf := range an.PhiLeaves(an.Strip(side, false)) {
					if kills[an.Strip(leaf, false)] {
						return true
					}
				}
			}
			return false
		}) {
			ok = false
			pos = an.InstrPos(e.Ret)
		}
		for _, v := range e.Vals {
			for _, leaf := range an.PhiLeaves(v) {
				if kills[an.Strip(leaf, false)] {
					ok = false
					pos = an.InstrPos(e.Ret)
				}
			}
		}
	}
	c.Check("R-SHAPE", an.FuncName(f)+"/syscall-result-not-an-outcome", "what kill(2) returns does not decide what Kill returns (the process may have exited between the check and the signal: Kill then waits for the termination channel and succeeds)", ok && n >= 1, pos, n, "kill(2) sites: %d, no exit decided by or returning their result: %v", n, ok)
}

// checkRuntimeReleaseOnlyOnRuntimeRouter (C20): the runtime identity string is taken from the first request that
// passes the middleware; only the runtime's own requests may.
func checkRuntimeReleaseOnlyOnRuntimeRouter(c *report.Ctx) {
	who := siteFns(callSites(c, "L/rapi/middleware.RuntimeReleaseMiddleware"))
	for i := range who {
		who[i] = stripAnon(who[i])
	}
	who = uniq(who)
	c.Check("R-WHO", "L/rapi/middleware.RuntimeReleaseMiddleware/installed-by", "the middleware that records the runtime's user agent is installed on the Runtime API router only (extensions register before the runtime starts: on their router the first user agent seen would be an extension's)", strings.Join(who, ",") == "L/rapi.NewRouter", token.NoPos, len(who), "installed by: %v", who)
}

// checkCropStringIsByteSlice (C20): the crop budget is a byte budget.
func checkCropStringIsByteSlice(c *report.Ctx) {
	f := fn(c, "L/rapi/model", "cropString")
	if f == nil {
		return
	}
	n, ok := 0, true
	var why []string
	an.AllInstrs(f, func(in ssa.Instruction) {
		switch x := in.(type) {
		case *ssa.Slice:
			if an.Strip(x.X, true) == ssa.Value(f.Params[0]) {
				n++
			}
		case *ssa.Convert:
			if sl, isSl := x.Type().Underlying().(*types.Slice); isSl {
				if bt, isB := sl.Elem().Underlying().(*types.Basic); isB && (bt.Kind() == types.Int32 || bt.Kind() == types.UntypedRune) {
					ok = false
					why = append(why, "converts to []rune")
				}
			}
		case *ssa.Range:
			if bt, isB := x.X.Type().Underlying().(*types.Basic); isB && bt.Info()&types.IsString != 0 {
				ok = false
				why = append(why, "ranges over the string's characters")
			}
		case ssa.CallInstruction:
			if strings.HasPrefix(an.Callee(x), "unicode/utf8.") {
				ok = false
				why = append(why, "calls "+an.Callee(x))
			}
		}
	})
	_ = why
	c.Check("R-SHAPE", an.FuncName(f)+"/cuts-bytes", "a string that does not fit is cut to a prefix of its bytes plus the indicator (the per-field budgets, and the 64 KiB bound they add up to, are byte counts)", ok && n >= 1, fpos(f), n, "byte slices of the input: %d; no cutting by characters: %v %v", n, ok, why)
}
