package props

import (
	"go/token"
	"go/types"
	"sort"
	"strings"

	"golang.org/x/tools/go/ssa"

	"verif/checker/internal/an"
	"verif/checker/internal/report"
)

// panicSite describes an explicit process-terminating construct in repository code.
type panicSite struct {
	Fn   *ssa.Function
	In   ssa.Instruction
	Kind string // "panic" | "log.Panic" | "log.Fatal" | "os.Exit"
	Msg  string
}

func (p panicSite) key() string { return an.FuncName(p.Fn) + "/" + p.Kind + "/" + p.Msg }

func explicitPanicSites(c *report.Ctx) []panicSite {
	var out []panicSite
	for _, f := range repoFuncs(c) {
		if strings.HasPrefix(an.FuncName(f), "L/testdata.") {
			continue
		}
		an.AllInstrs(f, func(in ssa.Instruction) {
			switch x := in.(type) {
			case *ssa.Panic:
				msg := ""
				if s, ok := an.ConstString(an.Strip(x.X, true)); ok {
					msg = s
				}
				if msg == "blocking select matched no case" {
					return // synthesised by go/ssa for a select without default; unreachable
				}
				out = append(out, panicSite{f, in, "panic", trunc(msg)})
			case ssa.CallInstruction:
				cal := an.Callee(x)
				kind := ""
				switch {
				case strings.HasPrefix(cal, "github.com/sirupsen/logrus.") && (strings.Contains(cal, ".Panic") || strings.Contains(cal, ".Fatal")):
					kind = "log.Panic"
					if strings.Contains(cal, ".Fatal") {
						kind = "log.Fatal"
					}
				case cal == "os.Exit":
					kind = "os.Exit"
				case strings.HasPrefix(cal, "log.Fatal") || strings.HasPrefix(cal, "log.Panic"):
					kind = "log.Panic"
				}
				if kind == "" {
					return
				}
				msg := ""
				for _, a := range x.Common().Args {
					if s, ok := an.ConstString(an.Strip(a, true)); ok && msg == "" {
						msg = s
					}
					if msg == "" {
						for _, s := range variadicConstStrings(a) {
							if msg == "" {
								msg = s
							}
						}
					}
				}
				out = append(out, panicSite{f, in, kind, trunc(msg)})
			}
		})
	}
	return out
}

func trunc(s string) string {
	if len(s) > 48 {
		return s[:48]
	}
	return s
}

var _ = token.NoPos
var _ = sort.Strings

// reachableNoGo: functions reachable from fns through call edges other than `go` statements,
// not entering HTTP handler roots (they run on net/http's own goroutines).
func reachableSync(c *report.Ctx, stopAtHTTP bool, fns ...*ssa.Function) map[*ssa.Function]bool {
	cg := c.P.CallGraph()
	seen := map[*ssa.Function]bool{}
	var stack []*ssa.Function
	for _, f := range fns {
		if f != nil && !seen[f] {
			seen[f] = true
			stack = append(stack, f)
		}
	}
	for len(stack) > 0 {
		f := stack[len(stack)-1]
		stack = stack[:len(stack)-1]
		n := cg.Nodes[f]
		if n == nil {
			continue
		}
		for _, e := range n.Out {
			if _, isGo := e.Site.(*ssa.Go); isGo {
				continue
			}
			g := e.Callee.Func
			if g == nil || seen[g] {
				continue
			}
			if stopAtHTTP && isHTTPHandlerSig(g.Signature) {
				continue
			}
			seen[g] = true
			stack = append(stack, g)
		}
	}
	return seen
}

func init() {
	register(&Prop{
		Spec: report.Spec{
			ID: "C07",
			Explanation: "The failure modes named by the property are reachability and discipline facts of the whole program, decided over the VTA call graph and the SSA of every function: (1) every explicit process-terminating construct (panic, logrus Panic*/Fatal*, os.Exit) reachable from a background goroutine root (the go statements; HTTP handler goroutines are recovered by net/http and are not entered), and every unrecoverable one (Fatal/Exit) reachable from an HTTP handler, must be in a table whose entries carry a justification, the checkable ones being checked (exit channels created after every successful Exec with the same name, names embed the generation, generation bumped on every reset path, a failed invocation always carries a default error response, the environment is stored before it is used, the supervisor never reports event loss, the default-error send tolerates a vanished reservation); " +
				"(2) no result of a failing call is used on its error path in any service-time function; (3) every blocking operation a running init/invoke handler can reach is a cancellable barrier wait or in a reasoned allow-list, a reset cancels the flows strictly before it waits for the handler mutex, the cancel fans out to every barrier and is re-armed by the reset; (4) shared maps and the registration service's fields are accessed under their mutex (directly or in every caller), the unlocked readers being listed with the reason they are safe; (5) no function releases a mutex by hand across a call that can reach an explicit panic. " +
				"Added after the blind rounds: lock pairing on every path of every function (R-PAIR); no new wait under a lock and one critical section per call (tabled exceptions); the watchdog is independent of the server mutex; reply-sink guards; shutdown wait-group pairing. " +
				"NOT decided: the time bound; 'at most one further invocation fails'; implicit panics other than the error-use pattern (index, nil map, closed channel).",
			RuleText:    "one obligation per reachable (site) , per table justification, per blocking operation, per shared-map access, per manual lock region",
			Assumptions: append([]string{"the VTA call graph over-approximates real calls (sites reachable only through imprecise dynamic dispatch are listed with that reason)", "net/http recovers panics of handler goroutines; log.Fatal/os.Exit are not recoverable"}, trusted...),
			MinObs:      60,
		},
		Run: runC07,
	})
}

type siteJust struct {
	why     string
	checked string // name of the checked justification ("" = argued in prose)
}

// Background roots may reach only these explicit termination sites.
var bgSites = map[string]siteJust{
	"L/core/statejson.InternalStateDescription.AsJSON/log.Panic/Failed to marshall internal states: %s":      {"json.Marshal of a struct of strings, integers, slices and pointers to such cannot fail", "marshalable:L/core/statejson.InternalStateDescription"},
	"L/rapid.shutdownContext.createExitedChannel/log.Panic/Tried to create an exited channel for '%s' but o": {"process names embed the runtime domain generation, which is incremented at the top of every init and on every reset path, so a name is never created twice", "names-embed-generation"},
	"L/rapid.shutdownContext.handleProcessExit/log.Panic/Unable to find an exitedChannel for '%s', it sho":   {"an exit event can only concern a process for which Exec returned nil, and every nil Exec is followed by createExitedChannel with the same name (the window between the two is a schedule matter, not decided)", "exec-then-create-channel"},
	"L/rapid.rapidContext.watchEvents/log.Panic/Lost %d events from supervisor":                              {"taken only for an event-loss event; the local supervisor never produces one (EventData.Size has no writer)", "no-event-loss"},
	"L/rapidcore.Server.FastInvoke$1/log.Panic/default error response was nil for invoke failur":             {"taken only if an invoke failure carries no default error response; handleInvokeError always stores a non-nil one", "failure-has-default-response"},
	"L/rapidcore.Server.trySendDefaultErrorResponse/log.Panic/Failed to send default error response: %s":     {"taken only for errors other than ErrResponseSent and ErrInvalidInvokeID (the reservation being legitimately gone); the remaining causes (no reply stream for the id FastInvoke itself attached; a failing Write of the in-memory response proxy) do not occur on the emulator path", "default-send-tolerates-gone-reservation"},
	"L/rapidcore/env.Environment.AgentExecEnv/log.Fatal/credentials, customer and runtime API address mus":   {"taken only before the init request's environment was stored; handleInit stores it before any process is started", "env-stored-before-use"},
	"L/rapidcore/env.Environment.RuntimeExecEnv/log.Fatal/credentials, customer and runtime API address mus": {"taken only before the init request's environment was stored; handleInit stores it before any process is started", "env-stored-before-use"},
	"L/rapid.startRuntimeAPI/log.Panic/Runtime API Server failed to listen":                                  {"taken only if the Runtime API address cannot be bound when the emulator starts, before any process exists; not influenced by runtime or extension behaviour", ""},
	"M/cmd/aws-lambda-rie.main$1/os.Exit/":                                                                   {"the shutdown function main registers for SIGINT/SIGTERM (exit 0 by design); appears under other roots only because every context.CancelFunc call resolves to it in the type-based call graph", ""},
}

// HTTP handler goroutines may reach only these unrecoverable (Fatal/Exit) sites.
var httpFatalSites = map[string]siteJust{
	"L/rapi/handler.pingHandler.ServeHTTP/log.Fatal/Failed to write 'pong' response":                         {"taken only if writing the 4-byte body fails; net/http buffers it in a 4 KiB writer, HEAD is not routed to this handler, so Write cannot fail before the handler returns", ""},
	"L/rapidcore/env.Environment.AgentExecEnv/log.Fatal/credentials, customer and runtime API address mus":   {"see background table", "env-stored-before-use"},
	"L/rapidcore/env.Environment.RuntimeExecEnv/log.Fatal/credentials, customer and runtime API address mus": {"see background table", "env-stored-before-use"},
	"M/cmd/aws-lambda-rie.main$1/os.Exit/":                                                                   {"CancelFunc imprecision, see background table", ""},
}

func siteKeyNoMsg(p panicSite) string { return an.FuncName(p.Fn) + "/" + p.Kind + "/" + p.Msg }

func runC07(c *report.Ctx) {
	c.Clause("1 termination sites reachable from goroutine roots")
	sites := explicitPanicSites(c)
	roots := serviceRoots(c)
	var bg, http []*ssa.Function
	for _, r := range roots {
		if r.Kind == "go" && !isHTTPHandlerSig(r.Fn.Signature) {
			bg = append(bg, r.Fn)
		}
		if r.Kind == "http" {
			http = append(http, r.Fn)
		}
	}
	c.Analysed("background goroutine roots", len(bg))
	c.Analysed("HTTP handler roots", len(http))
	c.Analysed("explicit termination sites", len(sites))
	c.Check("R-COUNT", "goroot/roots", "the go statements and HTTP handlers of the program were enumerated", len(bg) >= 15 && len(http) >= 30, token.NoPos, len(bg)+len(http), "%d background roots, %d HTTP handler roots", len(bg), len(http))
	bgReach := reachableSync2(c, bg)
	httpReach := reachableFrom(c, http...)
	usedJust := map[string]bool{}
	seenKeys := map[string]bool{}
	// the wording of a message is not part of a site's identity when the function has a single site of that kind
	perFn := map[string]int{}
	for _, s := range sites {
		perFn[stripAnon(an.FuncName(s.Fn))+"/"+s.Kind]++
	}
	lookupSite := func(tab map[string]siteJust, k string) (siteJust, bool) {
		if j, ok := lookupSite(tab, k); ok {
			return j, true
		}
		for _, sep := range []string{"/log.Panic/", "/log.Fatal/", "/panic/", "/os.Exit/"} {
			i := strings.Index(k, sep)
			if i < 0 {
				continue
			}
			pre := stripAnon(k[:i]) + sep[:len(sep)-1]
			if perFn[pre] != 1 {
				break
			}
			var hit []siteJust
			for tk, j := range tab {
				if ti := strings.Index(tk, sep); ti >= 0 && stripAnon(tk[:ti])+sep[:len(sep)-1] == pre {
					hit = append(hit, j)
				}
			}
			if len(hit) == 1 {
				return hit[0], true
			}
		}
		return siteJust{}, false
	}
	for _, s := range sites {
		k := siteKeyNoMsg(s)
		if bgReach[s.Fn] {
			j, ok := lookupSite(bgSites, k)
			if !seenKeys["bg/"+k] {
				seenKeys["bg/"+k] = true
				c.Check("R-GOROOT", "bg/"+k, "an explicit panic/fatal/exit reachable from a background goroutine would take the emulator down: it must be a listed site with a justification", ok, an.InstrPos(s.In), 1, "reachable from a background root; justification: %s", j.why)
			}
			if ok && j.checked != "" {
				usedJust[j.checked] = true
			}
		}
		if httpReach[s.Fn] && (s.Kind == "log.Fatal" || s.Kind == "os.Exit") {
			j, ok := lookupSite(httpFatalSites, k)
			if !seenKeys["http/"+k] {
				seenKeys["http/"+k] = true
				c.Check("R-GOROOT", "http-fatal/"+k, "an unrecoverable exit reachable from a request handler (not caught by net/http's recover) must be a listed site with a justification", ok, an.InstrPos(s.In), 1, "reachable from an HTTP handler; justification: %s", j.why)
			}
			if ok && j.checked != "" {
				usedJust[j.checked] = true
			}
		}
	}
	c.Clause("1b justifications that are checked")
	for _, j := range keysOf(usedJust) {
		checkJustification(c, j)
	}
	c.Clause("2 no result used on its error path")
	checkErrUse(c, []string{"L/rapidcore", "L/rapid", "M/cmd/aws-lambda-rie", "L/rapidcore/standalone", "L/core", "L/rapi/handler", "L/supervisor"})
	c.Clause("3 a reset can always interrupt")
	checkCancelCoverage(c)
	c.Clause("4 shared state under its mutex")
	checkSharedState(c)
	c.Clause("5 no lock held by hand across a panic")
	checkManualLockRegions(c, sites)
	checkLockPairing(c)
	checkNoNewWaitUnderLock(c)
	checkSingleAcquisition(c)
	c.Clause("6 the substitute error reply cannot panic; shutdown cannot wait for an extension that never started")
	checkReplySinkGuards(c) // trySendDefaultErrorResponse tolerates exactly the refusals the sink returns for a stale id
	checkShutdownAgents(c)  // wg.Add per started extension only: reset/shutdown return
	checkWatchdogIndependent(c)
	checkInitResultAcked(c)
	checkStartWiresConfiguration(c)
	checkTeardownBeforeAnswer(c) // reset deadline on the monotonic clock the shutdown measures against
}

// reachableSync2: from background roots, following go statements too (a goroutine started by a
// background goroutine is a background goroutine) but never entering HTTP handlers.
func reachableSync2(c *report.Ctx, fns []*ssa.Function) map[*ssa.Function]bool {
	cg := c.P.CallGraph()
	seen := map[*ssa.Function]bool{}
	var stack []*ssa.Function
	for _, f := range fns {
		if f != nil && !seen[f] {
			seen[f] = true
			stack = append(stack, f)
		}
	}
	for len(stack) > 0 {
		f := stack[len(stack)-1]
		stack = stack[:len(stack)-1]
		n := cg.Nodes[f]
		if n == nil {
			continue
		}
		for _, e := range n.Out {
			g := e.Callee.Func
			if g == nil || seen[g] || isHTTPHandlerSig(g.Signature) {
				continue
			}
			seen[g] = true
			stack = append(stack, g)
		}
	}
	return seen
}

func checkJustification(c *report.Ctx, name string) {
	switch {
	case strings.HasPrefix(name, "marshalable:"):
		q := strings.TrimPrefix(name, "marshalable:")
		i := strings.LastIndex(q, ".")
		n := c.P.Named(q[:i], q[i+1:])
		ok := n != nil && marshalable(n, map[types.Type]bool{})
		c.Check("R-JUST", "marshalable/"+q, "the value handed to json.Marshal contains only types whose marshalling cannot fail (no channels, functions, complex numbers, interfaces with custom marshalers)", ok, token.NoPos, 1, "all fields marshalable: %v", ok)
	case name == "names-embed-generation":
		checkProcessNames(c)
	case name == "exec-then-create-channel":
		checkExecThenChannel(c)
	case name == "no-event-loss":
		w := storesTo(c, "L/supervisor/model.EventData", "Size")
		// composite literals setting Size
		c.Check("R-JUST", "no-event-loss", "no code produces an event-loss event (EventData.Size is never set)", len(w) == 0, token.NoPos, 1, "writers of EventData.Size: %v", fnNames(w))
	case name == "failure-has-default-response":
		checkFailureHasBody(c)
	case name == "default-send-tolerates-gone-reservation":
		f := fn(c, rapidcP, "(*Server).trySendDefaultErrorResponse")
		if f == nil {
			return
		}
		facts := an.NewFacts(f)
		for _, s := range explicitPanicSites(c) {
			if s.Fn != f {
				continue
			}
			b := s.In.Block()
			neq := func(g string) bool {
				return facts.Holds(b, func(ft an.Fact) bool {
					return an.CmpEq(ft, false, func(v ssa.Value) bool { return an.IsResultOf(v, srvT+".SendErrorResponse", -1) }, func(v ssa.Value) bool { return an.GlobalOf(v) == g })
				})
			}
			ok := neq("L/interop.ErrResponseSent") && neq("L/interop.ErrInvalidInvokeID")
			c.Check("R-JUST", "default-send-tolerates-gone-reservation", "the background goroutine's panic is not taken when the reply was already sent or the reservation is gone", ok, an.InstrPos(s.In), 1, "facts at the panic: %s", factsString(facts.At(b)))
		}
	case name == "env-stored-before-use":
		f := fn(c, "L/rapid", "handleInit")
		if f == nil {
			return
		}
		var accept []ssa.CallInstruction
		accept = append(accept, an.CallsTo(f, "L/rapid.rapidContext.acceptInitRequest")...)
		accept = append(accept, an.CallsTo(f, "L/rapid.rapidContext.acceptInitRequestForInitCaching")...)
		ord := an.NewOrder(f, func(in ssa.Instruction) uint64 {
			for _, a := range accept {
				if in == ssa.Instruction(a) {
					return 1
				}
			}
			return 0
		})
		ok := len(accept) == 2
		for _, d := range an.CallsTo(f, "L/rapid.doRuntimeDomainInit") {
			if must, _ := ord.Before(d); must&1 == 0 {
				ok = false
			}
		}
		c.Check("R-JUST", "env-stored-before-use/handleInit", "the init request's environment is stored (acceptInitRequest*) on every path before the runtime domain is initialised", ok, fpos(f), 3, "accept sites: %d", len(accept))
		for _, nm := range []string{"acceptInitRequest", "acceptInitRequestForInitCaching"} {
			g := fn(c, "L/rapid", "(*rapidContext)."+nm)
			if g == nil {
				continue
			}
			n := len(an.Calls(g, func(s string) bool {
				return strings.HasPrefix(s, "L/rapidcore/env.Environment.StoreEnvironmentVariablesFromInit")
			}))
			c.Check("R-JUST", "env-stored-before-use/"+nm, "accepting the init request stores its environment", n == 1, fpos(g), 1, "%d store calls", n)
		}
		if s := fn(c, rapidcP, "(SandboxContext).Init"); s != nil {
			st := an.CallsTo(s, "L/rapidcore/env.Environment.StoreRuntimeAPIEnvironmentVariable")
			var gos []ssa.Instruction
			an.AllInstrs(s, func(in ssa.Instruction) {
				if _, ok := in.(*ssa.Go); ok {
					gos = append(gos, in)
				}
			})
			ok := len(st) == 1 && len(gos) == 1 && an.InstrDominates(st[0], gos[0])
			c.Check("R-JUST", "env-stored-before-use/runtime-api-address", "the Runtime API address is stored in the environment before the init handler goroutine is started", ok, fpos(s), 2, "store precedes go: %v", ok)
		}
	}
}

func marshalable(t types.Type, seen map[types.Type]bool) bool {
	if seen[t] {
		return true
	}
	seen[t] = true
	switch u := t.Underlying().(type) {
	case *types.Basic:
		return u.Info()&types.IsComplex == 0 && u.Kind() != types.UnsafePointer
	case *types.Struct:
		for i := 0; i < u.NumFields(); i++ {
			if !marshalable(u.Field(i).Type(), seen) {
				return false
			}
		}
		return true
	case *types.Slice:
		return marshalable(u.Elem(), seen)
	case *types.Array:
		return marshalable(u.Elem(), seen)
	case *types.Pointer:
		return marshalable(u.Elem(), seen)
	case *types.Map:
		b, ok := u.Key().Underlying().(*types.Basic)
		return ok && b.Info()&types.IsString != 0 && marshalable(u.Elem(), seen)
	}
	return false
}

// checkProcessNames: every process name is Sprintf(<format with %d>, ..., runtimeDomainGeneration),
// creation and lookup sites agree on the formats, and the generation is bumped on every reset.
func checkProcessNames(c *report.Ctx) {
	formats := map[string][]string{}
	nsites := 0
	for _, f := range repoFuncs(c) {
		if f.Pkg == nil || f.Pkg.Pkg.Path() != "go.amzn.com/lambda/rapid" {
			continue
		}
		for _, call := range an.CallsTo(f, "fmt.Sprintf") {
			args := call.Common().Args
			fs, ok := an.ConstString(args[0])
			if !ok || !(strings.HasPrefix(fs, "extension-") || fs == "%s-%d") {
				continue
			}
			nsites++
			usesGen := false
			if sl, ok := args[1].(*ssa.Slice); ok {
				if al, ok := sl.X.(*ssa.Alloc); ok {
					for _, ref := range *al.Referrers() {
						if ia, ok := ref.(*ssa.IndexAddr); ok {
							for _, r2 := range *ia.Referrers() {
								if st, ok := r2.(*ssa.Store); ok {
									if fr, ok := an.AsField(an.Strip(st.Val, true)); ok && fr.Field == "runtimeDomainGeneration" {
										usesGen = true
									}
								}
							}
						}
					}
				}
			}
			formats[fs] = append(formats[fs], an.FuncName(f))
			c.Check("R-JUST", sprintf("names-embed-generation/%s/%s", an.FuncName(f), fs), "a process name embeds the current runtime domain generation", usesGen, an.InstrPos(call), 1, "format %q uses runtimeDomainGeneration: %v", fs, usesGen)
		}
	}
	c.Check("R-JUST", "names-embed-generation/sites", "creation and lookup sites of process names use the same two formats", len(formats) == 2 && nsites >= 6, token.NoPos, nsites, "formats: %v", formats)
	if hr := fn(c, "L/rapid", "handleReset"); hr != nil {
		sts := an.Stores(hr, "L/rapid.rapidContext", "runtimeDomainGeneration")
		ok := len(sts) >= 1
		for _, e := range an.Exits(hr) {
			dom := false
			for _, st := range sts {
				if an.InstrDominates(st, e.Ret) {
					dom = true
				}
			}
			if !dom {
				ok = false
			}
		}
		c.Check("R-JUST", "names-embed-generation/bumped-on-reset", "every reset increments the generation on every path (the next init's processes get fresh names and fresh exit channels)", ok, fpos(hr), len(sts), "%d increments", len(sts))
	}
	if di := fn(c, "L/rapid", "doRuntimeDomainInit"); di != nil {
		sts := an.Stores(di, "L/rapid.rapidContext", "runtimeDomainGeneration")
		ok := len(sts) == 1
		if ok {
			for _, call := range an.CallsTo(di, "L/rapid.doInitExtensions", "L/supervisor/model.ProcessSupervisor.Exec") {
				if !an.InstrDominates(sts[0], call) {
					ok = false
				}
			}
		}
		c.Check("R-JUST", "names-embed-generation/bumped-on-init", "every initialisation increments the generation before any process is started", ok, fpos(di), len(sts), "%d increments", len(sts))
	}
}

// checkExecThenChannel: after every Exec that returned nil, createExitedChannel is called with the Exec's name.
func checkExecThenChannel(c *report.Ctx) {
	for _, fname := range []string{"doInitExtensions", "doRuntimeDomainInit"} {
		f := fn(c, "L/rapid", fname)
		if f == nil {
			continue
		}
		facts := an.NewFacts(f)
		execs := an.CallsTo(f, "L/supervisor/model.ProcessSupervisor.Exec")
		creates := an.CallsTo(f, "L/rapid.shutdownContext.createExitedChannel")
		ok := len(execs) == 1 && len(creates) == 1
		detail := sprintf("Exec sites: %d, createExitedChannel sites: %d", len(execs), len(creates))
		if ok {
			ex, cr := execs[0], creates[0]
			// name argument: same SSA value as ExecRequest.Name
			nameArg := cr.Common().Args[len(cr.Common().Args)-1]
			sameName := false
			for _, st := range an.Stores(f, "L/supervisor/model.ExecRequest", "Name") {
				if st.Val == nameArg {
					sameName = true
				}
			}
			nilExec := facts.Holds(cr.Block(), func(ft an.Fact) bool {
				return an.CmpNil(ft, true, func(v ssa.Value) bool { return an.Strip(v, false) == ssa.Value(ex.Value()) })
			})
			// every path from the nil edge of Exec to any exit or loop back passes the create: create dominates all later instructions of the nil region
			aft := an.NewAfter(f, func(in ssa.Instruction) uint64 {
				if in == ssa.Instruction(cr) {
					return 1
				}
				return 0
			}, false)
			_ = aft
			ok = sameName && nilExec && an.InstrDominates(ex, cr)
			detail = sprintf("same name value: %v; reached on the nil edge of Exec: %v; Exec dominates: %v", sameName, nilExec, an.InstrDominates(ex, cr))
			// nothing that can block or fail sits between the nil edge and the create
			if ok {
				between := 0
				for _, b := range f.Blocks {
					for _, in := range b.Instrs {
						if _, isDefer := in.(*ssa.Defer); isDefer {
							continue
						}
						if call, isCall := in.(ssa.CallInstruction); isCall && an.InstrDominates(ex, in) && an.InstrDominates(in, cr) && in != ssa.Instruction(ex) && in != ssa.Instruction(cr) {
							cal := an.Callee(call)
							if strings.HasPrefix(cal, "L/") && !strings.HasPrefix(cal, "L/appctx.") && !strings.Contains(cal, "sendInit") {
								between++
							}
						}
					}
				}
				detail += sprintf("; repository calls between Exec and the create: %d", between)
				if between != 0 {
					ok = false
				}
			}
		}
		c.Check("R-JUST", "exec-then-create-channel/L/rapid."+fname, "every successfully started process gets its exit channel, under the name it was started with, before anything else can observe its exit", ok, fpos(f), 2, "%s", detail)
	}
}

// checkFailureHasBody: handleInvokeError stores a non-nil DefaultErrorResponse on every path (C06 item 2).
func checkFailureHasBody(c *report.Ctx) {
	f := fn(c, "L/rapid", "handleInvokeError")
	if f == nil {
		return
	}
	sts := an.Stores(f, "L/interop.InvokeFailure", "DefaultErrorResponse")
	ok := len(sts) == 1 && an.IsResultOf(sts[0].Val, "L/interop.GetErrorResponseWithFormattedErrorMessage", -1)
	if ok {
		for _, e := range an.Exits(f) {
			if !an.InstrDominates(sts[0], e.Ret) {
				ok = false
			}
		}
	}
	c.Check("R-ORDER", "L/rapid.handleInvokeError/default-response-on-every-path", "every invoke failure carries a default error response built from its error type", ok, fpos(f), len(sts), "%d stores; dominates every return: %v", len(sts), ok)
	if g := fn(c, "L/interop", "GetErrorResponseWithFormattedErrorMessage"); g != nil {
		nn := true
		for _, e := range an.Exits(g) {
			if len(e.Vals) != 1 {
				nn = false
				continue
			}
			if _, isAlloc := an.Strip(e.Vals[0], false).(*ssa.Alloc); !isAlloc {
				nn = false
			}
		}
		c.Check("R-GUARD", "L/interop.GetErrorResponseWithFormattedErrorMessage/never-nil", "the default error response constructor returns a fresh object on every path", nn, fpos(g), len(an.Exits(g)), "all returns are composite literals: %v", nn)
	}
	// the only caller-side consumer returns it to FastInvoke unchanged
	if hi := fn(c, "L/rapid", "handleInvoke"); hi != nil {
		calls := an.CallsTo(hi, "L/rapid.handleInvokeError")
		ok := len(calls) == 1
		if ok {
			ret := false
			for _, e := range an.Exits(hi) {
				if len(e.Vals) == 2 && an.Strip(e.Vals[1], false) == ssa.Value(calls[0].Value()) {
					ret = true
				}
			}
			ok = ret
		}
		c.Check("R-WIRE", "L/rapid.handleInvoke/returns-failure-object", "the failure object returned to the interop server is the one handleInvokeError built", ok, fpos(hi), 1, "%v", ok)
	}
}

// blocking operations reachable from a running init/invoke handler
var blockingAllowed = map[string]string{
	"L/core.gateImpl.AwaitGateCondition/call sync.Cond.Wait":                 "the barrier wait itself: released by CancelWithError, which CancelFlows fans out to every gate (checked below)",
	"L/rapid.handleInit/send initSuccessResponse":                            "served by Server.awaitInitCompletion, started right after the init handler (checked below)",
	"L/rapid.handleInit/recv Ack":                                            "acknowledged by Server.awaitInitCompletion",
	"L/rapid.handleInitError/send initFailureResponse":                       "served by Server.awaitInitCompletion",
	"L/rapid.handleInitError/recv Ack":                                       "acknowledged by Server.awaitInitCompletion",
	"L/rapidcore.Server.Reset/recv ResetDoneChan":                            "not on a real path of the handlers (call-graph over-approximation through the interop interfaces); the wait is fed by Reset's own goroutine",
	"L/core/bandwidthlimiter.Throttler.bandwidthLimitingWrite/recv produced": "not on a real path of the handlers (io.Writer over-approximation); fed by the throttler's ticker goroutine",
}

func checkCancelCoverage(c *report.Ctx) {
	hi := fn(c, "L/rapid", "handleInit")
	hv := fn(c, "L/rapid", "handleInvoke")
	if hi == nil || hv == nil {
		return
	}
	reach := reachableSync(c, true, hi, hv)
	seen := map[string]bool{}
	n := 0
	for _, f := range repoFuncs(c) {
		if !reach[f] {
			continue
		}
		an.AllInstrs(f, func(in ssa.Instruction) {
			d := ""
			switch x := in.(type) {
			case *ssa.Send:
				d = "send " + chanName(x.Chan)
			case *ssa.UnOp:
				if x.Op == token.ARROW {
					d = "recv " + chanName(x.X)
				}
			case *ssa.Select:
				if x.Blocking {
					d = "select"
				}
			case ssa.CallInstruction:
				cal := an.Callee(x)
				if oneOf(cal, "sync.WaitGroup.Wait", "sync.Cond.Wait", "time.Sleep") {
					d = "call " + cal
				}
			}
			if d == "" {
				return
			}
			key := an.FuncName(f) + "/" + d
			if seen[key] {
				return
			}
			seen[key] = true
			n++
			why, ok := blockingAllowed[key]
			c.Check("R-CANCEL", "blocking/"+key, "a blocking operation reachable from a running init/invoke handler must be interruptible by a reset (a cancellable barrier wait) or be listed with the reason it cannot wedge the handler", ok, an.InstrPos(in), 1, "%s", why)
		})
	}
	c.Check("R-COUNT", "blocking/enumerated", "blocking operations under the handlers were enumerated", n >= 4, token.NoPos, n, "%d distinct blocking operations", n)
	// barrier waits are reached only through the flow objects
	var directWaits []string
	for _, st := range callSites(c, "L/core.Gate.AwaitGateCondition") {
		n := an.FuncName(st.Fn)
		if !strings.HasPrefix(n, "L/core.initFlowSynchronizationImpl.") && !strings.HasPrefix(n, "L/core.invokeFlowSynchronizationImpl.") {
			directWaits = append(directWaits, n)
		}
	}
	c.Check("R-WHO", "blocking/gate-waits-only-through-flows", "barriers are awaited only through the two flow objects, whose cancel reaches every gate", len(directWaits) == 0, token.NoPos, 1, "other waiters: %v", directWaits)
	checkFlow(c, "initFlowSynchronizationImpl", []string{"CancelWithError"}, map[string]string{"CancelWithError": "CancelWithError"}, nil)
	checkFlow(c, "invokeFlowSynchronizationImpl", []string{"CancelWithError"}, map[string]string{"CancelWithError": "CancelWithError"}, nil)
	// CancelFlows cancels both flows, once, with the caller's error
	if cf := fn(c, coreP, "(*registrationServiceImpl).CancelFlows"); cf != nil {
		ok := false
		for _, g := range an.WithAnon(cf) {
			a := an.CallsTo(g, "L/core.InitFlowSynchronization.CancelWithError")
			b := an.CallsTo(g, "L/core.InvokeFlowSynchronization.CancelWithError")
			if len(a) == 1 && len(b) == 1 {
				ok = true
			}
		}
		once := len(an.CallsTo(cf, "sync.Once.Do")) == 1
		c.Check("R-FANOUT", "L/core.registrationServiceImpl.CancelFlows/both-flows", "cancelling flows cancels the init flow and the invoke flow (first error wins through cancelOnce)", ok && once, fpos(cf), 3, "both flows cancelled: %v; through cancelOnce: %v", ok, once)
	}
	checkCancelRearmed(c)
	// HandleReset: cancel first, then wait for the handler mutex
	if hr := fn(c, "L/rapid", "(*rapidContext).HandleReset"); hr != nil {
		cancels := an.CallsTo(hr, "L/core.RegistrationService.CancelFlows")
		var lock ssa.Instruction
		for _, o := range an.LockOps(hr) {
			if o.Acquire && strings.HasSuffix(o.Path, "handlerExecutionMutex") {
				lock = o.In
			}
		}
		ok := len(cancels) == 1 && lock != nil && an.InstrDominates(cancels[0], lock)
		c.Check("R-ORDER", "L/rapid.rapidContext.HandleReset/cancel-before-lock", "a reset cancels the flows strictly before it waits for the running handler (reversed, it could never interrupt a stuck handler)", ok, fpos(hr), 2, "CancelFlows precedes handlerExecutionMutex.Lock: %v", ok)
		if ok {
			g := an.GlobalOf(cancels[0].Common().Args[0])
			c.Check("R-CONST", "L/rapid.rapidContext.HandleReset/cancel-error", "the reset cancels with errResetReceived (which the handlers treat as 'yield to the reset')", g == "L/rapid.errResetReceived", an.InstrPos(cancels[0]), 1, "error: %s", g)
		}
	}
	// handlers serialised by the handler mutex
	for _, h := range []struct{ m, inner string }{{"HandleInit", "handleInit"}, {"HandleInvoke", "handleInvoke"}, {"HandleReset", "handleReset"}, {"HandleShutdown", "handleShutdown"}} {
		f := fn(c, "L/rapid", "(*rapidContext)."+h.m)
		if f == nil {
			continue
		}
		held := an.NewHeld(f)
		lp := f.Params[0].Name() + ".handlerExecutionMutex"
		calls := an.CallsTo(f, "L/rapid."+h.inner)
		ok := len(calls) == 1 && held.At(calls[0])[lp] && held.Defers[lp]
		c.Check("R-LOCK", "L/rapid.rapidContext."+h.m+"/serialised", "init, invoke, reset and shutdown handling are mutually exclusive (handler mutex held, released by defer)", ok, fpos(f), 1, "held: %v", ok)
		sites := callSites(c, "L/rapid."+h.inner)
		c.Check("R-WHO", "L/rapid."+h.inner+"/only-through-wrapper", "the handler body is entered only through its locking wrapper", len(sites) == 1, fpos(f), len(sites), "callers: %v", siteFns(sites))
	}
	// awaitInitCompletion serves the init response channels
	if a := fn(c, rapidcP, "(*Server).awaitInitCompletion"); a != nil {
		w := len(an.CallsTo(a, "L/interop.InitContext.Wait")) == 1
		nack := 0
		for _, s := range allSends(a) {
			if chanName(s.Chan) == "Ack" {
				nack++
			}
		}
		c.Check("R-ORDER", "L/rapidcore.Server.awaitInitCompletion/serves-init-channels", "the init handler's result is received and acknowledged by the goroutine Server.Init starts", w && nack == 2, fpos(a), 3, "Wait: %v, acknowledgements: %d", w, nack)
	}
	if in := fn(c, rapidcP, "(*Server).Init"); in != nil {
		var goAwait ssa.Instruction
		an.AllInstrs(in, func(i ssa.Instruction) {
			if g, ok := i.(*ssa.Go); ok && an.Callee(g) == srvT+".awaitInitCompletion" {
				goAwait = i
			}
		})
		sb := an.CallsTo(in, "L/interop.SandboxContext.Init")
		c.Check("R-ORDER", "L/rapidcore.Server.Init/starts-awaiter", "Server.Init starts the goroutine that serves the init handler's channels", goAwait != nil && len(sb) == 1, fpos(in), 2, "go awaitInitCompletion: %v", goAwait != nil)
	}
}

type sharedMap struct{ T, field, lock, why string }

func checkSharedState(c *report.Ctx) {
	cg := c.P.CallGraph()
	tables := []sharedMap{
		{"L/appctx.applicationContext", "m", "mux", ""},
		{"L/rapid.shutdownContext", "agentsAwaitingExit", "agentsAwaitingExitMutex", ""},
		{"L/rapid.shutdownContext", "runtimeDomainExited", "runtimeDomainExitedMutex", ""},
		{"L/supervisor.LocalSupervisor", "processMap", "processMapLock", ""},
		{"L/core.ExternalAgent", "events", "ManagedThread", ""},
		{"L/core.InternalAgent", "events", "ManagedThread", ""},
		{"L/core.ExternalAgentsMap", "byName", "mutex", ""},
		{"L/core.ExternalAgentsMap", "byID", "mutex", ""},
		{"L/core.InternalAgentsMap", "byName", "mutex", ""},
		{"L/core.InternalAgentsMap", "byID", "mutex", ""},
		{"L/core.credentialsServiceImpl", "credentials", "contentMutex", ""},
		{"L/core.registrationServiceImpl", "runtime", "mutex", ""},
		{"L/core.registrationServiceImpl", "state", "mutex", ""},
		{"L/core.registrationServiceImpl", "cancelOnce", "mutex", ""},
	}
	// unlocked accessors that are safe for a stated reason (function -> reason)
	exceptions := map[string]string{
		"L/core.registrationServiceImpl.GetExternalAgents":           "read-only walk; external agents are inserted only by doInitExtensions, i.e. on the handler goroutine that also runs every caller of this function (handler mutex), or under the registration mutex in AgentsInfo",
		"L/core.registrationServiceImpl.GetInternalAgents":           "read-only walk; called only from AgentsInfo, which holds the registration mutex",
		"L/core.registrationServiceImpl.GetSubscribedExternalAgents": "read-only walk in doInvoke; registration is closed (TurnOff) before initDone, so no insert can run concurrently",
		"L/core.registrationServiceImpl.GetSubscribedInternalAgents": "read-only walk in doInvoke; registration is closed (TurnOff) before initDone, so no insert can run concurrently",
		"L/core.credentialsServiceImpl.UpdateCredentials":            "read of the single-entry map by the restore handler; the only writer (SetCredentials, locked) runs on the same goroutine",
		"L/core.NewExternalAgent":                                    "constructor",
		"L/core.NewInternalAgent":                                    "constructor",
		"L/core.NewExternalAgentsMap":                                "constructor",
		"L/core.NewInternalAgentsMap":                                "constructor",
		"L/core.NewRegistrationService":                              "constructor",
		"L/core.NewCredentialsService":                               "constructor",
		"L/appctx.NewApplicationContext":                             "constructor",
		"L/rapid.newShutdownContext":                                 "constructor",
		"L/supervisor.NewLocalSupervisor":                            "constructor",
	}
	var lockCtx func(f *ssa.Function, at ssa.Instruction, lock string, depth int, path map[*ssa.Function]bool) (bool, string)
	lockCtx = func(f *ssa.Function, at ssa.Instruction, lock string, depth int, path map[*ssa.Function]bool) (bool, string) {
		if _, ok := exceptions[an.FuncName(f)]; ok {
			return true, ""
		}
		held := an.NewHeld(f)
		for p := range held.At(at) {
			if p == lock || strings.HasSuffix(p, "."+lock) || strings.HasSuffix(p, "."+lock+".L") {
				return true, ""
			}
		}
		if depth >= 4 || path[f] {
			return false, an.FuncName(f)
		}
		path[f] = true
		defer delete(path, f)
		n := cg.Nodes[f]
		if n == nil || len(n.In) == 0 {
			return false, an.FuncName(f)
		}
		ncallers := 0
		for _, e := range n.In {
			caller := e.Caller.Func
			if caller == nil || caller.Pkg == nil || !strings.HasPrefix(caller.Pkg.Pkg.Path(), "go.amzn.com") || strings.HasPrefix(an.FuncName(caller), "L/testdata.") || !serviceReachable(c)[caller] {
				continue
			}
			ncallers++
			if ok, where := lockCtx(caller, e.Site, lock, depth+1, path); !ok {
				return false, where
			}
		}
		if ncallers == 0 {
			return false, an.FuncName(f)
		}
		return true, ""
	}
	for _, sm := range tables {
		nacc := 0
		var bad []string
		var badPos token.Pos
		service := serviceReachable(c)
		for _, f := range repoFuncs(c) {
			if strings.HasPrefix(an.FuncName(f), "L/testdata.") || !service[f] {
				continue // not reachable from any goroutine root or handler while serving (dead or start-up only)
			}
			an.AllInstrs(f, func(in ssa.Instruction) {
				fa, ok := in.(*ssa.FieldAddr)
				if !ok {
					return
				}
				fr, ok := an.AsField(fa)
				if !ok || fr.Struct != sm.T || fr.Field != sm.field {
					return
				}
				nacc++
				if ok, where := lockCtx(f, in, sm.lock, 0, map[*ssa.Function]bool{}); !ok {
					bad = append(bad, an.FuncName(f)+" (unlocked up to "+where+")")
					if badPos == token.NoPos {
						badPos = an.InstrPos(in)
					}
				}
			})
		}
		sort.Strings(bad)
		c.Check("R-LOCK", sprintf("shared/%s.%s", sm.T, sm.field), sprintf("every access to %s.%s happens with %s held, in the function itself or in every one of its callers; unlocked accessors are allowed only when listed with a reason", sm.T, sm.field, sm.lock), len(bad) == 0 && nacc >= 1, badPos, nacc, "%d accesses; unguarded: %v", nacc, uniq(bad))
	}
	// the exception list itself is reported
	for f, why := range exceptions {
		if why != "constructor" {
			c.Note("unlocked accessor allowed: %s - %s", f, why)
		}
	}
	// every map-typed field of a struct that has a mutex field is covered by the table (a new shared map must be added)
	covered := map[string]bool{}
	for _, sm := range tables {
		covered[sm.T+"."+sm.field] = true
	}
	var uncovered []string
	for _, sp := range c.P.SSAPkgs {
		for _, mem := range sp.Members {
			tm, ok := mem.(*ssa.Type)
			if !ok {
				continue
			}
			named, ok := tm.Type().(*types.Named)
			if !ok {
				continue
			}
			st, ok := named.Underlying().(*types.Struct)
			if !ok || strings.HasSuffix(c.P.Fset.Position(named.Obj().Pos()).Filename, "_test.go") {
				continue
			}
			hasMutex := false
			for i := 0; i < st.NumFields(); i++ {
				ts := st.Field(i).Type().String()
				if strings.Contains(ts, "sync.Mutex") || strings.Contains(ts, "sync.RWMutex") {
					hasMutex = true
				}
			}
			if !hasMutex {
				continue
			}
			for i := 0; i < st.NumFields(); i++ {
				if _, isMap := st.Field(i).Type().Underlying().(*types.Map); isMap {
					k := an.TypeName(named) + "." + an.FieldName(named, st.Field(i).Name())
					if !covered[k] && !strings.HasPrefix(k, "L/testdata.") && !strings.HasPrefix(k, "L/rapidcore/standalone") {
						uncovered = append(uncovered, k)
					}
				}
			}
		}
	}
	sort.Strings(uncovered)
	c.Check("R-MAPRACE", "shared/coverage", "every map field of a mutex-carrying struct is in the checked table (an unsynchronised concurrent map access is an unrecoverable runtime fault)", len(uncovered) == 0, token.NoPos, len(tables), "map fields of mutex-carrying structs not in the table: %v", uncovered)
}

// checkManualLockRegions: where a mutex is released by hand (not by defer), nothing
// between Lock and Unlock may reach an explicit panic (a recovered panic would leave it locked).
func checkManualLockRegions(c *report.Ctx, sites []panicSite) {
	panicFns := map[*ssa.Function]bool{}
	for _, s := range sites {
		if s.Kind == "panic" || s.Kind == "log.Panic" {
			panicFns[s.Fn] = true
		}
	}
	service := serviceReachable(c)
	n := 0
	for _, f := range repoFuncs(c) {
		if !service[f] || strings.HasPrefix(an.FuncName(f), "L/testdata.") {
			continue
		}
		ops := an.LockOps(f)
		manual := map[string]bool{}
		for _, o := range ops {
			if !o.Acquire && !o.Deferred && !an.DeferOrigin(o.In) {
				manual[o.Path] = true
			}
		}
		if len(manual) == 0 {
			continue
		}
		held := an.NewHeld(f)
		var bad []string
		an.AllInstrs(f, func(in ssa.Instruction) {
			h := held.At(in)
			inRegion := false
			for p := range h {
				if manual[p] && !held.Defers[p] {
					inRegion = true
				}
			}
			if !inRegion {
				return
			}
			if _, isPanic := in.(*ssa.Panic); isPanic {
				bad = append(bad, "panic")
			}
			if call, ok := in.(ssa.CallInstruction); ok {
				if sc := call.Common().StaticCallee(); sc != nil && sc.Pkg != nil && strings.HasPrefix(sc.Pkg.Pkg.Path(), "go.amzn.com") {
					for g := range reachableFrom(c, sc) {
						if panicFns[g] {
							bad = append(bad, an.Callee(call)+" -> "+an.FuncName(g))
							break
						}
					}
				} else if strings.Contains(an.Callee(call), "logrus.Panic") {
					bad = append(bad, an.Callee(call))
				} else if call.Common().IsInvoke() {
					// a method of a repository interface: whatever implementation it may dispatch to
					if n := c.P.CallGraph().Nodes[f]; n != nil {
						for _, e := range n.Out {
							g := e.Callee.Func
							if e.Site != call || g == nil || g.Pkg == nil || !strings.HasPrefix(g.Pkg.Pkg.Path(), "go.amzn.com") {
								continue
							}
							for h := range reachableFrom(c, g) {
								if panicFns[h] {
									bad = append(bad, an.Callee(call)+" -> "+an.FuncName(h))
									break
								}
							}
						}
					}
				}
			}
		})
		n++
		c.Check("R-LOCK", "manual-unlock/"+an.FuncName(f), "between a Lock and its hand-written Unlock nothing can reach an explicit panic (net/http would recover it and the mutex would stay locked, wedging every later request)", len(bad) == 0, fpos(f), len(ops), "locks released by hand: %v; panicking calls inside: %v", keysOf(manual), uniq(bad))
	}
	c.Analysed("functions with hand-written unlock", n)
}

// variadicConstStrings returns the constant strings stored into the backing
// array of a variadic argument slice (log.Fatal("msg"), entry.Panic("msg")).
func variadicConstStrings(a ssa.Value) []string {
	sl, ok := a.(*ssa.Slice)
	if !ok {
		return nil
	}
	al, ok := sl.X.(*ssa.Alloc)
	if !ok {
		return nil
	}
	var out []string
	for _, ref := range *al.Referrers() {
		ia, ok := ref.(*ssa.IndexAddr)
		if !ok {
			continue
		}
		for _, r2 := range *ia.Referrers() {
			if st, ok := r2.(*ssa.Store); ok {
				if s, ok := an.ConstString(an.Strip(st.Val, true)); ok {
					out = append(out, s)
				}
			}
		}
	}
	return out
}

// lookupSite matches a site key "fn/kind/msg" against a table whose message part may be
// longer than the (truncated) message extracted from the code.
func lookupSite(tab map[string]siteJust, k string) (siteJust, bool) {
	if j, ok := tab[k]; ok {
		return j, true
	}
	// closure numbers are not part of a site's identity: "F$2/kind/msg" and "F$1/kind/msg" are the same site of F
	norm := func(s string) string {
		if i := strings.Index(s, "/log.") + strings.Index(s, "/panic") + strings.Index(s, "/os.Exit"); i > -3 {
			for _, sep := range []string{"/log.", "/panic", "/os.Exit"} {
				if j := strings.Index(s, sep); j >= 0 {
					return stripAnon(s[:j]) + s[j:]
				}
			}
		}
		return s
	}
	nk := norm(k)
	for tk, j := range tab {
		ntk := norm(tk)
		if ntk == nk || (len(nk) >= 8 && strings.HasPrefix(ntk, nk) && len(ntk)-len(nk) <= 4 && !strings.HasSuffix(nk, "/")) {
			return j, true
		}
	}
	for tk, j := range tab {
		if len(k) >= 8 && strings.HasPrefix(tk, k) && len(tk)-len(k) <= 4 && !strings.HasSuffix(k, "/") {
			return j, true
		}
	}
	return siteJust{}, false
}

// checkCancelRearmed: the reset re-arms the once behind CancelFlows.
func checkCancelRearmed(c *report.Ctx) {
	if cl := fn(c, coreP, "(*registrationServiceImpl).Clear"); cl != nil {
		fw := fieldWrites(cl, "L/core.registrationServiceImpl")
		c.Check("R-RESET", "L/core.registrationServiceImpl.Clear/re-arms-cancel", "clearing after a reset re-arms cancelOnce, otherwise no later fault or reset could cancel the flows and the next stalled invocation would wedge the emulator", oneOf("zero", fw["cancelOnce"]...), fpos(cl), 1, "cancelOnce writes: %v", fw["cancelOnce"])
	}
}
