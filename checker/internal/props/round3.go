package props

// Rules added after the third blind round of seeded changes (DESIGN 10.10). Each states a
// necessary condition of the properties named in its text.

import (
	"go/token"
	"go/types"
	"sort"
	"strings"

	"golang.org/x/tools/go/ssa"

	"verif/checker/internal/an"
	"verif/checker/internal/report"
)

// checkNoServerTimeouts: /runtime/invocation/next and /extension/event/next are long polls that stay parked for
// as long as nothing happens; the API server therefore sets no read or write deadline on its connections (a
// WriteTimeout drops the reply to whoever was parked longer than that, while the platform counts the event as sent).
func checkNoServerTimeouts(c *report.Ctx) {
	var set []string
	var pos token.Pos
	n := 0
	for _, f := range repoFuncs(c) {
		if !strings.HasPrefix(an.FuncName(f), "L/rapi.") {
			continue
		}
		for _, st := range an.Stores(f, "net/http.Server", "") {
			fr, _ := an.AsField(st.Addr)
			n++
			if oneOf(fr.Field, "ReadTimeout", "WriteTimeout", "IdleTimeout", "ReadHeaderTimeout") {
				set = append(set, an.FuncName(f)+": "+fr.Field)
				if pos == token.NoPos {
					pos = an.InstrPos(st)
				}
			}
		}
	}
	// the front end: an invocation is answered when it is over, which may be the function timeout plus the reset
	// allowance after the request was read; a write (or whole-request read) deadline cuts that answer off
	var fset []string
	fpos2 := token.NoPos
	fn2 := 0
	for _, f := range repoFuncs(c) {
		if !strings.HasPrefix(an.FuncName(f), "M/cmd/aws-lambda-rie.") {
			continue
		}
		// (the package-level http.ListenAndServe builds a server with an address and a handler and nothing else)
		fn2 += len(an.CallsTo(f, "net/http.ListenAndServe"))
		for _, st := range an.Stores(f, "net/http.Server", "") {
			fr, _ := an.AsField(st.Addr)
			fn2++
			if oneOf(fr.Field, "ReadTimeout", "WriteTimeout") {
				fset = append(fset, an.FuncName(f)+": "+fr.Field)
				if fpos2 == token.NoPos {
					fpos2 = an.InstrPos(st)
				}
			}
		}
	}
	c.Check("R-CONST", "M/cmd/aws-lambda-rie.Server/no-answer-deadline", "the invoke endpoint's server sets no write or whole-request deadline: the outcome of a timed-out invocation is written after the function timeout plus the reset allowance", len(fset) == 0 && fn2 >= 1, fpos2, fn2, "http.Server fields set (or plain ListenAndServe calls): %d; deadlines set: %v", fn2, fset)
	c.Check("R-CONST", "L/rapi.Server/no-connection-deadlines", "the Runtime/Extensions API server sets no read/write timeouts: a party parked in /next for any length of time still receives its event", len(set) == 0 && n >= 1, pos, n, "http.Server fields set: %d; timeouts set: %v", n, set)
}

// checkWatcherErrorNonNil: in watchEvents every unexpected exit (not shutting down) yields a non-nil error, so the
// flows are cancelled for it: the only nil that may reach the cancel guard is the initial value on the path of an
// expected exit.
func checkWatcherErrorNonNil(c *report.Ctx) {
	f := fn(c, "L/rapid", "(*rapidContext).watchEvents")
	if f == nil {
		return
	}
	facts := an.NewFacts(f)
	isSD := func(v ssa.Value) bool { return an.IsResultOf(v, "L/rapid.shutdownContext.isShuttingDown", -1) }
	ok, n := true, 0
	var bad []string
	for _, call := range an.CallsTo(f, "L/core.RegistrationService.CancelFlows") {
		arg := call.Common().Args[0]
		var phiBlock *ssa.BasicBlock
		var walk func(v ssa.Value, from *ssa.BasicBlock, seen map[ssa.Value]bool)
		walk = func(v ssa.Value, from *ssa.BasicBlock, seen map[ssa.Value]bool) {
			if seen[v] {
				return
			}
			seen[v] = true
			if ph, isPhi := v.(*ssa.Phi); isPhi {
				for i, e := range ph.Edges {
					phiBlock = ph.Block()
					walk(e, ph.Block().Preds[i], seen)
				}
				return
			}
			n++
			if an.IsNil(v) {
				// allowed only where the exit was expected (shutting down): a fact of the block the value comes
				// from, or the outcome of the branch that ends that block
				expected := facts.Holds(from, func(ft an.Fact) bool { return ft.Val && isSD(ft.Cond) })
				if iff, isIf := from.Instrs[len(from.Instrs)-1].(*ssa.If); isIf && !expected && len(from.Succs) == 2 {
					cond, truth := iff.Cond, from.Succs[0] == phiBlock
					for {
						if u, isNot := cond.(*ssa.UnOp); isNot && u.Op == token.NOT {
							cond, truth = u.X, !truth
							continue
						}
						break
					}
					expected = isSD(cond) && truth
				}
				if !expected {
					ok = false
					bad = append(bad, "nil reaches the cancel guard from a path that is not 'shutting down'")
				}
				return
			}
			if cl, _ := an.CallOf(v); cl != nil && oneOf(an.Callee(cl), "fmt.Errorf", "errors.New") {
				return
			}
			ok = false
			bad = append(bad, "error of unknown nilness: "+an.Path(v))
		}
		walk(arg, call.Block(), map[ssa.Value]bool{})
	}
	c.Check("R-GUARD", an.FuncName(f)+"/unexpected-exit-always-cancels", "every process exit that is not part of a shutdown produces a non-nil error for CancelFlows (whatever the exit status: an extension that exits 0 is as gone as one that crashes)", ok && n >= 2, fpos(f), n, "error values reaching CancelFlows: %d; problems: %v", n, uniq(bad))
}

// locksServerMutex: functions of rapidcore that acquire Server.mutex, directly or through static calls.
func locksServerMutex(c *report.Ctx) map[*ssa.Function]bool {
	out := map[*ssa.Function]bool{}
	var fns []*ssa.Function
	for _, f := range repoFuncs(c) {
		if strings.HasPrefix(an.FuncName(f), "L/rapidcore.") {
			fns = append(fns, f)
		}
	}
	for _, f := range fns {
		for _, o := range an.LockOps(f) {
			if o.Acquire && strings.HasSuffix(o.Path, ".mutex") {
				if fr, ok := lockField(o.In); ok && fr == srvT {
					out[f] = true
				}
			}
		}
	}
	for changed := true; changed; {
		changed = false
		for _, f := range fns {
			if out[f] {
				continue
			}
			an.AllInstrs(f, func(in ssa.Instruction) {
				if call, ok := in.(*ssa.Call); ok {
					if sc := call.Call.StaticCallee(); sc != nil && out[sc] && !out[f] {
						out[f] = true
						changed = true
					}
				}
			})
		}
	}
	return out
}

// lockField returns the struct type owning the mutex a Lock call operates on.
func lockField(in ssa.Instruction) (string, bool) {
	call, ok := in.(ssa.CallInstruction)
	if !ok || len(call.Common().Args) == 0 {
		return "", false
	}
	if fr, ok := an.AsField(call.Common().Args[0]); ok {
		return fr.Struct, true
	}
	return "", false
}

// checkWatchdogIndependent: the goroutine that fires the function timeout does not take the server mutex. That
// mutex is held for as long as a runtime takes to upload its response body; a watchdog that waits for it cannot
// fire while a runtime stalls mid-upload - which is one of the stalls it exists for.
func checkWatchdogIndependent(c *report.Ctx) {
	inv := fn(c, rapidcP, "(*Server).Invoke")
	if inv == nil {
		return
	}
	var g *ssa.Function
	for _, a := range inv.AnonFuncs {
		if len(an.CallsTo(a, "time.After")) > 0 {
			g = a
		}
	}
	if g == nil {
		c.Unresolved("ANCHOR", "L/rapidcore.Server.Invoke/timeout-goroutine", "no goroutine of Server.Invoke waits on time.After")
		return
	}
	lk := locksServerMutex(c)
	var bad []string
	pos := fpos(g)
	n := 0
	an.AllInstrs(g, func(in ssa.Instruction) {
		call, ok := in.(ssa.CallInstruction)
		if !ok {
			return
		}
		n++
		if sc := call.Common().StaticCallee(); sc != nil && lk[sc] && an.FuncName(sc) != srvT+".GetInvokeTimeout" {
			bad = append(bad, an.FuncName(sc))
			pos = an.InstrPos(in)
		}
	})
	c.Check("R-LOCK", an.FuncName(g)+"/does-not-wait-for-the-server-mutex", "between being started and sending the timeout the watchdog calls nothing that takes the server mutex (held while a response body is uploaded) apart from reading the configured timeout before it starts to wait", len(bad) == 0, pos, n, "calls: %d; calls that take the server mutex: %v", n, bad)
}

// checkSignalHandlerOrder: on SIGTERM/SIGINT the shutdown functions run (reset of the sandbox: SHUTDOWN events are
// delivered over the API server) before the server's context is cancelled.
func checkSignalHandlerOrder(c *report.Ctx) {
	f := fn(c, rapidcP, "signalHandler")
	if f == nil {
		return
	}
	var cancelP *ssa.Parameter
	for _, p := range f.Params {
		if strings.Contains(p.Type().String(), "CancelFunc") {
			cancelP = p
		}
	}
	isCancel := func(in ssa.Instruction) bool {
		call, ok := in.(*ssa.Call) // a deferred cancel runs after everything else and is fine
		return ok && cancelP != nil && call.Call.Value == ssa.Value(cancelP)
	}
	ord := an.NewOrder(f, func(in ssa.Instruction) uint64 {
		if isCancel(in) {
			return 1
		}
		return 0
	})
	nfun, ok := 0, true
	an.AllInstrs(f, func(in ssa.Instruction) {
		call, isCall := in.(*ssa.Call)
		if !isCall || call.Call.IsInvoke() || call.Call.StaticCallee() != nil {
			return
		}
		if _, isBuiltin := call.Call.Value.(*ssa.Builtin); isBuiltin || call.Call.Value == ssa.Value(cancelP) {
			return
		}
		nfun++ // a call of a function value: one of the shutdown functions
		if _, may := ord.Before(in); may&1 != 0 {
			ok = false
		}
	})
	c.Check("R-ORDER", an.FuncName(f)+"/shutdown-functions-before-cancel", "the API server is cancelled only after the shutdown functions ran (extensions receive their SHUTDOWN event over it)", ok && nfun >= 1 && cancelP != nil, fpos(f), nfun, "shutdown-function call sites: %d; cancel possibly before one of them: %v", nfun, !ok)
}

// checkReserveOneCriticalSection: in setNewInvokeContext the test "no reservation yet" and the store of the new
// reservation are made under one and the same acquisition of the server mutex.
func checkReserveOneCriticalSection(c *report.Ctx) {
	f := fn(c, rapidcP, "(*Server).setNewInvokeContext")
	if f == nil {
		return
	}
	// forward may-analysis of "which Lock call is the current holder" (empty = not held)
	type set map[ssa.Instruction]bool
	in := map[*ssa.BasicBlock]set{}
	isMu := func(p string) bool { return strings.HasSuffix(p, ".mutex") }
	transfer := func(b *ssa.BasicBlock, s set, at ssa.Instruction) set {
		cur := set{}
		for k := range s {
			cur[k] = true
		}
		for _, ins := range b.Instrs {
			if ins == at {
				break
			}
			for _, o := range an.LockOps(f) {
				if o.In != ins || !isMu(o.Path) || o.Deferred {
					continue
				}
				if o.Acquire {
					cur = set{ins: true}
				} else {
					cur = set{}
				}
			}
		}
		return cur
	}
	for _, b := range f.Blocks {
		in[b] = set{}
	}
	for changed := true; changed; {
		changed = false
		for _, b := range f.Blocks {
			out := transfer(b, in[b], nil)
			for _, s := range b.Succs {
				for k := range out {
					if !in[s][k] {
						in[s][k] = true
						changed = true
					}
				}
				if len(out) == 0 && !in[s][nil] {
					in[s][nil] = true // "possibly not held" marker
					changed = true
				}
			}
		}
	}
	holderAt := func(at ssa.Instruction) set { return transfer(at.Block(), in[at.Block()], at) }
	var test ssa.Instruction
	an.AllInstrs(f, func(ins ssa.Instruction) {
		if i, ok := ins.(*ssa.If); ok && test == nil {
			if bo, ok := i.Cond.(*ssa.BinOp); ok && (loadOf(srvT, "invokeCtx")(bo.X) || loadOf(srvT, "invokeCtx")(bo.Y)) {
				test = ins
			}
		}
	})
	sts := an.Stores(f, srvT, "invokeCtx")
	ok := test != nil && len(sts) == 1
	detail := "test or store not found"
	if ok {
		ht, hs := holderAt(test), holderAt(sts[0])
		same := len(ht) == 1 && len(hs) == 1 && !ht[nil] && !hs[nil]
		if same {
			for k := range ht {
				same = hs[k]
			}
		}
		ok = same
		detail = sprintf("lock acquisitions that can be current at the test: %d, at the store: %d, identical and certain: %v", len(ht), len(hs), same)
	}
	c.Check("R-LOCK", an.FuncName(f)+"/test-and-set-one-acquisition", "the reservation test and the reservation store happen under the same acquisition of the server mutex (releasing it in between lets two callers both pass the test)", ok, fpos(f), 2, "%s", detail)
}

// checkValidationCoversEveryEvent: the register handlers validate every element of the requested event list
// (the validation call runs in every iteration of the loop over the events) before anything is created or subscribed.
func checkValidationCoversEveryEvent(c *report.Ctx) {
	for _, s := range []struct{ fn, validate string }{
		{"registerExternalAgent", "L/core.ValidateExternalAgentEvent"},
		{"registerInternalAgent", "L/core.ValidateInternalAgentEvent"},
	} {
		f := fn(c, "L/rapi/handler", "(*agentRegisterHandler)."+s.fn)
		if f == nil {
			continue
		}
		vals := an.CallsTo(f, s.validate)
		ok := len(vals) == 1
		if ok {
			call := vals[0]
			var header *ssa.BasicBlock
			for b := call.Block(); b != nil && header == nil; b = b.Idom() {
				for _, p := range b.Preds {
					if b.Dominates(p) {
						header = b
					}
				}
			}
			ok = header != nil
			if ok {
				for _, p := range header.Preds {
					if header.Dominates(p) && !call.Block().Dominates(p) {
						ok = false // an iteration can reach the next one without validating
					}
				}
			}
		}
		c.Check("R-GUARD", an.FuncName(f)+"/every-event-validated", "every requested event goes through the validator (no element of the list is skipped)", ok, fpos(f), len(vals), "validator calls: %d; runs in every iteration: %v", len(vals), ok)
	}
}

// checkErrorReplyReachesSink: SendResponse and SendErrorResponse hand every call on to the reply sink, whose own
// guards (current id, nothing sent yet) decide; no earlier shortcut answers for it. The substitute error for an
// oversized response is delivered through SendErrorResponse right after SendResponse refused: a shortcut keyed on
// "a response was attempted" would swallow it.
func checkErrorReplyReachesSink(c *report.Ctx) {
	for _, m := range []string{"SendResponse", "SendErrorResponse"} {
		f := fn(c, rapidcP, "(*Server)."+m)
		if f == nil {
			continue
		}
		sink := an.CallsTo(f, srvT+".sendResponseUnsafe")
		isSink := map[ssa.Instruction]bool{}
		for _, s := range sink {
			isSink[s] = true
		}
		ord := an.NewOrder(f, func(in ssa.Instruction) uint64 {
			if isSink[in] {
				return 1
			}
			return 0
		})
		ok := len(sink) == 1
		for _, e := range an.Exits(f) {
			if must, _ := ord.Before(e.Ret); must&1 == 0 {
				ok = false
			}
		}
		c.Check("R-ORDER", an.FuncName(f)+"/always-through-the-sink", "every call reaches the reply sink: nothing is answered or refused before the sink's own id and already-sent tests", ok, fpos(f), len(sink), "sink calls: %d; on every path: %v", len(sink), ok)
	}
}

// checkLookupEnvPresence: reserved variables are taken from the process environment when they are SET there, even
// if empty (os.LookupEnv): a reserved name that is set keeps a customer value of the same name out.
func checkLookupEnvPresence(c *report.Ctx) {
	n, ok := 0, true
	pos := token.NoPos
	for _, f := range repoFuncs(c) {
		if !strings.HasPrefix(an.FuncName(f), "L/rapidcore/env.") || len(an.CallsTo(f, "os.LookupEnv")) == 0 {
			continue
		}
		facts := an.NewFacts(f)
		an.AllInstrs(f, func(in ssa.Instruction) {
			mu, isMU := in.(*ssa.MapUpdate)
			if !isMU {
				return
			}
			ex, k := mu.Value.(*ssa.Extract)
			if !k || !an.IsResultOf(mu.Value, "os.LookupEnv", 0) {
				return
			}
			n++
			isOK := func(v ssa.Value) bool {
				e2, k := v.(*ssa.Extract)
				return k && e2.Index == 1 && e2.Tuple == ex.Tuple
			}
			if !facts.Holds(mu.Block(), func(ft an.Fact) bool { return ft.Val && isOK(ft.Cond) }) {
				ok = false
				pos = an.InstrPos(in)
			}
		})
	}
	c.Check("R-GUARD", "L/rapidcore/env.lookupEnv/set-means-reserved", "a reserved variable is taken over exactly when it is set in the process environment (os.LookupEnv's ok), empty or not", ok && n >= 1, pos, n, "map stores of a looked-up value: %d, all guarded by that lookup's ok: %v", n, ok)
}

// checkOptionalReservedStores: in storeNonCredentialEnvironmentVariablesFromInit a reserved platform variable that
// is written only when its source is non-empty is guarded by a test of that very source.
func checkOptionalReservedStores(c *report.Ctx) {
	for _, f := range envInitStoreFns(c) {
		checkOptionalReservedStoresIn(c, f)
	}
}

// envInitStoreFns: the function(s) that store the values of an init request into the environment: the helper of the
// pinned tree, or - when it was merged into its callers or replaced - every function of the package that merges a
// map parameter into the customer layer.
func envInitStoreFns(c *report.Ctx) []*ssa.Function {
	if f := c.P.Func("L/rapidcore/env", "(*Environment).storeNonCredentialEnvironmentVariablesFromInit"); f != nil && len(f.Blocks) > 0 {
		c.Analysed("functions", 1)
		return []*ssa.Function{f}
	}
	var out []*ssa.Function
	for _, f := range repoFuncs(c) {
		if !strings.HasPrefix(an.FuncName(f), "L/rapidcore/env.") {
			continue
		}
		found := false
		for _, call := range an.CallsTo(f, "L/rapidcore/env.mapUnion") {
			if !storedToField(call, "L/rapidcore/env.Environment", "Customer") {
				continue
			}
			for _, v := range variadicValues(call.Common().Args[0]) {
				if _, _, isP := an.ParamRead(v); isP {
					found = true
				}
			}
		}
		// (the init store is the one that marks the init values as set)
		if found && len(an.Stores(f, "L/rapidcore/env.Environment", "initEnvVarsSet")) > 0 {
			out = append(out, f)
		}
	}
	if len(out) == 0 {
		c.Unresolved("ANCHOR", "L/rapidcore/env.(*Environment).storeNonCredentialEnvironmentVariablesFromInit", "no function of the package merges a map parameter into the customer layer")
	}
	c.Analysed("functions", len(out))
	return out
}

func checkOptionalReservedStoresIn(c *report.Ctx, f *ssa.Function) {
	facts := an.NewFacts(f)
	n, ok := 0, true
	var bad []string
	an.AllInstrs(f, func(in ssa.Instruction) {
		mu, isMU := in.(*ssa.MapUpdate)
		if !isMU {
			return
		}
		p, isP := mu.Value.(*ssa.Parameter)
		if !isP {
			// table-driven form: `for _, v := range table { if v.value != "" { v.target[v.key] = v.value } }` -
			// the value stored and the value tested are the same field of the same table element
			if fr, k := an.AsField(an.Strip(mu.Value, false)); k {
				for _, ft := range facts.At(mu.Block()) {
					bo, k2 := ft.Cond.(*ssa.BinOp)
					if !k2 || (bo.Op != token.NEQ && bo.Op != token.EQL) {
						continue
					}
					if s, isC := an.ConstString(bo.Y); !isC || s != "" {
						continue
					}
					if gr, k3 := an.AsField(an.Strip(bo.X, false)); k3 {
						n += 2 // one table row per optional variable; counted as the pair it replaces
						if gr.Field != fr.Field || gr.Base != fr.Base {
							ok = false
							bad = append(bad, sprintf("table row stores field %s under a test of field %s", fr.Field, gr.Field))
						}
					}
				}
			}
			return
		}
		for _, ft := range facts.At(mu.Block()) {
			bo, k := ft.Cond.(*ssa.BinOp)
			if !k || (bo.Op != token.NEQ && bo.Op != token.EQL) {
				continue
			}
			s, isC := an.ConstString(bo.Y)
			q, isQ := bo.X.(*ssa.Parameter)
			if !isC || s != "" || !isQ {
				continue
			}
			n++
			if q != p {
				ok = false
				key, _ := an.ConstString(mu.Key)
				bad = append(bad, sprintf("%s is stored from %s under a test of %s", key, p.Name(), q.Name()))
			}
		}
	})
	c.Check("R-GUARD", an.FuncName(f)+"/optional-stores-test-their-own-source", "a reserved variable written only when its source is non-empty is guarded by a test of that same source (else an empty other argument leaves the reserved name to the customer)", ok && n >= 2, fpos(f), n, "guarded stores: %d; mismatches: %v", n, bad)
}

// checkResponseAlwaysCancellable: the response handed to the server always carries the cancellable request, so
// that a reset can interrupt a body that is still being uploaded, whatever response mode the runtime announced.
func checkResponseAlwaysCancellable(c *report.Ctx) {
	f := fn(c, "L/rapi/handler", "(*invocationResponseHandler).ServeHTTP")
	if f == nil {
		return
	}
	send := an.Calls(f, func(n string) bool { return strings.HasSuffix(n, ".SendResponse") })
	sts := an.Stores(f, "L/interop.StreamableInvokeResponse", "Request")
	ok := len(send) == 1 && len(sts) >= 1
	if ok {
		dom := false
		for _, st := range sts {
			if an.InstrDominates(st, send[0]) && !an.IsNil(st.Val) {
				dom = true
			}
		}
		ok = dom
	}
	c.Check("R-DEFASSIGN", an.FuncName(f)+"/request-always-attached", "every response passed to SendResponse has its cancellable request attached (a reset must be able to abort the upload in any response mode)", ok, fpos(f), len(sts), "stores of the Request field: %d; one dominates SendResponse: %v", len(sts), ok)
}

// checkUpdateCredentialsGuard: a restore refreshes credentials only when exactly one token exists.
func checkUpdateCredentialsGuard(c *report.Ctx) {
	f := fn(c, "L/core", "(*credentialsServiceImpl).UpdateCredentials")
	if f == nil {
		return
	}
	facts := an.NewFacts(f)
	sets := an.CallsTo(f, "L/core.credentialsServiceImpl.SetCredentials")
	ok := len(sets) == 1
	if ok {
		ok = facts.Holds(sets[0].Block(), func(ft an.Fact) bool {
			r, k := an.AsRel(ft)
			if !k {
				return false
			}
			if _, isLen := an.LenArg(r.X); !isLen {
				r = r.Flip()
			}
			_, isLen := an.LenArg(r.X)
			n, isC := an.ConstInt(r.Y)
			return isLen && isC && n == 1 && r.Op == token.EQL
		})
	}
	c.Check("R-GUARD", an.FuncName(f)+"/exactly-one-token", "credentials are refreshed only when exactly one token has been issued (with several it is undefined which one the running runtime holds)", ok, fpos(f), len(sets), "SetCredentials under len(credentials) == 1: %v", ok)
}

// checkKillExitedFirst: kill reports success for a process that already exited before it looks at the deadline.
func checkKillExitedFirst(c *report.Ctx) {
	f := fn(c, supP, "kill")
	if f == nil {
		return
	}
	facts := an.NewFacts(f)
	n, ok := 0, true
	for _, e := range an.Exits(f) {
		if len(e.Vals) != 1 || an.IsNil(e.Vals[0]) {
			continue
		}
		// refusal exits that happen before any signal was sent (no Kill call can precede)
		ord := an.NewOrder(f, func(in ssa.Instruction) uint64 {
			if an.IsCallTo(in, "syscall.Kill") {
				return 1
			}
			return 0
		})
		if _, may := ord.Before(e.Ret); may&1 != 0 {
			continue
		}
		n++
		// ... lie behind the non-blocking look at the termination channel (its default edge)
		behind := false
		for _, ft := range facts.At(e.Ret.Block()) {
			bo, k := ft.Cond.(*ssa.BinOp)
			if !k {
				continue
			}
			if ex, k2 := bo.X.(*ssa.Extract); k2 {
				if sel, k3 := ex.Tuple.(*ssa.Select); k3 && !sel.Blocking && !ft.Val {
					behind = true
				}
			}
		}
		if !behind {
			ok = false
		}
	}
	c.Check("R-ORDER", an.FuncName(f)+"/exited-before-deadline-test", "a request is refused for its deadline only after the process was found still running: killing a process that already exited succeeds even with a lapsed deadline", ok && n >= 1, fpos(f), n, "refusals before any signal: %d; all behind the 'already terminated?' test: %v", n, ok)
}

// checkFreshExecRequestPerProcess: every process is started with its own request record. (The supervisor's exit
// event points at the request's name; a record reused for the next process would make earlier processes report
// under the last one's name.)
func checkFreshExecRequestPerProcess(c *report.Ctx) {
	n, ok := 0, true
	var bad []string
	for _, name := range []string{"doInitExtensions", "doRuntimeDomainInit"} {
		f := fn(c, "L/rapid", name)
		if f == nil {
			continue
		}
		for _, call := range an.CallsTo(f, supExec) {
			n++
			req := call.Common().Args[len(call.Common().Args)-1]
			al, isAlloc := an.Strip(req, false).(*ssa.Alloc)
			if !isAlloc {
				ok = false
				bad = append(bad, name+": request is not a local record")
				continue
			}
			if an.InLoop(call) && !an.InLoop(al) {
				ok = false
				bad = append(bad, name+": one request record is reused for every process started in the loop")
			}
		}
	}
	c.Check("R-WIRE", "L/rapid/exec-request-per-process", "each Exec gets a request record allocated for that process (in the same loop iteration)", ok && n >= 2, token.NoPos, n, "Exec sites: %d; problems: %v", n, bad)
}

// checkCropKeepsField: the compactor shortens a field in place - what it stores into a field is computed from
// that same field.
func checkCropKeepsField(c *report.Ctx) {
	n, ok := 0, true
	var bad []string
	for _, f := range methodsOf(c, "L/rapi/model", "errorCauseCompactor") {
		for _, st := range an.Stores(f, "L/rapi/model.ErrorCause", "") {
			fr, _ := an.AsField(st.Addr)
			cl, _ := an.CallOf(st.Val)
			if cl == nil || an.Callee(cl) != "L/rapi/model.cropString" {
				continue
			}
			n++
			src, k := an.AsField(an.Strip(cl.Call.Args[0], false))
			if !k || src.Field != fr.Field {
				ok = false
				bad = append(bad, sprintf("%s: %s = cropString(%s)", an.FuncName(f), fr.Field, src.Field))
			}
		}
	}
	sort.Strings(bad)
	c.Check("R-WIRE", "L/rapi/model.errorCauseCompactor/crops-in-place", "a cropped field is a prefix of its own original value (never the content of another field)", ok && n >= 2, token.NoPos, n, "cropString stores: %d; mismatches: %v", n, bad)
}

// checkRuntimeReleaseUnconditional: Runtime.Release always posts the (sticky) release of the park primitive.
func checkRuntimeReleaseUnconditional(c *report.Ctx) {
	f := fn(c, "L/core", "(*Runtime).Release")
	if f == nil {
		return
	}
	rel := an.CallsTo(f, "L/core.ManagedThread.Release", "L/core.Suspendable.Release")
	ok := len(rel) == 1
	if ok {
		for _, e := range an.Exits(f) {
			if !an.InstrDominates(rel[0], e.Ret) {
				ok = false
			}
		}
		_, plain := rel[0].(*ssa.Call)
		ok = ok && plain
	}
	c.Check("R-ORDER", an.FuncName(f)+"/always-releases", "releasing the runtime posts the release whatever state the runtime is in (the release is sticky: a runtime that asks for next afterwards finds it)", ok, fpos(f), len(rel), "release calls on the park primitive: %d, on every path: %v", len(rel), ok)
}

var _ = types.Universe
