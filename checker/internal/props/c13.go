package props

import (
	"go/token"
	"sort"
	"strings"

	"golang.org/x/tools/go/ssa"

	"verif/checker/internal/an"
	"verif/checker/internal/report"
)

// Documented extension lifecycles (Extensions API): everything not listed is REFUSE.
var externalAgentRef = map[string]map[string]string{
	"ExternalAgentStartedState": {
		"Register":    "subscribe*;set(ExternalAgentRegisteredState);init.ExternalAgentRegistered -> nil|subscribeerr",
		"LaunchError": "set(ExternalAgentLaunchErrorState);errorType=L/core.MapErrorToAgentInfoErrorType() -> nil",
	},
	"ExternalAgentRegisteredState": {
		"Ready":     "set(ExternalAgentReadyState);init.AgentReady;park;set(ExternalAgentRunningState) -> ErrConcurrentStateModification|nil",
		"InitError": "set(ExternalAgentInitErrorState);errorType=param:errorType -> nil",
		"ExitError": "set(ExternalAgentExitErrorState);errorType=param:errorType -> nil",
	},
	"ExternalAgentReadyState": {
		"ExitError": "set(ExternalAgentExitErrorState);errorType=param:errorType -> nil",
	},
	"ExternalAgentRunningState": {
		"Ready":          "set(ExternalAgentReadyState);invoke.AgentReady;park;set(ExternalAgentRunningState) -> ErrConcurrentStateModification|nil",
		"ExitError":      "set(ExternalAgentExitErrorState);errorType=param:errorType -> nil",
		"ShutdownFailed": "set(ExternalAgentShutdownFailedState) -> nil",
		"Exited":         "set(ExternalAgentExitedState) -> nil",
	},
	"ExternalAgentInitErrorState":      {"InitError": " -> nil"},
	"ExternalAgentExitErrorState":      {"ExitError": " -> nil"},
	"ExternalAgentShutdownFailedState": {},
	"ExternalAgentExitedState":         {},
	"ExternalAgentLaunchErrorState":    {},
}

var internalAgentRef = map[string]map[string]string{
	"InternalAgentStartedState": {
		"Register": "subscribe*;set(InternalAgentRegisteredState) -> nil|subscribeerr",
	},
	"InternalAgentRegisteredState": {
		"Ready":     "set(InternalAgentReadyState);init.AgentReady;park;set(InternalAgentRunningState) -> ErrConcurrentStateModification|nil",
		"InitError": "set(InternalAgentInitErrorState);errorType=param:errorType -> nil",
		"ExitError": "set(InternalAgentExitErrorState);errorType=param:errorType -> nil",
	},
	"InternalAgentReadyState": {
		"ExitError": "set(InternalAgentExitErrorState);errorType=param:errorType -> nil",
	},
	"InternalAgentRunningState": {
		"Ready":     "set(InternalAgentReadyState);invoke.AgentReady;park;set(InternalAgentRunningState) -> ErrConcurrentStateModification|nil",
		"ExitError": "set(InternalAgentExitErrorState);errorType=param:errorType -> nil",
	},
	"InternalAgentInitErrorState": {"InitError": " -> nil"},
	"InternalAgentExitErrorState": {"ExitError": " -> nil"},
}

var agentStateNames = map[string]string{
	"ExternalAgentStartedState": "Started", "ExternalAgentRegisteredState": "Registered", "ExternalAgentReadyState": "Ready", "ExternalAgentRunningState": "Running",
	"ExternalAgentInitErrorState": "InitError", "ExternalAgentExitErrorState": "ExitError", "ExternalAgentShutdownFailedState": "ShutdownFailed",
	"ExternalAgentExitedState": "Exited", "ExternalAgentLaunchErrorState": "LaunchError",
	"InternalAgentStartedState": "Started", "InternalAgentRegisteredState": "Registered", "InternalAgentReadyState": "Ready", "InternalAgentRunningState": "Running",
	"InternalAgentInitErrorState": "InitError", "InternalAgentExitErrorState": "ExitError",
}

func externalFSM() fsmSpec {
	return fsmSpec{Owner: "ExternalAgent", Iface: "ExternalAgentState", Base: "disallowEverything", Ctor: "NewExternalAgent", OwnerRef: "agent",
		SetState: "setStateUnsafe", Current: "currentState", Skip: []string{"Name"}, Reference: externalAgentRef, Initial: "ExternalAgentStartedState"}
}
func internalFSM() fsmSpec {
	return fsmSpec{Owner: "InternalAgent", Iface: "InternalAgentState", Base: "disallowEverything", Ctor: "NewInternalAgent", OwnerRef: "agent",
		SetState: "setStateUnsafe", Current: "currentState", Skip: []string{"Name"}, Reference: internalAgentRef, Initial: "InternalAgentStartedState"}
}

func init() {
	register(&Prop{
		Spec: report.Spec{
			ID: "C13",
			Explanation: "Both extension lifecycle automata (9 external state types x 7 calls, 6 internal x 4) are extracted from the state-object pattern and compared cell by cell with the documented ones; refused calls are proved effect-free (no state change, no barrier arrival). " +
				"Registration rules are decided on the code shape: the limit constant is 10 and guards the internal insert with '>=' and the external launch loop with '>'; inserts are dominated by service-on, cross-kind and same-kind name-collision tests and precede no store on refusal; the accepted event sets are exactly {INVOKE, SHUTDOWN} (external) and {INVOKE} (internal); " +
				"event validation precedes the state change and ranges over the slice later registered; all post-register routes (and /logs, /telemetry) sit behind the identifier validator whose pass-through is dominated by a non-empty header and a successful uuid parse; handlers transition first and answer 403 with the documented error type constants; registration data are wired from the init request. " +
				"Added after the blind rounds: sentinel errors reach the register handler unwrapped (R-ERRID); every requested event is validated; registration maps emptied by a reset; no connection deadlines. " +
				"NOT decided: wire-level sequences, header parsing by net/http.",
			RuleText:    "one obligation per automaton cell (63+24), per base method, per wrapper, per guard, per route, per error-type constant, per wiring edge",
			Assumptions: trusted,
			MinObs:      170,
		},
		Run: runC13,
	})
}

func runC13(c *report.Ctx) {
	checkNoServerTimeouts(c)
	checkValidationCoversEveryEvent(c)
	checkAgentMapsCleared(c)
	checkOnlyOwnMiddleware(c)
	checkFeatureNamesTrimmed(c)
	checkErrorIdentity(c, scopeAgentHandlers, nil, 3)
	c.Clause("1 automata")
	for _, spec := range []fsmSpec{externalFSM(), internalFSM()} {
		m := extractFSM(c, spec)
		checkFSM(c, spec, m)
		if m != nil {
			checkStateNames(c, "L/core."+spec.Owner, m.states, agentStateNames)
		}
	}
	c.Clause("2 registration rules")
	checkRegistrationRules(c)
	c.Clause("3 event tables")
	checkEventTables(c)
	c.Clause("4 validation before state change")
	checkRegisterHandlers(c)
	c.Clause("5 identifier required")
	checkAgentIdentifier(c)
	c.Clause("6 handlers")
	checkAgentHandlers(c)
	c.Clause("7 registration data")
	checkRegistrationData(c)
}

func checkRegistrationRules(c *report.Ctx) {
	RS := "L/core.registrationServiceImpl"
	if k := c.P.Const(coreP, "MaxAgentsAllowed"); k != nil {
		n, _ := an.ConstInt(k.Value)
		c.Check("R-CONST", "L/core.MaxAgentsAllowed", "at most ten extensions exist", n == 10, k.Pos(), 1, "MaxAgentsAllowed = %d", n)
	} else {
		c.Unresolved("ANCHOR", "L/core.MaxAgentsAllowed", "constant not found")
	}
	isState := func(v ssa.Value) bool { return loadOf(RS, "state")(v) }
	isOn := func(v ssa.Value) bool {
		n, ok := an.ConstInt(v)
		k := c.P.Const(coreP, "registrationServiceOn")
		if !ok || k == nil {
			return false
		}
		kn, _ := an.ConstInt(k.Value)
		return kn == n
	}
	serviceOn := func(f an.Fact) bool { return an.CmpEq(f, true, isState, isOn) }
	type spec struct {
		fn, insert, crossFind string
		limit                 bool
	}
	for _, s := range []spec{
		{"CreateInternalAgent", "L/core.InternalAgentsMap.Insert", "L/core.ExternalAgentsMap.FindByName", true},
		{"CreateExternalAgent", "L/core.ExternalAgentsMap.Insert", "L/core.InternalAgentsMap.FindByName", false},
	} {
		f := fn(c, coreP, "(*registrationServiceImpl)."+s.fn)
		if f == nil {
			continue
		}
		name := an.FuncName(f)
		facts := an.NewFacts(f)
		held := an.NewHeld(f)
		ins := an.CallsTo(f, s.insert)
		if !c.Check("R-COUNT", name+"/insert-site", "the agent is inserted at exactly one site", len(ins) == 1, fpos(f), len(ins), "%d insert sites", len(ins)) {
			continue
		}
		call := ins[0]
		b := call.Block()
		c.Check("R-GUARD", name+"/insert-only-while-service-on", "an agent is inserted only while registration is open (state == registrationServiceOn)", facts.Holds(b, serviceOn), an.InstrPos(call), 1, "facts: %s", factsString(facts.At(b)))
		c.Check("R-LOCK", name+"/insert-under-mutex", "test and insert happen under the registration mutex", held.At(call)[f.Params[0].Name()+".mutex"] && held.Defers[f.Params[0].Name()+".mutex"], an.InstrPos(call), 1, "held: %v", fmtSet(held.At(call)))
		cross := facts.Holds(b, func(ft an.Fact) bool {
			return !ft.Val && an.IsResultOf(ft.Cond, s.crossFind, 1)
		})
		c.Check("R-GUARD", name+"/cross-kind-name-unique", "the insert is reached only when no agent of the other kind has this name", cross, an.InstrPos(call), 1, "facts: %s", factsString(facts.At(b)))
		if s.limit {
			lim := facts.Holds(b, func(ft an.Fact) bool {
				r, ok := an.AsRel(ft)
				if !ok {
					return false
				}
				for _, rr := range []an.Rel{r, r.Flip()} {
					if an.IsResultOf(rr.X, RS+".countAgentsUnsafe", -1) && rr.Op == token.LSS {
						if n, k := an.ConstInt(rr.Y); k && n == 10 {
							return true
						}
					}
				}
				return false
			})
			c.Check("R-GUARD", name+"/limit", "the insert is reached only while fewer than MaxAgentsAllowed agents exist (the eleventh is refused)", lim, an.InstrPos(call), 1, "facts: %s", factsString(facts.At(b)))
		}
		// refusals return (nil, err) before the insert and with the documented errors
		wantErr := []string{"L/core.ErrRegistrationServiceOff", "L/core.ErrAgentNameCollision"}
		if s.limit {
			wantErr = append(wantErr, "L/core.ErrTooManyExtensions")
		}
		got := map[string]bool{}
		for _, e := range an.Exits(f) {
			if len(e.Vals) == 2 && !an.IsNil(e.Vals[1]) {
				if g := an.GlobalOf(e.Vals[1]); g != "" {
					got[g] = true
				}
			}
		}
		okE := true
		for _, w := range wantErr {
			if !got[w] {
				okE = false
			}
		}
		c.Check("R-CONST", name+"/refusal-errors", "refusals report the documented errors "+strings.Join(wantErr, ", "), okE, fpos(f), len(got), "error values returned: %v", fmtSet(got))
		// the success return yields the inserted agent after a nil Insert
		for i, e := range an.Exits(f) {
			if len(e.Vals) == 2 && an.IsNil(e.Vals[1]) {
				nilIns := facts.Holds(e.Ret.Block(), func(ft an.Fact) bool {
					return an.CmpNil(ft, true, func(v ssa.Value) bool { return an.Strip(v, false) == ssa.Value(call.Value()) })
				})
				c.Check("R-GUARD", sprintf("%s/success%d-after-insert", name, i), "success is returned only after the insert succeeded", nilIns, an.InstrPos(e.Ret), 1, "facts: %s", factsString(facts.At(e.Ret.Block())))
			}
		}
	}
	// Insert: same-kind duplicates refused before either map store
	for _, mp := range []string{"ExternalAgentsMap", "InternalAgentsMap"} {
		f := fn(c, coreP, "(*"+mp+").Insert")
		if f == nil {
			continue
		}
		name := an.FuncName(f)
		facts := an.NewFacts(f)
		nupd := 0
		ok := true
		var pos token.Pos = fpos(f)
		// the presence test is the map's own Find function, or a comma-ok lookup in that map under the key stored
		storedKey := map[string]string{}
		an.AllInstrs(f, func(in ssa.Instruction) {
			if mu, isMU := in.(*ssa.MapUpdate); isMU {
				for _, fld := range []string{"byName", "byID"} {
					if an.IsFieldLoad(mu.Map, "L/core."+mp, fld) {
						storedKey[fld] = keyExpr(mu.Key)
					}
				}
			}
		})
		absent := func(ft an.Fact, find, fld string) bool {
			if ft.Val {
				return false
			}
			if an.IsResultOf(ft.Cond, "L/core."+mp+"."+find, 1) {
				return true
			}
			if ex, isEx := ft.Cond.(*ssa.Extract); isEx && ex.Index == 1 {
				if lk, isLk := ex.Tuple.(*ssa.Lookup); isLk && lk.CommaOk && an.IsFieldLoad(lk.X, "L/core."+mp, fld) {
					return storedKey[fld] != "" && keyExpr(lk.Index) == storedKey[fld]
				}
			}
			return false
		}
		an.AllInstrs(f, func(in ssa.Instruction) {
			mu, isMU := in.(*ssa.MapUpdate)
			if !isMU {
				return
			}
			nupd++
			b := mu.Block()
			nameFree := facts.Holds(b, func(ft an.Fact) bool { return absent(ft, "FindByName", "byName") })
			idFree := facts.Holds(b, func(ft an.Fact) bool { return absent(ft, "FindByID", "byID") })
			if !nameFree || !idFree {
				ok = false
				pos = an.InstrPos(in)
			}
		})
		c.Check("R-GUARD", name+"/no-duplicates", "an agent is stored only when neither its name nor its id is present (names are unique within a kind); a refusal stores nothing", ok && nupd == 2, pos, nupd, "%d map stores, all guarded: %v", nupd, ok)
		// Find functions are plain lookups in the map the Insert writes
		for _, fnd := range []string{"FindByName", "FindByID"} {
			ff := fn(c, coreP, "(*"+mp+")."+fnd)
			if ff == nil {
				continue
			}
			nlook := 0
			an.AllInstrs(ff, func(in ssa.Instruction) {
				if l, ok := in.(*ssa.Lookup); ok && l.CommaOk {
					nlook++
				}
			})
			c.Check("R-WIRE", an.FuncName(ff)+"/is-lookup", fnd+" is a comma-ok lookup (found == key present)", nlook == 1, fpos(ff), 1, "%d lookups", nlook)
		}
	}
	// doInitExtensions: more than the limit => launch error + ErrTooManyExtensions
	if f := fn(c, "L/rapid", "doInitExtensions"); f != nil {
		facts := an.NewFacts(f)
		over := func(ft an.Fact) bool {
			r, ok := an.AsRel(ft)
			if !ok {
				return false
			}
			for _, rr := range []an.Rel{r, r.Flip()} {
				if an.IsResultOf(rr.X, "L/core.RegistrationService.CountAgents", -1) && rr.Op == token.GTR {
					if n, k := an.ConstInt(rr.Y); k && n == 10 {
						return true
					}
				}
			}
			return false
		}
		found := false
		for _, e := range an.Exits(f) {
			if len(e.Vals) == 1 && an.GlobalOf(e.Vals[0]) == "L/core.ErrTooManyExtensions" {
				found = facts.Holds(e.Ret.Block(), over)
				// the launch error is recorded (by the helper or in place) on this refusal path, before the return
				launch := false
				an.AllInstrs(f, func(in ssa.Instruction) {
					if an.IsCallTo(in, "L/rapid.agentLaunchError", "L/core.ExternalAgent.LaunchError") && facts.Holds(in.Block(), over) && an.InstrDominates(in, e.Ret) {
						launch = true
					}
				})
				c.Check("R-GUARD", "L/rapid.doInitExtensions/too-many-extensions", "the launch loop stops with ErrTooManyExtensions exactly when more than MaxAgentsAllowed agents exist, after recording the launch error", found && launch, an.InstrPos(e.Ret), 1, "guarded by CountAgents() > 10: %v; agentLaunchError called: %v", found, launch)
			}
		}
		if !found {
			c.Check("R-GUARD", "L/rapid.doInitExtensions/too-many-extensions", "the launch loop refuses the eleventh extension", false, fpos(f), 0, "no guarded return of ErrTooManyExtensions")
		}
		// exec is reached only on the not-over edge
		for _, call := range an.CallsTo(f, "L/supervisor/model.ProcessSupervisor.Exec") {
			okx := facts.Holds(call.Block(), func(ft an.Fact) bool {
				r, ok := an.AsRel(ft)
				if !ok {
					return false
				}
				for _, rr := range []an.Rel{r, r.Flip()} {
					if an.IsResultOf(rr.X, "L/core.RegistrationService.CountAgents", -1) && rr.Op == token.LEQ {
						return true
					}
				}
				return false
			})
			c.Check("R-GUARD", "L/rapid.doInitExtensions/exec-within-limit", "an extension process is started only while the limit is respected", okx, an.InstrPos(call), 1, "facts: %s", factsString(facts.At(call.Block())))
		}
	}
	// registration state writers
	w := storesTo(c, RS, "state")
	var offW, onW []string
	for f, sts := range w {
		for _, st := range sts {
			if isOn(st.Val) {
				onW = append(onW, an.FuncName(f))
			} else {
				offW = append(offW, an.FuncName(f))
			}
		}
	}
	sort.Strings(onW)
	sort.Strings(offW)
	c.Check("R-WHO", RS+".state/writers", "registration is closed only by TurnOff and re-opened only by Clear and the constructor", strings.Join(offW, ",") == RS+".TurnOff" && strings.Join(onW, ",") == "L/core.NewRegistrationService,"+RS+".Clear",
		token.NoPos, len(w), "closes: %v; opens: %v", offW, onW)
	if f := fn(c, coreP, "(*registrationServiceImpl).PreregisterRuntime"); f != nil {
		facts := an.NewFacts(f)
		for _, st := range an.Stores(f, RS, "runtime") {
			c.Check("R-GUARD", an.FuncName(f)+"/only-while-service-on", "the runtime is pre-registered only while registration is open", facts.Holds(st.Block(), serviceOn), an.InstrPos(st), 1, "facts: %s", factsString(facts.At(st.Block())))
		}
	}
}

func checkEventTables(c *report.Ctx) {
	type want struct {
		fn     string
		accept []string
		reject map[string]string
	}
	for _, w := range []want{
		{"ValidateExternalAgentEvent", []string{"INVOKE", "SHUTDOWN"}, nil},
		{"ValidateInternalAgentEvent", []string{"INVOKE"}, map[string]string{"SHUTDOWN": "L/core.errEventNotSupportedForInternalAgent"}},
	} {
		f := fn(c, coreP, w.fn)
		if f == nil {
			continue
		}
		facts := an.NewFacts(f)
		accepted := map[string]bool{}
		rejected := map[string]string{}
		defaultErr := ""
		okShape := true
		for _, e := range an.Exits(f) {
			if len(e.Vals) != 1 {
				okShape = false
				continue
			}
			// which constant equals the parameter on this exit? (a literal, or an element of a local table of literals)
			val := ""
			var table []string
			for _, ft := range facts.At(e.Ret.Block()) {
				bo, ok := ft.Cond.(*ssa.BinOp)
				if !ok || bo.Op != token.EQL || !ft.Val {
					continue
				}
				if _, isP := bo.X.(*ssa.Parameter); isP {
					if s, k := an.ConstString(bo.Y); k {
						val = s
					} else if t := tableConstStrings(bo.Y); len(t) > 0 {
						table = t
					}
				}
			}
			if an.IsNil(e.Vals[0]) && len(table) > 0 {
				for _, t := range table {
					accepted[t] = true
				}
			} else if an.IsNil(e.Vals[0]) {
				if val == "" {
					okShape = false // nil without a matched constant = accepts unknown events
				}
				accepted[val] = true
			} else if val != "" {
				rejected[val] = an.GlobalOf(e.Vals[0])
			} else {
				defaultErr = an.GlobalOf(e.Vals[0])
			}
		}
		// the validator decided per class of event names (decide.go), however it is written - switch, if-chain, a
		// read-only table of verdicts looked up with comma-ok; where it depends on the name in another way the
		// exits read above stand
		if v, decided := decideErrByName(c, f); decided {
			accepted, rejected, okShape = map[string]bool{}, map[string]string{}, v.Other != ""
			defaultErr = v.Other
			for name, e := range v.For {
				if e == "" {
					accepted[name] = true
				} else {
					rejected[name] = e
				}
			}
		}
		var acc []string
		for k := range accepted {
			acc = append(acc, k)
		}
		sort.Strings(acc)
		ok := okShape && strings.Join(acc, ",") == strings.Join(w.accept, ",") && defaultErr == "L/core.errInvalidEventType"
		for k, v := range w.reject {
			if rejected[k] != v {
				ok = false
			}
		}
		c.Check("R-CONST", "L/core."+w.fn+"/accepted-set", sprintf("exactly the events %v may be subscribed; anything else is an error", w.accept), ok, fpos(f), len(an.Exits(f)), "accepts %v, rejects %v, default error %s", acc, rejected, defaultErr)
	}
	for name, want := range map[string]string{"InvokeEvent": "INVOKE", "ShutdownEvent": "SHUTDOWN"} {
		k := c.P.Const(coreP, name)
		if k == nil {
			c.Unresolved("ANCHOR", "L/core."+name, "constant not found")
			continue
		}
		s, _ := an.ConstString(k.Value)
		c.Check("R-CONST", "L/core."+name, "event name constant", s == want, k.Pos(), 1, "%s = %q", name, s)
	}
	// a subscription is recorded only after validation (the helper subscribeUnsafe is looked through: internal/load/norm.go)
	for _, owner := range []string{"ExternalAgent", "InternalAgent"} {
		n := 0
		ok := true
		var where []string
		var pos token.Pos
		for _, f := range repoFuncs(c) {
			if strings.HasPrefix(an.FuncName(f), "L/testdata.") || strings.HasPrefix(an.FuncName(f), "L/core.New") {
				continue
			}
			var facts *an.Facts
			an.AllInstrs(f, func(in ssa.Instruction) {
				mu, isMU := in.(*ssa.MapUpdate)
				if !isMU {
					return
				}
				fr, k := an.AsField(mu.Map)
				if !k || fr.Struct != coreP+"."+owner || fr.Field != "events" {
					return
				}
				if facts == nil {
					facts = an.NewFacts(f)
				}
				n++
				where = append(where, an.FuncName(f))
				if pos == token.NoPos {
					pos = an.InstrPos(in)
				}
				if !facts.Holds(mu.Block(), func(ft an.Fact) bool {
					return an.CmpNil(ft, true, func(v ssa.Value) bool { return an.IsResultOf(v, "L/core.Validate"+owner+"Event", -1) })
				}) {
					ok = false
				}
			})
		}
		c.Check("R-GUARD", "L/core."+owner+".events/validated", "a subscription is recorded only for an event the validator accepted", ok && n >= 1, pos, n, "%d stores in %v, all guarded by the validator's nil result: %v", n, uniq(where), ok)
	}
}

func checkRegisterHandlers(c *report.Ctx) {
	type spec struct{ fn, validate, change string }
	for _, s := range []spec{
		{"registerExternalAgent", "L/core.ValidateExternalAgentEvent", "L/core.ExternalAgent.Register"},
		{"registerInternalAgent", "L/core.ValidateInternalAgentEvent", "L/core.RegistrationService.CreateInternalAgent"},
	} {
		f := fn(c, "L/rapi/handler", "(*agentRegisterHandler)."+s.fn)
		if f == nil {
			continue
		}
		name := an.FuncName(f)
		vals := an.CallsTo(f, s.validate)
		chg := an.CallsTo(f, s.change)
		regs := an.CallsTo(f, "L/core.ExternalAgent.Register", "L/core.InternalAgent.Register")
		if !c.Check("R-COUNT", name+"/sites", "one validation loop, one state change, one Register", len(vals) == 1 && len(chg) == 1 && len(regs) == 1, fpos(f), len(vals)+len(chg)+len(regs), "validate: %d, change: %d, register: %d", len(vals), len(chg), len(regs)) {
			continue
		}
		// the state change is reachable only after the loop finished without error: on the pruned CFG
		// (error edge of the validation removed) the change is reached, and the validation is in a loop
		// over the same slice that is later registered.
		v := vals[0]
		c.Check("R-GUARD", name+"/validation-in-loop", "every requested event is validated (the validation sits in a loop)", an.InLoop(v), an.InstrPos(v), 1, "in loop: %v", an.InLoop(v))
		// the error edge of the validation returns (403 InvalidEventType) without reaching the change
		facts := an.NewFacts(f)
		okRefuse := false
		for _, b := range f.Blocks {
			if facts.Holds(b, func(ft an.Fact) bool {
				return an.CmpNil(ft, false, func(x ssa.Value) bool { return an.Strip(x, false) == ssa.Value(v.Value()) })
			}) {
				for _, ins := range b.Instrs {
					if call, ok := ins.(ssa.CallInstruction); ok && an.Callee(call) == "L/rapi/rendering.RenderForbiddenWithTypeMsg" {
						if sv, ok := an.ConstString(call.Common().Args[2]); ok && sv == "Extension.InvalidEventType" {
							okRefuse = true
						}
					}
					if an.IsCallTo(ins, s.change) || an.IsCallTo(ins, "L/core.ExternalAgent.Register", "L/core.InternalAgent.Register") {
						okRefuse = false
					}
				}
			}
		}
		c.Check("R-NOEFFECT", name+"/invalid-event-refused", "an invalid event is answered 403 Extension.InvalidEventType before any agent is created or registered", okRefuse, an.InstrPos(v), 1, "error edge renders InvalidEventType and changes nothing: %v", okRefuse)
		// change happens after the loop: the loop header dominates the change and the change is not in the loop
		c.Check("R-ORDER", name+"/validation-before-state-change", "validation of all events precedes the state change", !an.InLoop(chg[0]) && v.Block().Dominates(chg[0].Block()) == false && loopHeaderDominates(v, chg[0]), an.InstrPos(chg[0]), 1, "change in loop: %v", an.InLoop(chg[0]))
		// same slice
		rangeSrc := rangedSlice(v)
		regArg := regs[0].Common().Args[len(regs[0].Common().Args)-1]
		same := rangeSrc != nil && sameFieldLoad(rangeSrc, regArg)
		c.Check("R-WIRE", name+"/same-event-list", "the validated event list is the list that is registered", same, an.InstrPos(regs[0]), 1, "validated: %s, registered: %s", pathOrNil(rangeSrc), an.Path(regArg))
	}
}

// loopHeaderDominates: the header of the loop containing a dominates b.
func loopHeaderDominates(a, b ssa.Instruction) bool {
	// walk idom chain of a's block to find a block that dominates b's block
	for blk := a.Block(); blk != nil; blk = blk.Idom() {
		if blk.Dominates(b.Block()) {
			return true
		}
	}
	return false
}

// rangedSlice finds the slice value indexed to produce the argument of call v
// (for _, e := range xs { f(e) }).
func rangedSlice(v ssa.CallInstruction) ssa.Value {
	args := v.Common().Args
	if len(args) == 0 {
		return nil
	}
	x := an.Strip(args[len(args)-1], true)
	if u, ok := x.(*ssa.UnOp); ok && u.Op == token.MUL {
		if ia, ok := u.X.(*ssa.IndexAddr); ok {
			return ia.X
		}
	}
	return nil
}

func sameFieldLoad(a, b ssa.Value) bool {
	fa, ok1 := an.AsField(an.Strip(a, false))
	fb, ok2 := an.AsField(an.Strip(b, false))
	if !ok1 || !ok2 {
		return a == b
	}
	return fa.Struct == fb.Struct && fa.Field == fb.Field && fa.Base == fb.Base
}

func pathOrNil(v ssa.Value) string {
	if v == nil {
		return "<not found>"
	}
	return an.Path(v)
}

func checkAgentIdentifier(c *report.Ctx) {
	for _, rf := range []struct {
		fn    string
		wants map[string]string
	}{
		{"ExtensionsRouter", map[string]string{"Get /extension/event/next": "NewAgentNextHandler", "Post /extension/init/error": "NewAgentInitErrorHandler", "Post /extension/exit/error": "NewAgentExitErrorHandler"}},
		{"LogsAPIRouter", map[string]string{"Put /logs": "NewRuntimeTelemetrySubscriptionHandler"}},
		{"TelemetryAPIRouter", map[string]string{"Put /telemetry": "NewRuntimeTelemetrySubscriptionHandler"}},
	} {
		f := fn(c, "L/rapi", rf.fn)
		if f == nil {
			continue
		}
		routes := routesOf(c, f)
		for key, ctor := range rf.wants {
			var got *routeInfo
			for i := range routes {
				if routes[i].method+" "+routes[i].pattern == key {
					got = &routes[i]
				}
			}
			if got == nil {
				c.Check("R-CONST", "L/rapi."+rf.fn+"/route/"+key, "documented route registered", false, fpos(f), 0, "not found")
				continue
			}
			c.Check("R-WHO", "L/rapi."+rf.fn+"/route/"+key, "the route requires a valid extension identifier (wrapped in AgentUniqueIdentifierHeaderValidator) and is served by "+ctor,
				oneOf("AgentUniqueIdentifierHeaderValidator", got.wrappers...) && got.handlerCtor == "L/rapi/handler."+ctor, got.pos, 1, "handler %s, wrappers %v", got.handlerCtor, got.wrappers)
		}
		if rf.fn == "ExtensionsRouter" {
			var reg *routeInfo
			for i := range routes {
				if routes[i].pattern == "/extension/register" {
					reg = &routes[i]
				}
			}
			c.Check("R-CONST", "L/rapi.ExtensionsRouter/route/Post /extension/register", "register is the only extension route not needing an identifier", reg != nil && reg.method == "Post" && len(routes) == 4, fpos(f), len(routes), "%d routes", len(routes))
		}
	}
	outer := fn(c, "L/rapi/middleware", "AgentUniqueIdentifierHeaderValidator")
	if outer == nil {
		return
	}
	var inner *ssa.Function
	for _, a := range an.WithAnon(outer) {
		if a != outer && len(an.CallsTo(a, "net/http.Handler.ServeHTTP")) > 0 {
			inner = a
		}
	}
	if inner == nil {
		c.Unresolved("ANCHOR", "L/rapi/middleware.AgentUniqueIdentifierHeaderValidator/closure", "closure not found")
		return
	}
	facts := an.NewFacts(inner)
	for _, call := range an.CallsTo(inner, "net/http.Handler.ServeHTTP") {
		b := call.Block()
		nonEmpty := facts.Holds(b, func(ft an.Fact) bool {
			r, ok := an.AsRel(ft)
			if !ok {
				return false
			}
			if x, isLen := an.LenArg(r.X); isLen && an.IsResultOf(x, "net/http.Header.Get", -1) {
				if n, k := an.ConstInt(r.Y); k && n == 0 && (r.Op == token.NEQ || r.Op == token.GTR) {
					return true
				}
			}
			return false
		})
		parsed := facts.Holds(b, func(ft an.Fact) bool {
			return an.CmpNil(ft, true, func(v ssa.Value) bool { return an.IsResultOf(v, "github.com/google/uuid.Parse", 1) })
		})
		c.Check("R-GUARD", "L/rapi/middleware.AgentUniqueIdentifierHeaderValidator/pass-through", "the wrapped handler runs only with a non-empty identifier header that parses as a UUID", nonEmpty && parsed, an.InstrPos(call), 2, "facts: %s", factsString(facts.At(b)))
	}
	var types []string
	for _, call := range an.CallsTo(inner, "L/rapi/rendering.RenderForbiddenWithTypeMsg") {
		if s, ok := an.ConstString(call.Common().Args[2]); ok {
			types = append(types, s)
		}
	}
	sort.Strings(types)
	c.Check("R-CONST", "L/rapi/middleware.AgentUniqueIdentifierHeaderValidator/refusals", "a missing / malformed identifier is answered 403 with the documented error types", strings.Join(types, ",") == "Extension.InvalidExtensionIdentifier,Extension.MissingExtensionIdentifier", fpos(inner), len(types), "error types: %v", types)
	// RenderForbiddenWithTypeMsg really answers 403
	if r := fn(c, "L/rapi/rendering", "RenderForbiddenWithTypeMsg"); r != nil {
		ok := false
		an.AllInstrs(r, func(in ssa.Instruction) {
			if call, k := in.(ssa.CallInstruction); k {
				for _, a := range call.Common().Args {
					if n, k2 := an.ConstInt(a); k2 && n == 403 {
						ok = true
					}
				}
			}
		})
		c.Check("R-CONST", "L/rapi/rendering.RenderForbiddenWithTypeMsg/status-403", "refusals are rendered with status 403", ok, r.Pos(), 1, "constant 403 passed on: %v", ok)
	}
}

func checkAgentHandlers(c *report.Ctx) {
	for _, h := range []struct {
		fn    string
		trans []string
	}{
		{"(*agentNextHandler).ServeHTTP", []string{"L/core.ExternalAgent.Ready", "L/core.InternalAgent.Ready"}},
		{"(*agentInitErrorHandler).ServeHTTP", []string{"L/core.ExternalAgent.InitError", "L/core.InternalAgent.InitError"}},
		{"(*agentExitErrorHandler).ServeHTTP", []string{"L/core.ExternalAgent.ExitError", "L/core.InternalAgent.ExitError"}},
	} {
		f := fn(c, "L/rapi/handler", h.fn)
		if f == nil {
			continue
		}
		checkTransitionFirst(c, f, h.trans, "L/core.", "L/rapi/handler.errAgentInvalidState")
		// unknown identifier => 403 UnknownExtensionIdentifier
		found := false
		for _, call := range an.CallsTo(f, "L/rapi/rendering.RenderForbiddenWithTypeMsg") {
			if s, ok := an.ConstString(call.Common().Args[2]); ok && s == "Extension.UnknownExtensionIdentifier" {
				found = true
			}
		}
		c.Check("R-CONST", an.FuncName(f)+"/unknown-identifier", "an identifier matching no extension is answered 403 Extension.UnknownExtensionIdentifier", found, fpos(f), 1, "render site present: %v", found)
	}
	// register handler: refusal error types per cause
	f := fn(c, "L/rapi/handler", "(*agentRegisterHandler).registerInternalAgent")
	if f != nil {
		facts := an.NewFacts(f)
		want := map[string]string{"L/core.ErrRegistrationServiceOff": "Extension.RegistrationClosed", "L/core.ErrAgentNameCollision": "Extension.InvalidExtensionState", "L/core.ErrTooManyExtensions": "Extension.TooManyExtensions"}
		got := map[string]string{}
		for _, call := range an.CallsTo(f, "L/rapi/rendering.RenderForbiddenWithTypeMsg") {
			s, _ := an.ConstString(call.Common().Args[2])
			for _, ft := range facts.At(call.Block()) {
				bo, ok := ft.Cond.(*ssa.BinOp)
				if ok && bo.Op == token.EQL && ft.Val {
					if g := an.GlobalOf(bo.Y); g != "" {
						got[g] = s
					}
					if g := an.GlobalOf(bo.X); g != "" {
						got[g] = s
					}
				}
			}
		}
		ok := true
		for k, v := range want {
			if got[k] != v {
				ok = false
			}
		}
		c.Check("R-CONST", an.FuncName(f)+"/refusal-error-types", "each registration refusal cause maps to its documented 403 error type", ok, fpos(f), len(got), "mapping: %v", got)
	}
	if f := fn(c, "L/rapi/handler", "(*agentRegisterHandler).ServeHTTP"); f != nil {
		facts := an.NewFacts(f)
		ok := false
		for _, call := range an.CallsTo(f, "L/rapi/rendering.RenderForbiddenWithTypeMsg") {
			if s, _ := an.ConstString(call.Common().Args[2]); s == "Extension.InvalidExtensionName" {
				ok = facts.Holds(call.Block(), func(ft an.Fact) bool {
					return an.CmpEq(ft, true, func(v ssa.Value) bool { return an.IsResultOf(v, "net/http.Header.Get", -1) }, func(v ssa.Value) bool { s, k := an.ConstString(v); return k && s == "" })
				})
			}
		}
		c.Check("R-CONST", an.FuncName(f)+"/empty-name-refused", "an empty extension name is answered 403 Extension.InvalidExtensionName", ok, fpos(f), 1, "guarded render site: %v", ok)
		// external-vs-internal dispatch by name lookup
		ext := an.CallsTo(f, "L/rapi/handler.agentRegisterHandler.registerExternalAgent")
		intl := an.CallsTo(f, "L/rapi/handler.agentRegisterHandler.registerInternalAgent")
		okd := len(ext) == 1 && len(intl) == 1
		if okd {
			okd = facts.Holds(ext[0].Block(), func(ft an.Fact) bool {
				return ft.Val && an.IsResultOf(ft.Cond, "L/core.RegistrationService.FindExternalAgentByName", 1)
			}) && facts.Holds(intl[0].Block(), func(ft an.Fact) bool {
				return !ft.Val && an.IsResultOf(ft.Cond, "L/core.RegistrationService.FindExternalAgentByName", 1)
			})
		}
		c.Check("R-GUARD", an.FuncName(f)+"/kind-by-name", "a register call is treated as external exactly when a launched external extension has that name, else as internal", okd, fpos(f), 2, "dispatch guarded by FindExternalAgentByName: %v", okd)
	}
}

func checkRegistrationData(c *report.Ctx) {
	f := fn(c, "L/rapi/handler", "(*agentRegisterHandler).renderResponse")
	if f != nil {
		T := "L/rapi/model.ExtensionRegisterResponse"
		want := map[string]string{"FunctionVersion": "FunctionVersion", "FunctionName": "FunctionName", "Handler": "Handler"}
		got := map[string]string{}
		for _, st := range an.Stores(f, T, "") {
			fr, _ := an.AsField(st.Addr)
			if src, ok := an.AsField(an.Strip(st.Val, false)); ok && src.Struct == "L/core.FunctionMetadata" {
				got[fr.Field] = src.Field
			} else {
				got[fr.Field] = an.Path(st.Val)
			}
		}
		ok := len(got) == len(want)
		for k, v := range want {
			if got[k] != v {
				ok = false
			}
		}
		c.Check("R-WIRE", an.FuncName(f)+"/fields", "the register response carries function name, version and handler from the function metadata; nothing else is set unconditionally", ok, fpos(f), len(got), "response field <- metadata field: %v", got)
	}
	// AccountID only via the accountId feature modifier
	w := storesTo(c, "L/rapi/model.ExtensionRegisterResponse", "AccountID")
	okA := len(w) == 1
	for fw := range w {
		if !strings.HasPrefix(an.FuncName(fw), "L/rapi/handler.agentRegisterHandler.respondWithAccountID$") {
			okA = false
		}
	}
	c.Check("R-WHO", "L/rapi/model.ExtensionRegisterResponse.AccountID/writers", "the account id is added only by the accountId feature modifier", okA, token.NoPos, len(w), "writers: %v", fnNames(w))
	if sh := fn(c, "L/rapi/handler", "(*agentRegisterHandler).ServeHTTP"); sh != nil {
		facts := an.NewFacts(sh)
		ok := false
		for _, call := range an.CallsTo(sh, "L/rapi/handler.agentRegisterHandler.respondWithAccountID") {
			ok = facts.Holds(call.Block(), func(ft an.Fact) bool {
				bo, k := ft.Cond.(*ssa.BinOp)
				if !k || bo.Op != token.EQL || !ft.Val {
					return false
				}
				n, isC := an.ConstInt(bo.Y)
				return isC && n == 1
			})
		}
		c.Check("R-GUARD", an.FuncName(sh)+"/account-id-only-on-request", "the account id modifier is attached only when the accountId feature was requested", ok, fpos(sh), 1, "guarded: %v", ok)
	}
	if k := c.P.Global("L/rapi/handler", "allowedFeatures"); k == nil {
		c.Unresolved("ANCHOR", "L/rapi/handler.allowedFeatures", "feature table not found")
	}
	// SetFunctionMetadata argument fields <- init request fields
	for _, name := range []string{"acceptInitRequest", "acceptInitRequestForInitCaching"} {
		f := fn(c, "L/rapid", "(*rapidContext)."+name)
		if f == nil {
			continue
		}
		T := "L/core.FunctionMetadata"
		want := map[string]string{"AccountID": "AccountID", "FunctionName": "FunctionName", "FunctionVersion": "FunctionVersion", "Handler": "Handler", "InstanceMaxMemory": "InstanceMaxMemory", "RuntimeInfo": "RuntimeInfo"}
		got := map[string]string{}
		for _, st := range an.Stores(f, T, "") {
			fr, _ := an.AsField(st.Addr)
			if src, ok := an.AsField(an.Strip(st.Val, false)); ok && src.Struct == "L/interop.Init" {
				got[fr.Field] = src.Field
			} else {
				got[fr.Field] = an.Path(st.Val)
			}
		}
		ok := true
		for k, v := range want {
			if got[k] != v {
				ok = false
			}
		}
		calls := an.CallsTo(f, "L/core.RegistrationService.SetFunctionMetadata")
		c.Check("R-WIRE", an.FuncName(f)+"/function-metadata", "the function metadata handed to extensions equals what the platform was initialised with (field by field from the init request)", ok && len(calls) == 1, fpos(f), len(got), "metadata field <- init field: %v", got)
	}
}

// tableConstStrings: v is an element (at a non-constant index) of a local array/slice literal whose elements are
// all string constants; returns those constants.
func tableConstStrings(v ssa.Value) []string {
	var base ssa.Value
	switch x := v.(type) {
	case *ssa.Index:
		if ld, ok := x.X.(*ssa.UnOp); ok && ld.Op == token.MUL {
			base = ld.X
		}
	case *ssa.UnOp:
		if ia, ok := x.X.(*ssa.IndexAddr); ok && x.Op == token.MUL {
			base = ia.X
		}
	}
	if sl, ok := base.(*ssa.Slice); ok {
		base = sl.X
	}
	arr, ok := base.(*ssa.Alloc)
	if !ok {
		return nil
	}
	var out []string
	for _, r := range *arr.Referrers() {
		ea, ok := r.(*ssa.IndexAddr)
		if !ok {
			continue
		}
		if _, constIdx := ea.Index.(*ssa.Const); !constIdx {
			continue
		}
		for _, r2 := range *ea.Referrers() {
			if st, ok := r2.(*ssa.Store); ok && st.Addr == ssa.Value(ea) {
				s, k := an.ConstString(st.Val)
				if !k {
					return nil
				}
				out = append(out, s)
			}
		}
	}
	sort.Strings(out)
	return out
}

// keyExpr renders a map key for comparison: an access path, or a call with its arguments.
func keyExpr(v ssa.Value) string {
	if call, ok := v.(*ssa.Call); ok {
		var args []string
		for _, a := range call.Call.Args {
			args = append(args, keyExpr(a))
		}
		return an.Callee(call) + "(" + strings.Join(args, ",") + ")"
	}
	return an.Path(v)
}
