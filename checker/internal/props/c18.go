package props

import (
	"go/token"
	"strings"

	"golang.org/x/tools/go/ssa"

	"verif/checker/internal/an"
	"verif/checker/internal/report"
)

func init() {
	register(&Prop{
		Spec: report.Spec{
			ID: "C18",
			Explanation: "Snapshot restore and credentials, the parts visible in code shape: handleRestore first replaces the stored credentials on every path (so they reflect the most recent restore even when the runtime never polled for restore) and fails with ErrRestoreUpdateCredentials if that fails, installs the restore renderer, returns at once without releasing anybody when the runtime is not parked in RestoreReady, and otherwise releases the runtime, waits for its next poll under a deadline of now + RestoreHookTimeoutMs, and lets a recorded first fatal error override the result; the deadline wait cancels the init flow with the timeout error (C11). " +
				"The automaton rows for restore (Started/RestoreReady parks and yields Restoring; Restoring/Ready arrives at the runtime-ready gate; Restoring/RestoreError cancels the init flow with the user error) are the documented ones; /restore/error and /init/error build the error type only through the sanitiser, and /init/error is routed to RestoreError exactly when the runtime is Restoring. " +
				"The credentials route exists only in snapshot mode; its handler writes credentials only on the nil-error edge of GetCredentials(Authorization header) and answers 404 otherwise; GetCredentials finds an entry only under the presented token; the token generated at init (a random UUID) is the value placed in the runtime's environment and the key under which the credentials are stored; the init-caching environment function receives no key/secret/session and stores only the URI and the token. " +
				"Added after the blind rounds: the restore entry point is not serialised with init; the deadline wait returns the timeout error or the waiter's result; credentials are refreshed only with exactly one token; the error-type sanitiser's language. " +
				"NOT decided: the order quantifier over {restore request, poll, hook, exit}; 'no later than shortly after the hook timeout'.",
			RuleText:    "one obligation per step/guard of handleRestore, per automaton cell concerned, per handler rule, per wiring edge of token and credentials",
			Assumptions: trusted,
			MinObs:      25,
		},
		Run: runC18,
	})
}

func runC18(c *report.Ctx) {
	c.Clause("1 handleRestore")
	checkHandleRestore(c)
	c.Clause("2 deadline wait")
	checkDeadlineAwait(c)
	c.Clause("3 automaton and handlers")
	checkRestoreAutomaton(c)
	c.Clause("4 credentials")
	checkCredentials(c)
	checkUpdateCredentialsGuard(c)
	checkCredentialsLayerStartsEmpty(c)
	checkErrorTypeSanitiser(c) // /restore/error and /init/error pass the reported type through the sanitiser
}

func checkHandleRestore(c *report.Ctx) {
	// the restore request is served while the init handler is still running (parked, holding the handler
	// mutex, until the runtime polls): the restore entry point must therefore not take that mutex
	if w := fn(c, "L/rapid", "(*rapidContext).HandleRestore"); w != nil {
		n := 0
		for _, o := range an.LockOps(w) {
			if o.Acquire && strings.HasSuffix(o.Path, "handlerExecutionMutex") {
				n++
			}
		}
		del := len(an.CallsTo(w, "L/rapid.handleRestore")) == 1
		c.Check("R-LOCK", an.FuncName(w)+"/not-serialised-with-init", "HandleRestore does not take the handler mutex (init holds it while it waits for the restore) and delegates to handleRestore", n == 0 && del, fpos(w), 2, "handler-mutex acquisitions: %d; delegates: %v", n, del)
	}
	f := fn(c, "L/rapid", "handleRestore")
	if f == nil {
		return
	}
	name := an.FuncName(f)
	facts := an.NewFacts(f)
	upd := an.CallsTo(f, "L/core.CredentialsService.UpdateCredentials")
	ok := len(upd) == 1
	if ok {
		for _, e := range an.Exits(f) {
			if !an.InstrDominates(upd[0], e.Ret) {
				ok = false
			}
		}
		// before any release / await / early return decision
		for _, call := range an.CallsTo(f, "L/core.Runtime.Release", "L/core.Runtime.GetState", initFlowI+"AwaitRuntimeReadyWithDeadline") {
			if !an.InstrDominates(upd[0], call) {
				ok = false
			}
		}
	}
	pos := fpos(f)
	if len(upd) > 0 {
		pos = an.InstrPos(upd[0])
	}
	c.Check("R-ORDER", name+"/credentials-updated-first", "every restore request replaces the served credentials, on every path and before anything else (also when the runtime never entered the restore poll)", ok, pos, 1, "UpdateCredentials dominates every exit and every later step: %v", ok)
	if len(upd) == 1 {
		// args from the restore request
		okA := true
		for i, fld := range []string{"AwsKey", "AwsSecret", "AwsSession", "CredentialsExpiry"} {
			fr, k := an.AsField(an.Strip(upd[0].Common().Args[i], false))
			if !k || fr.Struct != "L/interop.Restore" || fr.Field != fld {
				okA = false
			}
		}
		c.Check("R-WIRE", name+"/credentials-from-request", "the new credentials are the restore request's", okA, pos, 4, "%v", okA)
		// failure => ErrRestoreUpdateCredentials
		okE := false
		for _, e := range an.Exits(f) {
			if len(e.Vals) == 2 && an.GlobalOf(e.Vals[1]) == "L/interop.ErrRestoreUpdateCredentials" {
				okE = facts.Holds(e.Ret.Block(), func(ft an.Fact) bool {
					return an.CmpNil(ft, false, func(v ssa.Value) bool { return an.Strip(v, false) == ssa.Value(upd[0].Value()) })
				})
			}
		}
		c.Check("R-GUARD", name+"/update-failure", "a failing credentials update fails the restore with ErrRestoreUpdateCredentials", okE, pos, 1, "%v", okE)
	}
	// early return branch: state != RestoreReady, no Release
	rel := an.CallsTo(f, "L/core.Runtime.Release")
	aw := an.CallsTo(f, initFlowI+"AwaitRuntimeReadyWithDeadline")
	isState := func(v ssa.Value) bool { return an.IsResultOf(v, "L/core.Runtime.GetState", -1) }
	isRR := loadOf("L/core.Runtime", "RuntimeRestoreReadyState")
	parked := func(b *ssa.BasicBlock, want bool) bool {
		return facts.Holds(b, func(ft an.Fact) bool { return an.CmpEq(ft, want, isState, isRR) })
	}
	okR := len(rel) == 1 && len(aw) == 1 && parked(rel[0].Block(), true) && parked(aw[0].Block(), true) && an.InstrDominates(rel[0], aw[0])
	c.Check("R-GUARD", name+"/release-only-if-parked", "the runtime is released, and its next poll awaited, only when it is parked on its restore poll (RestoreReady); release precedes the wait", okR, fpos(f), 2, "Release/await under state == RestoreReady: %v", okR)
	okEarly := false
	for _, e := range an.Exits(f) {
		if len(e.Vals) == 2 && an.IsNil(e.Vals[1]) && parked(e.Ret.Block(), false) {
			ord := an.NewOrder(f, func(in ssa.Instruction) uint64 {
				if an.IsCallTo(in, "L/core.Runtime.Release") {
					return 1
				}
				return 0
			})
			_, may := ord.Before(e.Ret)
			okEarly = may&1 == 0
		}
	}
	c.Check("R-NOEFFECT", name+"/returns-at-once-otherwise", "when the runtime never entered the restore poll the request returns success at once and releases nobody", okEarly, fpos(f), 1, "%v", okEarly)
	// deadline = now + RestoreHookTimeoutMs
	okD := false
	for _, call := range an.CallsTo(f, "context.WithDeadline") {
		w := newWire(c, nil, map[string]int{"time.Unix": 1, "time.Time.UnixNano": 0, "time.Time.Add": 1})
		w.ConstArith = true
		or := w.Origins(call.Common().Args[1])
		for _, o := range or {
			if o == "field:L/interop.Restore.RestoreHookTimeoutMs" {
				okD = true
			}
		}
	}
	ctxArg := false
	if len(aw) == 1 {
		ctxArg = an.IsResultOf(aw[0].Common().Args[0], "context.WithDeadline", 0)
	}
	c.Check("R-WIRE", name+"/hook-deadline", "the wait for the runtime's hook is bounded by a context whose deadline derives from the request's RestoreHookTimeoutMs", okD && ctxArg, fpos(f), 2, "deadline from RestoreHookTimeoutMs: %v; that context is the one awaited on: %v", okD, ctxArg)
	// first fatal error overrides
	lf := an.CallsTo(f, "L/appctx.LoadFirstFatalError")
	okF := len(lf) == 1 && len(aw) == 1 && an.InstrDominates(aw[0], lf[0])
	c.Check("R-ORDER", name+"/first-fault-overrides", "after the wait a recorded first fatal error (e.g. the runtime exited) becomes the restore's error", okF, fpos(f), 1, "%v", okF)
	sr := an.CallsTo(f, "L/rapi/rendering.EventRenderingService.SetRenderer")
	okSR := len(sr) == 1 && an.IsResultOf(an.Strip(sr[0].Common().Args[1], false), "L/rapi/rendering.NewRestoreRenderer", -1) && (len(rel) == 0 || an.InstrDominates(sr[0], rel[0]))
	c.Check("R-ORDER", name+"/restore-renderer", "the restore renderer (empty 200 to the parked poll) is installed before the runtime is released", okSR, fpos(f), 1, "%v", okSR)
	if hr := fn(c, "L/rapid", "(*rapidContext).HandleRestore"); hr != nil {
		c.Check("R-WIRE", an.FuncName(hr)+"/delegates", "the restore entry point runs handleRestore", len(an.CallsTo(hr, "L/rapid.handleRestore")) == 1, fpos(hr), 1, "")
	}
}

func checkRestoreAutomaton(c *report.Ctx) {
	spec := runtimeFSM()
	m := extractFSM(c, spec)
	if m != nil {
		for _, cell := range [][2]string{{"RuntimeStartedState", "RestoreReady"}, {"RuntimeRestoringState", "Ready"}, {"RuntimeRestoringState", "RestoreError"}, {"RuntimeStartedState", "Ready"}} {
			want := runtimeRef[cell[0]][cell[1]]
			got := m.cells[cell[0]][cell[1]]
			c.Check("R-FSM", sprintf("L/core.Runtime/cell/%s.%s", cell[0], cell[1]), "restore-related transition behaves as documented: "+want, got == want, fpos(c.P.Func(coreP, spec.Ctor)), 1, "extracted: %s", got)
		}
		for _, st := range []string{"RuntimeRestoreReadyState", "RuntimeRestoreErrorState", "RuntimeReadyState", "RuntimeRunningState"} {
			for _, meth := range []string{"RestoreReady", "RestoreError"} {
				got := m.cells[st][meth]
				c.Check("R-FSM", sprintf("L/core.Runtime/cell/%s.%s", st, meth), "restore calls outside the restore window are refused without effect", got == "REFUSE", fpos(c.P.Func(coreP, spec.Ctor)), 1, "extracted: %s", got)
			}
		}
	}
	// handlers: error type only through the sanitiser
	san := "L/fatalerror.GetValidRuntimeOrFunctionErrorType"
	w := newWire(c, nil, nil)
	for _, h := range []string{"(*restoreErrorHandler).ServeHTTP", "(*initErrorHandler).ServeHTTP"} {
		f := fn(c, "L/rapi/handler", h)
		if f == nil {
			continue
		}
		n := 0
		ok := true
		for _, st := range an.Stores(f, "L/interop.FunctionError", "Type") {
			n++
			or := w.Origins(st.Val)
			if len(or) != 1 || or[0] != "call:"+san+"#0" {
				ok = false
			}
		}
		c.Check("R-WIRE", an.FuncName(f)+"/sanitised-error-type", "the error type reported for a failed restore (or init) is the sanitised header value", ok && n >= 1, fpos(f), n, "FunctionError.Type literals: %d, all from the sanitiser: %v", n, ok)
	}
	if f := fn(c, "L/rapi/handler", "(*initErrorHandler).ServeHTTP"); f != nil {
		facts := an.NewFacts(f)
		re := an.CallsTo(f, "L/core.Runtime.RestoreError")
		ie := an.CallsTo(f, "L/core.Runtime.InitError")
		isState := func(v ssa.Value) bool { return an.IsResultOf(v, "L/core.Runtime.GetState", -1) }
		isRestoring := loadOf("L/core.Runtime", "RuntimeRestoringState")
		ok := len(re) == 1 && len(ie) == 1 &&
			facts.Holds(re[0].Block(), func(ft an.Fact) bool { return an.CmpEq(ft, true, isState, isRestoring) }) &&
			facts.Holds(ie[0].Block(), func(ft an.Fact) bool { return an.CmpEq(ft, false, isState, isRestoring) })
		c.Check("R-GUARD", an.FuncName(f)+"/routes-to-restore-error-when-restoring", "an init error reported while the restore hook runs (state Restoring) is treated as a restore error, which ends the restore at once with the runtime's error type; otherwise it is an init error", ok, fpos(f), 2, "RestoreError under state == Restoring, InitError otherwise: %v", ok)
	}
	// the user error reaches the restore result: RestoreError cancels with ErrRestoreHookUserError{UserError: arg}
	if f := fn(c, coreP, "(*RuntimeRestoringState).RestoreError"); f != nil {
		ok := false
		for _, st := range an.Stores(f, "L/interop.ErrRestoreHookUserError", "UserError") {
			_, ok = st.Val.(*ssa.Parameter)
		}
		c.Check("R-WIRE", an.FuncName(f)+"/user-error-carried", "the cancellation error carries the runtime's (sanitised) error", ok, fpos(f), 1, "%v", ok)
	}
}

func checkCredentials(c *report.Ctx) {
	if f := fn(c, "L/rapi/handler", "(*credentialsHandler).ServeHTTP"); f != nil {
		name := an.FuncName(f)
		facts := an.NewFacts(f)
		gc := an.CallsTo(f, "L/core.CredentialsService.GetCredentials")
		ok := len(gc) == 1
		if ok {
			// argument: the Authorization header
			a := gc[0].Common().Args[0]
			hdr := false
			if cl, _ := an.CallOf(a); cl != nil && an.Callee(cl) == "net/http.Header.Get" {
				s, k := an.ConstString(cl.Call.Args[1])
				hdr = k && s == "Authorization"
			}
			ok = hdr
		}
		c.Check("R-WIRE", name+"/token-from-authorization-header", "credentials are looked up under the token presented in the Authorization header", ok, fpos(f), 1, "%v", ok)
		// writes of credentials only on the nil edge
		nw := 0
		okW := true
		an.AllInstrs(f, func(in ssa.Instruction) {
			call, k := in.(ssa.CallInstruction)
			if !k {
				return
			}
			cal := an.Callee(call)
			if cal == "fmt.Fprint" || cal == "encoding/json.Marshal" || cal == "net/http.ResponseWriter.Write" {
				nw++
				if len(gc) != 1 || !facts.Holds(in.Block(), func(ft an.Fact) bool {
					return an.CmpNil(ft, true, func(v ssa.Value) bool {
						cl, idx := an.CallOf(v)
						return cl != nil && ssa.Instruction(cl) == ssa.Instruction(gc[0]) && idx == 1
					})
				}) {
					okW = false
				}
			}
		})
		c.Check("R-GUARD", name+"/served-only-for-known-token", "credentials are marshalled and written only when the lookup succeeded", okW && nw >= 2, fpos(f), nw, "%d output operations, all on the nil-error edge: %v", nw, okW)
		ok404 := false
		for _, call := range an.CallsTo(f, "net/http.Error") {
			n, k := an.ConstInt(call.Common().Args[2])
			ok404 = k && n == 404 && len(gc) == 1 && facts.Holds(call.Block(), func(ft an.Fact) bool {
				return an.CmpNil(ft, false, func(v ssa.Value) bool {
					cl, idx := an.CallOf(v)
					return cl != nil && ssa.Instruction(cl) == ssa.Instruction(gc[0]) && idx == 1
				})
			})
		}
		c.Check("R-CONST", name+"/unknown-token-404", "any other token is answered 404 with nothing from the store", ok404, fpos(f), 1, "%v", ok404)
	}
	if f := fn(c, coreP, "(*credentialsServiceImpl).GetCredentials"); f != nil {
		facts := an.NewFacts(f)
		ok := false
		var lk *ssa.Lookup
		an.AllInstrs(f, func(in ssa.Instruction) {
			if l, k := in.(*ssa.Lookup); k && l.CommaOk {
				lk = l
			}
		})
		if lk != nil {
			_, keyIsParam := lk.Index.(*ssa.Parameter)
			for _, e := range an.Exits(f) {
				if len(e.Vals) == 2 && an.IsNil(e.Vals[1]) {
					found := facts.Holds(e.Ret.Block(), func(ft an.Fact) bool {
						ex, k := ft.Cond.(*ssa.Extract)
						return k && ft.Val && ex.Tuple == ssa.Value(lk) && ex.Index == 1
					})
					ok = keyIsParam && found
				}
			}
		}
		c.Check("R-GUARD", an.FuncName(f)+"/exact-token", "a credentials entry is returned only when stored under exactly the presented token", ok, fpos(f), 1, "%v", ok)
	}
	// token wiring
	if f := fn(c, "L/rapid", "(*rapidContext).acceptInitRequestForInitCaching"); f != nil {
		name := an.FuncName(f)
		w := newWire(c, nil, nil)
		var envTok, credTok []string
		for _, call := range an.CallsTo(f, envT+".StoreEnvironmentVariablesFromInitForInitCaching") {
			a := call.Common().Args
			envTok = w.Origins(a[len(a)-1])
			// no secret passed: none of the args is AwsKey/AwsSecret/AwsSession
			leak := false
			for _, x := range a {
				if fr, k := an.AsField(an.Strip(x, false)); k && strings.HasPrefix(fr.Field, "Aws") {
					leak = true
				}
			}
			c.Check("R-WIRE", name+"/no-secrets-into-environment", "the init-caching environment is built without the access key, secret or session token", !leak, an.InstrPos(call), len(a), "credential fields among the arguments: %v", leak)
		}
		for _, call := range an.CallsTo(f, "L/core.CredentialsService.SetCredentials") {
			credTok = w.Origins(call.Common().Args[0])
		}
		ok := len(envTok) == 1 && len(credTok) == 1 && envTok[0] == credTok[0] && envTok[0] == "call:github.com/google/uuid.UUID.String#0"
		rnd := len(an.CallsTo(f, "github.com/google/uuid.NewRandom")) == 1
		c.Check("R-WIRE", name+"/one-random-token", "the per-instance token is a fresh random UUID, and the same value is placed in the runtime's environment and used as the key of the stored credentials", ok && rnd, fpos(f), 2, "environment token origins: %v; credentials key origins: %v", envTok, credTok)
	}
	if f := fn(c, "L/rapidcore/env", "(*Environment).StoreEnvironmentVariablesFromInitForInitCaching"); f != nil {
		sig := f.Signature
		var names []string
		for i := 0; i < sig.Params().Len(); i++ {
			names = append(names, sig.Params().At(i).Name())
		}
		ok := true
		for _, n := range names {
			ln := strings.ToLower(n)
			if strings.Contains(ln, "secret") || strings.Contains(ln, "awskey") || strings.Contains(ln, "session") {
				ok = false
			}
		}
		var ks []string
		an.AllInstrs(f, func(in ssa.Instruction) {
			if mu, k := in.(*ssa.MapUpdate); k {
				if fr, k2 := an.AsField(an.Strip(mu.Map, false)); k2 && fr.Field == "credentials" {
					s, _ := an.ConstString(mu.Key)
					ks = append(ks, s)
				}
			}
		})
		c.Check("R-WHO", an.FuncName(f)+"/only-uri-and-token", "in snapshot mode the runtime's environment gets the credentials URI and the token, never the keys themselves", ok && len(ks) == 2, fpos(f), len(ks), "parameters: %v; credential-layer keys: %v", names, ks)
	}
	if f := fn(c, coreP, "(*credentialsServiceImpl).UpdateCredentials"); f != nil {
		sc := an.CallsTo(f, "L/core.credentialsServiceImpl.SetCredentials")
		ok := len(sc) == 1
		if ok {
			// same token key (read from the map), new values from parameters
			for i := 2; i <= 5; i++ {
				if _, isP := sc[0].Common().Args[i].(*ssa.Parameter); !isP {
					ok = false
				}
			}
		}
		c.Check("R-WIRE", an.FuncName(f)+"/overwrites-single-entry", "a restore overwrites the single stored entry (same token) with the new credentials", ok, fpos(f), 1, "%v", ok)
	}
	// route mounted only under InitCaching: C12 rule
	if ns := fn(c, "L/rapi", "NewServer"); ns != nil {
		facts := an.NewFacts(ns)
		calls := an.CallsTo(ns, "L/rapi.CredentialsAPIRouter")
		ok := len(calls) == 1 && facts.Holds(calls[0].Block(), func(ft an.Fact) bool {
			return an.CmpEq(ft, true, func(v ssa.Value) bool { return an.IsResultOf(v, "L/appctx.LoadInitType", -1) }, func(v ssa.Value) bool { _, k := an.ConstInt(v); return k })
		})
		c.Check("R-GUARD", "L/rapi.NewServer/credentials-router-snapshot-only", "the credentials endpoint exists only in snapshot mode", ok, fpos(ns), 1, "%v", ok)
	}
	_ = token.NoPos
}

var _ = report.Discharged
