// Package report collects obligations, applies the known-findings file and
// writes the evidence file and the VIOLATION / KNOWN-FINDING lines.
package report

import (
	"bufio"
	"encoding/json"
	"fmt"
	"go/token"
	"os"
	"path/filepath"
	"sort"
	"strings"
	"time"

	"verif/checker/internal/load"
)

type Status string

const (
	Discharged Status = "discharged"
	Violated   Status = "violated"
	Unresolved Status = "unresolved"
	Known      Status = "known-finding"
)

// Obligation is one rule instance on one construct.
type Obligation struct {
	Key    string `json:"key"`    // rule/construct — never a line number
	Rule   string `json:"rule"`   // rule kind, e.g. R-ORDER
	Clause string `json:"clause"` // which clause of the property (DESIGN §4 item)
	What   string `json:"what"`   // the obligation in words
	Status Status `json:"status"`
	Pos    string `json:"pos,omitempty"`    // file:line of the construct inspected / offending
	Detail string `json:"detail,omitempty"` // what was found
	// Inspected is the number of concrete constructs (instructions, cells,
	// fields, sites) examined to decide this obligation; 0 means trivial.
	Inspected int `json:"inspected"`
}

type KnownEntry struct {
	Status   string `json:"status"` // "known" | "fixed"
	Property string `json:"property"`
	Key      string `json:"key"`
	What     string `json:"what"`
	Commit   string `json:"commit,omitempty"`
}

// Ctx is handed to each property's rule function.
type Ctx struct {
	P        *load.Program
	Prop     string
	Tier     string
	obs      []*Obligation
	keys     map[string]bool
	clause   string
	notes    []string
	analysed map[string]int
	Variant  string // e.g. "amd64", "arm64+tests" for thorough runs
}

func NewCtx(p *load.Program, prop, tier, variant string) *Ctx {
	return &Ctx{P: p, Prop: prop, Tier: tier, Variant: variant, keys: map[string]bool{}, analysed: map[string]int{}}
}

// Clause sets the clause label attached to following obligations.
func (c *Ctx) Clause(s string) { c.clause = s }

// Note records a free-text observation for the evidence file.
func (c *Ctx) Note(format string, a ...any) { c.notes = append(c.notes, fmt.Sprintf(format, a...)) }

// Analysed bumps a named counter reported under coverage.analysed.
func (c *Ctx) Analysed(what string, n int) { c.analysed[what] += n }

func (c *Ctx) add(o *Obligation) *Obligation {
	o.Clause = c.clause
	if c.keys[o.Key] {
		// keys must be unique per run; disambiguate deterministically
		for i := 2; ; i++ {
			k := fmt.Sprintf("%s#%d", o.Key, i)
			if !c.keys[k] {
				o.Key = k
				break
			}
		}
	}
	c.keys[o.Key] = true
	c.obs = append(c.obs, o)
	return o
}

// Check records an obligation with verdict ok. pos is the construct inspected
// (or the offending one). inspected counts the constructs examined.
func (c *Ctx) Check(rule, key, what string, ok bool, pos token.Pos, inspected int, detailFmt string, a ...any) bool {
	st := Discharged
	if !ok {
		st = Violated
	}
	c.add(&Obligation{Key: rule + "/" + key, Rule: rule, What: what, Status: st, Pos: c.P.Pos(pos), Detail: fmt.Sprintf(detailFmt, a...), Inspected: inspected})
	return ok
}

// Unresolved records that an anchor could not be found / a pattern could not
// be recognised. The check then fails with exit status 2 (never passes).
func (c *Ctx) Unresolved(rule, key, msgFmt string, a ...any) {
	c.add(&Obligation{Key: rule + "/" + key, Rule: rule, What: "anchor must resolve", Status: Unresolved, Detail: fmt.Sprintf(msgFmt, a...)})
}

// Result is the outcome of one property run (possibly one of several variants).
type Result struct {
	Prop        string
	Obligations []*Obligation
	Notes       []string
	Analysed    map[string]int
	Variant     string
}

func (c *Ctx) Result() *Result {
	return &Result{Prop: c.Prop, Obligations: c.obs, Notes: c.notes, Analysed: c.analysed, Variant: c.Variant}
}

// LoadKnown reads known_findings.jsonl (missing file = no entries).
func LoadKnown(path string) ([]KnownEntry, error) {
	f, err := os.Open(path)
	if err != nil {
		if os.IsNotExist(err) {
			return nil, nil
		}
		return nil, err
	}
	defer f.Close()
	var out []KnownEntry
	sc := bufio.NewScanner(f)
	sc.Buffer(make([]byte, 1<<20), 1<<20)
	for sc.Scan() {
		line := strings.TrimSpace(sc.Text())
		if line == "" || strings.HasPrefix(line, "#") {
			continue
		}
		var e KnownEntry
		if err := json.Unmarshal([]byte(line), &e); err != nil {
			return nil, fmt.Errorf("%s: %v", path, err)
		}
		out = append(out, e)
	}
	return out, sc.Err()
}

// Spec describes the property-level texts that go into the evidence.
type Spec struct {
	ID          string
	Explanation string   // what the structural clauses decide and what they do not
	RuleText    string   // how obligations are enumerated / what makes one non-trivial
	Assumptions []string // trusted base
	MinObs      int      // vacuity floor: fewer obligations => the check fails
}

// Finish merges the results of all variants, applies known findings, writes
// the evidence file and prints the verdict lines. It returns the exit status.
func Finish(spec Spec, tier string, seed int, results []*Result, known []KnownEntry, verifDir string, t0 time.Time, extra map[string]any) int {
	evDir := filepath.Join(verifDir, "evidence")
	replayDir := filepath.Join(evDir, "replay")
	os.MkdirAll(replayDir, 0o755)
	// clean old replay files of this property
	if old, _ := filepath.Glob(filepath.Join(replayDir, spec.ID+"-*.json")); old != nil {
		for _, f := range old {
			os.Remove(f)
		}
	}
	knownKeys := map[string]KnownEntry{}
	for _, k := range known {
		if k.Status == "known" && k.Property == spec.ID {
			knownKeys[k.Key] = k
		}
	}

	var all []flat
	distinct := map[string]bool{}
	nontrivial := map[string]bool{}
	analysed := map[string]int{}
	var notes []string
	for _, r := range results {
		for _, o := range r.Obligations {
			all = append(all, flat{o, r.Variant})
			distinct[o.Key] = true
			if o.Inspected > 0 {
				nontrivial[o.Key] = true
			}
		}
		for k, v := range r.Analysed {
			if v > analysed[k] {
				analysed[k] = v
			}
		}
		for _, n := range r.Notes {
			dup := false
			for _, m := range notes {
				if m == n {
					dup = true
				}
			}
			if !dup {
				notes = append(notes, n)
			}
		}
	}
	nviol, nunres, nknown, ndis := 0, 0, 0, 0
	var lines []string
	usedKnown := map[string]bool{}
	reportedViol := map[string]bool{}
	for _, o := range all {
		switch o.Status {
		case Violated:
			if k, ok := knownKeys[o.Key]; ok {
				o.Obligation.Status = Known
				nknown++
				if !usedKnown[o.Key] {
					usedKnown[o.Key] = true
					lines = append(lines, fmt.Sprintf("KNOWN-FINDING: property=%s %s [%s at %s]", spec.ID, k.What, o.Key, o.Pos))
				}
				continue
			}
			nviol++
			if reportedViol[o.Key] {
				continue
			}
			reportedViol[o.Key] = true
			rp := filepath.Join(replayDir, fmt.Sprintf("%s-%d.json", spec.ID, len(reportedViol)))
			b, _ := json.MarshalIndent(map[string]any{"property": spec.ID, "obligation": o.Obligation, "variant": o.Variant,
				"how_to_replay": "re-run the check; the obligation key identifies rule and construct, pos the offending source location"}, "", " ")
			os.WriteFile(rp, b, 0o644)
			lines = append(lines, fmt.Sprintf("  violated %s\n    at %s\n    %s\n    found: %s", o.Key, o.Pos, o.What, o.Detail))
			lines = append(lines, fmt.Sprintf("VIOLATION property=%s replay=%s", spec.ID, rp))
		case Unresolved:
			nunres++
			lines = append(lines, fmt.Sprintf("UNRESOLVED property=%s anchor=%s : %s", spec.ID, o.Key, o.Detail))
		case Discharged:
			ndis++
		}
	}
	if os.Getenv("RIECHECK_DUMP") != "" {
		for _, o := range all {
			fmt.Printf("DUMP %-10s %s | %s | %s\n", o.Status, o.Key, o.Pos, o.Detail)
		}
	}
	vacuous := false
	if len(distinct) < spec.MinObs {
		vacuous = true
		lines = append(lines, fmt.Sprintf("UNRESOLVED property=%s anchor=vacuity : only %d obligations were instantiated, at least %d were confirmed by hand on the pinned tree", spec.ID, len(distinct), spec.MinObs))
	}

	// samples: a few discharged obligations, plus every non-discharged one
	var samples []any
	step := 1
	if len(all) > 12 {
		step = len(all) / 12
	}
	for i, o := range all {
		if o.Status != Discharged || i%step == 0 {
			samples = append(samples, o)
		}
		if len(samples) >= 40 {
			break
		}
	}
	byRule := map[string]int{}
	for k := range distinct {
		byRule[strings.SplitN(k, "/", 2)[0]]++
	}
	cov := map[string]any{
		"explanation":         spec.Explanation,
		"rule":                spec.RuleText,
		"obligations":         len(distinct),
		"discharged":          countDistinct(all, func(s Status) bool { return s == Discharged }),
		"evaluations":         len(all),
		"distinct_nontrivial": len(nontrivial),
		"exhaustive":          nunres == 0 && !vacuous,
		"samples":             samples,
		"obligations_by_rule": byRule,
		"analysed":            analysed,
		"known_findings":      nknown,
		"unresolved":          nunres,
		"notes":               notes,
		"checker_cmd":         strings.Join(os.Args, " "),
	}
	for k, v := range extra {
		cov[k] = v
	}
	ev := map[string]any{
		"property_id": spec.ID,
		"tier":        tier,
		"seed":        seed,
		"level":       "other",
		"coverage":    cov,
		"assumptions": spec.Assumptions,
		"wall_s":      time.Since(t0).Seconds(),
		"violations":  nviol,
	}
	b, _ := json.MarshalIndent(ev, "", " ")
	evPath := filepath.Join(evDir, spec.ID+".json")
	if err := os.WriteFile(evPath, b, 0o644); err != nil {
		fmt.Printf("ERROR cannot write evidence: %v\n", err)
		return 2
	}
	sort.SliceStable(lines, func(i, j int) bool { return false })
	for _, l := range lines {
		fmt.Println(l)
	}
	fmt.Printf("%s [%s]: %d obligations (%d distinct, %d non-trivial), %d discharged, %d violated, %d known findings, %d unresolved; evidence %s\n",
		spec.ID, tier, len(all), len(distinct), len(nontrivial), ndis, nviol, nknown, nunres, evPath)
	if nviol > 0 {
		return 1
	}
	if nunres > 0 || vacuous {
		return 2
	}
	return 0
}

type flat struct {
	*Obligation
	Variant string `json:"variant,omitempty"`
}

func countDistinct(all []flat, pred func(Status) bool) int {
	m := map[string]bool{}
	bad := map[string]bool{}
	for _, o := range all {
		if pred(o.Status) {
			m[o.Key] = true
		} else {
			bad[o.Key] = true
		}
	}
	n := 0
	for k := range m {
		if !bad[k] {
			n++
		}
	}
	return n
}
