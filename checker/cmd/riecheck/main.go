// riecheck decides the structural clauses of the properties in
// /verif/properties.jsonl for the working tree of the repository by static
// analysis (go/types + go/ssa + call graph); see /verif/DESIGN.md.
package main

import (
	"encoding/json"
	"flag"
	"fmt"
	"os"
	"path/filepath"
	"runtime/debug"
	"sort"
	"strconv"
	"strings"
	"time"

	"verif/checker/internal/load"
	"verif/checker/internal/props"
	"verif/checker/internal/report"
)

func main() {
	prop := flag.String("property", "", "property id (C01..C20) or 'list'")
	tier := flag.String("tier", "quick", "quick | thorough")
	repo := flag.String("repo", "/repo", "repository to analyse")
	verif := flag.String("verif", "/verif", "verif directory (evidence, known findings)")
	noEvidence := flag.Bool("no-evidence", false, "write evidence under a temp dir (used by the self-test on mutants)")
	selftest := flag.String("selftest", "", "JSON summary written by selftest.py, embedded in the evidence (thorough tier)")
	selftestStatus := flag.Int("selftest-status", 0, "exit status of selftest.py")
	dumpFunc := flag.String("dump-func", "", "development aid: print the normal form of a function, e.g. 'L/core:(*gateImpl).Clear', and exit")
	writeBaseline := flag.String("write-baseline", "", "write the table of top-level functions of -repo to this file and exit (re-pin of the analysis normal form)")
	flag.Parse()

	if *dumpFunc != "" {
		repoAbs, _ := filepath.Abs(*repo)
		prog, err := load.Load(repoAbs, "", false)
		if err != nil {
			fmt.Printf("ERROR %v\n", err)
			os.Exit(2)
		}
		parts := strings.SplitN(*dumpFunc, ":", 2)
		f := prog.Func(parts[0], parts[1])
		if f == nil {
			fmt.Println("not found")
			os.Exit(2)
		}
		f.WriteTo(os.Stdout)
		for _, a := range f.AnonFuncs {
			a.WriteTo(os.Stdout)
		}
		for _, n := range prog.Glue {
			fmt.Println("NOTE", n)
		}
		return
	}
	if *writeBaseline != "" {
		repoAbs, _ := filepath.Abs(*repo)
		prog, err := load.Load(repoAbs, "", false)
		if err != nil {
			fmt.Printf("ERROR %v\n", err)
			os.Exit(2)
		}
		out := "# top-level functions of the pinned tree (+ fix commits); see internal/load/norm.go\n"
		for _, fn := range load.TopLevelSourceFuncs(prog.Prog) {
			out += fn.String() + "\t" + load.SigKey(fn.Signature) + "\t" + load.FullSigKey(fn.Signature) + "\t" + load.ParamNames(fn) + "\n"
		}
		if err := os.WriteFile(*writeBaseline, []byte(out), 0o644); err != nil {
			fmt.Printf("ERROR %v\n", err)
			os.Exit(2)
		}
		fo := "# struct fields of the pinned tree (+ fix commits); see internal/load/norm.go\n"
		sf := load.StructFieldsOf(prog.Prog)
		var ts []string
		for t := range sf {
			ts = append(ts, t)
		}
		sort.Strings(ts)
		for _, t := range ts {
			for _, f := range sf[t] {
				fo += t + "\t" + f[0] + "\t" + f[1] + "\n"
			}
		}
		if err := os.WriteFile(filepath.Join(filepath.Dir(*writeBaseline), "baseline_fields.txt"), []byte(fo), 0o644); err != nil {
			fmt.Printf("ERROR %v\n", err)
			os.Exit(2)
		}
		return
	}

	if *prop == "list" {
		var ids []string
		for id := range props.All {
			ids = append(ids, id)
		}
		sort.Strings(ids)
		for _, id := range ids {
			fmt.Println(id)
		}
		return
	}
	if *prop == "all" {
		// development aid: one load, every property, no evidence written to -verif (used by the corpus runners)
		repoAbs, _ := filepath.Abs(*repo)
		prog, err := load.Load(repoAbs, "", false)
		if err != nil {
			fmt.Printf("ERROR loading %s: %v\n", repoAbs, err)
			os.Exit(2)
		}
		known, err := report.LoadKnown(filepath.Join(*verif, "known_findings.jsonl"))
		if err != nil {
			fmt.Printf("ERROR reading known findings: %v\n", err)
			os.Exit(2)
		}
		var ids []string
		for id := range props.All {
			ids = append(ids, id)
		}
		sort.Strings(ids)
		worst := 0
		for _, id := range ids {
			rc := func() (rc int) {
				defer func() {
					if r := recover(); r != nil {
						fmt.Printf("ERROR checker panic in %s: %v\n%s\n", id, r, debug.Stack())
						rc = 2
					}
				}()
				pp := props.All[id]
				c := report.NewCtx(prog, id, "quick", "amd64")
				c.Analysed("packages", len(prog.SSAPkgs))
				c.Analysed("repo functions (incl. closures)", len(prog.RepoFns))
				pp.Run(c)
				outDir, _ := os.MkdirTemp("", "riecheck-ev")
				defer os.RemoveAll(outDir)
				return report.Finish(pp.Spec, "quick", 0, []*report.Result{c.Result()}, known, outDir, time.Now(), map[string]any{})
			}()
			fmt.Printf("RESULT %s rc=%d\n", id, rc)
			if rc > worst {
				worst = rc
			}
		}
		os.Exit(worst)
	}
	p, ok := props.All[*prop]
	if !ok {
		fmt.Printf("ERROR unknown property %q\n", *prop)
		os.Exit(2)
	}
	if v := os.Getenv("VERIF_TIER"); v != "" && (v == "quick" || v == "thorough") {
		// explicit flag wins only when it differs from the default
		if *tier == "quick" {
			*tier = v
		}
	}
	seed, _ := strconv.Atoi(os.Getenv("VERIF_SEED"))
	t0 := time.Now()

	defer func() {
		if r := recover(); r != nil {
			fmt.Printf("ERROR checker panic: %v\n%s\n", r, debug.Stack())
			os.Exit(2)
		}
	}()

	repoAbs, _ := filepath.Abs(*repo)
	type variant struct {
		name, goarch string
		tests        bool
	}
	variants := []variant{{"amd64", "", false}}
	if *tier == "thorough" {
		// the release targets (Makefile: x86_64, arm64) plus a 32-bit build, which re-evaluates every
		// constant and conversion under a different word size and would expose any build-constrained file
		variants = append(variants, variant{"arm64", "arm64", false}, variant{"386", "386", false})
	}
	var results []*report.Result
	extra := map[string]any{}
	var loaded []map[string]any
	for _, v := range variants {
		prog, err := load.Load(repoAbs, v.goarch, v.tests)
		if err != nil {
			fmt.Printf("ERROR loading %s (%s): %v\n", repoAbs, v.name, err)
			os.Exit(2)
		}
		c := report.NewCtx(prog, p.Spec.ID, *tier, v.name)
		c.Analysed("packages", len(prog.SSAPkgs))
		c.Analysed("repo functions (incl. closures)", len(prog.RepoFns))
		p.Run(c)
		results = append(results, c.Result())
		loaded = append(loaded, map[string]any{"variant": v.name, "packages": len(prog.SSAPkgs), "functions": len(prog.RepoFns), "test_functions": len(prog.TestFns), "load_s": prog.LoadSecs})
	}
	extra["variants"] = loaded
	extra["repo"] = repoAbs
	if *selftest != "" {
		if b, err := os.ReadFile(*selftest); err == nil {
			var v any
			if json.Unmarshal(b, &v) == nil {
				extra["checker_selftest"] = v
				extra["checker_selftest_note"] = "mutation self-test of the checker (scratch copies of the repository with one rule instance broken each); validates the checker, is not coverage of the property and does not influence the verdict"
			}
		}
		if *selftestStatus != 0 {
			fmt.Printf("SELFTEST-UNEXPECTED property=%s: a registered mutant was not reported (or a behaviour-preserving variant was); see evidence coverage.checker_selftest\n", p.Spec.ID)
		}
	}

	known, err := report.LoadKnown(filepath.Join(*verif, "known_findings.jsonl"))
	if err != nil {
		fmt.Printf("ERROR reading known findings: %v\n", err)
		os.Exit(2)
	}
	outDir := *verif
	if *noEvidence {
		outDir, _ = os.MkdirTemp("", "riecheck-ev")
		defer os.RemoveAll(outDir)
	}
	os.Exit(report.Finish(p.Spec, *tier, seed, results, known, outDir, t0, extra))
}
