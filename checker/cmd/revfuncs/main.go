// revfuncs rewrites, in place, the non-test Go files of a scratch copy of the repository so that the function
// declarations of every file appear in the reverse order (each with its doc comment; other declarations stay where
// they are). The result is the same program. It is a self-test aid for the checker (no rule may depend on where
// in a file a function stands), not a check.
package main

import (
	"fmt"
	"go/ast"
	"go/parser"
	"go/token"
	"os"
	"path/filepath"
	"strings"
)

func main() {
	root := os.Args[1]
	if len(os.Args) > 2 && os.Args[2] == "shift" {
		shiftClosures(root)
		return
	}
	nfiles := 0
	for _, d := range []string{"lambda", "cmd"} {
		filepath.Walk(filepath.Join(root, d), func(p string, info os.FileInfo, err error) error {
			if err != nil || info.IsDir() || !strings.HasSuffix(p, ".go") || strings.HasSuffix(p, "_test.go") || strings.Contains(p, "/testdata/") {
				return nil
			}
			fset := token.NewFileSet()
			src, _ := os.ReadFile(p)
			f, err := parser.ParseFile(fset, p, src, parser.ParseComments)
			if err != nil {
				return nil
			}
			off := func(pos token.Pos) int { return fset.Position(pos).Offset }
			type seg struct{ start, end int }
			var segs []seg
			ninit := 0
			for _, dcl := range f.Decls {
				fd, ok := dcl.(*ast.FuncDecl)
				if !ok {
					continue
				}
				if fd.Recv == nil && fd.Name.Name == "init" {
					ninit++
				}
				start := fd.Pos()
				if fd.Doc != nil {
					start = fd.Doc.Pos()
				}
				segs = append(segs, seg{off(start), off(fd.End())})
			}
			if len(segs) < 2 || ninit > 1 {
				return nil
			}
			var out []byte
			prev := 0
			for i, s := range segs {
				out = append(out, src[prev:s.start]...)
				r := segs[len(segs)-1-i]
				out = append(out, src[r.start:r.end]...)
				prev = s.end
			}
			out = append(out, src[prev:]...)
			if err := os.WriteFile(p, out, 0o644); err != nil {
				panic(err)
			}
			nfiles++
			return nil
		})
	}
	fmt.Printf("reversed the function declarations of %d files\n", nfiles)
}

// shiftClosures puts an unused function literal at the top of every function body that contains a function
// literal: the literals that follow get the next number (F$2 instead of F$1, ...). The program is the same.
func shiftClosures(root string) {
	n := 0
	for _, d := range []string{"lambda", "cmd"} {
		filepath.Walk(filepath.Join(root, d), func(p string, info os.FileInfo, err error) error {
			if err != nil || info.IsDir() || !strings.HasSuffix(p, ".go") || strings.HasSuffix(p, "_test.go") || strings.Contains(p, "/testdata/") {
				return nil
			}
			fset := token.NewFileSet()
			src, _ := os.ReadFile(p)
			f, err := parser.ParseFile(fset, p, src, parser.ParseComments)
			if err != nil {
				return nil
			}
			var offs []int
			for _, dcl := range f.Decls {
				fd, ok := dcl.(*ast.FuncDecl)
				if !ok || fd.Body == nil {
					continue
				}
				has := false
				ast.Inspect(fd.Body, func(x ast.Node) bool {
					if _, ok := x.(*ast.FuncLit); ok {
						has = true
					}
					return true
				})
				if has {
					offs = append(offs, fset.Position(fd.Body.Lbrace).Offset+1)
				}
			}
			if len(offs) == 0 {
				return nil
			}
			out := src
			for i := len(offs) - 1; i >= 0; i-- {
				o := offs[i]
				out = append(append(append([]byte(nil), out[:o]...), "\n\t_ = func() {}\n"...), out[o:]...)
				n++
			}
			os.WriteFile(p, out, 0o644)
			return nil
		})
	}
	fmt.Printf("shifted the closure numbers of %d functions\n", n)
}
