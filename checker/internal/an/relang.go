package an

import (
	"fmt"
	"regexp/syntax"
	"sort"
	"strings"
)

// SearchLangEqual decides whether two regular expressions accept the same set
// of strings *as used by regexp.MatchString* (unanchored search: s is accepted
// iff some substring matches, with ^/$ meaning begin/end of text). The
// decision is exact over all strings of runes: both patterns are compiled to
// syntax.Prog, simulated as NFAs (with begin-/end-of-text assertions), and
// the product of their subset automata is explored over a finite alphabet of
// representatives, one per class of the coarsest partition of runes that
// neither automaton can distinguish. On inequality a shortest witness string
// is returned (accepted by exactly one of the two).
//
// Only the constructs occurring here are supported (no word boundaries, no
// multi-line anchors); anything else yields an error rather than a guess.
func SearchLangEqual(a, b string) (equal bool, witness string, states int, err error) {
	pa, err := compile(a)
	if err != nil {
		return false, "", 0, fmt.Errorf("pattern %q: %v", a, err)
	}
	pb, err := compile(b)
	if err != nil {
		return false, "", 0, fmt.Errorf("pattern %q: %v", b, err)
	}
	alpha := alphabet(pa, pb)
	type pair struct{ a, b string }
	type node struct {
		sa, sb nstate
		word   []rune
	}
	start := node{sa: nstate{pos0: true}, sb: nstate{pos0: true}}
	seen := map[pair]bool{}
	queue := []node{start}
	seen[pair{start.sa.key(), start.sb.key()}] = true
	for len(queue) > 0 {
		n := queue[0]
		queue = queue[1:]
		states++
		if states > 200000 {
			return false, "", states, fmt.Errorf("state space too large")
		}
		aa, ab := pa.accepts(n.sa), pb.accepts(n.sb)
		if aa != ab {
			return false, string(n.word), states, nil
		}
		for _, r := range alpha {
			na, nb := pa.step(n.sa, r), pb.step(n.sb, r)
			k := pair{na.key(), nb.key()}
			if seen[k] {
				continue
			}
			seen[k] = true
			w := append(append([]rune{}, n.word...), r)
			queue = append(queue, node{na, nb, w})
		}
	}
	return true, "", states, nil
}

type nprog struct{ p *syntax.Prog }

// nstate: set of thread pcs (before epsilon closure) plus position-0 flag and
// the absorbing "already matched" flag of an unanchored search.
type nstate struct {
	pcs     []uint32
	pos0    bool
	matched bool
}

func (s nstate) key() string {
	if s.matched {
		return "M"
	}
	var sb strings.Builder
	if s.pos0 {
		sb.WriteString("^")
	}
	for _, p := range s.pcs {
		fmt.Fprintf(&sb, "%d,", p)
	}
	return sb.String()
}

func compile(pat string) (*nprog, error) {
	re, err := syntax.Parse(pat, syntax.Perl)
	if err != nil {
		return nil, err
	}
	p, err := syntax.Compile(re.Simplify())
	if err != nil {
		return nil, err
	}
	for _, in := range p.Inst {
		if in.Op == syntax.InstEmptyWidth {
			if syntax.EmptyOp(in.Arg)&^(syntax.EmptyBeginText|syntax.EmptyEndText) != 0 {
				return nil, fmt.Errorf("unsupported empty-width assertion %v", syntax.EmptyOp(in.Arg))
			}
		}
	}
	return &nprog{p}, nil
}

// closure follows empty transitions from the given pcs under the flags and
// returns the rune-consuming instructions reached and whether Match is reached.
func (np *nprog) closure(pcs []uint32, begin, end bool) (consuming []uint32, match bool) {
	seen := map[uint32]bool{}
	var visit func(pc uint32)
	visit = func(pc uint32) {
		if seen[pc] {
			return
		}
		seen[pc] = true
		in := &np.p.Inst[pc]
		switch in.Op {
		case syntax.InstAlt, syntax.InstAltMatch:
			visit(in.Out)
			visit(in.Arg)
		case syntax.InstCapture, syntax.InstNop:
			visit(in.Out)
		case syntax.InstEmptyWidth:
			op := syntax.EmptyOp(in.Arg)
			if op&syntax.EmptyBeginText != 0 && !begin {
				return
			}
			if op&syntax.EmptyEndText != 0 && !end {
				return
			}
			visit(in.Out)
		case syntax.InstMatch:
			match = true
		case syntax.InstFail:
		default:
			consuming = append(consuming, pc)
		}
	}
	for _, pc := range pcs {
		visit(pc)
	}
	sort.Slice(consuming, func(i, j int) bool { return consuming[i] < consuming[j] })
	return
}

// threads at the current position of an unanchored search: the carried ones plus a fresh start.
func (np *nprog) threads(s nstate) []uint32 {
	return append(append([]uint32{}, s.pcs...), uint32(np.p.Start))
}

func (np *nprog) accepts(s nstate) bool {
	if s.matched {
		return true
	}
	_, m := np.closure(np.threads(s), s.pos0, true)
	return m
}

func (np *nprog) step(s nstate, r rune) nstate {
	if s.matched {
		return s
	}
	cons, m := np.closure(np.threads(s), s.pos0, false)
	if m {
		return nstate{matched: true}
	}
	next := map[uint32]bool{}
	for _, pc := range cons {
		in := &np.p.Inst[pc]
		if in.MatchRune(r) {
			next[in.Out] = true
		}
	}
	var pcs []uint32
	for pc := range next {
		pcs = append(pcs, pc)
	}
	sort.Slice(pcs, func(i, j int) bool { return pcs[i] < pcs[j] })
	// a match completed exactly after this rune and not requiring end-of-text is absorbing too
	if _, m2 := np.closure(pcs, false, false); m2 {
		return nstate{matched: true}
	}
	return nstate{pcs: pcs}
}

// alphabet returns one representative rune per class of the partition induced
// by all rune ranges of both programs.
func alphabet(ps ...*nprog) []rune {
	cuts := map[rune]bool{0: true}
	add := func(lo, hi rune) {
		cuts[lo] = true
		if hi < 0x10FFFF {
			cuts[hi+1] = true
		}
	}
	for _, np := range ps {
		for _, in := range np.p.Inst {
			switch in.Op {
			case syntax.InstRune, syntax.InstRune1:
				if len(in.Rune) == 1 {
					add(in.Rune[0], in.Rune[0])
					if syntax.Flags(in.Arg)&syntax.FoldCase != 0 {
						// fold-case single rune: be conservative, cut around simple folds too
						add(in.Rune[0]^0x20, in.Rune[0]^0x20)
					}
				}
				for i := 0; i+1 < len(in.Rune); i += 2 {
					add(in.Rune[i], in.Rune[i+1])
				}
			case syntax.InstRuneAnyNotNL:
				add('\n', '\n')
			}
		}
	}
	var out []rune
	for r := range cuts {
		out = append(out, r)
	}
	sort.Slice(out, func(i, j int) bool { return out[i] < out[j] })
	return out
}
