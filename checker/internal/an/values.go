// Package an holds the generic building blocks of the rules: resolved callee
// identification, value-shape matchers, control-flow facts, must/may ordering,
// path counting, lock regions and def-use chases, all over go/ssa.
package an

import (
	"fmt"
	"go/constant"
	"go/token"
	"go/types"
	"strings"

	"golang.org/x/tools/go/ssa"

	"verif/checker/internal/load"
)

// Callee identifies the target of a call in rule-table vocabulary:
//
//	function           "L/core.NewGate"
//	method (static)    "L/core.gateImpl.SetCount"          (pointer-ness dropped)
//	interface method   "L/core.Gate.SetCount"              (the interface that declares it)
//	builtin            "builtin.len"
//	closure            "L/rapid.doInvoke$1"
//	dynamic            "<dynamic>"
func Callee(c ssa.CallInstruction) string {
	cc := c.Common()
	if cc.IsInvoke() {
		m := cc.Method
		recv := "?"
		if sig, ok := m.Type().(*types.Signature); ok && sig.Recv() != nil {
			recv = typeName(sig.Recv().Type())
		}
		return load.Abbrev(recv + "." + m.Name())
	}
	switch v := cc.Value.(type) {
	case *ssa.Builtin:
		return "builtin." + v.Name()
	case *ssa.Function:
		return FuncName(throughThunk(v))
	case *ssa.MakeClosure:
		if fn, ok := v.Fn.(*ssa.Function); ok {
			return FuncName(throughThunk(fn))
		}
	}
	return "<dynamic>"
}

// throughThunk resolves the synthetic function behind a method expression (T.M used as a function value) or a
// bound method value to the method it forwards to: a call of such a value IS a call of the method.
func throughThunk(fn *ssa.Function) *ssa.Function {
	if fn == nil || fn.Synthetic == "" || !(strings.HasPrefix(fn.Synthetic, "thunk ") || strings.HasPrefix(fn.Synthetic, "bound ")) {
		return fn
	}
	var target *ssa.Function
	n := 0
	for _, b := range fn.Blocks {
		for _, in := range b.Instrs {
			if c, ok := in.(*ssa.Call); ok {
				n++
				if c.Call.IsInvoke() {
					return fn // forwards to an interface method: keep the thunk's own name
				}
				target = c.Call.StaticCallee()
			}
		}
	}
	if n == 1 && target != nil {
		return target
	}
	return fn
}

// FuncName renders a function in the same vocabulary as Callee.
func FuncName(fn *ssa.Function) string {
	if fn == nil {
		return "<nil>"
	}
	// instantiations of generics: use origin
	if o := fn.Origin(); o != nil && !load.AliasNamedRecv(fn) {
		fn = o
	}
	if a, ok := load.FuncAlias[fn]; ok {
		// a baseline function found in another form (method <-> function): rendered under its baseline name
		a = strings.TrimPrefix(a, "(")
		a = strings.TrimPrefix(a, "*")
		a = strings.Replace(a, ").", ".", 1)
		return load.Abbrev(a)
	}
	if fn.Parent() != nil {
		// closure: parentName$N
		name := fn.Name()
		if i := strings.LastIndex(name, "$"); i >= 0 {
			return FuncName(fn.Parent()) + name[i:]
		}
		return FuncName(fn.Parent()) + "$" + name
	}
	pkg := ""
	if fn.Pkg != nil && fn.Pkg.Pkg != nil {
		pkg = fn.Pkg.Pkg.Path()
	} else if obj := fn.Object(); obj != nil && obj.Pkg() != nil {
		pkg = obj.Pkg().Path()
	}
	if recv := fn.Signature.Recv(); recv != nil {
		return load.Abbrev(typeName(recv.Type()) + "." + fn.Name())
	}
	return load.Abbrev(pkg + "." + fn.Name())
}

func typeName(t types.Type) string {
	for {
		if p, ok := t.(*types.Pointer); ok {
			t = p.Elem()
			continue
		}
		break
	}
	if n, ok := t.(*types.Named); ok {
		obj := n.Obj()
		if obj.Pkg() != nil {
			// a struct type recognised as renamed is seen under the name the rule tables use, an instance of a
			// generic type under the alias name it is declared with
			return load.CanonTypeName(n)
		}
		return obj.Name()
	}
	return t.String()
}

// TypeName renders a (possibly pointer) named type as "L/core.gateImpl".
func TypeName(t types.Type) string { return load.Abbrev(typeName(t)) }

// AllInstrs calls f for every instruction of fn.
func AllInstrs(fn *ssa.Function, f func(ssa.Instruction)) {
	for _, b := range fn.Blocks {
		for _, in := range b.Instrs {
			f(in)
		}
	}
}

// WithAnon returns fn followed by all closures nested in it (recursively).
func WithAnon(fn *ssa.Function) []*ssa.Function {
	out := []*ssa.Function{fn}
	for _, a := range fn.AnonFuncs {
		out = append(out, WithAnon(a)...)
	}
	return out
}

// Calls returns the call instructions (call, go, defer) of fn whose callee
// satisfies match, in block/instruction order.
func Calls(fn *ssa.Function, match func(string) bool) []ssa.CallInstruction {
	var out []ssa.CallInstruction
	AllInstrs(fn, func(in ssa.Instruction) {
		if c, ok := in.(ssa.CallInstruction); ok && match(Callee(c)) {
			out = append(out, c)
		}
	})
	return out
}

// CallsTo returns calls in fn to any of the named callees.
func CallsTo(fn *ssa.Function, names ...string) []ssa.CallInstruction {
	return Calls(fn, func(s string) bool {
		for _, n := range names {
			if s == n {
				return true
			}
		}
		return false
	})
}

// IsCallTo reports whether instruction in is a (plain, go or defer) call to one of names.
func IsCallTo(in ssa.Instruction, names ...string) bool {
	c, ok := in.(ssa.CallInstruction)
	if !ok {
		return false
	}
	s := Callee(c)
	for _, n := range names {
		if s == n {
			return true
		}
	}
	return false
}

// Strip removes value-preserving wrappers: ChangeType, MakeInterface,
// ChangeInterface, and (optionally) Convert.
func Strip(v ssa.Value, conv bool) ssa.Value {
	for {
		switch x := v.(type) {
		case *ssa.ChangeType:
			v = x.X
		case *ssa.MakeInterface:
			v = x.X
		case *ssa.ChangeInterface:
			v = x.X
		case *ssa.Convert:
			if !conv {
				return v
			}
			v = x.X
		default:
			return v
		}
	}
}

// IsInput reports whether v is a parameter (or captured variable) of the function or a field read off one,
// i.e. a value handed in by the caller as it is, not the result of any call or computation.
func IsInput(v ssa.Value) bool {
	if _, _, ok := ParamRead(Strip(v, false)); ok {
		return true // (also a field of a by-value request record, read from the parameter's own untouched cell)
	}
	for i := 0; i < 8; i++ {
		switch x := Strip(v, false).(type) {
		case *ssa.Parameter, *ssa.FreeVar:
			return true
		case *ssa.UnOp:
			if x.Op != token.MUL {
				return false
			}
			v = x.X
		case *ssa.FieldAddr:
			v = x.X
		case *ssa.Field:
			v = x.X
		default:
			return false
		}
	}
	return false
}

// ParamRead decodes a value that is, unchanged, what the caller handed in: a parameter (field == -1), or a field of
// a struct parameter passed BY VALUE, read from the parameter's own cell. go/ssa spills such a parameter into a
// local cell on entry (`t0 = local T (in); *t0 = in`) and reads its fields from there; the read is the caller's
// value exactly when that cell is written by the spill alone and is only ever read field by field (its address goes
// nowhere else, no field of it is stored to). A parameter list and a by-value record of the same values are the same
// interface; rules that speak about "the parameter" use this to see both.
func ParamRead(v ssa.Value) (p *ssa.Parameter, field int, ok bool) {
	if q, isP := v.(*ssa.Parameter); isP {
		return q, -1, true
	}
	ld, isLd := v.(*ssa.UnOp)
	if !isLd || ld.Op != token.MUL {
		return nil, 0, false
	}
	fa, isFA := ld.X.(*ssa.FieldAddr)
	if !isFA {
		return nil, 0, false
	}
	cell, isCell := fa.X.(*ssa.Alloc)
	if !isCell {
		return nil, 0, false
	}
	q := paramOfCell(cell)
	if q == nil {
		return nil, 0, false
	}
	return q, fa.Field, true
}

// paramOfCell: cell is the private copy of a by-value struct parameter (see ParamRead); nil otherwise.
func paramOfCell(cell *ssa.Alloc) *ssa.Parameter {
	if cell.Referrers() == nil {
		return nil
	}
	var p *ssa.Parameter
	for _, r := range *cell.Referrers() {
		switch x := r.(type) {
		case *ssa.Store:
			q, isP := x.Val.(*ssa.Parameter)
			if x.Addr != ssa.Value(cell) || !isP || p != nil {
				return nil
			}
			p = q
		case *ssa.FieldAddr:
			if x.Referrers() == nil {
				return nil
			}
			for _, r2 := range *x.Referrers() {
				switch y := r2.(type) {
				case *ssa.UnOp:
					if y.Op != token.MUL {
						return nil
					}
				case *ssa.DebugRef:
				default:
					return nil
				}
			}
		case *ssa.DebugRef:
		default:
			return nil
		}
	}
	if p == nil {
		return nil
	}
	if _, isStruct := p.Type().Underlying().(*types.Struct); !isStruct {
		return nil
	}
	// the parameter itself is used for the spill only
	for _, r := range *p.Referrers() {
		switch x := r.(type) {
		case *ssa.Store:
			if x.Addr != ssa.Value(cell) {
				return nil
			}
		case *ssa.DebugRef:
		default:
			return nil
		}
	}
	return p
}

// ParamPiece is one of the values a function was handed: a parameter, or a field of a by-value struct parameter
// that is only read field by field (ParamRead), with the values through which the function reads it (the parameter
// itself; every load of the field).
type ParamPiece struct {
	Param *ssa.Parameter
	Field int // -1: the parameter as a whole
	Reads []ssa.Value
}

// Uses counts the instructions that use the piece.
func (pp ParamPiece) Uses() int {
	n := 0
	for _, v := range pp.Reads {
		if v.Referrers() == nil {
			continue
		}
		for _, r := range *v.Referrers() {
			if _, isDbg := r.(*ssa.DebugRef); !isDbg {
				n++
			}
		}
	}
	return n
}

// ParamPieces lists what a function was handed, piece by piece: one entry per parameter, and for a struct parameter
// passed by value and only read field by field one entry per field that is read.
func ParamPieces(fn *ssa.Function) []ParamPiece {
	var out []ParamPiece
	for _, p := range fn.Params {
		var cell *ssa.Alloc
		if _, isStruct := p.Type().Underlying().(*types.Struct); isStruct && p.Referrers() != nil {
			for _, r := range *p.Referrers() {
				if st, isSt := r.(*ssa.Store); isSt {
					if a, isA := st.Addr.(*ssa.Alloc); isA && paramOfCell(a) == p {
						cell = a
					}
				}
			}
		}
		if cell == nil {
			out = append(out, ParamPiece{Param: p, Field: -1, Reads: []ssa.Value{p}})
			continue
		}
		byField := map[int]*ParamPiece{}
		var order []int
		for _, r := range *cell.Referrers() {
			fa, isFA := r.(*ssa.FieldAddr)
			if !isFA {
				continue
			}
			pp := byField[fa.Field]
			if pp == nil {
				pp = &ParamPiece{Param: p, Field: fa.Field}
				byField[fa.Field] = pp
				order = append(order, fa.Field)
			}
			for _, r2 := range *fa.Referrers() {
				if ld, isLd := r2.(*ssa.UnOp); isLd {
					pp.Reads = append(pp.Reads, ld)
				}
			}
		}
		for _, i := range order {
			out = append(out, *byField[i])
		}
	}
	return out
}

// FieldRef describes an access x.f (address or value form).
type FieldRef struct {
	Base   ssa.Value
	Struct string // "L/core.gateImpl"
	Field  string
}

// AsField decodes FieldAddr / Field, and a load (*FieldAddr).
func AsField(v ssa.Value) (FieldRef, bool) {
	switch x := v.(type) {
	case *ssa.UnOp:
		if x.Op == token.MUL {
			return AsField(x.X)
		}
	case *ssa.FieldAddr:
		st := derefStruct(x.X.Type())
		if st == nil {
			return FieldRef{}, false
		}
		if outer, ok := throughEmbeddedGlue(x.X); ok {
			return FieldRef{Base: outer.Base, Struct: outer.Struct, Field: st.Field(x.Field).Name()}, true
		}
		return FieldRef{Base: x.X, Struct: TypeName(x.X.Type()), Field: fieldName(x.X.Type(), st.Field(x.Field).Name())}, true
	case *ssa.Field:
		st := derefStruct(x.X.Type())
		if st == nil {
			return FieldRef{}, false
		}
		if outer, ok := throughEmbeddedGlue(x.X); ok {
			return FieldRef{Base: outer.Base, Struct: outer.Struct, Field: st.Field(x.Field).Name()}, true
		}
		return FieldRef{Base: x.X, Struct: TypeName(x.X.Type()), Field: fieldName(x.X.Type(), st.Field(x.Field).Name())}, true
	}
	return FieldRef{}, false
}

// throughEmbeddedGlue: base is (the address or value of) an embedded field whose type is a helper struct the pinned
// tree does not have; the helper's fields then count as fields of the struct that embeds it.
func throughEmbeddedGlue(base ssa.Value) (FieldRef, bool) {
	if len(load.GlueStruct) == 0 || !load.GlueStruct[typeName(base.Type())] {
		return FieldRef{}, false
	}
	var x ssa.Value
	var idx int
	b := base
	if u, ok := b.(*ssa.UnOp); ok && u.Op == token.MUL {
		b = u.X // embedded by pointer
	}
	switch y := b.(type) {
	case *ssa.FieldAddr:
		x, idx = y.X, y.Field
	case *ssa.Field:
		x, idx = y.X, y.Field
	default:
		return FieldRef{}, false
	}
	st := derefStruct(x.Type())
	if st == nil || !st.Field(idx).Embedded() {
		return FieldRef{}, false
	}
	if outer, ok := throughEmbeddedGlue(x); ok {
		return outer, true
	}
	return FieldRef{Base: x, Struct: TypeName(x.Type())}, true
}

// fieldName applies the renamed-field table of the loader (a field recognised as renamed is seen under
// the name the rule tables use).
func fieldName(t types.Type, name string) string {
	if len(load.FieldAlias) == 0 {
		return name
	}
	if a, ok := load.FieldAlias[typeName(t)][name]; ok {
		return a
	}
	return name
}

// FieldName is fieldName for callers that enumerate a struct's fields themselves.
func FieldName(t types.Type, name string) string { return fieldName(t, name) }

func derefStruct(t types.Type) *types.Struct {
	if p, ok := t.Underlying().(*types.Pointer); ok {
		t = p.Elem()
	}
	st, _ := t.Underlying().(*types.Struct)
	return st
}

// IsFieldLoad reports whether v is a load of (or the value of) struct.field.
func IsFieldLoad(v ssa.Value, structName, field string) bool {
	if u, ok := v.(*ssa.UnOp); ok && u.Op == token.MUL {
		if fr, ok := AsField(u.X); ok {
			return fr.Struct == structName && fr.Field == field
		}
		return false
	}
	if f, ok := v.(*ssa.Field); ok {
		fr, _ := AsField(f)
		return fr.Struct == structName && fr.Field == field
	}
	return false
}

// Path renders an access path for lock / object identity: "s.mutex",
// "g.gateCondition.L", "s.invokeCtx.ReplyStream". Loads are transparent.
func Path(v ssa.Value) string {
	switch x := v.(type) {
	case *ssa.Parameter:
		return x.Name()
	case *ssa.FreeVar:
		return x.Name()
	case *ssa.Global:
		return load.Abbrev(x.Pkg.Pkg.Path() + "." + x.Name())
	case *ssa.UnOp:
		if x.Op == token.MUL {
			return Path(x.X)
		}
	case *ssa.FieldAddr:
		if fr, ok := AsField(x); ok {
			return Path(x.X) + "." + fr.Field
		}
	case *ssa.Field:
		if fr, ok := AsField(x); ok {
			return Path(x.X) + "." + fr.Field
		}
	case *ssa.Alloc:
		if x.Comment != "" {
			return x.Comment
		}
	case *ssa.ChangeType, *ssa.MakeInterface, *ssa.ChangeInterface:
		return Path(Strip(v, false))
	case *ssa.Call:
		return Callee(x) + "()"
	case *ssa.Extract:
		return Path(x.Tuple) + fmt.Sprintf("#%d", x.Index)
	case *ssa.Phi:
		return "phi(" + x.Comment + ")"
	}
	return fmt.Sprintf("<%T>", v)
}

// ConstInt returns the integer value of a constant.
func ConstInt(v ssa.Value) (int64, bool) {
	c, ok := Strip(v, true).(*ssa.Const)
	if !ok || c.Value == nil {
		return 0, false
	}
	if c.Value.Kind() == constant.Int {
		return c.Int64(), true
	}
	if c.Value.Kind() == constant.Float {
		f, _ := constant.Float64Val(c.Value)
		return int64(f), float64(int64(f)) == f
	}
	return 0, false
}

// ConstString returns the string value of a constant.
func ConstString(v ssa.Value) (string, bool) {
	c, ok := Strip(v, true).(*ssa.Const)
	if !ok || c.Value == nil || c.Value.Kind() != constant.String {
		return "", false
	}
	return constant.StringVal(c.Value), true
}

// ConstBool returns the value of a boolean constant.
func ConstBool(v ssa.Value) (bool, bool) {
	c, ok := v.(*ssa.Const)
	if !ok || c.Value == nil || c.Value.Kind() != constant.Bool {
		return false, false
	}
	return constant.BoolVal(c.Value), true
}

// IsNil reports whether v is the nil constant.
func IsNil(v ssa.Value) bool {
	c, ok := Strip(v, false).(*ssa.Const)
	return ok && c.IsNil()
}

// IsZero reports whether v is the zero value of its type: nil, a zero constant (go/ssa represents T{} of any
// type as a constant with a nil value), or a load of a local that is never stored to.
func IsZero(v ssa.Value) bool {
	v = Strip(v, false)
	if c, ok := v.(*ssa.Const); ok {
		if c.Value == nil {
			return true
		}
		switch c.Value.Kind() {
		case constant.Bool:
			return !constant.BoolVal(c.Value)
		case constant.String:
			return constant.StringVal(c.Value) == ""
		case constant.Int, constant.Float:
			return constant.Sign(c.Value) == 0
		}
		return false
	}
	if u, ok := v.(*ssa.UnOp); ok && u.Op == token.MUL {
		if a, ok := u.X.(*ssa.Alloc); ok {
			for _, r := range *a.Referrers() {
				switch x := r.(type) {
				case *ssa.Store:
					if x.Addr == ssa.Value(a) {
						return false
					}
				case *ssa.FieldAddr, *ssa.IndexAddr, *ssa.Call:
					return false
				}
			}
			return true
		}
	}
	return false
}

// IsGlobalLoad reports whether v is a load of package variable name ("L/core.ErrNotAllowed").
func IsGlobalLoad(v ssa.Value, name string) bool {
	u, ok := Strip(v, false).(*ssa.UnOp)
	if !ok || u.Op != token.MUL {
		return false
	}
	g, ok := u.X.(*ssa.Global)
	return ok && load.Abbrev(g.Pkg.Pkg.Path()+"."+g.Name()) == name
}

// GlobalOf returns the name of the package variable v loads, or "".
func GlobalOf(v ssa.Value) string {
	u, ok := Strip(v, false).(*ssa.UnOp)
	if !ok || u.Op != token.MUL {
		return ""
	}
	g, ok := u.X.(*ssa.Global)
	if !ok {
		return ""
	}
	return load.Abbrev(g.Pkg.Pkg.Path() + "." + g.Name())
}

// CallOf returns the call whose (idx-th) result v is: v itself for a
// single-result call, or Extract{Tuple: call}.
func CallOf(v ssa.Value) (*ssa.Call, int) {
	switch x := v.(type) {
	case *ssa.Call:
		return x, 0
	case *ssa.Extract:
		if c, ok := x.Tuple.(*ssa.Call); ok {
			return c, x.Index
		}
	}
	return nil, -1
}

// IsResultOf reports whether v is the idx-th result (or any, idx<0) of a call to callee.
func IsResultOf(v ssa.Value, callee string, idx int) bool {
	c, i := CallOf(Strip(v, false))
	if c == nil {
		return false
	}
	return Callee(c) == callee && (idx < 0 || idx == i)
}

// LenArg returns x for v = len(x).
func LenArg(v ssa.Value) (ssa.Value, bool) {
	c, ok := Strip(v, true).(*ssa.Call)
	if !ok {
		return nil, false
	}
	if b, ok := c.Call.Value.(*ssa.Builtin); ok && b.Name() == "len" && len(c.Call.Args) == 1 {
		return c.Call.Args[0], true
	}
	return nil, false
}

// ReturnsOf lists the return instructions of fn.
func ReturnsOf(fn *ssa.Function) []*ssa.Return {
	var out []*ssa.Return
	AllInstrs(fn, func(in ssa.Instruction) {
		if r, ok := in.(*ssa.Return); ok {
			out = append(out, r)
		}
	})
	return out
}

// Stores lists store instructions of fn whose address is field struct.field.
func Stores(fn *ssa.Function, structName, field string) []*ssa.Store {
	var out []*ssa.Store
	AllInstrs(fn, func(in ssa.Instruction) {
		if s, ok := in.(*ssa.Store); ok {
			if fr, ok := AsField(s.Addr); ok && fr.Struct == structName && (field == "" || fr.Field == field) {
				out = append(out, s)
			}
		}
	})
	return out
}

// GlobalStores lists stores to package variable name in fn.
func GlobalStores(fn *ssa.Function, name string) []*ssa.Store {
	var out []*ssa.Store
	AllInstrs(fn, func(in ssa.Instruction) {
		if s, ok := in.(*ssa.Store); ok {
			if g, ok := s.Addr.(*ssa.Global); ok && load.Abbrev(g.Pkg.Pkg.Path()+"."+g.Name()) == name {
				out = append(out, s)
			}
		}
	})
	return out
}

// InstrPos returns the best source position for an instruction.
func InstrPos(in ssa.Instruction) token.Pos {
	if in == nil {
		return token.NoPos
	}
	if p := in.Pos(); p.IsValid() {
		return p
	}
	// fall back to operands / neighbours
	if v, ok := in.(ssa.Value); ok {
		_ = v
	}
	b := in.Block()
	if b != nil {
		idx := -1
		for i, x := range b.Instrs {
			if x == in {
				idx = i
			}
		}
		for i := idx - 1; i >= 0; i-- {
			if p := b.Instrs[i].Pos(); p.IsValid() {
				return p
			}
		}
		for i := idx + 1; i >= 0 && i < len(b.Instrs); i++ {
			if p := b.Instrs[i].Pos(); p.IsValid() {
				return p
			}
		}
		if fn := b.Parent(); fn != nil {
			return fn.Pos()
		}
	}
	return token.NoPos
}

// Describe renders an instruction briefly for reports.
func Describe(in ssa.Instruction) string {
	switch x := in.(type) {
	case ssa.CallInstruction:
		kind := "call"
		switch in.(type) {
		case *ssa.Go:
			kind = "go"
		case *ssa.Defer:
			kind = "defer"
		}
		return kind + " " + Callee(x)
	case *ssa.Store:
		return "store " + Path(x.Addr)
	case *ssa.Return:
		return "return"
	case *ssa.MapUpdate:
		return "mapupdate " + Path(x.Map)
	case *ssa.Send:
		return "send " + Path(x.Chan)
	}
	return fmt.Sprintf("%T", in)
}

// Exit is a reachable return of a function with named-result spills resolved.
type Exit struct {
	Ret  *ssa.Return
	Vals []ssa.Value
}

// ExitTuples is Exits with a return that returns joins of its own block taken apart: one tuple per incoming edge
// (a function restructured to a single `return a, err` at the end returns, per path, what the separate returns
// returned). From is the predecessor the tuple arrives over (nil for a return that is not split).
type ExitTuple struct {
	Ret  *ssa.Return
	From *ssa.BasicBlock
	Vals []ssa.Value
}

func ExitTuples(fn *ssa.Function) []ExitTuple {
	var out []ExitTuple
	for _, e := range Exits(fn) {
		b := e.Ret.Block()
		split := false
		for _, v := range e.Vals {
			if ph, ok := v.(*ssa.Phi); ok && ph.Block() == b {
				split = true
			}
		}
		if !split {
			out = append(out, ExitTuple{e.Ret, nil, e.Vals})
			continue
		}
		for i, p := range b.Preds {
			t := ExitTuple{Ret: e.Ret, From: p}
			for _, v := range e.Vals {
				if ph, ok := v.(*ssa.Phi); ok && ph.Block() == b && i < len(ph.Edges) {
					t.Vals = append(t.Vals, ph.Edges[i])
				} else {
					t.Vals = append(t.Vals, v)
				}
			}
			out = append(out, t)
		}
	}
	return out
}

// Exits lists the returns of fn reachable from the entry (the synthetic
// "recover" block is excluded). Functions containing defer spill their results
// to allocs ("*t0 = v; rundefers; t = *t0; return t"); the stored value is
// reported instead of the reload when the store is in the returning block.
func Exits(fn *ssa.Function) []Exit {
	var out []Exit
	reach := reachableBlocks(fn)
	for _, b := range fn.Blocks {
		if !reach[b] {
			continue
		}
		r, ok := b.Instrs[len(b.Instrs)-1].(*ssa.Return)
		if !ok {
			continue
		}
		e := Exit{Ret: r}
		for _, v := range r.Results {
			e.Vals = append(e.Vals, knownNil(fn, r, resolveSpill(r, v)))
		}
		out = append(out, e)
	}
	return out
}

var exitFacts = map[*ssa.Function]*Facts{}

// knownNil: a named result returned by a bare `return` is whatever was last assigned to it; when that is nil on
// every way in (a φ of nils), or is a value the branch just taken has tested to be nil (`if err = f(); err != nil
// { return }; ...; return`), the exit returns nil just as an explicit `return nil` does.
func knownNil(fn *ssa.Function, r *ssa.Return, v ssa.Value) ssa.Value {
	if v == nil || IsNil(v) {
		return v
	}
	switch v.Type().Underlying().(type) {
	case *types.Interface, *types.Pointer, *types.Map, *types.Slice, *types.Chan, *types.Signature:
	default:
		return v
	}
	if _, isPhi := v.(*ssa.Phi); isPhi {
		all := true
		for _, l := range PhiLeaves(v) {
			if !IsNil(l) {
				all = false
			}
		}
		if all {
			return ssa.NewConst(nil, v.Type())
		}
	}
	f := exitFacts[fn]
	if f == nil {
		f = NewFacts(fn)
		exitFacts[fn] = f
	}
	leaves := PhiLeaves(v)
	if len(leaves) == 0 {
		return v
	}
	for _, l := range leaves {
		if IsNil(l) {
			continue
		}
		l := l
		if !f.Holds(r.Block(), func(ft Fact) bool { return CmpNil(ft, true, func(x ssa.Value) bool { return x == l }) }) {
			return v
		}
	}
	return ssa.NewConst(nil, v.Type())
}

func resolveSpill(r *ssa.Return, v ssa.Value) ssa.Value {
	u, ok := v.(*ssa.UnOp)
	if !ok || u.Op != token.MUL {
		return v
	}
	a, ok := u.X.(*ssa.Alloc)
	if !ok {
		return v
	}
	// the cell must be a plain result variable: only stored to and loaded from
	for _, ref := range *a.Referrers() {
		switch x := ref.(type) {
		case *ssa.Store:
			if x.Addr != ssa.Value(a) {
				return v
			}
		case *ssa.UnOp:
		case *ssa.DebugRef:
		default:
			return v
		}
	}
	// the stores that reach this return: backwards over the CFG, stopping at the latest store on each path
	var vals []ssa.Value
	zero := false
	seen := map[*ssa.BasicBlock]bool{}
	var back func(b *ssa.BasicBlock, from int)
	back = func(b *ssa.BasicBlock, from int) {
		for i := from; i >= 0; i-- {
			if s, ok := b.Instrs[i].(*ssa.Store); ok && s.Addr == ssa.Value(a) {
				vals = append(vals, s.Val)
				return
			}
			if b.Instrs[i] == ssa.Instruction(a) {
				zero = true
				return
			}
		}
		if len(b.Preds) == 0 {
			zero = true
			return
		}
		for _, p := range b.Preds {
			if !seen[p] {
				seen[p] = true
				back(p, len(p.Instrs)-1)
			}
		}
	}
	b := r.Block()
	back(b, len(b.Instrs)-1)
	uniq := map[ssa.Value]bool{}
	for _, x := range vals {
		uniq[x] = true
	}
	switch {
	case len(uniq) == 0 && zero:
		return zeroConst(v.Type())
	case len(uniq) == 1 && !zero:
		return vals[0]
	case len(uniq) == 1 && zero && IsZero(vals[0]):
		return vals[0]
	}
	return v
}

func zeroConst(t types.Type) ssa.Value {
	switch u := t.Underlying().(type) {
	case *types.Basic:
		switch {
		case u.Info()&types.IsBoolean != 0:
			return ssa.NewConst(constant.MakeBool(false), t)
		case u.Info()&types.IsString != 0:
			return ssa.NewConst(constant.MakeString(""), t)
		case u.Info()&types.IsNumeric != 0:
			return ssa.NewConst(constant.MakeInt64(0), t)
		}
	}
	return ssa.NewConst(nil, t)
}

func reachableBlocks(fn *ssa.Function) map[*ssa.BasicBlock]bool {
	reach := map[*ssa.BasicBlock]bool{}
	if len(fn.Blocks) == 0 {
		return reach
	}
	var walk func(b *ssa.BasicBlock)
	walk = func(b *ssa.BasicBlock) {
		if reach[b] {
			return
		}
		reach[b] = true
		for _, s := range b.Succs {
			walk(s)
		}
	}
	walk(fn.Blocks[0])
	return reach
}

// Reachable reports which blocks of fn are reachable from its entry.
func Reachable(fn *ssa.Function) map[*ssa.BasicBlock]bool { return reachableBlocks(fn) }

// PhiLeaves expands v through φ-nodes (transitively) into the set of non-φ
// values that can flow into it; a non-φ value is its own single leaf.
func PhiLeaves(v ssa.Value) []ssa.Value {
	var out []ssa.Value
	seen := map[ssa.Value]bool{}
	var walk func(x ssa.Value)
	walk = func(x ssa.Value) {
		if x == nil || seen[x] {
			return
		}
		seen[x] = true
		if ph, ok := x.(*ssa.Phi); ok {
			for _, e := range ph.Edges {
				walk(e)
			}
			return
		}
		out = append(out, x)
	}
	walk(v)
	return out
}

// IsParamNamed: v is the parameter called name, or - when the function takes its arguments as a by-value record - the
// field called name of such a record read from the parameter's own untouched cell (see ParamRead).
func IsParamNamed(v ssa.Value, name string) bool {
	p, field, ok := ParamRead(v)
	if !ok {
		return false
	}
	if field < 0 {
		return p.Name() == name
	}
	st := derefStruct(p.Type())
	return st != nil && field < st.NumFields() && st.Field(field).Name() == name
}
