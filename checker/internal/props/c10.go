package props

import (
	"go/token"
	"go/types"
	"sort"
	"strings"

	"golang.org/x/tools/go/ssa"

	"verif/checker/internal/an"
	"verif/checker/internal/report"
)

func init() {
	register(&Prop{
		Spec: report.Spec{
			ID: "C10",
			Explanation: "Structural necessary conditions of 'at most one invocation in flight, extra callers refused harmlessly', decided on every path of the anchored functions: the reservation is a test-and-set under the server mutex (store dominated by 'invokeCtx == nil', refusal returns ErrAlreadyReserved having stored nothing); the reservation is cleared only by Release and created only by setNewInvokeContext; " +
				"no result of a failing call is used on its own error path anywhere in rapidcore, rapid and the front end (the nil-dereference pattern that crashed the emulator for a second caller); the refused caller's path in Server.Invoke performs no Release/Reset/FastInvoke/Shutdown and reports the error; Release in Invoke is confined to the success case; a reset clears the server state only after the sandbox reset returned and answers the failed caller only after the reset; " +
				"the front end maps ErrAlreadyReserved to 400 and serialises its first-call initialisation under a mutex that is not held across the invocation. " +
				"Added after the blind rounds: AwaitRelease frees the reservation only on success; test and set under one acquisition of the mutex; one critical section per call; R-ERRID for the refusal statuses. " +
				"NOT decided: the arrival-time quantifier itself ('immediately', every phase), i.e. no interleaving is explored.",
			RuleText:    "one obligation per guard, per store, per (call site x error-use pattern), per select case, per front-end status branch",
			Assumptions: trusted,
			MinObs:      20,
		},
		Run: runC10,
	})
}

func runC10(c *report.Ctx) {
	checkReserveOneCriticalSection(c)
	checkSingleAcquisition(c)
	checkInvokeWaitsForExtensions(c) // the reservation is given back only when the extensions are done too
	checkErrorIdentity(c, scopeFrontEnd, frontEndDeadCases, 8)
	checkAwaitReleaseOnlyOnSuccess(c)
	c.Clause("1 reservation test-and-set")
	checkReservation(c)
	c.Clause("2 no result used on its error path")
	checkErrUse(c, []string{"L/rapidcore", "L/rapid", "M/cmd/aws-lambda-rie", "L/rapidcore/standalone"})
	c.Clause("3 refused caller is harmless")
	checkInvokeRefusalPath(c)
	c.Clause("4 front end status mapping")
	checkFrontEndStatus(c, map[string]int64{"L/rapidcore.ErrAlreadyReserved": 400})
	c.Clause("5 first-call initialisation")
	checkFrontEndInit(c)
}

func checkReservation(c *report.Ctx) {
	f := fn(c, rapidcP, "(*Server).setNewInvokeContext")
	if f == nil {
		return
	}
	name := an.FuncName(f)
	facts := an.NewFacts(f)
	held := an.NewHeld(f)
	lp := f.Params[0].Name() + ".mutex"
	sts := an.Stores(f, srvT, "invokeCtx")
	c.Check("R-COUNT", name+"/reserve-site", "the reservation is created at one site", len(sts) == 1, fpos(f), len(sts), "%d stores to invokeCtx", len(sts))
	for _, st := range sts {
		free := facts.Holds(st.Block(), func(ft an.Fact) bool { return an.CmpNil(ft, true, loadOf(srvT, "invokeCtx")) })
		c.Check("R-GUARD", name+"/reserve-only-when-free", "a reservation is made only when none exists (store dominated by invokeCtx == nil)", free, an.InstrPos(st), 1, "facts: %s", factsString(facts.At(st.Block())))
		c.Check("R-LOCK", name+"/test-and-set-atomic", "test and set happen in one critical section of the server mutex", held.At(st)[lp] && held.Defers[lp], an.InstrPos(st), 1, "held: %s", fmtSet(held.At(st)))
	}
	ord := an.NewOrder(f, func(in ssa.Instruction) uint64 {
		if s, ok := in.(*ssa.Store); ok {
			if _, isAlloc := s.Addr.(*ssa.Alloc); !isAlloc {
				return 1
			}
		}
		return 0
	})
	nref := 0
	for i, e := range an.Exits(f) {
		if len(e.Vals) == 2 && an.GlobalOf(e.Vals[1]) == "L/rapidcore.ErrAlreadyReserved" {
			nref++
			_, may := ord.Before(e.Ret)
			taken := facts.Holds(e.Ret.Block(), func(ft an.Fact) bool { return an.CmpNil(ft, false, loadOf(srvT, "invokeCtx")) })
			c.Check("R-NOEFFECT", sprintf("%s/refusal%d", name, i), "an extra caller is refused with ErrAlreadyReserved exactly when a reservation exists, and nothing has been stored", may == 0 && taken && an.IsZero(e.Vals[0]), an.InstrPos(e.Ret), 1, "stores possibly before: %v; on the reserved edge: %v; nothing handed out: %v", may != 0, taken, an.IsZero(e.Vals[0]))
		}
	}
	c.Check("R-COUNT", name+"/has-refusal", "the refusing exit exists", nref == 1, fpos(f), nref, "%d refusing exits", nref)
	// writers of invokeCtx
	w := storesTo(c, srvT, "invokeCtx")
	var nilW, setW []string
	for fw, ss := range w {
		for _, st := range ss {
			if an.IsNil(st.Val) {
				nilW = append(nilW, an.FuncName(fw))
			} else {
				setW = append(setW, an.FuncName(fw))
			}
		}
	}
	sort.Strings(nilW)
	sort.Strings(setW)
	c.Check("R-WHO", srvT+".invokeCtx/writers", "the reservation is created only by setNewInvokeContext and cleared only by Release", strings.Join(setW, ",") == srvT+".setNewInvokeContext" && strings.Join(nilW, ",") == srvT+".Release", fpos(f), len(w), "sets: %v; clears: %v", setW, nilW)
	if rel := fn(c, rapidcP, "(*Server).Release"); rel != nil {
		h := an.NewHeld(rel)
		ok := true
		for _, st := range an.Stores(rel, srvT, "invokeCtx") {
			if !h.At(st)[rel.Params[0].Name()+".mutex"] {
				ok = false
			}
		}
		c.Check("R-LOCK", an.FuncName(rel)+"/under-mutex", "the reservation is cleared under the server mutex", ok, fpos(rel), 1, "guarded: %v", ok)
	}
	// Reserve propagates the refusal without side effect
	if rs := fn(c, rapidcP, "(*Server).Reserve"); rs != nil {
		rf := an.NewFacts(rs)
		calls := an.CallsTo(rs, srvT+".setNewInvokeContext")
		ok := len(calls) == 1
		if ok {
			errv := func(v ssa.Value) bool {
				cl, idx := an.CallOf(v)
				return cl != nil && ssa.Instruction(cl) == ssa.Instruction(calls[0]) && idx == 1
			}
			// stores to Server fields / calls to initContext.Reserve only on the nil edge
			an.AllInstrs(rs, func(in ssa.Instruction) {
				isEff := false
				if st, k := in.(*ssa.Store); k {
					if fr, k2 := an.AsField(st.Addr); k2 && fr.Struct == srvT {
						isEff = true
					}
				}
				if an.IsCallTo(in, "L/interop.InitContext.Reserve") {
					isEff = true
				}
				if isEff && !rf.Holds(in.Block(), func(ft an.Fact) bool { return an.CmpNil(ft, true, errv) }) {
					ok = false
				}
			})
		}
		c.Check("R-NOEFFECT", an.FuncName(rs)+"/refusal-propagated-without-effect", "Reserve touches the server and the sandbox only after the reservation succeeded", ok, fpos(rs), 1, "effects only on the nil edge: %v", ok)
	}
}

// checkErrUse is the contradiction rule R-ERRUSE: for `x, err := f(...)` where f
// can return (nil, non-nil error), x must not be dereferenced at a point where
// err == nil is not known.
func checkErrUse(c *report.Ctx, pkgs []string) {
	inPkgs := func(f *ssa.Function) bool {
		if f.Pkg == nil {
			return false
		}
		for _, p := range pkgs {
			if f.Pkg.Pkg.Path() == expandPkg(p) {
				return true
			}
		}
		return false
	}
	// summary: does callee have an exit returning (nil, non-nil)?
	canFail := map[*ssa.Function]int{} // 0 unknown, 1 yes, 2 no
	var nilOnError func(g *ssa.Function) bool
	nilOnError = func(g *ssa.Function) bool {
		if g == nil || len(g.Blocks) == 0 {
			return false
		}
		if v, ok := canFail[g]; ok {
			return v == 1
		}
		canFail[g] = 2
		res := g.Signature.Results()
		if res.Len() != 2 || !isErrorType(res.At(1).Type()) || !isPointerLike(res.At(0).Type()) {
			return false
		}
		for _, e := range an.Exits(g) {
			if len(e.Vals) != 2 {
				continue
			}
			if an.IsNil(e.Vals[0]) && !an.IsNil(e.Vals[1]) {
				canFail[g] = 1
				return true
			}
			// return f2(...) passthrough
			if cl, idx := an.CallOf(e.Vals[0]); cl != nil && idx == 0 {
				if cl2, idx2 := an.CallOf(e.Vals[1]); cl2 == cl && idx2 == 1 {
					if callee := cl.Call.StaticCallee(); callee != nil && nilOnError(callee) {
						canFail[g] = 1
						return true
					}
				}
			}
		}
		return false
	}
	nsites, nuse := 0, 0
	service := serviceReachable(c)
	for _, f := range repoFuncs(c) {
		if !inPkgs(f) {
			continue
		}
		if !service[f] {
			// start-up code reachable only from main (not from any goroutine or HTTP handler): outside the
			// properties' scope; pattern hits there are listed as observations, not obligations
			noteErrUseOutside(c, f, nilOnError)
			continue
		}
		facts := (*an.Facts)(nil)
		an.AllInstrs(f, func(in ssa.Instruction) {
			call, ok := in.(*ssa.Call)
			if !ok {
				return
			}
			callee := call.Call.StaticCallee()
			if callee == nil || !nilOnError(callee) {
				return
			}
			nsites++
			var xv, ev ssa.Value
			for _, ref := range *call.Referrers() {
				if ex, ok := ref.(*ssa.Extract); ok {
					if ex.Index == 0 {
						xv = ex
					} else if ex.Index == 1 {
						ev = ex
					}
				}
			}
			if xv == nil {
				return
			}
			if facts == nil {
				facts = an.NewFacts(f)
			}
			// dereferencing uses of x
			for _, ref := range *xv.Referrers() {
				deref := false
				switch r := ref.(type) {
				case *ssa.FieldAddr:
					deref = r.X == xv
				case *ssa.UnOp:
					deref = r.Op == token.MUL && r.X == xv
				case *ssa.IndexAddr:
					deref = r.X == xv
				case ssa.CallInstruction:
					cc := r.Common()
					if cc.IsInvoke() && cc.Value == xv {
						deref = true
					}
				}
				if !deref {
					continue
				}
				nuse++
				okNil := ev != nil && facts.Holds(ref.Block(), func(ft an.Fact) bool { return an.CmpNil(ft, true, func(v ssa.Value) bool { return v == ev }) })
				xNonNil := facts.Holds(ref.Block(), func(ft an.Fact) bool { return an.CmpNil(ft, false, func(v ssa.Value) bool { return v == xv }) })
				c.Check("R-ERRUSE", sprintf("%s/result-of-%s", an.FuncName(f), an.FuncName(callee)), "the result of a call that returns nil on failure is dereferenced only where the call is known to have succeeded (err == nil) or the result was tested",
					okNil || xNonNil, an.InstrPos(ref), 1, "facts at the use: %s", factsString(facts.At(ref.Block())))
			}
		})
	}
	c.Analysed("call sites of functions returning (nil, err)", nsites)
	c.Check("R-COUNT", "R-ERRUSE/instances", "the contradiction rule found call sites to examine", nsites >= 3 && nuse >= 1, token.NoPos, nsites, "%d call sites, %d dereferencing uses", nsites, nuse)
}

func expandPkg(p string) string {
	if strings.HasPrefix(p, "L/") {
		return "go.amzn.com/lambda/" + p[2:]
	}
	if strings.HasPrefix(p, "M/") {
		return "go.amzn.com/" + p[2:]
	}
	return p
}

func isErrorType(t types.Type) bool { return t.String() == "error" }
func isPointerLike(t types.Type) bool {
	switch t.Underlying().(type) {
	case *types.Pointer, *types.Interface, *types.Map, *types.Chan, *types.Signature:
		return true
	}
	return false
}

// selectCase returns the select instruction and case index a block belongs to
// (from the facts "index == k").
func selectCase(facts *an.Facts, b *ssa.BasicBlock) (*ssa.Select, int) {
	for _, ft := range facts.At(b) {
		bo, ok := ft.Cond.(*ssa.BinOp)
		if !ok || bo.Op != token.EQL || !ft.Val {
			continue
		}
		ex, ok := bo.X.(*ssa.Extract)
		if !ok || ex.Index != 0 {
			continue
		}
		sel, ok := ex.Tuple.(*ssa.Select)
		if !ok {
			continue
		}
		if n, k := an.ConstInt(bo.Y); k {
			return sel, int(n)
		}
	}
	return nil, -1
}

func chanName(v ssa.Value) string {
	if r := invokeChanRole(v); r != "" {
		return r
	}
	if u, ok := v.(*ssa.UnOp); ok && u.Op == token.MUL {
		if a, ok := u.X.(*ssa.Alloc); ok {
			return a.Comment
		}
		if fv, ok := u.X.(*ssa.FreeVar); ok {
			return fv.Name()
		}
		if fr, ok := an.AsField(u.X); ok {
			return fr.Field
		}
	}
	return an.Path(v)
}

// chanRoot follows a channel value to the local it lives in (a captured variable's cell) or to the make that
// created it, through loads, conversions and closure captures.
func chanRoot(v ssa.Value) ssa.Value {
	for depth := 0; depth < 12; depth++ {
		switch x := v.(type) {
		case *ssa.UnOp:
			if x.Op == token.MUL {
				v = x.X
				continue
			}
		case *ssa.ChangeType:
			v = x.X
			continue
		case *ssa.Alloc:
			// a cell written exactly once (a captured local initialised with the make, an argument cell) is what was stored
			var only ssa.Value
			n := 0
			for _, g := range an.WithAnon(outermost(x.Parent())) {
				an.AllInstrs(g, func(in ssa.Instruction) {
					if st, ok := in.(*ssa.Store); ok && chanCell(st.Addr) == ssa.Value(x) {
						n++
						only = st.Val
					}
				})
			}
			if n == 1 && only != nil {
				v = only
				continue
			}
		case *ssa.FreeVar:
			fn := x.Parent()
			idx := -1
			for i, fv := range fn.FreeVars {
				if fv == x {
					idx = i
				}
			}
			var bound ssa.Value
			if p := fn.Parent(); p != nil && idx >= 0 {
				an.AllInstrs(p, func(in ssa.Instruction) {
					if mc, ok := in.(*ssa.MakeClosure); ok && mc.Fn == ssa.Value(fn) && idx < len(mc.Bindings) {
						bound = mc.Bindings[idx]
					}
				})
			}
			if bound != nil {
				v = bound
				continue
			}
		}
		return v
	}
	return v
}

func outermost(f *ssa.Function) *ssa.Function {
	for f != nil && f.Parent() != nil {
		f = f.Parent()
	}
	return f
}

// chanCell resolves the address of a captured variable to the cell it denotes in the outermost function.
func chanCell(addr ssa.Value) ssa.Value {
	for depth := 0; depth < 8; depth++ {
		fv, ok := addr.(*ssa.FreeVar)
		if !ok {
			return addr
		}
		fn := fv.Parent()
		idx := -1
		for i, x := range fn.FreeVars {
			if x == fv {
				idx = i
			}
		}
		var bound ssa.Value
		if p := fn.Parent(); p != nil && idx >= 0 {
			an.AllInstrs(p, func(in ssa.Instruction) {
				if mc, ok := in.(*ssa.MakeClosure); ok && mc.Fn == ssa.Value(fn) && idx < len(mc.Bindings) {
					bound = mc.Bindings[idx]
				}
			})
		}
		if bound == nil {
			return addr
		}
		addr = bound
	}
	return addr
}

var invokeChanRoles = map[*ssa.Function]map[ssa.Value]string{}

// invokeChanRole names the local channels of Server.Invoke by what travels on them, whatever the variables are
// called: the watchdog's channel carries ErrInvokeTimeout; of the two channels the invoke goroutine reports on,
// one carries errors and the other the empty success token.
func invokeChanRole(v ssa.Value) string {
	ch, ok := v.Type().Underlying().(*types.Chan)
	if !ok {
		if u, isU := v.(*ssa.UnOp); isU && u.Op == token.MUL {
			ch, ok = u.Type().Underlying().(*types.Chan)
		}
		if !ok {
			return ""
		}
	}
	_ = ch
	root := chanRoot(v)
	var top *ssa.Function
	switch x := root.(type) {
	case *ssa.Alloc:
		top = x.Parent()
	case *ssa.MakeChan:
		top = x.Parent()
	default:
		return ""
	}
	for top != nil && top.Parent() != nil {
		top = top.Parent()
	}
	if top == nil || an.FuncName(top) != srvT+".Invoke" {
		return ""
	}
	roles, done := invokeChanRoles[top]
	if !done {
		roles = map[ssa.Value]string{}
		timeout := map[ssa.Value]bool{}
		var all []ssa.Value
		for _, g := range an.WithAnon(top) {
			an.AllInstrs(g, func(in ssa.Instruction) {
				var chv, sent ssa.Value
				switch x := in.(type) {
				case *ssa.Send:
					chv, sent = x.Chan, x.X
				case *ssa.Select:
					for _, st := range x.States {
						if st.Dir == types.SendOnly {
							r := chanRoot(st.Chan)
							all = append(all, r)
							if an.GlobalOf(st.Send) == "L/rapidcore.ErrInvokeTimeout" {
								timeout[r] = true
							}
						}
					}
				case *ssa.MakeChan:
					all = append(all, chanRoot(x))
					for _, ref := range *x.Referrers() {
						if st, isSt := ref.(*ssa.Store); isSt && st.Val == ssa.Value(x) {
							all = append(all, chanRoot(st.Addr))
						}
					}
				}
				if chv != nil {
					r := chanRoot(chv)
					all = append(all, r)
					if an.GlobalOf(sent) == "L/rapidcore.ErrInvokeTimeout" {
						timeout[r] = true
					}
				}
			})
		}
		for _, r := range all {
			var t types.Type
			switch x := r.(type) {
			case *ssa.Alloc:
				if p, isP := x.Type().Underlying().(*types.Pointer); isP {
					t = p.Elem()
				}
			case *ssa.MakeChan:
				t = x.Type()
			}
			if t == nil {
				continue
			}
			cht, isCh := t.Underlying().(*types.Chan)
			if !isCh {
				continue
			}
			switch {
			case timeout[r]:
				roles[r] = "timeoutChan"
			case types.Identical(cht.Elem(), types.Universe.Lookup("error").Type()):
				roles[r] = "releaseErrChan"
			default:
				if st, isSt := cht.Elem().Underlying().(*types.Struct); isSt && st.NumFields() == 0 {
					roles[r] = "releaseSuccessChan"
				}
			}
		}
		// a MakeChan stored into a captured local is that local
		for _, g := range an.WithAnon(top) {
			an.AllInstrs(g, func(in ssa.Instruction) {
				if st, isSt := in.(*ssa.Store); isSt {
					if mk, isMk := st.Val.(*ssa.MakeChan); isMk {
						if role, has := roles[chanRoot(st.Addr)]; has {
							roles[mk] = role
						}
					}
				}
			})
		}
		invokeChanRoles[top] = roles
	}
	return roles[root]
}

func checkInvokeRefusalPath(c *report.Ctx) {
	inv := fn(c, rapidcP, "(*Server).Invoke")
	g := fn(c, rapidcP, "(*Server).Invoke$2")
	if inv == nil || g == nil {
		return
	}
	facts := an.NewFacts(g)
	res := an.CallsTo(g, srvT+".Reserve")
	if !c.Check("R-COUNT", an.FuncName(g)+"/reserve-site", "the invoke goroutine reserves once", len(res) == 1, fpos(g), len(res), "%d Reserve calls", len(res)) {
		return
	}
	isErr := func(v ssa.Value) bool {
		cl, idx := an.CallOf(v)
		return cl != nil && ssa.Instruction(cl) == ssa.Instruction(res[0]) && idx == 1
	}
	var errBlocks []*ssa.BasicBlock
	for _, b := range g.Blocks {
		if facts.Holds(b, func(ft an.Fact) bool { return an.CmpNil(ft, false, isErr) }) {
			errBlocks = append(errBlocks, b)
		}
	}
	var harmful []string
	sent, returned := false, false
	for _, b := range errBlocks {
		for _, in := range b.Instrs {
			if call, ok := in.(ssa.CallInstruction); ok {
				cal := an.Callee(call)
				if oneOf(cal, srvT+".Release", srvT+".Reset", srvT+".FastInvoke", srvT+".Shutdown", srvT+".Clear", srvT+".AwaitRelease") {
					harmful = append(harmful, cal)
				}
				if _, isGo := in.(*ssa.Go); isGo {
					harmful = append(harmful, "go "+cal)
				}
			}
			if s, ok := in.(*ssa.Send); ok && chanName(s.Chan) == "releaseErrChan" && isErr(s.X) {
				sent = true
			}
			if _, ok := in.(*ssa.Return); ok {
				returned = true
			}
		}
	}
	c.Check("R-NOEFFECT", an.FuncName(g)+"/refused-caller-harmless", "when the reservation is refused the invoke goroutine reports that error and returns: it neither releases, resets, shuts down nor dispatches anything (the invocation in flight is not disturbed)",
		len(errBlocks) > 0 && len(harmful) == 0 && sent && returned, an.InstrPos(res[0]), len(errBlocks), "error-edge blocks: %d; harmful calls: %v; error sent to the caller: %v; returns: %v", len(errBlocks), harmful, sent, returned)

	// Release in Invoke only in the success case of the outer select
	of := an.NewFacts(inv)
	rels := an.CallsTo(inv, srvT+".Release")
	for i, r := range rels {
		sel, idx := selectCase(of, r.Block())
		ok := sel != nil && idx >= 0 && idx < len(sel.States) && chanName(sel.States[idx].Chan) == "releaseSuccessChan"
		c.Check("R-GUARD", sprintf("%s/release%d-only-on-success", an.FuncName(inv), i), "Invoke releases the reservation only when its own invocation completed successfully (never on behalf of a refused or failed caller)", ok, an.InstrPos(r), 1, "select case: %d", idx)
	}
	// the success signal is sent only after AwaitRelease returned nil / reservation done
	for _, in := range allSends(g) {
		if chanName(in.Chan) != "releaseSuccessChan" {
			continue
		}
		aw := an.CallsTo(g, srvT+".AwaitRelease")
		ok := len(aw) == 1 && an.InstrDominates(aw[0], in)
		c.Check("R-ORDER", an.FuncName(g)+"/success-after-await-release", "success is signalled only after AwaitRelease returned", ok, an.InstrPos(in), 1, "AwaitRelease dominates: %v", ok)
	}
	// failed invocation: Reset precedes the answer
	resets := an.CallsTo(g, srvT+".Reset")
	ord := an.NewOrder(g, func(in ssa.Instruction) uint64 {
		if s, ok := in.(*ssa.Send); ok && chanName(s.Chan) == "releaseErrChan" {
			return 1
		}
		return 0
	})
	c.Check("R-COUNT", an.FuncName(g)+"/reset-on-failure", "a failed invocation resets the environment", len(resets) == 1, fpos(g), len(resets), "%d Reset calls", len(resets))
	for _, r := range resets {
		_, may := ord.Before(r)
		c.Check("R-ORDER", an.FuncName(g)+"/reset-before-answer", "the failed caller is answered only after the reset finished (the reservation is not still held when the next invocation arrives)", may&1 == 0, an.InstrPos(r), 1, "answer possibly sent before Reset: %v", may&1 != 0)
		// and an answer follows
		aft := an.NewAfter(g, func(in ssa.Instruction) uint64 {
			if s, ok := in.(*ssa.Send); ok && chanName(s.Chan) == "releaseErrChan" {
				return 1
			}
			return 0
		}, false)
		c.Check("R-ORDER", an.FuncName(g)+"/answer-after-reset", "after the reset the failure is reported to the caller on every path", aft.Following(r)&1 != 0, an.InstrPos(r), 1, "send certainly follows: %v", aft.Following(r)&1 != 0)
	}
	// Server.Reset: Clear after sandbox reset; Release after done
	if rg := fn(c, rapidcP, "(*Server).Reset$1"); rg != nil {
		sb := an.CallsTo(rg, "L/interop.SandboxContext.Reset")
		cl := an.CallsTo(rg, srvT+".Clear")
		ok := len(sb) == 1 && len(cl) == 1 && an.InstrDominates(sb[0], cl[0])
		pos := fpos(rg)
		if len(cl) > 0 {
			pos = an.InstrPos(cl[0])
		}
		c.Check("R-ORDER", an.FuncName(rg)+"/clear-after-sandbox-reset", "the server's reservation state is cleared only after the sandbox reset has returned (a caller arriving during the reset is still refused)", ok, pos, 2, "sandbox reset calls: %d, Clear calls: %d, order ok: %v", len(sb), len(cl), ok)
		ndone := 0
		for _, s := range allSends(rg) {
			if chanName(s.Chan) == "ResetDoneChan" {
				ndone++
				okd := len(cl) == 1 && an.InstrDominates(cl[0], s)
				c.Check("R-ORDER", sprintf("%s/done-after-clear%d", an.FuncName(rg), ndone), "reset completion is signalled only after the state was cleared", okd, an.InstrPos(s), 1, "Clear dominates: %v", okd)
			}
		}
	}
}

func allSends(f *ssa.Function) []*ssa.Send {
	var out []*ssa.Send
	an.AllInstrs(f, func(in ssa.Instruction) {
		if s, ok := in.(*ssa.Send); ok {
			out = append(out, s)
		}
	})
	return out
}

// checkFrontEndStatus decodes `case rapidcore.ErrX: w.WriteHeader(N)` of InvokeHandler.
func checkFrontEndStatus(c *report.Ctx, want map[string]int64) map[string]int64 {
	f := fn(c, "M/cmd/aws-lambda-rie", "InvokeHandler")
	if f == nil {
		return nil
	}
	got := map[string]int64{}
	bodies := map[string]bool{}
	// per sentinel: the blocks reached after the sandbox call when every test of its error is decided as for that
	// sentinel (see assumeErrIs; arms merged by `case A, B:` keep no branch fact of their own)
	inv := an.CallsTo(f, "M/cmd/aws-lambda-rie.Sandbox.Invoke")
	type be struct {
		b *ssa.BasicBlock
		e string
	}
	var pairs []be
	if len(inv) == 1 {
		var sentinels []string
		for e := range want {
			sentinels = append(sentinels, e)
		}
		for _, g := range []string{"L/rapidcore.ErrAlreadyReserved", "L/rapidcore.ErrAlreadyInvocating", "L/rapidcore.ErrInternalServerError", "L/rapidcore.ErrInvokeTimeout", "L/rapidcore.ErrInitDoneFailed", "L/rapidcore.ErrInvokeDoneFailed"} {
			if _, has := want[g]; !has {
				sentinels = append(sentinels, g)
			}
		}
		sort.Strings(sentinels)
		for _, e := range sentinels {
			skip := assumeErrIs(inv[0].Value(), e)
			seen := map[*ssa.BasicBlock]bool{inv[0].Block(): true}
			var walk func(b *ssa.BasicBlock)
			walk = func(b *ssa.BasicBlock) {
				if seen[b] {
					return
				}
				seen[b] = true
				pairs = append(pairs, be{b, e})
				for _, sx := range b.Succs {
					if !skip(b, sx) {
						walk(sx)
					}
				}
			}
			for _, sx := range inv[0].Block().Succs {
				if !skip(inv[0].Block(), sx) {
					walk(sx)
				}
			}
		}
	}
	for _, pr := range pairs {
		b, errs := pr.b, []string{pr.e}
		for _, in := range b.Instrs {
			if call, ok := in.(ssa.CallInstruction); ok {
				if an.Callee(call) == "net/http.ResponseWriter.WriteHeader" {
					if n, k := an.ConstInt(call.Common().Args[0]); k {
						got[errs[0]] = n
					}
				}
				if an.Callee(call) == "net/http.ResponseWriter.Write" {
					if fr, ok := an.AsField(an.Strip(call.Common().Args[0], false)); ok && fr.Field == "Body" {
						bodies[errs[0]] = true
					}
				}
			}
		}
	}
	for e, n := range want {
		c.Check("R-CONST", "M/cmd/aws-lambda-rie.InvokeHandler/status/"+strings.TrimPrefix(e, "L/rapidcore."), sprintf("the front end answers %s with status %d", strings.TrimPrefix(e, "L/rapidcore."), n), got[e] == n, fpos(f), 1, "decoded: %v", got)
	}
	res := map[string]int64{}
	for k, v := range got {
		res[k] = v
	}
	for k := range bodies {
		res[k+"/body"] = 1
	}
	return res
}

func checkFrontEndInit(c *report.Ctx) {
	f := fn(c, "M/cmd/aws-lambda-rie", "InvokeHandler")
	if f == nil {
		return
	}
	g := "M/cmd/aws-lambda-rie.initDone"
	mu := "M/cmd/aws-lambda-rie.initMutex"
	nacc := 0
	var bad []string
	for _, h := range an.WithAnon(f) {
		held := an.NewHeld(h)
		an.AllInstrs(h, func(in ssa.Instruction) {
			touches := false
			switch x := in.(type) {
			case *ssa.UnOp:
				if gl, ok := x.X.(*ssa.Global); ok && x.Op == token.MUL && "M/cmd/aws-lambda-rie."+gl.Name() == g {
					touches = true
				}
			case *ssa.Store:
				if gl, ok := x.Addr.(*ssa.Global); ok && "M/cmd/aws-lambda-rie."+gl.Name() == g {
					touches = true
				}
			}
			if an.IsCallTo(in, "M/cmd/aws-lambda-rie.InitHandler") {
				touches = true
			}
			if touches {
				nacc++
				if !held.At(in)[mu] {
					bad = append(bad, an.Describe(in)+" in "+an.FuncName(h))
				}
			}
		})
	}
	c.Check("R-LOCK", g+"/serialised", "the first-call initialisation (test of initDone, InitHandler, set of initDone) runs under one mutex, so two early callers cannot both initialise the sandbox", len(bad) == 0 && nacc >= 3, fpos(f), nacc, "%d accesses; unguarded: %v", nacc, bad)
	// the mutex is not held while the invocation runs (later callers are refused at once, not queued)
	for _, h := range an.WithAnon(f) {
		held := an.NewHeld(h)
		for _, call := range an.CallsTo(h, "M/cmd/aws-lambda-rie.Sandbox.Invoke") {
			c.Check("R-LOCK", "M/cmd/aws-lambda-rie.InvokeHandler/init-mutex-not-held-across-invoke", "the initialisation mutex is released before the invocation itself (a second caller reaches the reservation test immediately)", !held.At(call)[mu] && !held.AtExit[mu], an.InstrPos(call), 1, "held at Invoke: %s; deferred unlock in the same function: %v", fmtSet(held.At(call)), held.AtExit[mu])
		}
	}
	// other writers of initDone
	var writers []string
	for _, h := range repoFuncs(c) {
		if len(an.GlobalStores(h, g)) > 0 {
			writers = append(writers, an.FuncName(h))
		}
	}
	sort.Strings(writers)
	okW := true
	for _, w := range writers {
		if !strings.HasPrefix(w, "M/cmd/aws-lambda-rie.InvokeHandler") && !strings.HasSuffix(w, ".init") {
			okW = false
		}
	}
	c.Check("R-WHO", g+"/writers", "initDone is written only inside InvokeHandler's guarded block", okW, fpos(f), len(writers), "writers: %v", writers)
}

func noteErrUseOutside(c *report.Ctx, f *ssa.Function, nilOnError func(*ssa.Function) bool) {
	an.AllInstrs(f, func(in ssa.Instruction) {
		call, ok := in.(*ssa.Call)
		if !ok {
			return
		}
		callee := call.Call.StaticCallee()
		if callee == nil || !nilOnError(callee) {
			return
		}
		facts := an.NewFacts(f)
		for _, ref := range *call.Referrers() {
			ex, ok := ref.(*ssa.Extract)
			if !ok || ex.Index != 0 {
				continue
			}
			for _, r2 := range *ex.Referrers() {
				if cc, ok := r2.(ssa.CallInstruction); ok && cc.Common().IsInvoke() && cc.Common().Value == ssa.Value(ex) {
					known := facts.Holds(r2.Block(), func(ft an.Fact) bool {
						return an.CmpNil(ft, true, func(v ssa.Value) bool { e2, k := v.(*ssa.Extract); return k && e2.Tuple == call && e2.Index == 1 })
					})
					if !known {
						c.Note("observation (start-up code, outside service-time scope): %s uses the result of %s at %s without knowing the call succeeded", an.FuncName(f), an.FuncName(callee), c.P.Pos(an.InstrPos(r2)))
					}
				}
			}
		}
	})
}
