package props

import (
	"go/token"
	"sort"
	"strings"

	"golang.org/x/tools/go/ssa"

	"verif/checker/internal/an"
	"verif/checker/internal/report"
)

func init() {
	register(&Prop{
		Spec: report.Spec{
			ID: "C06",
			Explanation: "The crash-point quantifier needs real processes; what is decided is the bookkeeping that turns a fault into the right outcome. The events watcher, in every iteration, hands the exit to the shutdown bookkeeping and, for an unexpected exit, records Runtime.ExitError (when the name is this generation's runtime name) or Extension.Crash before it cancels the flows; the first recorded fault wins (StoreIfNotExists is the only writer of that key); " +
				"every invoke failure carries a non-nil default error response built from the first fatal error (else Sandbox.Failure), which makes the 'nil default response' panic unreachable; every launch-failure return is preceded by recording a cause; extension init/exit error reports record their fault only after the transition was accepted; the failed-invoke branch sends the cached init error else the default error before it signals DONE(fail), AwaitRelease turns a non-empty error type into ErrInvokeDoneFailed, Invoke resets before it reports, and the front end answers both failure kinds with 502 and the captured body; the cached init error does not outlive the reset. " +
				"Added after the blind rounds: the first-fatal-error record is deleted only by the teardown; every unexpected exit cancels the flows whatever its status; the reservation is freed only on success; the latch reports a cancellation; R-ERRID for the failure statuses. " +
				"NOT decided: which body reaches the caller at each crash point of each script (needs processes).",
			RuleText:    "one obligation per bookkeeping rule, per launch-failure exit, per status-mapping branch",
			Assumptions: trusted,
			MinObs:      25,
		},
		Run: runC06,
	})
}

func runC06(c *report.Ctx) {
	checkWatcherErrorNonNil(c)
	checkGatePrimitive(c) // a cancelled barrier must report the cancellation, else a fault while idle is answered as success
	checkErrorIdentity(c, scopeFrontEnd, frontEndDeadCases, 8)
	checkAwaitReleaseOnlyOnSuccess(c)
	c.Clause("1 events watcher")
	checkWatcherRecordsBeforeCancel(c)
	checkWatcherIteration(c)
	c.Clause("2 failure always carries a body")
	checkFailureHasBody(c)
	c.Clause("3 first fault wins")
	checkFirstFatalErrorLifetime(c)
	checkCancelRearmed(c)   // after a recovery the next fault must again be able to cancel the waiting handler
	checkAppCtxKeys(c)      // the record does not leak into the next generation
	checkReplySinkGuards(c) // a reply is marked sent only when one was produced: the substitute error still goes out
	checkFirstFaultPrecedence(c)
	c.Clause("4 launch failures record a cause")
	checkLaunchFailures(c)
	c.Clause("5 extension error reports")
	checkAgentFaultReports(c)
	c.Clause("6 failed invoke: body, DONE(fail), reset, 502")
	checkFastInvokeFailureBranch(c)
	checkInvokeRefusalPath(c)
	got := checkFrontEndStatus(c, map[string]int64{"L/rapidcore.ErrInitDoneFailed": 502, "L/rapidcore.ErrInvokeDoneFailed": 502})
	okB := got["L/rapidcore.ErrInitDoneFailed/body"] == 1 && got["L/rapidcore.ErrInvokeDoneFailed/body"] == 1
	c.Check("R-WIRE", "M/cmd/aws-lambda-rie.InvokeHandler/failure-body", "both failure kinds are answered with the body captured from the platform (the runtime's own response, its init error, or the default error)", okB, token.NoPos, 2, "%v", okB)
	c.Clause("7 cached init error does not outlive the reset")
	if cl := fn(c, rapidcP, "(*Server).Clear"); cl != nil {
		ok := false
		for _, call := range an.CallsTo(cl, srvT+".setCachedInitErrorResponse") {
			ok = an.IsNil(call.Common().Args[1])
		}
		c.Check("R-RESET", srvT+"/cachedInitErrorResponse/cleared", "the cached init error belongs to one generation: it is forgotten when the server state is cleared by a reset", ok, fpos(cl), 1, "%v", ok)
	}
}

// checkWatcherIteration: every iteration reaches handleProcessExit; the runtime name compared embeds the generation.
func checkWatcherIteration(c *report.Ctx) {
	f := fn(c, "L/rapid", "(*rapidContext).watchEvents")
	if f == nil {
		return
	}
	name := an.FuncName(f)
	hpe := an.CallsTo(f, shutT+".handleProcessExit")
	pt := an.CallsTo(f, "L/supervisor/model.EventData.ProcessTerminated")
	ok := len(hpe) == 1 && len(pt) == 1 && an.InLoop(hpe[0]) && an.InstrDominates(pt[0], hpe[0])
	// handed over unconditionally within the iteration: handleProcessExit's block post-dominates the classification:
	// approximated by: its block is not guarded by the shutting-down test
	facts := an.NewFacts(f)
	if ok {
		guarded := facts.Holds(hpe[0].Block(), func(ft an.Fact) bool { return an.IsResultOf(ft.Cond, shutT+".isShuttingDown", -1) })
		ok = !guarded
	}
	c.Check("R-ORDER", name+"/every-exit-handed-over", "every termination event, expected or not, is handed to the shutdown bookkeeping (so whoever waits for that process is released)", ok, fpos(f), 2, "%v", ok)
	// classification by this generation's runtime name
	okN := false
	an.AllInstrs(f, func(in ssa.Instruction) {
		bo, k := in.(*ssa.BinOp)
		if !k || bo.Op != token.EQL {
			return
		}
		if cl, _ := an.CallOf(bo.Y); cl != nil && an.Callee(cl) == "fmt.Sprintf" {
			fs, _ := an.ConstString(cl.Call.Args[0])
			if fs == "%s-%d" {
				okN = true
			}
		}
	})
	stores := an.CallsTo(f, "L/appctx.StoreFirstFatalError")
	okG := true
	for _, s := range stores {
		if !facts.Holds(s.Block(), func(ft an.Fact) bool { return !ft.Val && an.IsResultOf(ft.Cond, shutT+".isShuttingDown", -1) }) {
			okG = false
		}
	}
	// two recordings: one per arm, or one call handed the fault type chosen by the comparison (read per edge of the join)
	nrec := recordingCount(f, facts, "L/appctx.StoreFirstFatalError", 1)
	c.Check("R-GUARD", name+"/classification", "an exit is a fault only while not shutting down, and it is the runtime's exactly when the name equals this generation's runtime name", okN && okG && nrec == 2, fpos(f), 3, "compares with Sprintf(\"%%s-%%d\", runtime, generation): %v; faults recorded only when not shutting down: %v", okN, okG)
}

func checkFirstFaultPrecedence(c *report.Ctx) {
	if f := fn(c, "L/appctx", "StoreFirstFatalError"); f != nil {
		ok := len(an.CallsTo(f, "L/appctx.ApplicationContext.StoreIfNotExists")) == 1 && len(an.CallsTo(f, "L/appctx.ApplicationContext.Store")) == 0
		c.Check("R-WHO", an.FuncName(f)+"/store-if-absent", "recording a fault never overwrites an earlier one", ok, fpos(f), 1, "%v", ok)
	}
	// nobody Stores the key directly
	k := c.P.Const("L/appctx", "AppCtxFirstFatalErrorKey")
	kn := int64(-1)
	if k != nil {
		kn, _ = an.ConstInt(k.Value)
	}
	var direct []string
	for _, f := range repoFuncs(c) {
		if strings.HasPrefix(an.FuncName(f), "L/testdata.") {
			continue
		}
		for _, call := range an.CallsTo(f, "L/appctx.ApplicationContext.Store", "L/appctx.ApplicationContext.StoreIfNotExists") {
			if n, isC := an.ConstInt(call.Common().Args[0]); isC && n == kn && an.FuncName(f) != "L/appctx.StoreFirstFatalError" {
				direct = append(direct, an.FuncName(f))
			}
		}
	}
	c.Check("R-WHO", "L/appctx.AppCtxFirstFatalErrorKey/single-writer", "the first-fatal-error key is written only through StoreFirstFatalError", len(direct) == 0 && kn >= 0, token.NoPos, 1, "other writers: %v", direct)
	if f := fn(c, "L/appctx", "(*applicationContext).StoreIfNotExists"); f != nil {
		facts := an.NewFacts(f)
		ok := false
		an.AllInstrs(f, func(in ssa.Instruction) {
			if mu, isMU := in.(*ssa.MapUpdate); isMU {
				ok = facts.Holds(mu.Block(), func(ft an.Fact) bool {
					ex, k := ft.Cond.(*ssa.Extract)
					if !k || ft.Val || ex.Index != 1 {
						return false
					}
					_, isL := ex.Tuple.(*ssa.Lookup)
					return isL
				})
			}
		})
		c.Check("R-GUARD", an.FuncName(f)+"/only-if-absent", "StoreIfNotExists stores only when the key is absent", ok, fpos(f), 1, "%v", ok)
	}
	for _, g := range []string{"newInvokeFailureMsg", "generateInitFailureMsg"} {
		f := fn(c, "L/rapid", g)
		if f == nil {
			continue
		}
		lf := an.CallsTo(f, "L/appctx.LoadFirstFatalError")
		fb := false
		an.AllInstrs(f, func(in ssa.Instruction) {
			if ph, k := in.(*ssa.Phi); k {
				for _, e := range ph.Edges {
					if s, k2 := an.ConstString(e); k2 && s == "Sandbox.Failure" {
						fb = true
					}
				}
			}
		})
		c.Check("R-WIRE", an.FuncName(f)+"/error-type-source", "a failure message names the first recorded fault, else Sandbox.Failure", len(lf) == 1 && fb, fpos(f), 2, "loads the first fatal error: %v; fallback Sandbox.Failure: %v", len(lf) == 1, fb)
	}
	if f := fn(c, "L/rapid", "handleInvokeError"); f != nil {
		ok := false
		for _, call := range an.CallsTo(f, "L/interop.GetErrorResponseWithFormattedErrorMessage") {
			a := call.Common().Args
			f0, k0 := an.AsField(an.Strip(a[0], false))
			f2, k2 := an.AsField(an.Strip(a[2], false))
			ok = k0 && k2 && f0.Field == "ErrorType" && f2.Field == "ID"
		}
		c.Check("R-WIRE", an.FuncName(f)+"/default-body-fields", "the default error body carries that error type and this invocation's request id", ok, fpos(f), 1, "%v", ok)
	}
}

func checkLaunchFailures(c *report.Ctx) {
	for _, fname := range []string{"doInitExtensions", "doRuntimeDomainInit"} {
		f := fn(c, "L/rapid", fname)
		if f == nil {
			continue
		}
		facts := an.NewFacts(f)
		execs := an.CallsTo(f, supExec)
		if len(execs) != 1 {
			continue
		}
		ev := execs[0].Value()
		ord := an.NewOrder(f, func(in ssa.Instruction) uint64 {
			if an.IsCallTo(in, "L/appctx.StoreFirstFatalError", "L/rapid.agentLaunchError") {
				return 1
			}
			return 0
		})
		n := 0
		ok := true
		for _, e := range an.Exits(f) {
			failed := facts.Holds(e.Ret.Block(), func(ft an.Fact) bool {
				return an.CmpNil(ft, false, func(v ssa.Value) bool { return an.Strip(v, false) == ssa.Value(ev) })
			})
			if !failed {
				continue
			}
			n++
			// the store must be on the path after the failed Exec: in a block where the failure is known
			stored := false
			for _, b := range f.Blocks {
				if !facts.Holds(b, func(ft an.Fact) bool {
					return an.CmpNil(ft, false, func(v ssa.Value) bool { return an.Strip(v, false) == ssa.Value(ev) })
				}) {
					continue
				}
				for _, in := range b.Instrs {
					if an.IsCallTo(in, "L/appctx.StoreFirstFatalError", "L/rapid.agentLaunchError") && (an.InstrDominates(in, e.Ret) || reachesWithin(b, e.Ret.Block())) {
						stored = true
					}
				}
			}
			must, _ := ord.Before(e.Ret)
			if !stored && must&1 == 0 {
				ok = false
			}
		}
		c.Check("R-ORDER", "L/rapid."+fname+"/launch-failure-records-cause", "a process that fails to launch makes the initialisation fail with a recorded cause (Extension.LaunchError, Runtime.InvalidEntrypoint, or the bootstrap's own error)", ok && n >= 1, fpos(f), n, "failing exits after Exec: %d, each preceded by recording a cause: %v", n, ok)
	}
	// wherever an external agent is moved to LaunchError, Extension.LaunchError is recorded before the function returns
	{
		nsites, ok, got := 0, true, ""
		pos := token.NoPos
		for _, st := range callSites(c, "L/core.ExternalAgent.LaunchError") {
			if !strings.HasPrefix(an.FuncName(st.Fn), "L/rapid.") {
				continue
			}
			nsites++
			pos = an.InstrPos(st.Call)
			rec := func(in ssa.Instruction) bool {
				call, isCall := in.(ssa.CallInstruction)
				if !isCall || !an.IsCallTo(in, "L/appctx.StoreFirstFatalError") || len(call.Common().Args) < 2 {
					return false
				}
				s, _ := an.ConstString(call.Common().Args[1])
				if s != "" {
					got = s
				}
				return s == "Extension.LaunchError"
			}
			if returnReachableAfter(st.Call, rec) {
				ok = false
			}
		}
		c.Check("R-CONST", "L/rapid.agentLaunchError/records", "a launch error moves the agent to LaunchError and records Extension.LaunchError", ok && nsites >= 1, pos, nsites, "LaunchError transitions in the init flow: %d, each followed by recording %q: %v", nsites, got, ok)
	}
	if f := fn(c, "L/rapid", "doRuntimeBootstrap"); f != nil {
		ord := an.NewOrder(f, func(in ssa.Instruction) uint64 {
			if an.IsCallTo(in, "L/appctx.StoreFirstFatalError") {
				return 1
			}
			return 0
		})
		ok := true
		n := 0
		for _, e := range an.Exits(f) {
			if an.IsNil(e.Vals[len(e.Vals)-1]) {
				continue
			}
			n++
			if must, _ := ord.Before(e.Ret); must&1 == 0 {
				ok = false
			}
		}
		c.Check("R-ORDER", an.FuncName(f)+"/bootstrap-failure-records-cause", "a bootstrap that cannot be resolved (entrypoint, working directory) fails with a recorded cause", ok && n == 2, fpos(f), n, "failing exits: %d, each after StoreFirstFatalError: %v", n, ok)
	}
}

// reachesWithin: b reaches target through single-successor blocks only.
func reachesWithin(b, target *ssa.BasicBlock) bool {
	for i := 0; i < 8 && b != nil; i++ {
		if b == target {
			return true
		}
		if len(b.Succs) != 1 {
			return false
		}
		b = b.Succs[0]
	}
	return false
}

func checkFastInvokeFailureBranch(c *report.Ctx) {
	g := fn(c, rapidcP, "(*Server).FastInvoke$1")
	if g == nil {
		return
	}
	name := an.FuncName(g)
	facts := an.NewFacts(g)
	sends := an.CallsTo(g, srvT+".trySendDefaultErrorResponse")
	ok := len(sends) == 2
	var cached, def ssa.CallInstruction
	for _, s := range sends {
		a := s.Common().Args
		if an.IsResultOf(a[2], srvT+".getCachedInitErrorResponse", -1) {
			cached = s
		} else if fr, k := an.AsField(an.Strip(a[2], false)); k && fr.Field == "DefaultErrorResponse" {
			def = s
		}
	}
	ok = ok && cached != nil && def != nil
	isCached := func(v ssa.Value) bool { return an.IsResultOf(v, srvT+".getCachedInitErrorResponse", -1) }
	if ok {
		ok = facts.Holds(cached.Block(), func(ft an.Fact) bool { return an.CmpNil(ft, false, isCached) }) &&
			facts.Holds(def.Block(), func(ft an.Fact) bool { return an.CmpNil(ft, true, isCached) })
	} else if len(sends) == 1 {
		// the choice made first and sent once: the response handed over joins the cached payload, chosen where it is
		// known to be there, and the default, chosen where it is known not to be
		if ph, isPhi := an.Strip(sends[0].Common().Args[2], false).(*ssa.Phi); isPhi && len(ph.Edges) == 2 {
			nc, nd := 0, 0
			for i, e := range ph.Edges {
				p := ph.Block().Preds[i]
				knownThere := facts.Holds(p, func(ft an.Fact) bool { return an.CmpNil(ft, false, isCached) })
				if iff, isIf := p.Instrs[len(p.Instrs)-1].(*ssa.If); isIf && !knownThere && len(p.Succs) == 2 && p.Succs[0] != p.Succs[1] {
					// (the edge itself may be the one that says so: `r := cached; if r == nil { r = default }`)
					for k, sx := range p.Succs {
						if sx == ph.Block() && an.CmpNil(an.Fact{Cond: iff.Cond, Val: k == 0}, false, isCached) {
							knownThere = true
						}
					}
				}
				if isCached(e) && knownThere {
					nc++
				}
				if fr, k := an.AsField(an.Strip(e, false)); k && fr.Field == "DefaultErrorResponse" && facts.Holds(p, func(ft an.Fact) bool { return an.CmpNil(ft, true, isCached) }) {
					nd++
				}
			}
			ok = nc == 1 && nd == 1
		}
	}
	c.Check("R-GUARD", name+"/cached-init-error-else-default", "a failed invocation is answered with the runtime's own init-error payload when there is one, else with the default error naming the first fault", ok, fpos(g), 2, "%v", ok)
	// body before DONE(fail)
	okO := true
	nd := 0
	for _, s := range allSends(g) {
		if chanName(s.Chan) != "InvokeDoneChan" {
			continue
		}
		// the failure DONE: in a block where invokeFailure != nil
		failing := facts.Holds(s.Block(), func(ft an.Fact) bool {
			return an.CmpNil(ft, false, func(v ssa.Value) bool {
				cl, idx := an.CallOf(v)
				return cl != nil && an.Callee(cl) == "L/interop.InvokeContext.Wait" && idx == 1
			})
		})
		if !failing {
			continue
		}
		nd++
		ord := an.NewOrder(g, func(in ssa.Instruction) uint64 {
			if an.IsCallTo(in, srvT+".trySendDefaultErrorResponse") {
				return 1
			}
			return 0
		})
		if must, _ := ord.Before(s); must&1 == 0 {
			okO = false
		}
	}
	c.Check("R-ORDER", name+"/body-before-done", "the failure body is sent to the caller's stream before DONE(fail) is signalled (so the caller that is then answered finds the body)", okO && nd == 1, fpos(g), nd, "failure DONE sends: %d, preceded by the body: %v", nd, okO)
	// reset-received failures are left to the reset
	okRR := false
	for _, e := range an.Exits(g) {
		if facts.Holds(e.Ret.Block(), func(ft an.Fact) bool { return ft.Val && loadOf("L/interop.InvokeFailure", "ResetReceived")(ft.Cond) }) {
			ord := an.NewOrder(g, func(in ssa.Instruction) uint64 {
				if _, k := in.(*ssa.Send); k {
					return 1
				}
				return 0
			})
			_, may := ord.Before(e.Ret)
			okRR = may&1 == 0
		}
	}
	c.Check("R-NOEFFECT", name+"/reset-received-yields", "an invocation interrupted by a reset leaves the outcome to the reset (no DONE, no body)", okRR, fpos(g), 1, "%v", okRR)
	if ar := fn(c, rapidcP, "(*Server).AwaitRelease"); ar != nil {
		af := an.NewFacts(ar)
		// (a) the release succeeds (nil error) only when the DONE carries no error type;
		// (b) some exit reports ErrInvokeDoneFailed, and only when an error type is present.
		okNil, okFail, nNil, nFail := true, true, 0, 0
		sign := func(b *ssa.BasicBlock) (zero, nonzero bool) {
			for _, ft := range af.At(b) {
				if x, z, nz := an.LenSign(ft); x != nil {
					if fr, k := an.AsField(x); k && fr.Field == "ErrorType" {
						zero, nonzero = zero || z, nonzero || nz
					}
				}
			}
			return
		}
		for _, e := range an.Exits(ar) {
			if len(e.Vals) != 2 {
				continue
			}
			z, nz := sign(e.Ret.Block())
			switch {
			case an.IsNil(e.Vals[1]):
				nNil++
				okNil = okNil && z
			case an.GlobalOf(e.Vals[1]) == "L/rapidcore.ErrInvokeDoneFailed":
				nFail++
				okFail = okFail && nz
			}
		}
		ok := okNil && okFail && nNil >= 1 && nFail >= 1
		c.Check("R-GUARD", an.FuncName(ar)+"/error-type-means-failure", "the release succeeds only for a DONE without error type; a DONE carrying an error type makes it fail (ErrInvokeDoneFailed unless it is the init failure)", ok, fpos(ar), nNil+nFail, "successful exits: %d (all under 'no error type': %v); ErrInvokeDoneFailed exits: %d (all under 'error type present': %v)", nNil, okNil, nFail, okFail)
	}
	var names []string
	for _, st := range callSites(c, srvT+".trySendDefaultErrorResponse") {
		names = append(names, an.FuncName(st.Fn))
	}
	sort.Strings(names)
	_ = names
}

var _ = report.Discharged

// checkAgentFaultReports: /extension/init/error and /extension/exit/error record their fault only after the
// reporting extension's transition was accepted.
func checkAgentFaultReports(c *report.Ctx) {
	for _, h := range []struct {
		fn, trans1, trans2, want string
	}{
		{"(*agentInitErrorHandler).ServeHTTP", "L/core.ExternalAgent.InitError", "L/core.InternalAgent.InitError", "Extension.InitError"},
		{"(*agentExitErrorHandler).ServeHTTP", "L/core.ExternalAgent.ExitError", "L/core.InternalAgent.ExitError", "Extension.ExitError"},
	} {
		f := fn(c, "L/rapi/handler", h.fn)
		if f == nil {
			continue
		}
		checkTransitionFirst(c, f, []string{h.trans1, h.trans2}, "L/core.", "L/rapi/handler.errAgentInvalidState")
		got := ""
		for _, call := range an.CallsTo(f, "L/appctx.StoreFirstFatalError") {
			got, _ = an.ConstString(call.Common().Args[1])
		}
		c.Check("R-CONST", an.FuncName(f)+"/fault-type", "an accepted report records "+h.want, got == h.want, fpos(f), 1, "%q", got)
	}
}
