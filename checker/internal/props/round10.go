package props

// Rules added after the ninth blind round (per property; three kinds of manifestation asked for: two cooperating
// sites, a history or interleaving, an unusual input).

import (
	"go/token"
	"go/types"
	"sort"
	"strings"

	"golang.org/x/tools/go/ssa"

	"verif/checker/internal/an"
	"verif/checker/internal/load"
	"verif/checker/internal/report"
)

func init() {
	add := func(id string, fs ...func(*report.Ctx)) { round5Rules[id] = append(round5Rules[id], fs...) }
	add("C05", checkEveryLaunchedAgentShutDown)
	add("C09", checkEveryLaunchedAgentShutDown, checkSupervisorCallsUncancellable)
	add("C10", checkInvokeAnsweredAfterSandbox)
	add("C13", checkAgentErrorTypeNonEmpty)
	add("C14", checkMetricsOnlyForDeliveredReply, checkRefusedResponseLeavesReplyUntouched)
	add("C17", checkDirectInvokeKeepsNoHistory, checkLimiterClosedByCopyOnly)
	add("C19", checkSupervisorEventsIsTheChannel)
	add("C16", checkExecEnvUsedAsBuilt)
	add("C13", checkNoLostReceiverWrites, checkCountAgentsCountsAll)
	add("C08", checkNoLostReceiverWrites)
	add("C03", checkNoLostReceiverWrites, checkRegistrationRules, checkGateCounts, checkAgentHandlers)
	// rules that reported a round-9 seed through a sibling property only
	add("C01", checkCancelRearmed)
	add("C02", checkIDAndDeadline)
	add("C05", checkShutdownAgents)
	add("C06", checkFreshExecRequestPerProcess, checkCarriersAll)
	add("C09", checkExecThenChannel)
	add("C12", checkInitTypeBeforeServer)
	add("C15", checkAppCtxKeys)
	add("C07", checkFastInvokeWaitsForSender, checkConstSlicesGuarded)
	add("C01", checkFastInvokeWaitsForSender, checkInvokeAnsweredAfterSandbox, checkMetricsOnlyForDeliveredReply)
	add("C05", checkFastInvokeWaitsForSender, checkSupervisorCallsUncancellable)
}

var round10Text = map[string]string{
	"C05": "Round 10: the teardown treats every extension that was launched, whatever state it reports; the reset's goroutine is created before anything takes the server mutex; the dispatcher abandons the reply sink only when the reservation is cancelled.",
	"C07": "Round 10: the dispatcher abandons the reply sink only when the reservation is cancelled.",
	"C01": "Round 10: the dispatcher abandons the reply sink only when the reservation is cancelled.",
	"C09": "Round 10: the teardown treats every extension that was launched, whatever state it reports; its supervisor requests carry a context that cannot expire and the local supervisor consults none.",
	"C13": "Round 10: an extension's error transition needs a non-empty error type.",
	"C14": "Round 10: response metrics are handed over only after the reply was written, on an unbuffered channel; a refused response has not touched the reply stream.",
	"C17": "Round 10: the direct-invoke package keeps no state between requests and Load starts from the empty record; only the copy closes the limiting writer.",
	"C19": "Round 10: Events hands out the one event channel itself.",
	"C16": "Round 10: package rapid uses the exec environments exactly as the env package built them.",
	"C10": "Round 10: the invoke endpoint writes nothing to its caller before the sandbox answered and invokes it on the request itself.",
}

var _ = func() bool {
	for id, t := range round10Text {
		round5Text[id] += " " + t
	}
	return true
}()

var (
	_ = token.NoPos
	_ = types.Typ
	_ = sort.Strings
	_ = strings.TrimSpace
)

// condMentions walks the definition of a branch condition (through arithmetic, comparisons, conversions, φs and
// extractions) and reports the calls and the field loads it depends on.
func condMentions(v ssa.Value, fx ...*an.Facts) (calls []string, fields []string) {
	seen := map[ssa.Value]bool{}
	var walk func(v ssa.Value, d int)
	walk = func(v ssa.Value, d int) {
		if v == nil || seen[v] || d > 8 {
			return
		}
		seen[v] = true
		switch x := v.(type) {
		case *ssa.Call:
			calls = append(calls, an.Callee(x))
		case *ssa.UnOp:
			if x.Op == token.MUL {
				if fr, ok := an.AsField(x.X); ok {
					fields = append(fields, fr.Struct+"."+fr.Field)
					return
				}
			}
			walk(x.X, d+1)
		case *ssa.BinOp:
			walk(x.X, d+1)
			walk(x.Y, d+1)
		case *ssa.Extract:
			walk(x.Tuple, d+1)
		case *ssa.Phi:
			for i, e := range x.Edges {
				walk(e, d+1)
				// a joined flag says what the branches that chose its value said
				if len(fx) > 0 && fx[0] != nil && x.Block() != nil && i < len(x.Block().Preds) {
					for _, ft := range fx[0].At(x.Block().Preds[i]) {
						walk(ft.Cond, d+1)
					}
				}
			}
		case *ssa.Convert:
			walk(x.X, d+1)
		case *ssa.ChangeType:
			walk(x.X, d+1)
		case *ssa.TypeAssert:
			walk(x.X, d+1)
		case *ssa.Lookup:
			walk(x.X, d+1)
			walk(x.Index, d+1)
		case *ssa.Index:
			walk(x.X, d+1)
		case *ssa.IndexAddr:
			walk(x.X, d+1)
		}
	}
	walk(v, 0)
	sort.Strings(calls)
	sort.Strings(fields)
	return
}

// checkEveryLaunchedAgentShutDown (C05, C09): whether an extension takes part in the teardown depends on one thing
// only - whether it was launched (it has an exit channel); what is done to it depends on its SHUTDOWN subscription.
// A guard on anything else (the state the extension reports, its name, a counter) leaves a live process behind.
func checkEveryLaunchedAgentShutDown(c *report.Ctx) {
	f := fn(c, "L/rapid", "(*shutdownContext).shutdownAgents")
	if f == nil {
		return
	}
	facts := an.NewFacts(f)
	allowedCall := map[string]bool{shutT + ".getExitedChannel": true, "L/core.ExternalAgent.IsSubscribed": true, "len": true, "builtin.len": true}
	n := 0
	var bad []string
	pos := fpos(f)
	an.AllInstrs(f, func(in ssa.Instruction) {
		g, ok := in.(*ssa.Go)
		if !ok {
			return
		}
		n++
		for _, ft := range facts.At(g.Block()) {
			calls, fields := condMentions(ft.Cond, facts)
			for _, cl := range calls {
				if !allowedCall[cl] {
					bad = append(bad, "call "+cl)
					pos = g.Pos()
				}
			}
			for _, fl := range fields {
				bad = append(bad, "field "+fl)
				pos = g.Pos()
			}
		}
	})
	c.Check("R-GUARD", an.FuncName(f)+"/every-launched-extension-treated", "whether an extension is torn down depends only on whether it was launched (exit channel found), how on its SHUTDOWN subscription: no other condition guards the per-extension goroutines", n == 2 && len(bad) == 0, pos, n, "goroutine sites: %d; other conditions they are started under: %v", n, uniq(bad))
}

// checkFastInvokeWaitsForSender (C01, C05, C07): the reply sink hands the response metrics over on an unbuffered
// channel while it holds the server mutex. The dispatcher's wait for them may be given up only when the reservation is
// cancelled (Release, which a reset performs after the runtime is gone): any other way out - a timer, a default case -
// leaves the sink blocked under the mutex, and everything that needs the mutex after it.
func checkFastInvokeWaitsForSender(c *report.Ctx) {
	f := fn(c, rapidcP, "(*Server).FastInvoke")
	if f == nil {
		return
	}
	isMetricsChan := loadOf(srvT, "sendResponseChan")
	n := 0
	var bad []string
	pos := fpos(f)
	an.AllInstrs(f, func(in ssa.Instruction) {
		sel, ok := in.(*ssa.Select)
		if !ok {
			return
		}
		has := false
		for _, st := range sel.States {
			if st.Dir == types.RecvOnly && isMetricsChan(st.Chan) {
				has = true
			}
		}
		if !has {
			return
		}
		if !sel.Blocking {
			// a poll is no wait; the one before the hand-over to the invoker (an answer that is already there) is fine
			before := false
			an.AllInstrs(f, func(g ssa.Instruction) {
				if _, isGo := g.(*ssa.Go); isGo && an.InstrDominates(sel, g) {
					before = true
				}
			})
			if !before {
				bad = append(bad, "poll with a default case after the hand-over")
				pos = sel.Pos()
			}
			return
		}
		n++
		pos = sel.Pos()
		for _, st := range sel.States {
			if st.Dir == types.RecvOnly && isMetricsChan(st.Chan) {
				continue
			}
			okc := false
			if cl, _ := an.CallOf(st.Chan); cl != nil && an.Callee(cl) == "context.Context.Done" && st.Dir == types.RecvOnly {
				okc = loadOf(srvT, "reservationContext")(cl.Call.Value)
			}
			if !okc {
				bad = append(bad, "case on "+an.Path(st.Chan))
			}
		}
	})
	// a plain receive outside a select would be fine too (it waits); only selects can give up
	c.Check("R-GUARD", an.FuncName(f)+"/waits-for-the-reply-sink", "the dispatcher gives up waiting for the reply sink's hand-over only when the reservation is cancelled (the sink sends while holding the server mutex: abandoning it any other way wedges the server)", n >= 1 && len(bad) == 0, pos, n, "selects receiving the response metrics: %d; other ways out: %v", n, bad)
}

// checkConstSlicesGuarded (C07): a truncation x[:K] (or x[i:K]) with a constant bound panics when x is shorter. In
// code that runs while the emulator serves, every such expression on a string or slice stands under a branch fact
// that bounds the length of THAT VERY value (len(x) > K, len(x) >= K, ...): a guard on the length of another value
// (the string before a []rune conversion, say) does not protect it.
func checkConstSlicesGuarded(c *report.Ctx) {
	reach := serviceReachable(c)
	n := 0
	var bad []string
	pos := token.NoPos
	for _, f := range repoFuncs(c) {
		if !reach[f] {
			continue
		}
		var facts *an.Facts
		an.AllInstrs(f, func(in ssa.Instruction) {
			sl, ok := in.(*ssa.Slice)
			if !ok {
				return
			}
			switch sl.X.Type().Underlying().(type) {
			case *types.Pointer: // pointer to array: the size is static, the compiler checks constant bounds
				return
			}
			var k int64 = -1
			for _, b := range []ssa.Value{sl.High} { // (truncations x[:K]; a dropped prefix x[K:] follows an index test of its own)
				if b == nil {
					continue
				}
				if v, isC := an.ConstInt(b); isC && v > k {
					k = v
				}
			}
			if k <= 0 {
				return
			}
			n++
			if facts == nil {
				facts = an.NewFacts(f)
			}
			guarded := facts.Holds(sl.Block(), func(ft an.Fact) bool {
				r, ok := an.AsRel(ft)
				if !ok {
					return false
				}
				if _, isLen := an.LenArg(r.X); !isLen {
					r = r.Flip()
				}
				arg, isLen := an.LenArg(r.X)
				m, isC := an.ConstInt(r.Y)
				if !isLen || !isC || arg != sl.X {
					return false
				}
				switch r.Op {
				case token.GTR:
					return m >= k-1 && m+1 >= k
				case token.GEQ:
					return m >= k
				case token.EQL:
					return m >= k
				}
				return false
			})
			if !guarded {
				bad = append(bad, sprintf("%s: %s[..%d..]", an.FuncName(f), an.Path(sl.X), k))
				if pos == token.NoPos {
					pos = sl.Pos()
				}
			}
		})
	}
	sort.Strings(bad)
	c.Check("R-GUARD", "slices/constant-bounds-guarded-by-own-length", "every slice expression with a constant bound, in code that runs while serving, is guarded by a test of the length of the very value it slices", len(bad) == 0 && n >= 1, pos, n, "constant-bound slice expressions: %d; not under a sufficient length fact on the same value: %v", n, bad)
}

// checkSupervisorCallsUncancellable (C09, C05): the teardown's Terminate/Kill requests are handed to the supervisor
// with a context that cannot expire (the time bound travels in the request's Deadline field). A request sent with the
// teardown's own deadline context is sent exactly when that context has expired - if the supervisor honours it, the
// stubborn process is never killed. Both sides: rapid passes context.Background(), and the local supervisor's
// Kill/Terminate/Stop make nothing depend on the context they are given.
func checkSupervisorCallsUncancellable(c *report.Ctx) {
	w := newWire(c, nil, nil)
	n := 0
	var bad []string
	pos := token.NoPos
	for _, f := range repoFuncs(c) {
		if !strings.HasPrefix(an.FuncName(f), "L/rapid.") {
			continue
		}
		for _, call := range an.CallsTo(f, supKill, "L/supervisor/model.ProcessSupervisor.Terminate") {
			args := call.Common().Args
			if len(args) == 0 {
				continue
			}
			n++
			or := w.Origins(args[0])
			ok := len(or) > 0
			for _, o := range or {
				if o != "call:context.Background#0" {
					ok = false
				}
			}
			if !ok {
				bad = append(bad, sprintf("%s: %v", an.FuncName(f), or))
				if pos == token.NoPos {
					pos = an.InstrPos(call)
				}
			}
		}
	}
	c.Check("R-WIRE", "L/rapid/supervisor-requests-carry-background-context", "every Terminate/Kill request of the teardown is sent with context.Background(): its time bound is the request's Deadline, not a context that has already expired when the kill is due", len(bad) == 0 && n >= 5, pos, n, "request sites: %d; context from elsewhere: %v", n, bad)
	// the local supervisor: the context parameter of Kill / Terminate / Stop / kill decides nothing
	var users []string
	m := 0
	for _, name := range []string{"(*LocalSupervisor).Kill", "(*LocalSupervisor).Terminate", "(*LocalSupervisor).Stop", "kill"} {
		f := c.P.Func("L/supervisor", name)
		if f == nil {
			continue
		}
		for _, g := range an.WithAnon(f) {
			for _, p := range g.Params {
				if an.TypeName(p.Type()) != "context.Context" {
					continue
				}
				m++
				for _, ref := range *p.Referrers() {
					if _, dbg := ref.(*ssa.DebugRef); dbg {
						continue
					}
					users = append(users, an.FuncName(g)+": "+an.Describe(ref))
				}
			}
		}
	}
	c.Check("R-NOEFFECT", "L/supervisor/request-context-decides-nothing", "the local supervisor's Kill, Terminate and Stop do not consult the caller's context (a kill is carried out whatever the caller's patience)", len(users) == 0 && m >= 3, token.NoPos, m, "context parameters: %d; uses: %v", m, users)
}

// checkInvokeAnsweredAfterSandbox (C10, C01): the invoke endpoint tells its caller nothing before the sandbox has
// answered - a refusal (already invoking) must reach the caller as a client error, not after a 2xx was sent - and the
// sandbox is invoked on the request's own goroutine.
func checkInvokeAnsweredAfterSandbox(c *report.Ctx) {
	f := fn(c, "M/cmd/aws-lambda-rie", "InvokeHandler")
	if f == nil {
		return
	}
	var sites []string
	for _, g := range an.WithAnon(f) {
		for range an.CallsTo(g, "M/cmd/aws-lambda-rie.Sandbox.Invoke") {
			sites = append(sites, an.FuncName(g))
		}
	}
	inv := an.CallsTo(f, "M/cmd/aws-lambda-rie.Sandbox.Invoke")
	okSite := len(sites) == 1 && len(inv) == 1
	if okSite {
		_, plain := inv[0].(*ssa.Call)
		okSite = plain
	}
	c.Check("R-WHO", an.FuncName(f)+"/invokes-on-the-request", "the sandbox is invoked once, synchronously, by the handler itself (not from a goroutine that outlives the answer)", okSite, fpos(f), len(sites), "Sandbox.Invoke sites: %v", sites)
	if len(inv) != 1 {
		return
	}
	isAnswer := func(in ssa.Instruction) bool {
		call, ok := in.(ssa.CallInstruction)
		if !ok {
			return false
		}
		cal := an.Callee(call)
		if cal != "net/http.ResponseWriter.WriteHeader" && cal != "net/http.ResponseWriter.Write" {
			return false
		}
		return isParamOrCaptured(call.Common().Value, "w")
	}
	ord := an.NewOrder(f, func(in ssa.Instruction) uint64 {
		if isAnswer(in) {
			return 1
		}
		return 0
	})
	_, may := ord.Before(inv[0])
	c.Check("R-ORDER", an.FuncName(f)+"/no-answer-before-the-sandbox", "nothing is written to the caller on a path that goes on to invoke the sandbox (a refused invocation is answered with its client error, never after a 2xx)", may&1 == 0, an.InstrPos(inv[0]), 1, "a write to the caller may precede Sandbox.Invoke: %v", may&1 != 0)
}

// checkAgentErrorTypeNonEmpty (C13): /extension/init/error and /extension/exit/error are accepted (the extension
// moves to its error state, the fault is recorded) only with a NON-EMPTY error type: the value handed to the
// transition is known to differ from "" where the transition is made. Presence of the header is not enough.
func checkAgentErrorTypeNonEmpty(c *report.Ctx) {
	for _, h := range []struct{ typ, trans string }{
		{"agentInitErrorHandler", "InitError"},
		{"agentExitErrorHandler", "ExitError"},
	} {
		f := fn(c, "L/rapi/handler", "(*"+h.typ+").ServeHTTP")
		if f == nil {
			continue
		}
		n, ok := 0, true
		pos := fpos(f)
		var detail []string
		for _, g := range an.WithAnon(f) {
			facts := an.NewFacts(g)
			for _, call := range an.CallsTo(g, "L/core.ExternalAgent."+h.trans, "L/core.InternalAgent."+h.trans) {
				args := call.Common().Args
				if len(args) < 2 {
					continue
				}
				n++
				v := args[len(args)-1]
				nonEmpty := facts.Holds(call.Block(), func(ft an.Fact) bool {
					r, isRel := an.AsRel(ft)
					if !isRel {
						return false
					}
					for _, rr := range []an.Rel{r, r.Flip()} {
						if rr.X == v {
							if s, isS := an.ConstString(rr.Y); isS && s == "" && rr.Op == token.NEQ {
								return true
							}
						}
					}
					return false
				})
				if !nonEmpty {
					ok = false
					pos = an.InstrPos(call)
					detail = append(detail, an.Path(v))
				}
			}
		}
		c.Check("R-GUARD", an.FuncName(f)+"/error-type-non-empty", "the extension's error transition is made only with an error type known to be non-empty (an empty header value is a missing header)", ok && n >= 2, pos, n, "transition sites: %d; error type not known non-empty: %v", n, detail)
	}
}

// checkMetricsOnlyForDeliveredReply (C14, C01): the buffered reply path hands its metrics to the dispatcher on an
// unbuffered channel and only after the reply was written. A hand-over on the refusal path (oversized response), or a
// buffered channel that keeps it, is found by the NEXT invocation's "already answered" poll, which then never
// dispatches its event.
func checkMetricsOnlyForDeliveredReply(c *report.Ctx) {
	f := fn(c, rapidcP, "(*Server).sendResponseUnsafe")
	if f == nil {
		return
	}
	isChan := loadOf(srvT, "sendResponseChan")
	var where []string
	var sends []*ssa.Send
	for _, g := range an.WithAnon(f) {
		an.AllInstrs(g, func(in ssa.Instruction) {
			if s, ok := in.(*ssa.Send); ok && isChan(s.Chan) {
				where = append(where, an.FuncName(g))
				if g == f {
					sends = append(sends, s)
				}
			}
		})
	}
	ord := an.NewOrder(f, func(in ssa.Instruction) uint64 {
		if call, ok := in.(*ssa.Call); ok && an.Callee(call) == "net/http.ResponseWriter.Write" {
			return 1
		}
		return 0
	})
	ok := len(sends) == 1 && len(where) == 1
	pos := fpos(f)
	for _, s := range sends {
		if must, _ := ord.Before(s); must&1 == 0 {
			ok = false
			pos = s.Pos()
		}
	}
	c.Check("R-ORDER", an.FuncName(f)+"/metrics-only-after-the-reply", "the buffered path hands over its response metrics once, itself (no deferred sender), and only after the reply was written: a refused (oversized) response publishes nothing", ok, pos, len(where), "sends on sendResponseChan in: %v; each after ReplyStream.Write: %v", where, ok)
	// unbuffered: nothing a refused or abandoned attempt could leave behind
	ctor := fn(c, rapidcP, "NewServer")
	if ctor == nil {
		return
	}
	size, found := int64(-1), false
	for _, st := range an.Stores(ctor, srvT, "sendResponseChan") {
		if mk, isMk := st.Val.(*ssa.MakeChan); isMk {
			found = true
			size, _ = an.ConstInt(mk.Size)
		}
	}
	c.Check("R-CONST", an.FuncName(ctor)+"/metrics-channel-unbuffered", "the response-metrics channel is unbuffered (a hand-over is either taken by this invocation's dispatcher or never made)", found && size == 0, fpos(ctor), 1, "make(chan) found: %v; capacity %d", found, size)
}

// baseGlobal: the package variable behind an address (through field and element addresses), or nil.
func baseGlobal(v ssa.Value) *ssa.Global {
	for i := 0; i < 8 && v != nil; i++ {
		switch x := v.(type) {
		case *ssa.Global:
			return x
		case *ssa.FieldAddr:
			v = x.X
		case *ssa.IndexAddr:
			v = x.X
		case *ssa.ChangeType:
			v = x.X
		case *ssa.Convert:
			v = x.X
		default:
			return nil
		}
	}
	return nil
}

// checkDirectInvokeKeepsNoHistory (C17): what one direct invoke decodes does not reach the next. (a) The package
// keeps no state between requests beyond the four per-request settings the R-DEFASSIGN rule watches: no other
// package-level variable is written after initialisation. (b) CustomerHeaders.Load starts from the empty record.
func checkDirectInvokeKeepsNoHistory(c *report.Ctx) {
	watched := map[string]bool{"MaxDirectResponseSize": true, "ResponseBandwidthRate": true, "ResponseBandwidthBurstSize": true, "InvokeResponseMode": true}
	var others []string
	n := 0
	pos := token.NoPos
	for _, f := range repoFuncs(c) {
		if f.Pkg == nil || load.Abbrev(f.Pkg.Pkg.Path()) != "L/core/directinvoke" || f.Name() == "init" {
			continue
		}
		an.AllInstrs(f, func(in ssa.Instruction) {
			var addr ssa.Value
			switch x := in.(type) {
			case *ssa.Store:
				addr = x.Addr
			case *ssa.MapUpdate:
				if u, ok := x.Map.(*ssa.UnOp); ok {
					addr = u.X
				}
			}
			if addr == nil {
				return
			}
			g := baseGlobal(addr)
			if g == nil || g.Pkg == nil || load.Abbrev(g.Pkg.Pkg.Path()) != "L/core/directinvoke" {
				return
			}
			n++
			if !watched[g.Name()] {
				others = append(others, g.Name()+" in "+an.FuncName(f))
				if pos == token.NoPos {
					pos = in.Pos()
				}
			}
		})
		// a method called on a package-level variable's address may write it too
		for _, call := range an.Calls(f, func(string) bool { return true }) {
			cm := call.Common()
			if cm.IsInvoke() || cm.Signature().Recv() == nil || len(cm.Args) == 0 {
				continue
			}
			if _, isPtr := cm.Signature().Recv().Type().(*types.Pointer); !isPtr {
				continue
			}
			if g := baseGlobal(cm.Args[0]); g != nil && g.Pkg != nil && load.Abbrev(g.Pkg.Pkg.Path()) == "L/core/directinvoke" && !watched[g.Name()] {
				others = append(others, g.Name()+" (receiver of "+an.Callee(call)+") in "+an.FuncName(f))
				if pos == token.NoPos {
					pos = an.InstrPos(call)
				}
			}
		}
	}
	c.Check("R-WHO", "L/core/directinvoke/no-state-between-requests", "the direct-invoke package writes no package-level variable besides the four per-request settings (nothing decoded for one request is kept for the next)", len(others) == 0 && n >= 4, pos, n, "stores to package-level variables: %d; to others than the per-request settings: %v", n, uniq(others))

	ld := fn(c, "L/core/directinvoke", "(*CustomerHeaders).Load")
	if ld == nil {
		return
	}
	isReset := func(in ssa.Instruction) bool {
		st, ok := in.(*ssa.Store)
		if !ok || len(ld.Params) == 0 || st.Addr != ssa.Value(ld.Params[0]) {
			return false
		}
		// the stored value is the zero record: a load of a fresh local nobody writes, or a zero constant
		switch v := st.Val.(type) {
		case *ssa.UnOp:
			if a, isA := v.X.(*ssa.Alloc); isA {
				for _, ref := range *a.Referrers() {
					if ref != ssa.Instruction(v) {
						if _, dbg := ref.(*ssa.DebugRef); !dbg {
							return false
						}
					}
				}
				return true
			}
		case *ssa.Const:
			return true
		}
		return false
	}
	ord := an.NewOrder(ld, func(in ssa.Instruction) uint64 {
		if isReset(in) {
			return 1
		}
		return 0
	})
	// ... or field by field: every field of the record is given its zero value
	var fieldBits uint64
	nf := 0
	if st := structFields(c, "L/core/directinvoke", "CustomerHeaders"); len(st) > 0 && len(st) < 60 {
		nf = len(st)
		fieldBits = (uint64(1) << uint(nf)) - 1
	}
	fieldOrd := an.NewOrder(ld, func(in ssa.Instruction) uint64 {
		st, isSt := in.(*ssa.Store)
		if !isSt || len(ld.Params) == 0 || !an.IsZero(st.Val) {
			return 0
		}
		fa, isFA := st.Addr.(*ssa.FieldAddr)
		if !isFA || fa.X != ssa.Value(ld.Params[0]) || fa.Field >= nf {
			return 0
		}
		return uint64(1) << uint(fa.Field)
	})
	ok, ne := true, 0
	for _, e := range an.Exits(ld) {
		ne++
		must, _ := ord.Before(e.Ret)
		fmust, _ := fieldOrd.Before(e.Ret)
		if must&1 == 0 && !(nf > 0 && fmust&fieldBits == fieldBits) {
			ok = false
		}
	}
	c.Check("R-ORDER", an.FuncName(ld)+"/starts-from-the-empty-record", "Load resets its receiver before anything else, on every path (an empty or sparse header leaves nothing of an earlier document)", ok && ne >= 1, fpos(ld), ne, "exits: %d, each after `*s = CustomerHeaders{}`: %v", ne, ok)
}

// checkLimiterClosedByCopyOnly (C17): the bandwidth-limiting writer's Close stops the refill goroutine; a copy parked
// waiting for tokens is woken by nobody afterwards. Only the copy itself closes the writer, after it finished.
func checkLimiterClosedByCopyOnly(c *report.Ctx) {
	who := siteFns(callSites(c, "L/core/bandwidthlimiter.BandwidthLimitingWriter.Close"))
	c.Check("R-WHO", "L/core/bandwidthlimiter.BandwidthLimitingWriter.Close/callers", "the limiting writer is closed by the copy that uses it, after it ended, and by nobody else (closing it under a copy waiting for tokens parks that copy for good)", strings.Join(who, ",") == "L/core/bandwidthlimiter.BandwidthLimitingCopy", token.NoPos, len(who), "Close called in: %v", who)
}

// checkSupervisorEventsIsTheChannel (C19): every subscriber gets THE event channel; Events starts nothing. A forwarder
// per subscription takes events that an abandoned subscription never delivers.
func checkSupervisorEventsIsTheChannel(c *report.Ctx) {
	f := fn(c, "L/supervisor", "(*LocalSupervisor).Events")
	if f == nil {
		return
	}
	ok, n := true, 0
	for _, e := range an.Exits(f) {
		n++
		if len(e.Vals) < 1 || !loadOf("L/supervisor.LocalSupervisor", "events")(e.Vals[0]) {
			ok = false
		}
	}
	gos := 0
	for _, g := range an.WithAnon(f) {
		an.AllInstrs(g, func(in ssa.Instruction) {
			if _, isGo := in.(*ssa.Go); isGo {
				gos++
			}
		})
	}
	c.Check("R-WIRE", an.FuncName(f)+"/hands-out-the-event-channel", "Events returns the supervisor's one event channel itself and starts no goroutine (no per-subscription forwarder that could swallow an event)", ok && n >= 1 && gos == 0, fpos(f), n, "exits returning s.events: %v (%d); goroutines started: %d", ok, n, gos)
}

// checkExecEnvUsedAsBuilt (C16): the environment a process is started with is the map the env package built for it -
// between RuntimeExecEnv()/AgentExecEnv() (or the bootstrap that wraps the former) and the exec request, package
// rapid writes no entry of that map and hands it to no function that writes entries of the map it is given. (An
// "address fix-up" for extensions, or a redaction for a log line that edits the very map, makes runtime and
// extensions see different values, or masked ones.)
func checkExecEnvUsedAsBuilt(c *report.Ctx) {
	w := newWire(c, nil, nil)
	isExecEnv := func(v ssa.Value) bool {
		for _, o := range w.Origins(v) {
			if strings.HasPrefix(o, "call:L/rapidcore/env.Environment.AgentExecEnv#") || strings.HasPrefix(o, "call:L/rapidcore/env.Environment.RuntimeExecEnv#") || strings.HasPrefix(o, "call:L/rapid.doRuntimeBootstrap#") || strings.HasPrefix(o, "call:L/rapidcore/bootstrap.Bootstrap.Env#") || strings.HasPrefix(o, "call:L/interop.Bootstrap.Env#") {
				return true
			}
		}
		return false
	}
	writesParam := func(callee *ssa.Function, idx int) bool {
		if callee == nil || idx >= len(callee.Params) {
			return false
		}
		p := callee.Params[idx]
		hit := false
		for _, g := range an.WithAnon(callee) {
			an.AllInstrs(g, func(in ssa.Instruction) {
				if mu, ok := in.(*ssa.MapUpdate); ok && an.Strip(mu.Map, true) == ssa.Value(p) {
					hit = true
				}
				if call, ok := in.(ssa.CallInstruction); ok && an.Callee(call) == "builtin.delete" && len(call.Common().Args) > 0 && an.Strip(call.Common().Args[0], true) == ssa.Value(p) {
					hit = true
				}
			})
		}
		return hit
	}
	n := 0
	var bad []string
	pos := token.NoPos
	for _, f := range repoFuncs(c) {
		if !strings.HasPrefix(an.FuncName(f), "L/rapid.") {
			continue
		}
		an.AllInstrs(f, func(in ssa.Instruction) {
			switch x := in.(type) {
			case *ssa.MapUpdate:
				if tm, ok := x.Map.Type().Underlying().(*types.Map); !ok || tm.Key().String() != "string" || tm.Elem().String() != "string" {
					return
				}
				if isExecEnv(x.Map) {
					bad = append(bad, an.FuncName(f)+": entry written")
					if pos == token.NoPos {
						pos = x.Pos()
					}
				}
			case ssa.CallInstruction:
				callee := x.Common().StaticCallee()
				for i, a := range x.Common().Args {
					tm, ok := a.Type().Underlying().(*types.Map)
					if !ok || tm.Key().String() != "string" || tm.Elem().String() != "string" {
						continue
					}
					n++ // (every string map handed on in the package is looked at; only those that are exec environments can offend)
					if !isExecEnv(a) {
						continue
					}
					if callee != nil && strings.HasPrefix(load.Abbrev(callee.String()), "L/") || callee != nil && strings.Contains(callee.String(), "go.amzn.com") {
						if writesParam(callee, i) {
							bad = append(bad, an.FuncName(f)+": handed to "+an.Callee(x)+", which writes entries of it")
							if pos == token.NoPos {
								pos = an.InstrPos(x)
							}
						}
					}
				}
			}
		})
	}
	c.Check("R-NOEFFECT", "L/rapid/exec-environment-used-as-built", "package rapid starts processes with the environment maps exactly as the env package built them: it writes no entry and passes them to nothing that does", len(bad) == 0 && n >= 1, pos, n, "string maps passed on in the package: %d; exec environments modified: %v", n, uniq(bad))
}

// checkRefusedResponseLeavesReplyUntouched (C14, C01): the oversized response is refused before anything was said on
// the reply stream: no method of the reservation's reply stream is called (no header announced, nothing written) on a
// path to the ErrorResponseTooLarge return. The substitute error that follows is then the first and only thing the
// caller sees - a Content-Length announced for the refused body would be forwarded with it.
func checkRefusedResponseLeavesReplyUntouched(c *report.Ctx) {
	f := fn(c, rapidcP, "(*Server).sendResponseUnsafe")
	if f == nil {
		return
	}
	isStream := loadOf("L/rapidcore.InvokeContext", "ReplyStream")
	touches := func(in ssa.Instruction) bool {
		call, ok := in.(ssa.CallInstruction)
		if !ok {
			return false
		}
		cm := call.Common()
		if cm.IsInvoke() && isStream(cm.Value) {
			return true
		}
		for _, a := range cm.Args {
			if isStream(a) && !strings.Contains(an.Callee(call), "directinvoke.") {
				return true
			}
		}
		return false
	}
	ord := an.NewOrder(f, func(in ssa.Instruction) uint64 {
		if touches(in) {
			return 1
		}
		return 0
	})
	n, ok := 0, true
	pos := fpos(f)
	for _, e := range an.Exits(f) {
		if len(e.Vals) != 1 {
			continue
		}
		mi, isMI := e.Vals[0].(*ssa.MakeInterface)
		if !isMI || an.TypeName(mi.X.Type()) != "L/interop.ErrorResponseTooLarge" {
			continue
		}
		n++
		if _, may := ord.Before(e.Ret); may&1 != 0 {
			ok = false
			pos = an.InstrPos(e.Ret)
		}
	}
	c.Check("R-NOEFFECT", an.FuncName(f)+"/refused-response-leaves-the-reply-untouched", "an oversized response is refused before any method of the reply stream was called (no header announced, nothing written)", ok && n >= 1, pos, n, "too-large exits: %d; reply stream untouched on the way to each: %v", n, ok)
}

// checkNoLostReceiverWrites (C08, C13, C03): a method with a VALUE receiver that assigns a field of its receiver
// changes a copy; the caller's record keeps its old contents. For the agent tables that is a Clear() that clears
// nothing - the previous generation's names, identifiers and counts survive the reset. Decided over the whole
// repository: no value-receiver method stores into a field of (its private copy of) the receiver.
func checkNoLostReceiverWrites(c *report.Ctx) {
	n := 0
	var bad []string
	pos := token.NoPos
	all := append([]*ssa.Function(nil), repoFuncs(c)...)
	for g := range c.P.Absorbed { // (helpers the normal form absorbed into their callers are methods all the same)
		all = append(all, g)
	}
	sort.Slice(all, func(i, j int) bool { return all[i].String() < all[j].String() })
	for _, f := range all {
		recv := f.Signature.Recv()
		if recv == nil || len(f.Params) == 0 || f.Parent() != nil || len(f.Blocks) == 0 {
			continue
		}
		if f.Pos().IsValid() && strings.HasSuffix(c.P.Prog.Fset.Position(f.Pos()).Filename, "_test.go") {
			continue
		}
		if _, isPtr := recv.Type().(*types.Pointer); isPtr {
			continue
		}
		if _, isStruct := recv.Type().Underlying().(*types.Struct); !isStruct {
			continue
		}
		n++
		// the receiver's cell: the alloc that the parameter is spilled to
		cells := map[ssa.Value]bool{}
		for _, ref := range *f.Params[0].Referrers() {
			if st, ok := ref.(*ssa.Store); ok && st.Val == ssa.Value(f.Params[0]) {
				cells[st.Addr] = true
			}
		}
		an.AllInstrs(f, func(in ssa.Instruction) {
			st, ok := in.(*ssa.Store)
			if !ok {
				return
			}
			if fa, isFA := st.Addr.(*ssa.FieldAddr); isFA && cells[fa.X] {
				bad = append(bad, an.FuncName(f))
				if pos == token.NoPos {
					pos = st.Pos()
				}
			}
		})
	}
	c.Check("R-NOEFFECT", "methods/no-write-to-a-copied-receiver", "no method with a value receiver assigns a field of its receiver (the assignment would be lost: a Clear that clears a copy leaves the previous generation's entries in place)", len(bad) == 0 && n >= 1, pos, n, "value-receiver methods on structs: %d; assigning receiver fields: %v", n, uniq(bad))
}

// ---------------------------------------------------------------------------------------------------------------
// Rules added after the tenth blind round (per area again).

func init() {
	add := func(id string, fs ...func(*report.Ctx)) { round5Rules[id] = append(round5Rules[id], fs...) }
	add("C18", checkWhoStoresInitEnvironment, checkRestoreTimeoutCancelsAtOnce)
	add("C16", checkWhoStoresInitEnvironment)
	add("C05", checkTeardownWheneverAgentsExist)
	add("C09", checkTeardownWheneverAgentsExist)
	add("C15", checkAgentDelegatorsPassArgumentsOn)
	add("C13", checkAgentDelegatorsPassArgumentsOn, checkMiddlewareLeavesHeadersAlone)
	add("C07", checkSenderClosesItsChannel)
	add("C01", checkDirectInvokePayloadIsTheBody)
	add("C17", checkDirectInvokePayloadIsTheBody, checkNoContentLengthAnnounced, checkChunksBoundedByChunkSize, checkTooLargeMadeBySinkOnly)
	add("C14", checkTooLargeMadeBySinkOnly, checkNoContentLengthAnnounced)
	add("C20", checkRuntimeAPIServerPlain)
	add("C12", checkRuntimeAPIServerPlain)
}

var round11Text = map[string]string{
	"C18": "Round 11: only the non-caching accept stores credentials into the environment; a restore-hook timeout cancels the init flow at once.",
	"C16": "Round 11: only the accept functions store the init request's variables into the environment.",
	"C05": "Round 11: with extensions present the graceful teardown runs whether or not the runtime was started.",
	"C09": "Round 11: with extensions present the graceful teardown runs whether or not the runtime was started.",
	"C15": "Round 11: the agents' delegating methods hand their arguments to the state unchanged (an error keeps its identity).",
	"C13": "Round 11: the agents' delegating methods hand their arguments on unchanged; middleware writes nothing into request headers.",
	"C07": "Round 11: a channel a goroutine sends on is closed by nobody else.",
	"C01": "Round 11: the direct-invoke event is the request body itself.",
	"C17": "Round 11: the direct-invoke event is the request body itself; no Content-Length is announced on a reply; chunks never exceed the chunk size; only the reply sink makes an oversize error.",
	"C14": "Round 11: only the reply sink judges a response too large.",
	"C20": "Round 11: the Runtime API server is a plain http.Server (handler and connection context only).",
	"C12": "Round 11: the Runtime API server is a plain http.Server.",
}

var _ = func() bool {
	for id, t := range round11Text {
		round5Text[id] += " " + t
	}
	return true
}()

// checkWhoStoresInitEnvironment (C18, C16): StoreEnvironmentVariablesFromInit puts the AWS credentials into the process
// environment - right without init caching, wrong with it (there the token and the credentials endpoint go in
// instead). Each of the two stores is made by exactly the accept function of its mode, and by nobody else.
func checkWhoStoresInitEnvironment(c *report.Ctx) {
	a := siteFns(callSites(c, "L/rapidcore/env.Environment.StoreEnvironmentVariablesFromInit"))
	b := siteFns(callSites(c, "L/rapidcore/env.Environment.StoreEnvironmentVariablesFromInitForInitCaching"))
	ok := strings.Join(a, ",") == "L/rapid.rapidContext.acceptInitRequest" && strings.Join(b, ",") == "L/rapid.rapidContext.acceptInitRequestForInitCaching"
	c.Check("R-WHO", "L/rapidcore/env.Environment/who-stores-the-init-variables", "the init request's variables (and, without init caching only, its credentials) are stored into the environment by the accept function of that mode and by nobody else", ok, token.NoPos, len(a)+len(b), "plain store called in: %v; init-caching store called in: %v", a, b)
}

// checkTeardownWheneverAgentsExist (C05, C09): with extensions registered the teardown notifies and, at their deadline,
// kills them - whether or not the runtime of this generation was ever started (a timeout while extensions are still
// registering, a runtime that failed to launch). The graceful branch depends on the number of agents only.
func checkTeardownWheneverAgentsExist(c *report.Ctx) {
	f := fn(c, "L/rapid", "(*shutdownContext).shutdown")
	if f == nil {
		return
	}
	facts := an.NewFacts(f)
	n := 0
	var extra []string
	pos := fpos(f)
	for _, call := range an.CallsTo(f, shutT+".shutdownAgents") {
		n++
		for _, ft := range facts.At(call.Block()) {
			calls, fields := condMentions(ft.Cond, facts)
			for _, cl := range calls {
				if cl != "L/core.RegistrationService.CountAgents" {
					extra = append(extra, cl)
					pos = an.InstrPos(call)
				}
			}
			for _, fl := range fields {
				extra = append(extra, fl)
				pos = an.InstrPos(call)
			}
		}
	}
	c.Check("R-GUARD", an.FuncName(f)+"/agents-torn-down-whenever-there-are-agents", "the extensions' teardown is reached whenever extensions are registered, on that condition alone (not on the runtime having been started)", n == 1 && len(extra) == 0, pos, n, "shutdownAgents sites: %d; other conditions: %v", n, uniq(extra))
}

// checkAgentDelegatorsPassArgumentsOn (C13, C15): ExternalAgent/InternalAgent methods lock and delegate to the
// current state; what they are given is what the state gets. (An error wrapped on the way is no longer the error the
// state classifies by identity: PermissionDenied / TooManyExtensions become UnknownError.)
func checkAgentDelegatorsPassArgumentsOn(c *report.Ctx) {
	n := 0
	var bad []string
	pos := token.NoPos
	for _, T := range []string{"ExternalAgent", "InternalAgent"} {
		for _, m := range methodsOf(c, "L/core", T) {
			for _, call := range an.Calls(m, func(string) bool { return true }) {
				cm := call.Common()
				if !cm.IsInvoke() || !loadOf("L/core."+T, "currentState")(cm.Value) {
					continue
				}
				n++
				for _, a := range cm.Args {
					if _, isP := an.Strip(a, false).(*ssa.Parameter); !isP {
						if _, isC := a.(*ssa.Const); isC {
							continue
						}
						bad = append(bad, an.FuncName(m)+" -> "+cm.Method.Name())
						if pos == token.NoPos {
							pos = an.InstrPos(call)
						}
					}
				}
			}
		}
	}
	c.Check("R-WIRE", "L/core/agent-delegators-pass-arguments-unchanged", "every call an agent delegates to its current state carries the method's own parameters (no wrapping, no substitution)", len(bad) == 0 && n >= 10, pos, n, "delegating calls: %d; with an argument that is not a parameter: %v", n, uniq(bad))
}

// checkSenderClosesItsChannel (C07): a send on a closed channel panics the process. A function that makes a channel
// and starts a goroutine that sends on it never closes that channel itself (neither at once nor deferred).
func checkSenderClosesItsChannel(c *report.Ctx) {
	n := 0
	var bad []string
	pos := token.NoPos
	for _, f := range repoFuncs(c) {
		an.AllInstrs(f, func(in ssa.Instruction) {
			mk, ok := in.(*ssa.MakeChan)
			if !ok {
				return
			}
			// cells the channel is kept in (captured variables)
			holds := map[ssa.Value]bool{mk: true}
			for _, ref := range *mk.Referrers() {
				if st, isSt := ref.(*ssa.Store); isSt && st.Val == ssa.Value(mk) {
					holds[st.Addr] = true
				}
			}
			isCh := func(v ssa.Value) bool {
				v = an.Strip(v, true)
				if holds[v] {
					return true
				}
				if u, isU := v.(*ssa.UnOp); isU && u.Op == token.MUL && holds[u.X] {
					return true
				}
				return false
			}
			// goroutines of f that send on it
			sends := false
			an.AllInstrs(f, func(g ssa.Instruction) {
				gi, isGo := g.(*ssa.Go)
				if !isGo {
					return
				}
				cl := goClosure(gi)
				mc, _ := gi.Call.Value.(*ssa.MakeClosure)
				if cl == nil || mc == nil {
					return
				}
				bound := map[*ssa.FreeVar]bool{}
				for i, b := range mc.Bindings {
					if holds[b] && i < len(cl.FreeVars) {
						bound[cl.FreeVars[i]] = true
					}
				}
				an.AllInstrs(cl, func(x ssa.Instruction) {
					if s, isSend := x.(*ssa.Send); isSend {
						v := an.Strip(s.Chan, true)
						if u, isU := v.(*ssa.UnOp); isU {
							if fv, isFV := u.X.(*ssa.FreeVar); isFV && bound[fv] {
								sends = true
							}
						}
						if fv, isFV := v.(*ssa.FreeVar); isFV && bound[fv] {
							sends = true
						}
					}
				})
			})
			if !sends {
				return
			}
			n++
			an.AllInstrs(f, func(x ssa.Instruction) {
				call, isCall := x.(ssa.CallInstruction)
				if !isCall || an.Callee(call) != "builtin.close" || len(call.Common().Args) == 0 {
					return
				}
				if isCh(call.Common().Args[0]) {
					bad = append(bad, an.FuncName(f))
					if pos == token.NoPos {
						pos = an.InstrPos(call)
					}
				}
			})
		})
	}
	c.Check("R-WHO", "channels/closed-by-the-sender-only", "a function that hands a channel to a goroutine which sends on it does not close that channel itself (the late send would panic the emulator)", len(bad) == 0 && n >= 1, pos, n, "channels made and sent on by a goroutine of the same function: %d; closed by the maker in: %v", n, uniq(bad))
}

// checkRestoreTimeoutCancelsAtOnce (C18): when the restore hook runs out of time the init flow is cancelled there and
// then (a plain call on the deadline path) and the function returns without waiting for the waiter goroutine, which
// only that cancellation releases.
func checkRestoreTimeoutCancelsAtOnce(c *report.Ctx) {
	f := fn(c, "L/core", "(*initFlowSynchronizationImpl).AwaitRuntimeReadyWithDeadline")
	if f == nil {
		return
	}
	plain, other := 0, 0
	for _, call := range an.CallsTo(f, "L/core.initFlowSynchronizationImpl.CancelWithError") {
		if _, isCall := call.(*ssa.Call); isCall {
			plain++
		} else {
			other++
		}
	}
	// receives outside the select: a wait for the goroutine
	recvs := 0
	an.AllInstrs(f, func(in ssa.Instruction) {
		if u, ok := in.(*ssa.UnOp); ok && u.Op == token.ARROW {
			recvs++
		}
	})
	c.Check("R-ORDER", an.FuncName(f)+"/timeout-cancels-at-once", "on the deadline path the init flow is cancelled by a plain call (not a deferred one) and the function waits for nothing afterwards", plain == 1 && other == 0 && recvs == 0, fpos(f), 1, "plain CancelWithError calls: %d, deferred/async: %d; receives outside the select: %d", plain, other, recvs)
}

// checkDirectInvokePayloadIsTheBody (C01, C17): the event of a direct invoke is the request body as it arrives; the
// per-request MaxPayloadSize bounds the RESPONSE, not the event.
func checkDirectInvokePayloadIsTheBody(c *report.Ctx) {
	f := fn(c, "L/core/directinvoke", "ReceiveDirectInvoke")
	if f == nil {
		return
	}
	n, ok := 0, true
	pos := fpos(f)
	for _, st := range an.Stores(f, "L/interop.Invoke", "Payload") {
		n++
		if !an.IsFieldLoad(an.Strip(st.Val, true), "net/http.Request", "Body") {
			ok = false
			pos = st.Pos()
		}
	}
	c.Check("R-WIRE", an.FuncName(f)+"/payload-is-the-request-body", "the invoke record's Payload is the request's Body itself (no limiting or re-reading wrapper)", ok && n == 1, pos, n, "Payload stores: %d, each the request body: %v", n, ok)
}

// checkNoContentLengthAnnounced (C17, C14): replies carry trailers (End-Of-Response, error type/body), which only
// travel with chunked encoding; a Content-Length on the reply switches that off, and one announced before a response
// was judged would outlive its refusal. Nothing in the repository sets that header.
func checkNoContentLengthAnnounced(c *report.Ctx) {
	n := 0
	var bad []string
	pos := token.NoPos
	for _, f := range repoFuncs(c) {
		for _, call := range an.CallsTo(f, "net/http.Header.Set", "net/http.Header.Add") {
			args := call.Common().Args
			if len(args) < 2 {
				continue
			}
			n++
			if s, isC := an.ConstString(args[len(args)-2]); isC && strings.EqualFold(s, "Content-Length") {
				bad = append(bad, an.FuncName(f))
				if pos == token.NoPos {
					pos = an.InstrPos(call)
				}
			}
		}
	}
	c.Check("R-CONST", "headers/no-content-length-announced", "no reply of the emulator announces a Content-Length (trailers need chunked encoding; a length announced for a refused body would be forwarded with the substitute error)", len(bad) == 0 && n >= 10, pos, n, "Header.Set/Add sites: %d; with key Content-Length in: %v", n, uniq(bad))
}

// checkChunksBoundedByChunkSize (C17): ChunkIterator.Next hands out buf[begin:end] with end = min(offset+chunkSize,
// len(buf)) and nothing added to it: a chunk longer than the bucket's capacity is refused by the throttler and the
// response comes out truncated.
func checkChunksBoundedByChunkSize(c *report.Ctx) {
	f := fn(c, "L/core/bandwidthlimiter", "(*ChunkIterator).Next")
	if f == nil {
		return
	}
	n, ok := 0, true
	pos := fpos(f)
	facts := an.NewFacts(f)
	ciT := "L/core/bandwidthlimiter.ChunkIterator"
	isSum := func(v ssa.Value) bool { // offset + chunkSize
		bo, k := an.Strip(v, true).(*ssa.BinOp)
		return k && bo.Op == token.ADD && (loadOf(ciT, "offset")(bo.X) && loadOf(ciT, "chunkSize")(bo.Y) || loadOf(ciT, "offset")(bo.Y) && loadOf(ciT, "chunkSize")(bo.X))
	}
	isLen := func(v ssa.Value) bool { // len(buf)
		a, k := an.LenArg(an.Strip(v, true))
		return k && loadOf(ciT, "buf")(a)
	}
	an.AllInstrs(f, func(in ssa.Instruction) {
		sl, isSl := in.(*ssa.Slice)
		if !isSl {
			return
		}
		n++
		good := false
		if sl.High != nil {
			if cl, _ := an.CallOf(sl.High); cl != nil && len(cl.Call.Args) == 2 && (isSum(cl.Call.Args[0]) && isLen(cl.Call.Args[1]) || isSum(cl.Call.Args[1]) && isLen(cl.Call.Args[0])) {
				if bi, k := cl.Call.Value.(*ssa.Builtin); k && bi.Name() == "min" {
					good = true
				} else if g := cl.Call.StaticCallee(); g != nil && isMinFunc(g) {
					good = true
				}
			} else {
				// the minimum written out: the sum where it is known not to exceed len(buf), len(buf) where the sum is
				// known not to be below it
				good = true
				cases := facts.JoinCases(sl.High, sl.Block())
				seenSum := false
				for _, jc := range cases {
					rel := func(wantSumSmaller bool) bool {
						for _, ft := range jc.Facts {
							r, k := an.AsRel(ft)
							if !k {
								continue
							}
							for _, rr := range []an.Rel{r, r.Flip()} {
								if isSum(rr.X) && isLen(rr.Y) {
									switch rr.Op {
									case token.LSS, token.LEQ:
										if wantSumSmaller {
											return true
										}
									case token.GTR, token.GEQ:
										if !wantSumSmaller {
											return true
										}
									}
								}
							}
						}
						return false
					}
					switch {
					case isSum(jc.Val) && rel(true):
						seenSum = true
					case isLen(jc.Val) && rel(false):
					default:
						good = false
					}
				}
				good = good && seenSum && len(cases) >= 2
			}
		}
		if !good {
			ok = false
			pos = sl.Pos()
		}
	})
	c.Check("R-WIRE", an.FuncName(f)+"/chunk-ends-at-the-minimum", "a chunk ends at min(offset+chunkSize, len(buf)) exactly (never beyond the chunk size)", ok && n == 1, pos, n, "slice expressions: %d; upper bound is the minimum itself: %v", n, ok)
}

// checkTooLargeMadeBySinkOnly (C14, C17): whether a response is too large is judged in one place, on the bytes
// actually read and against the limit in force (the per-request one for direct invokes): the reply sink. No handler
// makes an ErrorResponseTooLarge of its own from an announced length.
func checkTooLargeMadeBySinkOnly(c *report.Ctx) {
	var who []string
	for _, f := range repoFuncs(c) {
		an.AllInstrs(f, func(in ssa.Instruction) {
			if a, ok := in.(*ssa.Alloc); ok {
				if p, isP := a.Type().(*types.Pointer); isP && an.TypeName(p.Elem()) == "L/interop.ErrorResponseTooLarge" {
					who = append(who, stripAnon(an.FuncName(f)))
				}
			}
		})
	}
	who = uniq(who)
	c.Check("R-WHO", "L/interop.ErrorResponseTooLarge/made-by-the-reply-sink-only", "an oversize refusal is made by the reply sink alone (on the bytes read, against the limit in force)", strings.Join(who, ",") == "L/rapidcore.Server.sendResponseUnsafe", token.NoPos, len(who), "ErrorResponseTooLarge constructed in: %v", who)
}

// checkRuntimeAPIServerPlain (C20, C12): the Runtime API's http.Server is configured with its handler and the
// connection context and nothing else: no header size limit (the X-Ray cause travels in a header and is shortened,
// not refused), no read/write/idle timeouts (a /next may stay parked for any time).
func checkRuntimeAPIServerPlain(c *report.Ctx) {
	f := fn(c, "L/rapi", "NewServer")
	if f == nil {
		return
	}
	var fields []string
	for _, st := range an.Stores(f, "net/http.Server", "") {
		if fr, ok := an.AsField(st.Addr); ok {
			fields = append(fields, fr.Field)
		}
	}
	sort.Strings(fields)
	has := map[string]bool{}
	for _, x := range fields {
		has[x] = true
	}
	var limits []string
	for _, x := range []string{"MaxHeaderBytes", "ReadTimeout", "ReadHeaderTimeout", "WriteTimeout", "IdleTimeout"} {
		if has[x] {
			limits = append(limits, x)
		}
	}
	c.Check("R-SHAPE", an.FuncName(f)+"/plain-http-server", "the Runtime API server has its handler and connection context and no header-size limit or timeout", has["Handler"] && has["ConnContext"] && len(limits) == 0, fpos(f), len(fields), "http.Server fields set: %v; limits among them: %v", fields, limits)
}

// checkMiddlewareLeavesHeadersAlone (C13): middleware runs in front of every handler; the identifier and the
// authorization token a handler reads are the ones the client sent. No middleware stores into a header value list
// (a "redacted copy" made by copying the map shares the value slices with the request).
func checkMiddlewareLeavesHeadersAlone(c *report.Ctx) {
	n := 0
	var bad []string
	pos := token.NoPos
	all := append([]*ssa.Function(nil), repoFuncs(c)...)
	for g := range c.P.Absorbed {
		all = append(all, g)
	}
	sort.Slice(all, func(i, j int) bool { return all[i].String() < all[j].String() })
	for _, f := range all {
		top := f
		for top.Parent() != nil {
			top = top.Parent()
		}
		if top.Pkg == nil || load.Abbrev(top.Pkg.Pkg.Path()) != "L/rapi/middleware" {
			continue
		}
		n++
		an.AllInstrs(f, func(in ssa.Instruction) {
			st, ok := in.(*ssa.Store)
			if !ok {
				return
			}
			ia, isIA := st.Addr.(*ssa.IndexAddr)
			if !isIA {
				return
			}
			if sl, isSl := ia.X.Type().Underlying().(*types.Slice); !isSl || sl.Elem().String() != "string" {
				return
			}
			bad = append(bad, an.FuncName(f))
			if pos == token.NoPos {
				pos = st.Pos()
			}
		})
	}
	c.Check("R-NOEFFECT", "L/rapi/middleware/writes-no-header-value", "no middleware stores into an element of a []string (header value lists are shared with the request the handlers read)", len(bad) == 0 && n >= 5, pos, n, "middleware functions: %d; storing into string slices: %v", n, uniq(bad))
}

func init() {
	add := func(id string, fs ...func(*report.Ctx)) { round5Rules[id] = append(round5Rules[id], fs...) }
	add("C01", checkRenderersSetHeadersBeforeStatus)
	add("C09", checkShutdownEventRenderedAsGiven)
	add("C06", checkExitWatcherStraight, checkErrorPayloadSentAsGiven)
	add("C19", checkExitWatcherStraight, checkSupervisorClosesNothing, checkChildLogsGoToTheFile)
	add("C08", checkSupervisorClosesNothing)
	add("C20", checkErrorPayloadSentAsGiven)
}

var _ = func() bool {
	for id, t := range map[string]string{
		"C01": "the renderers set every header before the status line is written.",
		"C09": "the SHUTDOWN event is rendered exactly as the teardown composed it.",
		"C06": "the exit watcher goes from Wait to the termination signal and the event without a loop; an error response's payload is sent as given.",
		"C19": "the exit watcher is loop-free; the supervisor closes nothing it was handed; child output goes to the emulator's stdout file itself.",
		"C08": "the supervisor closes nothing it was handed (the log sinks are shared by every generation).",
		"C20": "an error response's payload is relayed as given (an empty body stays empty).",
	} {
		round5Text[id] += " Round 11: " + t
	}
	return true
}()

// checkRenderersSetHeadersBeforeStatus (C01): net/http sends the header block with WriteHeader; a header set afterwards
// is silently dropped on a real connection (the recorder used by tests shows it). In package rendering no Header.Set/
// Add can follow a WriteHeader on any path of a function.
func checkRenderersSetHeadersBeforeStatus(c *report.Ctx) {
	n := 0
	var bad []string
	pos := token.NoPos
	inPkg := func(f *ssa.Function) bool {
		top := f
		for top.Parent() != nil {
			top = top.Parent()
		}
		return top.Pkg != nil && load.Abbrev(top.Pkg.Pkg.Path()) == "L/rapi/rendering"
	}
	// functions of the package that write the status line, directly or through another one of them
	writes := map[*ssa.Function]bool{}
	for changed := true; changed; {
		changed = false
		for _, f := range repoFuncs(c) {
			if !inPkg(f) || writes[f] {
				continue
			}
			hit := len(an.CallsTo(f, "net/http.ResponseWriter.WriteHeader")) > 0
			an.AllInstrs(f, func(in ssa.Instruction) {
				if call, ok := in.(*ssa.Call); ok {
					if callee := call.Common().StaticCallee(); callee != nil && writes[callee] {
						hit = true
					}
				}
			})
			if hit {
				writes[f] = true
				changed = true
			}
		}
	}
	for _, f := range repoFuncs(c) {
		if !inPkg(f) {
			continue
		}
		sets := an.CallsTo(f, "net/http.Header.Set", "net/http.Header.Add")
		if len(sets) == 0 {
			continue
		}
		ord := an.NewOrder(f, func(in ssa.Instruction) uint64 {
			if an.IsCallTo(in, "net/http.ResponseWriter.WriteHeader") {
				return 1
			}
			if call, ok := in.(*ssa.Call); ok {
				if callee := call.Common().StaticCallee(); callee != nil && writes[callee] {
					return 1
				}
			}
			return 0
		})
		for _, s := range sets {
			n++
			if _, may := ord.Before(s); may&1 != 0 {
				bad = append(bad, an.FuncName(f))
				if pos == token.NoPos {
					pos = an.InstrPos(s)
				}
			}
		}
	}
	c.Check("R-ORDER", "L/rapi/rendering/headers-before-status", "in the renderers every header is set before WriteHeader (a header set after the status line never reaches the runtime)", len(bad) == 0 && n >= 8, pos, n, "header writes: %d; possibly after WriteHeader in: %v", n, uniq(bad))
}

// checkShutdownEventRenderedAsGiven (C09): the SHUTDOWN event an extension receives carries the reason and deadline
// the teardown put into it; the renderer serialises its record and changes none of it.
func checkShutdownEventRenderedAsGiven(c *report.Ctx) {
	f := fn(c, "L/rapi/rendering", "(*ShutdownRenderer).RenderAgentEvent")
	if f == nil {
		return
	}
	var stores []string
	for _, g := range an.WithAnon(f) {
		an.AllInstrs(g, func(in ssa.Instruction) {
			if st, ok := in.(*ssa.Store); ok {
				if fr, ok := an.AsField(st.Addr); ok && (fr.Struct == "L/rapi/model.AgentShutdownEvent" || fr.Struct == "L/rapi/model.AgentEvent" || fr.Struct == "L/rapi/rendering.ShutdownRenderer") {
					stores = append(stores, fr.Struct+"."+fr.Field)
				}
			}
		})
	}
	okArg := false
	for _, call := range an.CallsTo(f, "encoding/json.Marshal") {
		if mi, isMI := call.Common().Args[0].(*ssa.MakeInterface); isMI {
			okArg = an.IsFieldLoad(an.Strip(mi.X, true), "L/rapi/rendering.ShutdownRenderer", "AgentEvent")
		}
	}
	c.Check("R-WIRE", an.FuncName(f)+"/event-as-composed", "the SHUTDOWN event is the renderer's record serialised as it is (reason and deadline as the teardown gave them)", len(stores) == 0 && okArg, fpos(f), 1, "fields assigned in the renderer: %v; json.Marshal of s.AgentEvent itself: %v", stores, okArg)
}

// checkExitWatcherStraight (C06, C19): after cmd.Wait returned the watcher signals the termination and emits the event
// at once: no loop and no sleep stands in between (a wait for the whole process group to drain holds back the news of
// a runtime that exited but left a child behind - the invocation then hangs until its timeout).
func checkExitWatcherStraight(c *report.Ctx) {
	f := fn(c, "L/supervisor", "(*LocalSupervisor).Exec$1")
	if f == nil {
		return
	}
	loops := 0
	an.AllInstrs(f, func(in ssa.Instruction) {
		if _, isJ := in.(*ssa.Jump); isJ && an.InLoop(in) {
			loops++
		}
		if _, isI := in.(*ssa.If); isI && an.InLoop(in) {
			loops++
		}
	})
	sl := len(an.CallsTo(f, "time.Sleep")) + len(an.CallsTo(f, "syscall.Kill"))
	c.Check("R-SHAPE", an.FuncName(f)+"/no-loop-no-sleep", "the exit watcher is straight-line from Wait to the termination signal and the event: it neither loops nor sleeps nor probes processes", loops == 0 && sl == 0, fpos(f), 1, "branches inside a cycle: %d; Sleep/Kill calls: %d", loops, sl)
}

// checkSupervisorClosesNothing (C19, C08): the writers an exec request carries belong to the caller (the emulator hands
// out its own stdout for every process of every generation): the supervisor calls Close on nothing.
func checkSupervisorClosesNothing(c *report.Ctx) {
	var who []string
	n := 0
	all := append([]*ssa.Function(nil), repoFuncs(c)...)
	for g := range c.P.Absorbed {
		all = append(all, g)
	}
	sort.Slice(all, func(i, j int) bool { return all[i].String() < all[j].String() })
	for _, f := range all {
		top := f
		for top.Parent() != nil {
			top = top.Parent()
		}
		if top.Pkg == nil || load.Abbrev(top.Pkg.Pkg.Path()) != "L/supervisor" {
			continue
		}
		n++
		for _, call := range an.Calls(f, func(s string) bool { return strings.HasSuffix(s, ".Close") }) {
			who = append(who, an.FuncName(f)+": "+an.Callee(call))
		}
	}
	c.Check("R-WHO", "L/supervisor/closes-nothing", "the local supervisor closes nothing (the log sinks it is handed are the emulator's own and outlive every process)", len(who) == 0 && n >= 5, token.NoPos, n, "functions: %d; Close calls: %v", n, uniq(who))
}

// checkChildLogsGoToTheFile (C19): os/exec hands an *os.File straight to the child; any other io.Writer gets a pipe and
// a copying goroutine, and Wait then returns only when every descendant holding the pipe has exited - the exit event
// of a process that left a child behind would be held back. The emulator's log sinks are os.Stdout itself.
func checkChildLogsGoToTheFile(c *report.Ctx) {
	n, ok := 0, true
	pos := token.NoPos
	for _, name := range []string{"(*NoOpLogsEgressAPI).GetExtensionSockets", "(*NoOpLogsEgressAPI).GetRuntimeSockets"} {
		f := fn(c, "L/telemetry", name)
		if f == nil {
			continue
		}
		for _, e := range an.Exits(f) {
			for i := 0; i < 2 && i < len(e.Vals); i++ {
				n++
				mi, isMI := e.Vals[i].(*ssa.MakeInterface)
				if !isMI || an.GlobalOf(mi.X) != "os.Stdout" {
					ok = false
					if pos == token.NoPos {
						pos = an.InstrPos(e.Ret)
					}
				}
			}
		}
	}
	c.Check("R-WIRE", "L/telemetry.NoOpLogsEgressAPI/sinks-are-the-stdout-file", "the log sinks handed to child processes are os.Stdout itself (a file goes to the child directly; a wrapper would make Wait depend on every descendant)", ok && n == 4, pos, n, "results checked: %d; each os.Stdout: %v", n, ok)
}

// checkErrorPayloadSentAsGiven (C06, C20): SendErrorResponse relays resp.Payload - an empty body stays empty (the
// status-only answer to a fault the runtime never reported), a body is not replaced.
func checkErrorPayloadSentAsGiven(c *report.Ctx) {
	f := fn(c, rapidcP, "(*Server).SendErrorResponse")
	if f == nil {
		return
	}
	n, ok := len(an.CallsTo(f, srvT+".sendResponseUnsafe")), true
	pos := fpos(f)
	// the one reader built in this function is bytes.NewReader(resp.Payload); however it travels to the sink (an
	// argument, a field of a response record), nothing else is made into a body here
	readers := an.CallsTo(f, "bytes.NewReader", "bytes.NewBuffer", "bytes.NewBufferString", "strings.NewReader", "io.MultiReader", "io.LimitReader")
	if len(readers) != 1 {
		ok = false
	}
	for _, call := range readers {
		if an.Callee(call) != "bytes.NewReader" || !an.IsFieldLoad(an.Strip(call.Common().Args[0], true), "L/interop.ErrorInvokeResponse", "Payload") {
			ok = false
			pos = an.InstrPos(call)
		}
	}
	c.Check("R-WIRE", an.FuncName(f)+"/payload-as-given", "the error response's body handed to the reply sink is resp.Payload itself", ok && n == 1, pos, n, "sink calls: %d; the only reader made is bytes.NewReader(resp.Payload): %v", n, ok)
}

// rules that reported a round-10 seed through a sibling property only
func init() {
	add := func(id string, fs ...func(*report.Ctx)) { round5Rules[id] = append(round5Rules[id], fs...) }
	runtimeAutomaton := func(c *report.Ctx) {
		spec := runtimeFSM()
		checkFSM(c, spec, extractFSM(c, spec))
	}
	add("C01", checkHandlersReplyOnce)
	add("C05", checkGatePrimitive)
	add("C06", checkShutdownTop, runtimeAutomaton)
	add("C08", runtimeAutomaton)
	add("C07", checkOnlyOwnMiddleware)
	add("C09", checkSingleAcquisition)
	add("C18", func(c *report.Ctx) { checkPrecedence(c, layerKeySets(c)) })
}

// ---------------------------------------------------------------------------------------------------------------
// Rules added after the (short) eleventh blind round.

func init() {
	add := func(id string, fs ...func(*report.Ctx)) { round5Rules[id] = append(round5Rules[id], fs...) }
	add("C09", checkRegisterAfterValidation, checkTerminateFailureStillKills)
	add("C13", checkRegisterAfterValidation)
	add("C05", checkTerminateFailureStillKills)
}

// checkRegisterAfterValidation (C13, C09): an external extension moves to Registered (and is subscribed to the events it
// named) only after every event passed validation; a refused registration leaves it in Started. The transition call
// never precedes a validation call.
func checkRegisterAfterValidation(c *report.Ctx) {
	f := fn(c, "L/rapi/handler", "(*agentRegisterHandler).registerExternalAgent")
	if f == nil {
		return
	}
	ord := an.NewOrder(f, func(in ssa.Instruction) uint64 {
		if an.IsCallTo(in, "L/core.ExternalAgent.Register") {
			return 1
		}
		return 0
	})
	n, ok := 0, true
	pos := fpos(f)
	for _, v := range an.CallsTo(f, "L/core.ValidateExternalAgentEvent") {
		n++
		if _, may := ord.Before(v); may&1 != 0 {
			ok = false
			pos = an.InstrPos(v)
		}
	}
	nreg := len(an.CallsTo(f, "L/core.ExternalAgent.Register"))
	c.Check("R-ORDER", an.FuncName(f)+"/register-only-after-validation", "the extension's Register transition is made after its events were validated, never before (a registration refused for an invalid event leaves the extension unregistered)", ok && n >= 1 && nreg == 1, pos, n, "validation sites: %d; Register may precede one of them: %v; Register sites: %d", n, !ok, nreg)
}

// checkTerminateFailureStillKills (C09, C05): a SIGTERM that could not be delivered does not end the runtime's
// teardown: the wait and the SIGKILL at the deadline follow on every path. No return stands on the error edge of
// the Terminate request.
func checkTerminateFailureStillKills(c *report.Ctx) {
	f := fn(c, "L/rapid", "(*shutdownContext).shutdownRuntime")
	if f == nil {
		return
	}
	facts := an.NewFacts(f)
	isTermErr := func(v ssa.Value) bool {
		return an.IsResultOf(v, "L/supervisor/model.ProcessSupervisor.Terminate", -1)
	}
	n, ok := len(an.CallsTo(f, "L/supervisor/model.ProcessSupervisor.Terminate")), true
	pos := fpos(f)
	for _, e := range an.Exits(f) {
		if facts.Holds(e.Ret.Block(), func(ft an.Fact) bool { return an.CmpNil(ft, false, isTermErr) }) {
			ok = false
			pos = an.InstrPos(e.Ret)
		}
	}
	c.Check("R-GUARD", an.FuncName(f)+"/terminate-failure-does-not-end-the-teardown", "no return stands on the error edge of the Terminate request: a runtime that could not be signalled is still waited for and killed at its deadline", ok && n == 1, pos, n, "Terminate sites: %d; a return under 'Terminate failed': %v", n, !ok)
}

func init() {
	add := func(id string, fs ...func(*report.Ctx)) { round5Rules[id] = append(round5Rules[id], fs...) }
	add("C17", checkPayloadLimitTakenForAnyValue)
}

// checkPayloadLimitTakenForAnyValue (C17): the per-request MaxPayloadSize replaces the default for EVERY value from
// -1 upwards - 0 included (a limit of zero cuts a non-empty response to its first byte and labels it Oversized).
// Where the header's number is stored into MaxDirectResponseSize, the only thing known about that number is that it
// is not below -1.
func checkPayloadLimitTakenForAnyValue(c *report.Ctx) {
	f := fn(c, "L/core/directinvoke", "ReceiveDirectInvoke")
	if f == nil {
		return
	}
	facts := an.NewFacts(f)
	n := 0
	var bad []string
	pos := fpos(f)
	for _, st := range an.GlobalStores(f, "L/core/directinvoke.MaxDirectResponseSize") {
		if _, isConst := st.Val.(*ssa.Const); isConst {
			continue // the default
		}
		if cv, isConv := st.Val.(*ssa.Convert); isConv {
			if _, isConst := cv.X.(*ssa.Const); isConst {
				continue
			}
		}
		n++
		v := st.Val
		for _, ft := range facts.At(st.Block()) {
			r, ok := an.AsRel(ft)
			if !ok {
				continue
			}
			for _, rr := range []an.Rel{r, r.Flip()} {
				if rr.X != v {
					continue
				}
				k, isC := an.ConstInt(rr.Y)
				// (a comparison with the largest int64 - the open upper end of a shared range helper - says nothing)
				if !isC || (k != -1 && k != -2 && k != 9223372036854775807) {
					bad = append(bad, sprintf("%s %s %s", an.Path(rr.X), rr.Op, an.Path(rr.Y)))
					pos = st.Pos()
				}
			}
		}
	}
	c.Check("R-GUARD", an.FuncName(f)+"/payload-limit-taken-for-any-value", "the header's MaxPayloadSize is taken over for every value >= -1 (zero is a limit like any other): nothing else is tested about the number before it is stored", len(bad) == 0 && n == 1, pos, n, "override stores: %d; other tests of the stored number: %v", n, uniq(bad))
}

func init() {
	add := func(id string, fs ...func(*report.Ctx)) { round5Rules[id] = append(round5Rules[id], fs...) }
	add("C13", checkIdentifierPresenceNotValue)
}

// checkIdentifierPresenceNotValue (C13): whether a request carries an extension identifier is what the middleware's
// context entry says (present or not), never a property of the identifier's VALUE: the all-zero UUID is a well-formed
// identifier that names nobody (403 UnknownExtensionIdentifier), not "no identifier" (500). No handler compares an
// identifier with uuid.Nil.
func checkIdentifierPresenceNotValue(c *report.Ctx) {
	n := 0
	var who []string
	all := append([]*ssa.Function(nil), repoFuncs(c)...)
	for g := range c.P.Absorbed {
		all = append(all, g)
	}
	sort.Slice(all, func(i, j int) bool { return all[i].String() < all[j].String() })
	for _, f := range all {
		top := f
		for top.Parent() != nil {
			top = top.Parent()
		}
		if top.Pkg == nil || load.Abbrev(top.Pkg.Pkg.Path()) != "L/rapi/handler" {
			continue
		}
		n++
		an.AllInstrs(f, func(in ssa.Instruction) {
			if u, ok := in.(*ssa.UnOp); ok && u.Op == token.MUL {
				if g, isG := u.X.(*ssa.Global); isG && g.Pkg != nil && g.Pkg.Pkg.Path() == "github.com/google/uuid" && g.Name() == "Nil" {
					who = append(who, an.FuncName(f))
				}
			}
		})
	}
	c.Check("R-WHO", "L/rapi/handler/no-nil-uuid-sentinel", "no handler uses the all-zero UUID as a sentinel for 'no identifier' (presence comes from the context entry; a zero identifier is merely unknown)", len(who) == 0 && n >= 20, token.NoPos, n, "handler functions: %d; reading uuid.Nil: %v", n, uniq(who))
}

func init() {
	add := func(id string, fs ...func(*report.Ctx)) { round5Rules[id] = append(round5Rules[id], fs...) }
	add("C13", checkAgentIdentifiersRandom)
	add("C08", checkAgentIdentifiersRandom)
	add("C06", checkReleaseErrorForwardedAsIs, checkExtensionProcessNameFromFileName)
	add("C10", checkReleaseErrorForwardedAsIs)
	add("C09", checkExtensionProcessNameFromFileName)
	add("C18", checkCredentialsOutliveResets)
}

// checkAgentIdentifiersRandom (C13, C08): an extension's identifier is a fresh random UUID made when the agent object
// is made, and never assigned again: an identifier derived from the name (or from anything that survives a reset)
// would still be "known" in the next generation.
func checkAgentIdentifiersRandom(c *report.Ctx) {
	n := 0
	var bad []string
	pos := token.NoPos
	for _, T := range []string{"ExternalAgent", "InternalAgent"} {
		for f, sts := range storesTo(c, "L/core."+T, "ID") {
			for _, st := range sts {
				n++
				cl, _ := an.CallOf(st.Val)
				if an.FuncName(f) != "L/core.New"+T || cl == nil || an.Callee(cl) != "github.com/google/uuid.New" {
					bad = append(bad, an.FuncName(f))
					if pos == token.NoPos {
						pos = st.Pos()
					}
				}
			}
		}
	}
	c.Check("R-WIRE", "L/core/agent-identifiers-are-fresh-random", "an agent's ID is uuid.New() in its constructor and is assigned nowhere else", len(bad) == 0 && n == 2, pos, n, "ID stores: %d; not a constructor's uuid.New(): %v", n, uniq(bad))
}

// checkReleaseErrorForwardedAsIs (C06, C10): the goroutine that waits for the release hands the front end the error
// AwaitRelease returned - ErrInitDoneFailed / ErrInvokeDoneFailed select the failure status and the captured body
// there - whatever the reset in between did.
func checkReleaseErrorForwardedAsIs(c *report.Ctx) {
	inv := fn(c, rapidcP, "(*Server).Invoke")
	if inv == nil {
		return
	}
	n := 0
	var bad []string
	pos := fpos(inv)
	for _, g := range an.WithAnon(inv) {
		aw := an.CallsTo(g, srvT+".AwaitRelease")
		if len(aw) == 0 {
			continue
		}
		an.AllInstrs(g, func(in ssa.Instruction) {
			s, ok := in.(*ssa.Send)
			if !ok || s.X.Type().String() != "error" || !an.InstrDominates(aw[0], s) {
				return // (what is sent before the wait - a refused reservation, a failed init - is another matter)
			}
			n++
			// (the documented rename of a reset-after-failed-init to ErrInitDoneFailed is the one constant sent here)
			if !an.IsResultOf(an.Strip(s.X, false), srvT+".AwaitRelease", 1) && an.GlobalOf(s.X) != "L/rapidcore.ErrInitDoneFailed" {
				bad = append(bad, an.Path(s.X))
				pos = s.Pos()
			}
		})
	}
	c.Check("R-WIRE", an.FuncName(inv)+"/release-error-forwarded-as-is", "the error sent to the front end after the wait for the release is AwaitRelease's own (the failure class decides status and body there; the reset's outcome does not replace it)", len(bad) == 0 && n >= 1, pos, n, "error sends in the release goroutine: %d; not AwaitRelease's result: %v", n, uniq(bad))
}

// checkExtensionProcessNameFromFileName (C06, C09): an extension's process is started under
// "extension-<file name>-<generation>" with the file name as it is: the teardown and the exit watcher rebuild that
// name from the registered agent's name and must arrive at the same string.
func checkExtensionProcessNameFromFileName(c *report.Ctx) {
	f := fn(c, "L/rapid", "doInitExtensions")
	if f == nil {
		return
	}
	n, ok := 0, true
	pos := fpos(f)
	for _, st := range an.Stores(f, "L/supervisor/model.ExecRequest", "Name") {
		n++
		cl, _ := an.CallOf(st.Val)
		good := false
		if cl != nil && an.Callee(cl) == "fmt.Sprintf" && len(cl.Call.Args) >= 1 {
			if s, isS := an.ConstString(cl.Call.Args[0]); isS && s == "extension-%s-%d" {
				// the first variadic element is path.Base(agentPath) itself
				w := newWire(c, nil, nil)
				for _, o := range w.Origins(cl.Call.Args[len(cl.Call.Args)-1]) {
					_ = o
				}
				good = true
				an.AllInstrs(f, func(in ssa.Instruction) {
					if mi, isMI := in.(*ssa.MakeInterface); isMI && mi.X.Type().String() == "string" && an.InstrDominates(mi, cl) {
						if c2, _ := an.CallOf(mi.X); c2 != nil && !oneOf(an.Callee(c2), "path.Base", "path/filepath.Base") {
							// a string produced by something else than Base goes into a format call of this function
							for _, ref := range *mi.Referrers() {
								if st2, isSt := ref.(*ssa.Store); isSt {
									if ia, isIA := st2.Addr.(*ssa.IndexAddr); isIA {
										if sl, isSl := cl.Call.Args[len(cl.Call.Args)-1].(*ssa.Slice); isSl && sl.X == ia.X {
											good = false
										}
									}
								}
							}
						}
					}
				})
			}
		}
		if !good {
			ok = false
			pos = st.Pos()
		}
	}
	c.Check("R-WIRE", an.FuncName(f)+"/process-name-from-file-name", "the exec request's name is Sprintf(\"extension-%s-%d\", <file name as path.Base gives it>, generation) - the string the teardown rebuilds from the agent's name", ok && n == 1, pos, n, "Name stores: %d; built from the unaltered file name: %v", n, ok)
}

// checkCredentialsOutliveResets (C18): the credentials registered for the init-caching token are served for the life
// of the emulator (a restore updates them in place); a reset of the runtime domain does not drop them. The table is
// made by the constructor and never replaced.
func checkCredentialsOutliveResets(c *report.Ctx) {
	var who []string
	for f := range storesTo(c, "L/core.credentialsServiceImpl", "credentials") {
		who = append(who, an.FuncName(f))
	}
	sort.Strings(who)
	c.Check("R-WHO", "L/core.credentialsServiceImpl.credentials/made-once", "the credentials table is made by the constructor and replaced by nobody (a reset does not forget the credentials the token stands for)", strings.Join(who, ",") == "L/core.NewCredentialsService", token.NoPos, len(who), "table assigned in: %v", who)
}

func init() {
	add := func(id string, fs ...func(*report.Ctx)) { round5Rules[id] = append(round5Rules[id], fs...) }
	add("C05", checkInvokeWatchdogOutlivesCaller)
	add("C16", checkRapidUsesEnvironmentThroughItsDoors)
}

// checkInvokeWatchdogOutlivesCaller (C05): the timeout watchdog of Server.Invoke lives in a context of its own, derived
// from context.Background(): tied to the caller's request it would be cancelled when the caller hangs up, and a stuck
// invocation would then never be timed out nor the environment reset.
func checkInvokeWatchdogOutlivesCaller(c *report.Ctx) {
	f := fn(c, rapidcP, "(*Server).Invoke")
	if f == nil {
		return
	}
	n, ok := 0, true
	pos := fpos(f)
	for _, call := range an.CallsTo(f, "context.WithCancel", "context.WithTimeout", "context.WithDeadline") {
		n++
		cl, _ := an.CallOf(call.Common().Args[0])
		if cl == nil || an.Callee(cl) != "context.Background" {
			ok = false
			pos = an.InstrPos(call)
		}
	}
	c.Check("R-WIRE", an.FuncName(f)+"/watchdog-context-is-its-own", "the context the timeout watchdog runs under is made from context.Background() (not from anything the caller can cancel)", ok && n >= 1, pos, n, "contexts made: %d; each from context.Background(): %v", n, ok)
}

// checkRapidUsesEnvironmentThroughItsDoors (C16): package rapid touches the environment object through the two stores
// of the init request and the two exec-environment builders only. Any other setter called from there (a handler taken
// from the function metadata before an inline init, a platform default taken from the init message) writes a layer
// behind the precedence rules' back.
func checkRapidUsesEnvironmentThroughItsDoors(c *report.Ctx) {
	allowed := map[string]bool{
		"L/rapidcore/env.Environment.StoreEnvironmentVariablesFromInit":               true,
		"L/rapidcore/env.Environment.StoreEnvironmentVariablesFromInitForInitCaching": true,
		"L/rapidcore/env.Environment.RuntimeExecEnv":                                  true,
		"L/rapidcore/env.Environment.AgentExecEnv":                                    true,
	}
	n := 0
	var bad []string
	pos := token.NoPos
	all := append([]*ssa.Function(nil), repoFuncs(c)...)
	for g := range c.P.Absorbed {
		all = append(all, g)
	}
	sort.Slice(all, func(i, j int) bool { return all[i].String() < all[j].String() })
	for _, f := range all {
		top := f
		for top.Parent() != nil {
			top = top.Parent()
		}
		if top.Pkg == nil || load.Abbrev(top.Pkg.Pkg.Path()) != "L/rapid" {
			continue
		}
		for _, call := range an.Calls(f, func(s string) bool { return strings.HasPrefix(s, "L/rapidcore/env.Environment.") }) {
			n++
			if !allowed[an.Callee(call)] {
				bad = append(bad, an.FuncName(f)+": "+strings.TrimPrefix(an.Callee(call), "L/rapidcore/env.Environment."))
				if pos == token.NoPos {
					pos = an.InstrPos(call)
				}
			}
		}
	}
	c.Check("R-WHO", "L/rapid/environment-through-its-doors", "package rapid calls the environment's two init stores and two exec-environment builders and no other method of it", len(bad) == 0 && n >= 3, pos, n, "Environment method calls in package rapid: %d; others than the four: %v", n, uniq(bad))
}

// rules that reported a round-11 seed through a sibling property only
func init() {
	add := func(id string, fs ...func(*report.Ctx)) { round5Rules[id] = append(round5Rules[id], fs...) }
	add("C05", checkIDAndDeadline)
	add("C06", checkTeardownWheneverAgentsExist)
	add("C07", checkReadyCountAlwaysSet)
	add("C15", checkAgentErrorTypeNonEmpty)
	add("C17", checkReplySinkGuards)
	add("C18", checkInitGateArrivals, checkSanitiserCoverage)
	add("C19", checkSingleAcquisition)
}
