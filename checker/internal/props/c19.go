package props

import (
	"go/token"
	"go/types"
	"sort"
	"strings"

	"golang.org/x/tools/go/ssa"

	"verif/checker/internal/an"
	"verif/checker/internal/report"
)

const supP = "L/supervisor"

func init() {
	register(&Prop{
		Spec: report.Spec{
			ID: "C19",
			Explanation: "Structure of the local supervisor's three operations (process behaviour itself is the operating system's). Exec: the process gets its own process group, is started with exec.Command (no context, no wait-altering option: only Env, Dir, ExtraFiles, Stdout, Stderr, SysProcAttr are set), is recorded and watched only after Start returned nil; the watcher goroutine closes the termination channel before it sends, and sends exactly one event on every path by a plain (unconditional, blocking) send; the status is the exit code when non-negative, else the terminating signal, with exit status 0 for a nil Wait error and the fallback 1 only when neither was derived. " +
				"kill: success is returned only from a receive on the process's termination channel; a deadline already in the past is refused before any signal; SIGKILL goes to the negated process group id when it can be obtained, else to the pid; the final wait is on termination or a context bounded by the deadline, whose expiry returns an error; Kill answers unknown names with a NoSuchEntity error. Terminate sends SIGTERM to the group (else the pid) and contains no wait of any kind; unknown names are an error. The process map is accessed under its lock. " +
				"Added after the blind rounds: the table lock is never held across a wait; no table entry is removed; \"already exited\" is tested before the deadline; one request record per started process. " +
				"NOT decided: truth of the reported status; exactly-once under concurrent exits beyond the single plain send; process-group semantics.",
			RuleText:    "one obligation per guard/order/count rule of the three operations",
			Assumptions: trusted,
			MinObs:      13,
		},
		Run: runC19,
	})
}

func runC19(c *report.Ctx) {
	c.Clause("1 Exec")
	checkSupervisorExec(c)
	c.Clause("2 kill")
	checkSupervisorKill(c)
	c.Clause("3 Terminate")
	checkSupervisorTerminate(c)
	c.Clause("4 process map")
	checkProcessMap(c)
	checkKillExitedFirst(c)
	checkFreshExecRequestPerProcess(c)
	checkStartedMeansWatched(c)
}

func checkSupervisorExec(c *report.Ctx) {
	f := fn(c, supP, "(*LocalSupervisor).Exec")
	if f == nil {
		return
	}
	name := an.FuncName(f)
	facts := an.NewFacts(f)
	// process group
	okPG := false
	for _, st := range an.Stores(f, "syscall.SysProcAttr", "Setpgid") {
		v, k := an.ConstBool(st.Val)
		okPG = k && v
	}
	c.Check("R-CONST", name+"/own-process-group", "every process is started in its own process group (so a kill can take the whole group)", okPG, fpos(f), 1, "Setpgid: true: %v", okPG)
	// how the command is created and which of its fields are set
	cmds := an.CallsTo(f, "os/exec.Command")
	ctxCmd := an.CallsTo(f, "os/exec.CommandContext")
	var set []string
	for _, st := range an.Stores(f, "os/exec.Cmd", "") {
		fr, _ := an.AsField(st.Addr)
		set = append(set, fr.Field)
	}
	set = uniq(set)
	allowed := map[string]bool{"Env": true, "Dir": true, "ExtraFiles": true, "Stdout": true, "Stderr": true, "SysProcAttr": true}
	var extra []string
	for _, s := range set {
		if !allowed[s] {
			extra = append(extra, s)
		}
	}
	c.Check("R-WHO", name+"/plain-command", "the command is a plain exec.Command whose waiting semantics are untouched: nothing (context, WaitDelay, Cancel) can make Wait report something other than the process's own termination", len(cmds) == 1 && len(ctxCmd) == 0 && len(extra) == 0, fpos(f), len(set), "command fields set: %v; not allowed: %v; CommandContext uses: %d", set, extra, len(ctxCmd))
	// Start nil dominates the map store and the go
	start := an.CallsTo(f, "os/exec.Cmd.Start")
	var goIn *ssa.Go
	an.AllInstrs(f, func(in ssa.Instruction) {
		if g, k := in.(*ssa.Go); k {
			goIn = g
		}
	})
	startedOK := func(in ssa.Instruction) bool {
		return len(start) == 1 && facts.Holds(in.Block(), func(ft an.Fact) bool {
			return an.CmpNil(ft, true, func(v ssa.Value) bool { return an.Strip(v, false) == ssa.Value(start[0].Value()) }) ||
				// err captured by the closure: stored in an alloc and re-loaded
				an.CmpNil(ft, true, func(v ssa.Value) bool {
					u, k := v.(*ssa.UnOp)
					if !k || u.Op != token.MUL {
						return false
					}
					a, k := u.X.(*ssa.Alloc)
					return k && len(start) == 1 && holdsValueOf(a, start[0].Value())
				})
		})
	}
	var mapUpd ssa.Instruction
	an.AllInstrs(f, func(in ssa.Instruction) {
		if mu, k := in.(*ssa.MapUpdate); k {
			if fr, k2 := an.AsField(an.Strip(mu.Map, false)); k2 && fr.Field == "processMap" {
				mapUpd = in
			}
		}
	})
	ok := goIn != nil && mapUpd != nil && startedOK(goIn) && startedOK(mapUpd)
	c.Check("R-GUARD", name+"/recorded-and-watched-only-if-started", "a process is recorded and its watcher started only when Start succeeded (a failed start yields an error and no event)", ok, fpos(f), 2, "map store and go under Start() == nil: %v", ok)
	// failed start returns the error
	okErr := false
	for _, e := range an.Exits(f) {
		if len(e.Vals) == 1 && !an.IsNil(e.Vals[0]) && len(start) == 1 {
			okErr = true
		}
	}
	c.Check("R-GUARD", name+"/failed-start-is-error", "a failed start is reported as an error", okErr, fpos(f), 1, "%v", okErr)
	// the watcher goroutine
	if goIn == nil {
		return
	}
	g := goClosure(goIn)
	if g == nil {
		c.Unresolved("ANCHOR", name+"/watcher", "watcher goroutine body not found")
		return
	}
	gname := an.FuncName(g)
	waits := an.CallsTo(g, "os/exec.Cmd.Wait")
	closes := an.CallsTo(g, "builtin.close")
	sends := allSends(g)
	var evSends []*ssa.Send
	for _, s := range sends {
		if fr, k := an.AsField(an.Strip(s.Chan, false)); k && fr.Field == "events" {
			evSends = append(evSends, s)
		}
	}
	min, max := an.Count(g, func(in ssa.Instruction) bool {
		s, k := in.(*ssa.Send)
		if !k {
			return false
		}
		fr, k2 := an.AsField(an.Strip(s.Chan, false))
		return k2 && fr.Field == "events"
	})
	nsel := 0
	an.AllInstrs(g, func(in ssa.Instruction) {
		if _, k := in.(*ssa.Select); k {
			nsel++
		}
	})
	c.Check("R-COUNT", gname+"/exactly-one-event", "every watched process produces exactly one termination event: one plain blocking send on the events channel on every path (no select that could drop it)", len(evSends) == 1 && min == 1 && max == 1 && nsel == 0, fpos(g), len(evSends), "send sites: %d; per path min %d max %d; selects in the watcher: %d", len(evSends), min, max, nsel)
	okOrd := len(waits) == 1 && len(closes) == 1 && len(evSends) == 1 && an.InstrDominates(waits[0], closes[0]) && an.InstrDominates(closes[0], evSends[0])
	if okOrd {
		if _, plain := closes[0].(*ssa.Call); !plain {
			okOrd = false // a deferred close runs after the send
		}
	}
	c.Check("R-ORDER", gname+"/wait-close-send", "the watcher waits for the process, then closes its termination channel (so kill observes the exit), then emits the event", okOrd, fpos(g), 3, "%v", okOrd)
	// status derivation
	gf := an.NewFacts(g)
	// the status cell: the watcher's only int32 local (exit code or signal number, handed out by address)
	var cell *ssa.Alloc
	ncell := 0
	an.AllInstrs(g, func(in ssa.Instruction) {
		if a, k := in.(*ssa.Alloc); k {
			if pt, isP := a.Type().Underlying().(*types.Pointer); isP {
				if bt, isB := pt.Elem().Underlying().(*types.Basic); isB && bt.Kind() == types.Int32 {
					cell = a
					ncell++
				}
			}
		}
	})
	if ncell != 1 {
		cell = nil
	}
	if cell == nil {
		c.Unresolved("ANCHOR", gname+"/cell", "status cell not found")
		return
	}
	kinds := map[string]bool{}
	an.AllInstrs(g, func(in ssa.Instruction) {
		st, k := in.(*ssa.Store)
		if !k || st.Addr != ssa.Value(cell) {
			return
		}
		b := st.Block()
		nonNeg := func(want bool) bool {
			return gf.Holds(b, func(ft an.Fact) bool {
				r, k := an.AsRel(ft)
				if !k {
					return false
				}
				if an.IsResultOf(r.X, "syscall.WaitStatus.ExitStatus", -1) {
					if n, kk := an.ConstInt(r.Y); kk && n == 0 {
						return (r.Op == token.GEQ) == want && (r.Op == token.GEQ || r.Op == token.LSS)
					}
				}
				return false
			})
		}
		switch {
		case an.IsResultOf(an.Strip(st.Val, true), "syscall.WaitStatus.ExitStatus", -1) && nonNeg(true):
			kinds["exit-code"] = true
		case an.IsResultOf(an.Strip(st.Val, true), "syscall.WaitStatus.Signal", -1) && nonNeg(false):
			kinds["signal"] = true
		default:
			if n, kk := an.ConstInt(st.Val); kk && n == 1 {
				// fallback: both still nil
				both := 0
				for _, ft := range gf.At(b) {
					if bo, k := ft.Cond.(*ssa.BinOp); k && bo.Op == token.EQL && ft.Val && an.IsNil(bo.Y) {
						both++
					}
				}
				if both >= 2 {
					kinds["fallback-1"] = true
				} else {
					kinds["unguarded-constant"] = true
				}
			} else {
				kinds["other:"+an.Path(st.Val)] = true
			}
		}
	})
	var ks []string
	for k := range kinds {
		ks = append(ks, k)
	}
	sort.Strings(ks)
	c.Check("R-GUARD", gname+"/status-derivation", "the reported status is the exit code when it is non-negative, otherwise the terminating signal; 0 for a nil Wait error (the cell is left zero); the fallback 1 is taken only when neither could be derived", strings.Join(ks, ",") == "exit-code,fallback-1,signal", fpos(g), len(ks), "stores to the status cell: %v", ks)
	// event fields: Signo / ExitStatus from the two pointers, Name/Domain from the request
	flds := map[string]bool{}
	for _, st := range an.Stores(g, "L/supervisor/model.EventData", "") {
		fr, _ := an.AsField(st.Addr)
		flds[fr.Field] = true
	}
	c.Check("R-WIRE", gname+"/event-fields", "the event names the process and carries the signal / exit status pointers", flds["Name"] && flds["Signo"] && flds["ExitStatus"], fpos(g), len(flds), "%v", keysOf(flds))
}

func checkSupervisorKill(c *report.Ctx) {
	f := fn(c, supP, "kill")
	if f == nil {
		return
	}
	name := an.FuncName(f)
	facts := an.NewFacts(f)
	isTerm := func(v ssa.Value) bool {
		fr, k := an.AsField(an.Strip(v, false))
		return k && fr.Field == "termination"
	}
	// success only from a termination receive
	nsucc := 0
	okS := true
	for _, e := range an.Exits(f) {
		if !an.IsNil(e.Vals[0]) {
			continue
		}
		nsucc++
		sel, idx := selectCase(facts, e.Ret.Block())
		if sel == nil || idx < 0 || idx >= len(sel.States) || !isTerm(sel.States[idx].Chan) || sel.States[idx].Dir != 2 /* RecvOnly */ {
			okS = false
		}
	}
	c.Check("R-GUARD", name+"/success-only-after-termination", "kill reports success only after it observed the process's termination (already exited, or exited after the signal)", okS && nsucc == 2, fpos(f), nsucc, "success exits: %d, each in a case receiving from the termination channel: %v", nsucc, okS)
	// signals
	kills := an.CallsTo(f, "syscall.Kill")
	since := an.CallsTo(f, "time.Since")
	okSig := len(kills) == 2
	var grp, pidk ssa.CallInstruction
	for _, k := range kills {
		sig, _ := an.ConstInt(k.Common().Args[1])
		if sig != 9 {
			okSig = false
		}
		if u, isU := k.Common().Args[0].(*ssa.UnOp); isU && u.Op == token.SUB && an.IsResultOf(u.X, "syscall.Getpgid", 0) {
			grp = k
		} else if fr, isF := an.AsField(an.Strip(k.Common().Args[0], false)); isF && fr.Field == "pid" {
			pidk = k
		}
	}
	okSig = okSig && grp != nil && pidk != nil
	if okSig {
		okSig = facts.Holds(grp.Block(), func(ft an.Fact) bool {
			return an.CmpNil(ft, true, func(v ssa.Value) bool { return an.IsResultOf(v, "syscall.Getpgid", 1) })
		})
	}
	c.Check("R-GUARD", name+"/group-sigkill", "SIGKILL is sent to the whole process group (negated group id) when the group can be determined, else to the process", okSig, fpos(f), len(kills), "%v", okSig)
	// past deadline refused before signalling
	okD := len(since) == 1
	if okD {
		for _, k := range kills {
			ok1 := facts.Holds(k.Block(), func(ft an.Fact) bool {
				r, kk := an.AsRel(ft)
				if !kk {
					return false
				}
				n, isC := an.ConstInt(r.Y)
				return an.IsResultOf(r.X, "time.Since", -1) && isC && n == 0 && r.Op == token.LEQ
			})
			if !ok1 {
				okD = false
			}
		}
		_, isParam := since[0].Common().Args[0].(*ssa.Parameter)
		okD = okD && isParam
	}
	c.Check("R-GUARD", name+"/past-deadline-refused", "a deadline already in the past is refused with an error before any signal is sent", okD, fpos(f), 1, "signals sent only under Since(deadline) <= 0: %v", okD)
	// final wait bounded by the deadline; expiry is an error
	okW := false
	for _, call := range an.CallsTo(f, "context.WithDeadline") {
		_, okW = call.Common().Args[1].(*ssa.Parameter)
	}
	okT := false
	for _, e := range an.Exits(f) {
		if an.IsNil(e.Vals[0]) {
			continue
		}
		sel, idx := selectCase(facts, e.Ret.Block())
		if sel != nil && idx >= 0 && idx < len(sel.States) && an.IsResultOf(sel.States[idx].Chan, "context.Context.Done", -1) {
			okT = true
		}
	}
	c.Check("R-GUARD", name+"/outliving-the-deadline-is-an-error", "the wait after the signal is bounded by the given deadline, and a process outliving it makes kill fail", okW && okT, fpos(f), 2, "context from the deadline parameter: %v; Done case returns an error: %v", okW, okT)
	// Kill: unknown name
	if k := fn(c, supP, "(*LocalSupervisor).Kill"); k != nil {
		kf := an.NewFacts(k)
		ok := false
		for _, e := range an.Exits(k) {
			if mi, isMI := e.Vals[0].(*ssa.MakeInterface); isMI && an.TypeName(mi.X.Type()) == "L/supervisor/model.SupervisorError" {
				ok = kf.Holds(e.Ret.Block(), func(ft an.Fact) bool {
					ex, kk := ft.Cond.(*ssa.Extract)
					if !kk || ft.Val || ex.Index != 1 {
						return false
					}
					_, isL := ex.Tuple.(*ssa.Lookup)
					return isL
				})
			}
		}
		kind := false
		for _, st := range an.Stores(k, "L/supervisor/model.SupervisorError", "Kind") {
			kc := c.P.Const("L/supervisor/model", "NoSuchEntity")
			if kc != nil {
				a, _ := an.ConstString(st.Val)
				b, _ := an.ConstString(kc.Value)
				kind = a == b && a != ""
			}
		}
		deleg := len(an.CallsTo(k, supP+".kill")) == 1
		c.Check("R-GUARD", an.FuncName(k)+"/unknown-name", "killing an unknown name fails with a NoSuchEntity error; a known one is handed to kill with the request's deadline", ok && kind && deleg, fpos(k), 3, "error on the not-found edge: %v; kind NoSuchEntity: %v; delegates: %v", ok, kind, deleg)
	}
}

func checkSupervisorTerminate(c *report.Ctx) {
	f := fn(c, supP, "(*LocalSupervisor).Terminate")
	if f == nil {
		return
	}
	name := an.FuncName(f)
	kills := an.CallsTo(f, "syscall.Kill")
	ok := len(kills) == 2
	grp := false
	for _, k := range kills {
		sig, _ := an.ConstInt(k.Common().Args[1])
		if sig != 15 {
			ok = false
		}
		if u, isU := k.Common().Args[0].(*ssa.UnOp); isU && u.Op == token.SUB && an.IsResultOf(u.X, "syscall.Getpgid", 0) {
			grp = true
		}
	}
	c.Check("R-CONST", name+"/group-sigterm", "Terminate delivers SIGTERM to the process group (else the process)", ok && grp, fpos(f), len(kills), "%v", ok && grp)
	nwait := 0
	an.AllInstrs(f, func(in ssa.Instruction) {
		switch x := in.(type) {
		case *ssa.Select:
			nwait++
		case *ssa.UnOp:
			if x.Op == token.ARROW {
				nwait++
			}
		case ssa.CallInstruction:
			cal := an.Callee(x)
			if strings.HasSuffix(cal, ".Wait") || cal == "time.Sleep" || cal == supP+".kill" {
				nwait++
			}
		}
	})
	c.Check("R-NOEFFECT", name+"/does-not-wait", "Terminate does not wait for the process", nwait == 0, fpos(f), 1, "blocking operations: %d", nwait)
	facts := an.NewFacts(f)
	okU := false
	for _, e := range an.Exits(f) {
		if !an.IsNil(e.Vals[0]) {
			okU = facts.Holds(e.Ret.Block(), func(ft an.Fact) bool {
				ex, kk := ft.Cond.(*ssa.Extract)
				return kk && !ft.Val && ex.Index == 1
			})
		}
	}
	c.Check("R-GUARD", name+"/unknown-name", "terminating an unknown name is an error", okU, fpos(f), 1, "%v", okU)
}

func checkProcessMap(c *report.Ctx) {
	T := "L/supervisor.LocalSupervisor"
	n := 0
	var bad []string
	for _, f := range repoFuncs(c) {
		if strings.HasPrefix(an.FuncName(f), "L/supervisor.NewLocalSupervisor") {
			continue
		}
		held := an.NewHeld(f)
		an.AllInstrs(f, func(in ssa.Instruction) {
			fa, k := in.(*ssa.FieldAddr)
			if !k {
				return
			}
			fr, k2 := an.AsField(fa)
			if !k2 || fr.Struct != T || fr.Field != "processMap" {
				return
			}
			n++
			ok := false
			for p := range held.At(in) {
				if strings.HasSuffix(p, ".processMapLock") {
					ok = true
				}
			}
			if !ok {
				bad = append(bad, an.FuncName(f))
			}
		})
	}
	c.Check("R-LOCK", T+".processMap", "the process table is read and written under its lock", len(bad) == 0 && n >= 3, token.NoPos, n, "%d accesses; unguarded: %v", n, uniq(bad))

	// entries are never removed one by one (a Kill or Terminate naming a process that already exited must still
	// find it and succeed); only Stop replaces the whole table
	var deleters []string
	var dpos token.Pos
	for _, f := range repoFuncs(c) {
		for _, call := range an.CallsTo(f, "builtin.delete") {
			if fr, k := an.AsField(an.Strip(call.Common().Args[0], false)); k && fr.Struct == T && fr.Field == "processMap" {
				deleters = append(deleters, an.FuncName(f))
				if dpos == token.NoPos {
					dpos = an.InstrPos(call)
				}
			}
		}
	}
	c.Check("R-WHO", T+".processMap/no-entry-removed", "no function deletes an entry of the process table (exited processes stay known, so that killing one succeeds instead of reporting an unknown name)", len(deleters) == 0, dpos, 1, "deleting functions: %v", deleters)

	// the table lock is never held across a wait: everything that can block (a channel receive, a blocking
	// select, waiting for a process) runs with the lock released, otherwise one slow Kill stalls every other
	// Exec, Kill and Terminate
	blocking := map[*ssa.Function]bool{}
	var sup []*ssa.Function
	for _, f := range repoFuncs(c) {
		if strings.HasPrefix(an.FuncName(f), "L/supervisor.") {
			sup = append(sup, f)
		}
	}
	isBlockingOp := func(in ssa.Instruction) bool {
		switch x := in.(type) {
		case *ssa.Select:
			return x.Blocking
		case *ssa.UnOp:
			return x.Op == token.ARROW
		case *ssa.Call:
			return oneOf(an.Callee(x), "os/exec.Cmd.Wait", "os.Process.Wait", "sync.WaitGroup.Wait", "time.Sleep")
		}
		return false
	}
	for changed := true; changed; {
		changed = false
		for _, f := range sup {
			if blocking[f] {
				continue
			}
			an.AllInstrs(f, func(in ssa.Instruction) {
				if blocking[f] {
					return
				}
				if isBlockingOp(in) {
					blocking[f] = true
				} else if call, ok := in.(*ssa.Call); ok {
					if sc := call.Call.StaticCallee(); sc != nil && blocking[sc] {
						blocking[f] = true
					}
				}
				if blocking[f] {
					changed = true
				}
			})
		}
	}
	var stalls []string
	var spos token.Pos
	nb := 0
	for _, f := range sup {
		if an.FuncName(f) == "L/supervisor.LocalSupervisor.Stop" {
			continue // Stop is the end of the supervisor: it deliberately holds the table while it reaps everything
		}
		held := an.NewHeld(f)
		an.AllInstrs(f, func(in ssa.Instruction) {
			blk := isBlockingOp(in)
			if call, ok := in.(*ssa.Call); ok && !blk {
				if sc := call.Call.StaticCallee(); sc != nil && blocking[sc] {
					blk = true
				}
			}
			if !blk {
				return
			}
			nb++
			for p := range held.At(in) {
				if strings.HasSuffix(p, ".processMapLock") {
					stalls = append(stalls, an.FuncName(f))
					if spos == token.NoPos {
						spos = an.InstrPos(in)
					}
				}
			}
		})
	}
	c.Check("R-LOCK", T+".processMapLock/not-held-across-waits", "the process table lock is released before anything that can wait (channel receive, blocking select, process wait)", len(stalls) == 0 && nb >= 2, spos, nb, "waiting operations in the package: %d; reached with the lock held in: %v", nb, uniq(stalls))
}

var _ = report.Discharged

// holdsValueOf: cell a is a local into which v (a call's result) is stored, e.g. an error captured by a closure.
func holdsValueOf(a *ssa.Alloc, v ssa.Value) bool {
	if v == nil {
		return false
	}
	for _, ref := range *a.Referrers() {
		if st, ok := ref.(*ssa.Store); ok && st.Addr == ssa.Value(a) && an.Strip(st.Val, false) == v {
			return true
		}
	}
	return false
}
