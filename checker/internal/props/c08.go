package props

import (
	"go/token"
	"go/types"
	"sort"
	"strings"

	"golang.org/x/tools/go/ssa"

	"verif/checker/internal/an"
	"verif/checker/internal/load"
	"verif/checker/internal/report"
)

func init() {
	register(&Prop{
		Spec: report.Spec{
			ID: "C08",
			Explanation: "Reset completeness, a necessary condition of 'a reset leaves no trace of earlier generations' that is a pure set comparison: for every carrier of per-generation state (registration service, gate, rapid context, shutdown context, interop server, rendering service, the application-context key space, package-level variables) the set of fields/keys/variables written after construction by any function of the program, minus those re-initialised on the reset path with the constructor's initial value, minus a table of reasoned exemptions, must be empty; each missing element is a concrete history distinguishing a reset instance from a fresh one. " +
				"Second clause: the events watcher may cancel flows only for an exit it classified as unexpected while not shutting down (tested before the exit is handed to the shutdown bookkeeping), so a late notification about an old process cannot cancel the next generation's barriers. Agents and runtime objects are shown to be dropped wholesale (the only long-lived references are the registration maps/field and the per-shutdown map). " +
				"Added after the blind rounds: re-initialisation in a reset root is unconditional; the invoke goroutine writes no generation state after the blocking teardown call. " +
				"NOT decided: equivalence of observable traces; the orders of the three racing steps beyond this structural precondition.",
			RuleText:    "one obligation per (carrier x field written after construction), per application-context key stored anywhere, per package-level variable written outside init, per reference-holding field; plus the watcher guard",
			Assumptions: append([]string{"a field is 'written' when a store, map update, delete, or a call of a receiver-mutating method on the field's address is found in any repository function; mutation through aliases handed to other packages' code is not tracked"}, trusted...),
			MinObs:      45,
		},
		Run: runC08,
	})
}

type carrier struct {
	pkg, typ   string
	ctors      []string          // constructor functions (writes there define the initial value)
	resetRoots []string          // functions forming the reset path (their callees inside the repo are followed)
	exempt     map[string]string // field -> reason
	ignore     map[string]bool   // mutexes etc.
}

func runC08(c *report.Ctx) {
	checkCarriersAll(c)
	runC08rest(c)
}

// checkCarriersAll: R-RESET over every state carrier (shared with C05 and C07 since round 9).
func checkCarriersAll(c *report.Ctx) {
	c.Clause("1 reset completeness")
	carriers := []carrier{
		{pkg: "L/core", typ: "registrationServiceImpl", ctors: []string{"L/core.NewRegistrationService"}, resetRoots: []string{"L/core.registrationServiceImpl.Clear"},
			exempt: map[string]string{"functionMetadata": "configuration of the instance, re-set by every init request before it is read"}, ignore: map[string]bool{"mutex": true}},
		{pkg: "L/core", typ: "gateImpl", ctors: []string{"L/core.NewGate"}, resetRoots: []string{"L/core.gateImpl.Clear"}, ignore: map[string]bool{"gateCondition": true}},
		{pkg: "L/rapid", typ: "rapidContext", ctors: []string{"L/rapid.Start"}, resetRoots: []string{"L/rapid.reinitialize", "L/rapidcore.Server.Release"},
			exempt: map[string]string{
				"runtimeDomainGeneration":    "the statement excludes process generation numbers",
				"logStreamName":              "configuration, re-set by every init/restore request",
				"eventsAPI":                  "configuration injected by the embedding program",
				"RuntimeOverheadStartedTime": "telemetry only; overwritten in doInvoke before its only read on the invoke path",
			}, ignore: map[string]bool{"handlerExecutionMutex": true}},
		{pkg: "L/rapid", typ: "shutdownContext", ctors: []string{"L/rapid.newShutdownContext"}, resetRoots: []string{"L/rapid.shutdownContext.shutdown"},
			ignore: map[string]bool{"shuttingDownMutex": true, "runtimeDomainExitedMutex": true, "agentsAwaitingExitMutex": true}},
		{pkg: "L/rapidcore", typ: "Server", ctors: []string{"L/rapidcore.NewServer"}, resetRoots: []string{"L/rapidcore.Server.Reset"},
			exempt: map[string]string{
				"InternalStateGetter": "wiring, set once at start-up",
				"sandboxContext":      "wiring, set once at start-up",
				"invokeTimeout":       "configuration of the instance (function timeout)",
				"initContext":         "per-instance init context (holds the per-init request buffer, itself reset before every use: C01)",
				"initFailures":        "init happens once per process; the channel is closed after init completed",
				"invoker":             "re-assigned by every Reserve before FastInvoke reads it",
				"reservationContext":  "re-created by every reservation; cancelled by Release",
				"reservationCancel":   "re-created by every reservation; invoked by Release",
			}, ignore: map[string]bool{"mutex": true}},
		{pkg: "L/rapi/rendering", typ: "EventRenderingService", ctors: []string{"L/rapi/rendering.NewRenderingService"}, resetRoots: []string{"L/rapid.reinitialize"}, ignore: map[string]bool{"mutex": true}},
	}
	for _, cr := range carriers {
		checkCarrier(c, cr)
	}
}

func runC08rest(c *report.Ctx) {
	// the flow objects hold no state of their own: their Clear must reach every gate (same rule as C11 clause 6)
	checkFlow(c, "initFlowSynchronizationImpl", []string{"Clear"}, map[string]string{"Clear": "Clear"}, nil)
	checkFlow(c, "invokeFlowSynchronizationImpl", []string{"Clear"}, map[string]string{"Clear": "Clear"}, nil)
	checkResetReachesCarriers(c)
	checkAppCtxKeys(c)
	checkGlobals(c)
	checkLongLivedRefs(c)
	c.Clause("2 late exit notification")
	checkWatcherGuard(c)
	checkNoLateWriteOfGenerationState(c)
	checkInvokeRefusalPath(c) // Clear after the sandbox reset: nothing of the old generation is queued behind it
	checkShutdownTop(c)       // exits during the teardown are marked as expected until the teardown is over
}

// checkNoLateWriteOfGenerationState: the invoke goroutine writes the cached init error (state that the
// reset's Clear wipes) only before it enters Shutdown. Shutdown takes the handler mutex and can therefore
// return only after a concurrent reset - including its Clear - has completed; a write placed after it would
// plant the old generation's init error in the new generation.
func checkNoLateWriteOfGenerationState(c *report.Ctx) {
	inv := fn(c, rapidcP, "(*Server).Invoke")
	if inv == nil {
		return
	}
	// the function (Invoke itself or one of its goroutines) that shuts down after a failed init
	var g *ssa.Function
	var walk func(f *ssa.Function)
	walk = func(f *ssa.Function) {
		if g == nil && len(an.CallsTo(f, srvT+".Shutdown")) > 0 {
			g = f
		}
		for _, a := range f.AnonFuncs {
			walk(a)
		}
	}
	walk(inv)
	if g == nil {
		c.Unresolved("ANCHOR", "L/rapidcore.Server.Invoke/shutdown-after-failed-init", "no call of Server.Shutdown in Invoke or its goroutines")
		return
	}
	sh := an.CallsTo(g, srvT+".Shutdown")
	isSh := map[ssa.Instruction]bool{}
	for _, s := range sh {
		isSh[s] = true
	}
	ord := an.NewOrder(g, func(in ssa.Instruction) uint64 {
		if isSh[in] {
			return 1
		}
		return 0
	})
	sets := an.CallsTo(g, srvT+".setCachedInitErrorResponse")
	ok := true
	pos := fpos(g)
	for _, st := range sets {
		if _, may := ord.Before(st); may&1 != 0 {
			ok = false
			pos = an.InstrPos(st)
		}
	}
	c.Check("R-ORDER", an.FuncName(g)+"/generation-state-written-before-shutdown", "the invoke goroutine caches the init error before it calls Shutdown, never after (Shutdown waits for the handler mutex, i.e. possibly for a whole reset including the Clear that wipes the cache)", ok && len(sets) >= 1 && len(sh) >= 1, pos, len(sets)+len(sh), "cache writes: %d, Shutdown calls: %d, a write possibly after Shutdown: %v", len(sets), len(sh), !ok)
}

// mutatesRecv: does fn (a method) write through its receiver?
var mutCache = map[*ssa.Function]int{}

func mutatesRecv(fn *ssa.Function) bool {
	if fn == nil || len(fn.Blocks) == 0 || len(fn.Params) == 0 {
		return true // unknown body: assume it may
	}
	if v, ok := mutCache[fn]; ok {
		return v == 1
	}
	mutCache[fn] = 2
	recv := fn.Params[0]
	rooted := func(v ssa.Value) bool {
		for i := 0; i < 10; i++ {
			switch x := v.(type) {
			case *ssa.FieldAddr:
				v = x.X
			case *ssa.IndexAddr:
				v = x.X
			case *ssa.UnOp:
				if x.Op == token.MUL {
					v = x.X
				} else {
					return false
				}
			case *ssa.Parameter:
				return x == recv
			default:
				return false
			}
		}
		return false
	}
	res := false
	an.AllInstrs(fn, func(in ssa.Instruction) {
		switch x := in.(type) {
		case *ssa.Store:
			if rooted(x.Addr) {
				res = true
			}
		case *ssa.MapUpdate:
			if rooted(x.Map) {
				res = true
			}
		case ssa.CallInstruction:
			cc := x.Common()
			if b, ok := cc.Value.(*ssa.Builtin); ok && b.Name() == "delete" && len(cc.Args) > 0 && rooted(cc.Args[0]) {
				res = true
			}
			if sc := cc.StaticCallee(); sc != nil && sc.Signature.Recv() != nil && len(cc.Args) > 0 && rooted(cc.Args[0]) {
				if _, isPtr := sc.Signature.Recv().Type().(*types.Pointer); isPtr && sc != fn && mutatesRecv(sc) {
					res = true
				}
			}
		}
	})
	if res {
		mutCache[fn] = 1
	}
	return res
}

// fieldWrites returns, for function f, the fields of struct T it writes, with
// a description of the value class written ("zero", "const:x", "make", "param", "field:g", "call", "mutate").
func fieldWrites(f *ssa.Function, T string) map[string][]string {
	out := map[string][]string{}
	// rootField: is addr rooted at FieldAddr(T.f)?  returns f and whether it IS exactly that field's address
	var rootField func(v ssa.Value, depth int) (string, bool)
	rootField = func(v ssa.Value, depth int) (string, bool) {
		if depth > 8 {
			return "", false
		}
		switch x := v.(type) {
		case *ssa.FieldAddr:
			if fr, ok := an.AsField(x); ok && fr.Struct == T {
				return fr.Field, true
			}
			f, _ := rootField(x.X, depth+1)
			return f, false
		case *ssa.IndexAddr:
			f, _ := rootField(x.X, depth+1)
			return f, false
		case *ssa.UnOp:
			if x.Op == token.MUL {
				f, _ := rootField(x.X, depth+1)
				return f, false
			}
		}
		return "", false
	}
	an.AllInstrs(f, func(in ssa.Instruction) {
		switch x := in.(type) {
		case *ssa.Store:
			// the whole struct replaced by a constructor's result (*m = NewT()): each field is written with what
			// the constructor puts there
			if _, isFA := x.Addr.(*ssa.FieldAddr); !isFA && an.TypeName(x.Addr.Type()) == T {
				if cl, ok := an.Strip(x.Val, false).(*ssa.Call); ok {
					if sc := cl.Common().StaticCallee(); sc != nil && len(sc.Blocks) > 0 && sc != f && an.TypeName(sc.Signature.Results().At(0).Type()) == T {
						inner := fieldWrites(sc, T)
						if st := structOf(x.Addr.Type()); st != nil {
							for i := 0; i < st.NumFields(); i++ {
								fld := an.FieldName(x.Addr.Type(), st.Field(i).Name())
								if len(inner[fld]) == 0 {
									out[fld] = append(out[fld], "zero")
								} else {
									out[fld] = append(out[fld], inner[fld]...)
								}
							}
						}
					}
				}
			}
			if fld, exact := rootField(x.Addr, 0); fld != "" {
				if exact {
					out[fld] = append(out[fld], valueClass(x.Val))
				} else {
					out[fld] = append(out[fld], "mutate")
				}
			}
		case *ssa.MapUpdate:
			if fld, _ := rootField(x.Map, 0); fld != "" {
				out[fld] = append(out[fld], "mutate")
			}
		case ssa.CallInstruction:
			cc := x.Common()
			if b, ok := cc.Value.(*ssa.Builtin); ok && b.Name() == "delete" && len(cc.Args) > 0 {
				if fld, _ := rootField(cc.Args[0], 0); fld != "" {
					out[fld] = append(out[fld], "mutate")
				}
			}
			if sc := cc.StaticCallee(); sc != nil && sc.Signature.Recv() != nil && len(cc.Args) > 0 {
				if _, isPtr := sc.Signature.Recv().Type().(*types.Pointer); isPtr {
					if fld, exact := rootField(cc.Args[0], 0); fld != "" && exact {
						pk := ""
						if sc.Pkg != nil {
							pk = sc.Pkg.Pkg.Path()
						}
						if pk == "sync" {
							if an.FuncName(sc) == "sync.Once.Do" {
								out[fld] = append(out[fld], "mutate")
							}
						} else if mutatesRecv(sc) {
							cls := "mutate"
							if sc.Name() == "Clear" {
								cls = "clear()"
							}
							out[fld] = append(out[fld], cls)
						}
					}
				}
			}
		}
	})
	return out
}

func structOf(t types.Type) *types.Struct {
	if p, ok := t.Underlying().(*types.Pointer); ok {
		t = p.Elem()
	}
	st, _ := t.Underlying().(*types.Struct)
	return st
}

func valueClass(v ssa.Value) string {
	v = an.Strip(v, true)
	switch x := v.(type) {
	case *ssa.Const:
		if x.Value == nil || x.IsNil() {
			return "zero"
		}
		s := x.Value.ExactString()
		if s == "0" || s == "false" || s == `""` {
			return "zero"
		}
		return "const:" + s
	case *ssa.MakeMap, *ssa.MakeChan, *ssa.MakeSlice:
		return "make"
	case *ssa.Parameter:
		return "param"
	case *ssa.UnOp:
		if x.Op == token.MUL {
			if fr, ok := an.AsField(x.X); ok {
				return "field:" + fr.Field
			}
			if a, ok := x.X.(*ssa.Alloc); ok {
				// zero-valued composite literal (e.g. sync.Once{}): alloc never stored to
				stored := false
				for _, ref := range *a.Referrers() {
					switch r := ref.(type) {
					case *ssa.Store:
						if r.Addr == ssa.Value(a) {
							stored = true
						}
					case *ssa.FieldAddr:
						stored = true
					}
				}
				if !stored {
					return "zero"
				}
			}
		}
	case *ssa.Call:
		return "call:" + an.Callee(x)
	case *ssa.Alloc:
		return "new"
	}
	return "other"
}

func checkCarrier(c *report.Ctx, cr carrier) {
	T := cr.pkg + "." + cr.typ
	fields := structFields(c, cr.pkg, cr.typ)
	if fields == nil {
		return
	}
	isCtor := func(n string) bool { return oneOf(n, cr.ctors...) }
	// reset path: roots + repo callees (static), closures included
	resetFns := map[*ssa.Function]bool{}
	var addReset func(f *ssa.Function, depth int)
	addReset = func(f *ssa.Function, depth int) {
		if f == nil || resetFns[f] || depth > 4 || len(f.Blocks) == 0 {
			return
		}
		if f.Pkg == nil || !strings.HasPrefix(f.Pkg.Pkg.Path(), "go.amzn.com") {
			return
		}
		resetFns[f] = true
		for _, a := range f.AnonFuncs {
			addReset(a, depth)
		}
		an.AllInstrs(f, func(in ssa.Instruction) {
			if call, ok := in.(ssa.CallInstruction); ok {
				if sc := call.Common().StaticCallee(); sc != nil {
					addReset(sc, depth+1)
				}
			}
		})
	}
	nroots := 0
	for _, f := range repoFuncs(c) {
		if oneOf(an.FuncName(f), cr.resetRoots...) {
			nroots++
			addReset(f, 0)
		}
	}
	if nroots < len(cr.resetRoots) {
		c.Unresolved("ANCHOR", T+"/reset-path", "reset function(s) %v: only %d found", cr.resetRoots, nroots)
		return
	}
	written := map[string][]string{}   // field -> writer functions (non-ctor, non-reset)
	resetVals := map[string][]string{} // field -> value classes written on the reset path
	ctorVals := map[string][]string{}
	for _, f := range repoFuncs(c) {
		fw := fieldWrites(f, T)
		if len(fw) == 0 {
			continue
		}
		n := an.FuncName(f)
		for fld, classes := range fw {
			switch {
			case isCtor(n):
				ctorVals[fld] = append(ctorVals[fld], classes...)
			case resetFns[f]:
				resetVals[fld] = append(resetVals[fld], classes...)
				// a reset-path function that is also an ordinary mutator (e.g. setters reached from Reset) counts as a writer only through others
			default:
				written[fld] = append(written[fld], n)
			}
		}
	}
	// setters (methods whose write is `t.f = parameter`) are transparent: the write is attributed to
	// their callers (through forwarding wrappers and interface dispatch, via the VTA call graph)
	for fld, sw := range setterWrites(c, T, resetFns, isCtor) {
		// drop the setter methods themselves from the writer list
		var keep []string
		for _, wname := range written[fld] {
			if !sw.setters[wname] {
				keep = append(keep, wname)
			}
		}
		written[fld] = append(keep, sw.writers...)
		if len(written[fld]) == 0 {
			delete(written, fld)
		}
		resetVals[fld] = append(resetVals[fld], sw.resetVals...)
	}
	nchecked := 0
	for _, fv := range fields {
		fld := fv.Name()
		if cr.ignore[fld] {
			continue
		}
		writers := written[fld]
		sort.Strings(writers)
		key := sprintf("%s/%s", T, fld)
		if len(writers) == 0 {
			if _, has := resetVals[fld]; has {
				nchecked++
				c.Check("R-RESET", key, "field written only by the constructor and the reset path", true, fv.Pos(), 1, "no writers outside constructor/reset path")
			}
			continue
		}
		nchecked++
		if reason, ok := cr.exempt[fld]; ok {
			c.Check("R-RESET", key, "field written after construction and not reset: allowed only with a stated reason", true, fv.Pos(), len(writers), "exempt (%s); writers: %v", reason, uniq(writers))
			continue
		}
		rv := resetVals[fld]
		ok := len(rv) > 0
		detail := sprintf("writers: %v; reset path writes: %v; constructor writes: %v", uniq(writers), uniq(rv), uniq(ctorVals[fld]))
		if ok {
			// the value restored must be the constructor's initial value class
			init := "zero"
			if cv := ctorVals[fld]; len(cv) > 0 {
				init = cv[len(cv)-1]
			}
			match := false
			for _, v := range rv {
				switch {
				case v == init:
					match = true
				case v == "clear()" && (init == "call:L/core.NewInternalAgentsMap" || init == "call:L/core.NewExternalAgentsMap" || strings.HasPrefix(init, "call:")):
					match = true
				case init == "param" && strings.HasPrefix(v, "field:"):
					// restored from a field that only the constructor writes (checked below)
					src := strings.TrimPrefix(v, "field:")
					if len(written[src]) == 0 && len(resetVals[src]) == 0 {
						match = true
					}
				case init == "zero" && v == "param":
					// setter reached from the reset path with a constant argument: resolved by the caller-side check
					match = match || resetSetterConst(c, cr, fld)
				case strings.HasPrefix(init, "const:") && v == "param":
					match = match || resetSetterConst(c, cr, fld)
				}
			}
			if !match {
				ok = false
				detail += sprintf("; initial value class %q is not what the reset path restores", init)
			}
		}
		// where a reset root stores the field itself, the store must lie on every path to every exit of that
		// root (a reset that re-initialises a field only under some condition leaves the old generation's value
		// behind on the other paths)
		if ok {
			for _, f := range repoFuncs(c) {
				if !oneOf(an.FuncName(f), cr.resetRoots...) {
					continue
				}
				sts := an.Stores(f, T, fld)
				if len(sts) == 0 {
					continue
				}
				isSt := map[ssa.Instruction]bool{}
				for _, st := range sts {
					isSt[st] = true
				}
				ord := an.NewOrder(f, func(in ssa.Instruction) uint64 {
					if isSt[in] {
						return 1
					}
					return 0
				})
				for _, e := range an.Exits(f) {
					if must, _ := ord.Before(e.Ret); must&1 == 0 {
						ok = false
						detail += sprintf("; %s re-initialises the field only on some of its paths", an.FuncName(f))
						break
					}
				}
			}
		}
		c.Check("R-RESET", key, "a field that any function writes after construction is re-initialised on the reset path with the constructor's initial value (else a reset instance differs from a fresh one)", ok, fv.Pos(), len(writers)+len(rv), "%s", detail)
	}
	c.Check("R-COUNT", T+"/fields-examined", "per-generation fields of the carrier were found", nchecked >= 1, token.NoPos, nchecked, "%d fields with writers or reset stores", nchecked)
}

// resetSetterConst: the reset path calls a setter for fld with a constant (e.g.
// setRapidPhase(phaseIdle), SetRuntimeStartedTime(-1), SetRenderer(nil)); accept
// when every such call on the reset path passes a constant.
func resetSetterConst(c *report.Ctx, cr carrier, fld string) bool {
	T := cr.pkg + "." + cr.typ
	// setters: methods of T storing a parameter into fld
	setters := map[string]bool{}
	for _, f := range methodsOf(c, cr.pkg, cr.typ) {
		for _, st := range an.Stores(f, T, fld) {
			if _, ok := st.Val.(*ssa.Parameter); ok {
				setters[an.FuncName(f)] = true
			}
		}
	}
	if len(setters) == 0 {
		return false
	}
	okAny := false
	for _, root := range cr.resetRoots {
		for _, f := range repoFuncs(c) {
			if !strings.HasPrefix(an.FuncName(f), root) && an.FuncName(f) != root {
				continue
			}
			for _, g := range an.WithAnon(f) {
				an.AllInstrs(g, func(in ssa.Instruction) {
					call, ok := in.(ssa.CallInstruction)
					if !ok {
						return
					}
					cal := an.Callee(call)
					isSetter := setters[cal]
					// interface-dispatched setter (e.g. SandboxContext.SetRuntimeStartedTime -> rapidContext)
					if !isSetter {
						for s := range setters {
							if strings.HasSuffix(cal, s[strings.LastIndex(s, "."):]) && call.Common().IsInvoke() {
								isSetter = true
							}
						}
					}
					if isSetter {
						args := call.Common().Args
						if _, isC := an.Strip(args[len(args)-1], true).(*ssa.Const); isC {
							okAny = true
						}
					}
				})
			}
		}
	}
	// one more hop: reset root calls a wrapper (SandboxContext.Set...) that forwards its parameter
	if !okAny {
		for _, f := range repoFuncs(c) {
			if !oneOf(an.FuncName(f), cr.resetRoots...) {
				continue
			}
			an.AllInstrs(f, func(in ssa.Instruction) {
				if call, ok := in.(ssa.CallInstruction); ok {
					args := call.Common().Args
					if len(args) > 0 {
						if _, isC := an.Strip(args[len(args)-1], true).(*ssa.Const); isC && strings.Contains(an.Callee(call), "Set") {
							okAny = true
						}
					}
				}
			})
		}
	}
	return okAny
}

func uniq(s []string) []string {
	m := map[string]bool{}
	var out []string
	for _, x := range s {
		if !m[x] {
			m[x] = true
			out = append(out, x)
		}
	}
	sort.Strings(out)
	return out
}

// checkResetReachesCarriers: the reset entry points really call the reset functions.
func checkResetReachesCarriers(c *report.Ctx) {
	re := fn(c, "L/rapid", "reinitialize")
	if re != nil {
		want := []string{"L/core.RegistrationService.Clear", "L/core.InitFlowSynchronization.Clear", "L/core.InvokeFlowSynchronization.Clear", "L/rapi/rendering.EventRenderingService.SetRenderer"}
		for _, w := range want {
			calls := an.CallsTo(re, w)
			ok := len(calls) == 1
			if ok {
				for _, e := range an.Exits(re) {
					if !an.InstrDominates(calls[0], e.Ret) {
						ok = false
					}
				}
				if strings.HasSuffix(w, "SetRenderer") {
					ok = ok && an.IsNil(calls[0].Common().Args[1])
				}
			}
			c.Check("R-ORDER", "L/rapid.reinitialize/calls/"+w, "state clearing after a reset reaches this carrier on every path", ok, fpos(re), len(calls), "%d call sites", len(calls))
		}
		// telemetry subscription APIs cleared when enabled
		tcalls := an.CallsTo(re, "L/telemetry.SubscriptionAPI.Clear")
		nt := len(tcalls)
		// ... and under no other condition than that flag (the registry was cleared a line earlier: "has active
		// extensions" is false by then, and the old generation's subscriptions would survive)
		var extra []string
		refacts := an.NewFacts(re)
		for _, tc := range tcalls {
			for _, ft := range refacts.At(tc.Block()) {
				calls, fields := condMentions(ft.Cond, refacts)
				extra = append(extra, calls...)
				for _, fl := range fields {
					if fl != rapidCtxT+".telemetryAPIEnabled" {
						extra = append(extra, fl)
					}
				}
			}
		}
		c.Check("R-ORDER", "L/rapid.reinitialize/calls/telemetry-clear", "both telemetry subscription services are cleared when the telemetry API is enabled, whatever else holds", nt == 2 && len(extra) == 0, fpos(re), nt, "%d Clear calls; other conditions they stand under: %v", nt, uniq(extra))
		st := an.Stores(re, "L/rapid.rapidContext", "initDone")
		ok := len(st) == 1
		if ok {
			v, k := an.ConstBool(st[0].Val)
			ok = k && !v
		}
		c.Check("R-RESET", "L/rapid.rapidContext/initDone/false", "the next invocation after a reset re-initialises (initDone = false)", ok, fpos(re), len(st), "%d stores", len(st))
	}
	// SandboxContext.Reset: HandleReset then deferred Clear
	if sr := fn(c, rapidcP, "(SandboxContext).Reset"); sr != nil {
		var hr, cl ssa.CallInstruction
		an.AllInstrs(sr, func(in ssa.Instruction) {
			if call, ok := in.(ssa.CallInstruction); ok {
				switch an.Callee(call) {
				case "L/interop.RapidContext.HandleReset":
					hr = call
				case "L/interop.RapidContext.Clear":
					cl = call
				}
			}
		})
		_, deferred := cl.(*ssa.Defer)
		if !deferred && cl != nil && an.DeferOrigin(cl) {
			deferred = true // the deferred call of an absorbed helper, placed at its exits by the normal form
		}
		c.Check("R-ORDER", "L/rapidcore.SandboxContext.Reset/clear-after-handle-reset", "every reset ends with clearing the rapid context (deferred Clear runs after HandleReset returned)", hr != nil && cl != nil && deferred, fpos(sr), 2, "HandleReset: %v; deferred Clear: %v", hr != nil, deferred)
	}
	if rc := fn(c, "L/rapid", "(*rapidContext).Clear"); rc != nil {
		c.Check("R-ORDER", "L/rapid.rapidContext.Clear/reinitialize", "Clear re-initialises the context", len(an.CallsTo(rc, "L/rapid.reinitialize")) == 1, fpos(rc), 1, "calls reinitialize")
	}
}

func checkAppCtxKeys(c *report.Ctx) {
	re := fn(c, "L/rapid", "reinitialize")
	if re == nil {
		return
	}
	keyName := map[int64]string{}
	pkg := c.P.Pkg("L/appctx")
	for name, mem := range pkg.Members {
		if k, ok := mem.(*ssa.NamedConst); ok && an.TypeName(k.Type()) == "L/appctx.Key" {
			n, _ := an.ConstInt(k.Value)
			keyName[n] = name
		}
	}
	stored := map[string][]string{}
	deleted := map[string]bool{}
	for _, f := range repoFuncs(c) {
		if strings.HasPrefix(an.FuncName(f), "L/testdata.") {
			continue
		}
		an.AllInstrs(f, func(in ssa.Instruction) {
			call, ok := in.(ssa.CallInstruction)
			if !ok {
				return
			}
			cal := an.Callee(call)
			if !strings.HasPrefix(cal, "L/appctx.ApplicationContext.") {
				return
			}
			args := call.Common().Args
			if len(args) == 0 {
				return
			}
			n, isC := an.ConstInt(args[0])
			name := "<dynamic>"
			if isC {
				name = keyName[n]
			}
			switch strings.TrimPrefix(cal, "L/appctx.ApplicationContext.") {
			case "Store", "StoreIfNotExists":
				stored[name] = append(stored[name], an.FuncName(f))
			case "Delete":
				if an.FuncName(f) == "L/rapid.reinitialize" {
					deleted[name] = true
				}
			}
		})
	}
	exempt := map[string]string{
		"AppCtxInteropServerKey":  "wiring, stored once in rapid.Start",
		"AppCtxInitType":          "configuration, stored once in rapid.Start",
		"AppCtxResponseSenderKey": "re-stored at the start of every handleInvoke before any handler can read it",
		"AppCtxSandboxType":       "re-stored by every doRuntimeDomainInit before it is read",
	}
	var names []string
	for k := range stored {
		names = append(names, k)
	}
	sort.Strings(names)
	for _, k := range names {
		key := "L/appctx.Key/" + k
		if r, ok := exempt[k]; ok {
			c.Check("R-RESET", key, "application-context key stored after start-up and not deleted by the reset: allowed only with a stated reason", true, fpos(re), len(stored[k]), "exempt (%s); stored by %v", r, uniq(stored[k]))
			continue
		}
		c.Check("R-RESET", key, "every application-context key that is stored anywhere is deleted by reinitialize, the last step of a reset (recorded errors, runtime identity string and error trace data do not survive into the next generation)", deleted[k], fpos(re), len(stored[k]), "stored by %v; deleted in reinitialize: %v", uniq(stored[k]), deleted[k])
	}
	c.Check("R-COUNT", "L/appctx.Key/stored-keys", "the keys in use were enumerated", len(names) >= 6, fpos(re), len(names), "keys: %v", names)
	// the map is private to the accessor methods
	var outsiders []string
	for _, f := range repoFuncs(c) {
		if f.Signature.Recv() != nil && an.TypeName(f.Signature.Recv().Type()) == "L/appctx.applicationContext" {
			continue
		}
		an.AllInstrs(f, func(in ssa.Instruction) {
			if fa, ok := in.(*ssa.FieldAddr); ok {
				if fr, ok := an.AsField(fa); ok && fr.Struct == "L/appctx.applicationContext" && an.FuncName(f) != "L/appctx.NewApplicationContext" {
					outsiders = append(outsiders, an.FuncName(f))
				}
			}
		})
	}
	c.Check("R-WHO", "L/appctx.applicationContext/private", "the key space is reachable only through Store/StoreIfNotExists/Load/Delete", len(outsiders) == 0, token.NoPos, 1, "other accessors: %v", outsiders)
}

// checkGlobals: package-level variables written outside init functions.
func checkGlobals(c *report.Ctx) {
	exempt := map[string]string{
		"L/core/directinvoke.MaxDirectResponseSize":      "per-request setting re-assigned by every direct invoke request (C17)",
		"L/core/directinvoke.InvokeResponseMode":         "per-request setting re-assigned by every direct invoke request (C17)",
		"L/core/directinvoke.ResponseBandwidthRate":      "per-request setting re-assigned by every streaming direct invoke request (C17)",
		"L/core/directinvoke.ResponseBandwidthBurstSize": "per-request setting re-assigned by every streaming direct invoke request (C17)",
		"M/cmd/aws-lambda-rie.initDone":                  "front-end initialisation happens once per process by design (a reset re-initialises inside the next invocation)",
		"L/extensions.enabled":                           "configuration flag (Enable/Disable/DisableViaMagicLayer), not per-generation state",
	}
	written := map[string][]string{}
	for _, f := range repoFuncs(c) {
		n := an.FuncName(f)
		if f.Name() == "init" || strings.HasPrefix(n, "L/testdata.") {
			continue
		}
		an.AllInstrs(f, func(in ssa.Instruction) {
			if st, ok := in.(*ssa.Store); ok {
				if g, ok := st.Addr.(*ssa.Global); ok && g.Pkg != nil && strings.HasPrefix(g.Pkg.Pkg.Path(), "go.amzn.com") {
					written[an.Path(g)] = append(written[an.Path(g)], n)
				}
			}
			// map-typed globals mutated
			if mu, ok := in.(*ssa.MapUpdate); ok {
				if u, ok := mu.Map.(*ssa.UnOp); ok {
					if g, ok := u.X.(*ssa.Global); ok && g.Pkg != nil && strings.HasPrefix(g.Pkg.Pkg.Path(), "go.amzn.com") {
						written[an.Path(g)] = append(written[an.Path(g)], n)
					}
				}
			}
		})
	}
	var names []string
	for k := range written {
		names = append(names, k)
	}
	sort.Strings(names)
	for _, g := range names {
		r, ok := exempt[g]
		c.Check("R-RESET", "global/"+g, "a package-level variable written while serving is per-process state that no reset touches: allowed only with a stated reason", ok, token.NoPos, len(written[g]), "writers: %v; reason: %s", uniq(written[g]), r)
	}
	c.Check("R-COUNT", "global/enumerated", "package-level variables written outside init were enumerated", len(names) >= 4, token.NoPos, len(names), "%v", names)
}

// checkLongLivedRefs: struct fields that can hold a Runtime / agent object.
func checkLongLivedRefs(c *report.Ctx) {
	want := map[string]string{
		"L/core.registrationServiceImpl.runtime":     "set to nil by Clear",
		"L/core.ExternalAgentsMap.byName":            "re-made by Clear",
		"L/core.ExternalAgentsMap.byID":              "re-made by Clear",
		"L/core.InternalAgentsMap.byName":            "re-made by Clear",
		"L/core.InternalAgentsMap.byID":              "re-made by Clear",
		"L/rapid.shutdownContext.agentsAwaitingExit": "re-made at the start of every shutdownAgents",
	}
	holds := func(t types.Type) bool {
		s := load.CanonTypeString(t) // (an instance of a generic container is written by the alias name it is declared with)
		return strings.Contains(s, "core.Runtime") && !strings.Contains(s, "RuntimeState") || strings.Contains(s, "core.ExternalAgent") && !strings.Contains(s, "ExternalAgentState") && !strings.Contains(s, "ExternalAgentsMap") ||
			strings.Contains(s, "core.InternalAgent") && !strings.Contains(s, "InternalAgentState") && !strings.Contains(s, "InternalAgentsMap")
	}
	got := map[string]bool{}
	for _, sp := range c.P.SSAPkgs {
		if sp.Pkg.Path() == "go.amzn.com/lambda/testdata" {
			continue
		}
		for _, mem := range sp.Members {
			tm, ok := mem.(*ssa.Type)
			if !ok {
				continue
			}
			named, ok := types.Unalias(tm.Type()).(*types.Named)
			if !ok {
				continue
			}
			st, ok := named.Underlying().(*types.Struct)
			if !ok {
				continue
			}
			if strings.HasSuffix(c.P.Fset.Position(named.Obj().Pos()).Filename, "_test.go") {
				continue
			}
			tn := an.TypeName(named)
			if load.GlueStruct[load.CanonTypeName(named)] && !reachableFromPinnedField(c, named) {
				continue // a helper struct the pinned tree does not have and that no pinned struct refers to: it lives as long as the call that makes it
			}
			for i := 0; i < st.NumFields(); i++ {
				f := st.Field(i)
				if !holds(f.Type()) {
					continue
				}
				fname := an.FieldName(named, f.Name()) // (a field recognised as renamed is seen under its pinned name)
				// back pointers inside the state objects belong to the object graph that is dropped
				if strings.HasSuffix(tn, "State") && (fname == "runtime" || fname == "agent") {
					continue
				}
				got[tn+"."+fname] = true
			}
		}
	}
	var extra []string
	for k := range got {
		if _, ok := want[k]; !ok {
			extra = append(extra, k)
		}
	}
	sort.Strings(extra)
	c.Check("R-WHO", "long-lived-references", "runtime and extension objects of a generation are referenced only from the registration service's field/maps and the per-shutdown map, all of which the reset path clears; they are therefore dropped wholesale with their state, subscriptions and parked threads", len(extra) == 0 && len(got) >= 5, token.NoPos, len(got), "reference-holding fields: %v; unexpected: %v", keysOf(got), extra)
	checkAgentMapsCleared(c)
	// shutdownAgents re-makes agentsAwaitingExit before use
	if f := fn(c, "L/rapid", "(*shutdownContext).shutdownAgents"); f != nil {
		fw := fieldWrites(f, "L/rapid.shutdownContext")
		c.Check("R-RESET", "L/rapid.shutdownContext.agentsAwaitingExit/re-made", "the per-shutdown agent map is re-made at the start of every shutdown", oneOf("make", fw["agentsAwaitingExit"]...), fpos(f), 1, "writes: %v", fw["agentsAwaitingExit"])
	}
}

func keysOf(m map[string]bool) []string {
	var out []string
	for k := range m {
		out = append(out, k)
	}
	sort.Strings(out)
	return out
}

// checkWatcherGuard: watchEvents cancels flows only for exits classified as
// unexpected by the not-shutting-down test made BEFORE the exit is handled.
func checkWatcherGuard(c *report.Ctx) {
	f := fn(c, "L/rapid", "(*rapidContext).watchEvents")
	if f == nil {
		return
	}
	name := an.FuncName(f)
	facts := an.NewFacts(f)
	cancels := an.CallsTo(f, "L/core.RegistrationService.CancelFlows")
	hpe := an.CallsTo(f, "L/rapid.shutdownContext.handleProcessExit")
	isd := an.CallsTo(f, "L/rapid.shutdownContext.isShuttingDown")
	if !c.Check("R-COUNT", name+"/sites", "the watcher has one cancel site and one exit hand-over", len(cancels) == 1 && len(hpe) == 1 && len(isd) >= 1, fpos(f), len(cancels)+len(hpe)+len(isd), "CancelFlows: %d, handleProcessExit: %d, isShuttingDown: %d", len(cancels), len(hpe), len(isd)) {
		return
	}
	cf := cancels[0]
	// the classification test: an isShuttingDown() call that precedes the hand-over
	var tests []ssa.Value
	for _, s := range isd {
		if an.InstrDominates(s, hpe[0]) {
			tests = append(tests, s.Value())
		}
	}
	notShutting := func(b *ssa.BasicBlock) bool {
		return facts.Holds(b, func(ft an.Fact) bool {
			if ft.Val {
				return false
			}
			for _, t := range tests {
				if ft.Cond == t {
					return true
				}
			}
			return false
		})
	}
	ok := false
	detail := ""
	if notShutting(cf.Block()) {
		ok = true
		detail = "the cancel is inside the not-shutting-down branch tested before the hand-over"
	} else {
		// guarded by err != nil, and err is non-nil only when assigned inside that branch
		arg := cf.Common().Args[len(cf.Common().Args)-1]
		nonNil := facts.Holds(cf.Block(), func(ft an.Fact) bool { return an.CmpNil(ft, false, func(v ssa.Value) bool { return v == arg }) })
		srcOK := true
		var walk func(v ssa.Value, seen map[ssa.Value]bool)
		walk = func(v ssa.Value, seen map[ssa.Value]bool) {
			if seen[v] {
				return
			}
			seen[v] = true
			switch x := v.(type) {
			case *ssa.Phi:
				for i, e := range x.Edges {
					if an.IsNil(e) {
						continue
					}
					if _, isPhi := e.(*ssa.Phi); isPhi {
						walk(e, seen)
						continue
					}
					pred := x.Block().Preds[i]
					if !notShutting(pred) {
						// the defining block of e
						if in, ok := e.(ssa.Instruction); !ok || !notShutting(in.Block()) {
							srcOK = false
						}
					}
				}
			case *ssa.Const:
			default:
				if in, ok := v.(ssa.Instruction); !ok || !notShutting(in.Block()) {
					srcOK = false
				}
			}
		}
		walk(arg, map[ssa.Value]bool{})
		ok = nonNil && srcOK && len(tests) > 0
		detail = sprintf("cancel guarded by err != nil: %v; every non-nil err is assigned inside the not-shutting-down branch tested before the hand-over: %v", nonNil, srcOK)
	}
	c.Check("R-GUARD", name+"/cancel-only-for-unexpected-exit", "flows are cancelled only for an exit classified as unexpected by the not-shutting-down test made before the exit is handed to the shutdown bookkeeping (a late notification about an old process never cancels the next generation's barriers)", ok, an.InstrPos(cf), 2, "%s", detail)
	// first fatal error recorded before the cancel (shared with C06)
	ord := an.NewOrder(f, func(in ssa.Instruction) uint64 {
		if an.IsCallTo(in, "L/appctx.StoreFirstFatalError") {
			return 1
		}
		return 0
	})
	_ = ord
}

type setterInfo struct {
	setters   map[string]bool
	writers   []string // non-reset callers passing a value
	resetVals []string // value classes passed by reset-path callers
}

// setterWrites attributes writes made through setter methods of T to the callers.
func setterWrites(c *report.Ctx, T string, resetFns map[*ssa.Function]bool, isCtor func(string) bool) map[string]*setterInfo {
	out := map[string]*setterInfo{}
	cg := c.P.CallGraph()
	type fwd struct {
		fn  *ssa.Function
		fld string
		idx int // parameter index (in fn.Params) that is forwarded into the field
	}
	var work []fwd
	seen := map[*ssa.Function]bool{}
	for _, f := range repoFuncs(c) {
		if f.Signature.Recv() == nil || an.TypeName(f.Signature.Recv().Type()) != T {
			continue
		}
		for _, st := range an.Stores(f, T, "") {
			p, ok := st.Val.(*ssa.Parameter)
			if !ok {
				continue
			}
			fr, _ := an.AsField(st.Addr)
			for i, q := range f.Params {
				if q == p {
					work = append(work, fwd{f, fr.Field, i})
				}
			}
		}
	}
	for len(work) > 0 {
		w := work[0]
		work = work[1:]
		if seen[w.fn] {
			continue
		}
		seen[w.fn] = true
		si := out[w.fld]
		if si == nil {
			si = &setterInfo{setters: map[string]bool{}}
			out[w.fld] = si
		}
		si.setters[an.FuncName(w.fn)] = true
		n := cg.Nodes[w.fn]
		if n == nil {
			continue
		}
		for _, e := range n.In {
			caller := e.Caller.Func
			if caller == nil || caller.Pkg == nil || !strings.HasPrefix(caller.Pkg.Pkg.Path(), "go.amzn.com") {
				continue
			}
			if strings.HasPrefix(an.FuncName(caller), "L/testdata.") {
				continue
			}
			args := e.Site.Common().Args
			ai := w.idx
			if e.Site.Common().IsInvoke() {
				ai = w.idx - 1
			}
			if ai < 0 || ai >= len(args) {
				continue
			}
			arg := args[ai]
			if p, ok := arg.(*ssa.Parameter); ok && p.Parent() == caller {
				for i, q := range caller.Params {
					if q == p {
						work = append(work, fwd{caller, w.fld, i})
					}
				}
				continue
			}
			cls := valueClass(arg)
			if resetFns[caller] {
				si.resetVals = append(si.resetVals, cls)
			} else if !isCtor(an.FuncName(caller)) {
				si.writers = append(si.writers, an.FuncName(caller))
			}
		}
	}
	return out
}

// checkAgentMapsCleared: clearing the registration maps drops every entry of both indexes.
func checkAgentMapsCleared(c *report.Ctx) {
	// agents maps Clear re-make both maps
	for _, mp := range []string{"ExternalAgentsMap", "InternalAgentsMap"} {
		if f := fn(c, coreP, "(*"+mp+").Clear"); f != nil {
			fw := fieldWrites(f, "L/core."+mp)
			ok := oneOf("make", fw["byName"]...) && oneOf("make", fw["byID"]...)
			c.Check("R-RESET", "L/core."+mp+".Clear", "clearing drops every registration (both indexes re-made)", ok, fpos(f), 2, "writes: %v", fw)
		}
	}
}

// reachableFromPinnedField: some struct of the pinned tree (or a package-level variable) has a field whose type
// mentions the helper struct t - then values of t can outlive the call that made them.
func reachableFromPinnedField(c *report.Ctx, t *types.Named) bool {
	name := t.Obj().Pkg().Path() + "." + t.Obj().Name()
	for _, sp := range c.P.SSAPkgs {
		for _, mem := range sp.Members {
			switch x := mem.(type) {
			case *ssa.Type:
				n, ok := x.Type().(*types.Named)
				if !ok || n == t {
					continue
				}
				if st, ok := n.Underlying().(*types.Struct); ok {
					for i := 0; i < st.NumFields(); i++ {
						if strings.Contains(st.Field(i).Type().String(), name) {
							return true
						}
					}
				}
			case *ssa.Global:
				if strings.Contains(x.Type().String(), name) {
					return true
				}
			}
		}
	}
	return false
}
