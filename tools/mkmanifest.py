#!/usr/bin/env python3
"""Regenerates /verif/MANIFEST.json from tools/manifest_table.json (per-property texts)."""
import json, os, subprocess
here = os.path.join(os.path.dirname(os.path.abspath(__file__)), "..")
table = json.load(open(os.path.join(here, "tools", "manifest_table.json")))
props = [json.loads(l) for l in open(os.path.join(here, "properties.jsonl"))]
checks, na = [], []
for p in props:
    pid = p["id"]
    t = table.get(pid)
    if not t or t.get("not_applicable"):
        na.append({"property_id": pid, "reason": (t or {}).get("not_applicable", "no static rule implemented yet for this property in this commit (work in progress; see DESIGN.md section 4 for the planned clauses)")})
        continue
    checks.append({
        "property_id": pid,
        "quick_cmd": "./run.sh %s quick" % pid,
        "thorough_cmd": "./run.sh %s thorough" % pid,
        "evidence_file": "/verif/evidence/%s.json" % pid,
        "replay_cmd_template": "cat {path}  # the obligation (rule + construct + source position) that failed; re-run ./run.sh %s quick to re-decide it" % pid,
        "engine": "riecheck",
        "level_claimed": {"category": "other", "text": t["level_text"], "design_ref": "DESIGN.md section 4, " + pid},
        "level_note": t["level_note"],
        "technique": t["technique"],
    })
m = {
    "version": 1,
    "setup_cmd": "./setup.sh",
    "hooks": {
        "guard": "verif",
        "enable": "none needed: static analysis reads the sources; no instrumentation exists in /repo",
        "baseline_off_cmd": "cd /repo && GOFLAGS=-mod=mod GOPROXY=off GOSUMDB=off GOTOOLCHAIN=local go test -vet=off -count=1 ./...",
        "source_commits": [],
        "add_only": True,
    },
    "engines": [{"name": "riecheck", "path": "/verif/checker", "serves_properties": [c["property_id"] for c in checks],
                 "kind_free_text": "repository-specific static analyser (go/packages + go/types + go/ssa + VTA call graph, golang.org/x/tools v0.29.0 vendored): CFG must/may ordering, branch-fact dominance, lock regions, who-may-write/call, automaton extraction, constant/regexp-language evaluation"}],
    "checks": checks,
    "not_applicable": na,
    "notes": "All checks are static (no code of /repo is executed). Exit 0 = every obligation discharged; exit 1 + VIOLATION lines = a rule instance is violated; exit 2 + UNRESOLVED/ERROR lines = the checker could not decide (anchor renamed, type errors) and refuses to pass. Thorough tier = the same rules on the linux/amd64, linux/arm64 and linux/386 builds, plus the checker's self-test (selftest.py: hand-written and seeded breaking variants must be reported, 530+ behaviour-preserving variants and ten mechanically generated rewrites of the current tree must stay silent) whose result is embedded in the evidence but does not influence the verdict. Genuine defects found and repaired: known_findings.jsonl (status fixed, with /repo commit).",
}
json.dump(m, open(os.path.join(here, "MANIFEST.json"), "w"), indent=1)
print("checks:", len(checks), "not_applicable:", len(na))
