package props

import (
	"strings"

	"golang.org/x/tools/go/ssa"

	"verif/checker/internal/an"
	"verif/checker/internal/report"
)

// step is one element of an orchestration sequence (R-ORDER).
type step struct {
	name   string
	match  func(ssa.Instruction) bool
	nilRes bool // the call returns an error that must be known nil where later steps run
	opt    bool // guarded step: only its relative order is checked
}

func callStep(name string, nilRes, opt bool, callees ...string) step {
	return step{name: name, nilRes: nilRes, opt: opt, match: func(in ssa.Instruction) bool {
		if _, isDefer := in.(*ssa.Defer); isDefer {
			return false
		}
		return an.IsCallTo(in, callees...)
	}}
}

func storeStep(name, structName, field string, val func(ssa.Value) bool) step {
	return step{name: name, match: func(in ssa.Instruction) bool {
		st, ok := in.(*ssa.Store)
		if !ok {
			return false
		}
		fr, ok := an.AsField(st.Addr)
		return ok && fr.Struct == structName && fr.Field == field && (val == nil || val(st.Val))
	}}
}

// checkChain decides that, on every path of f to an exit satisfying success,
// the mandatory steps occur in the given order (each one certainly before the
// next and before the exit), that no step can run before an earlier one, and
// that steps returning errors are known to have returned nil where later
// mandatory steps and the successful exits are reached.
func checkChain(c *report.Ctx, f *ssa.Function, what string, steps []step, success func(an.Exit) bool) bool {
	name := an.FuncName(f)
	sites := make([][]ssa.Instruction, len(steps))
	an.AllInstrs(f, func(in ssa.Instruction) {
		for i, s := range steps {
			if s.match(in) {
				sites[i] = append(sites[i], in)
			}
		}
	})
	allOK := true
	for i, s := range steps {
		if len(sites[i]) == 0 {
			ok := c.Check("R-ORDER", sprintf("%s/step/%s/present", name, s.name), what+": step '"+s.name+"' is performed", false, fpos(f), 0, "no call site found")
			allOK = allOK && ok
		}
	}
	if !allOK {
		return false
	}
	ev := func(in ssa.Instruction) uint64 {
		var r uint64
		for i := range steps {
			for _, s := range sites[i] {
				if s == in {
					r |= bit(i)
				}
			}
		}
		return r
	}
	ord := an.NewOrder(f, ev)
	facts := an.NewFacts(f)
	resNil := func(i int, b *ssa.BasicBlock) bool {
		for _, s := range sites[i] {
			v, ok := s.(ssa.Value)
			if !ok {
				continue
			}
			// single error result or (x, err) tuple
			if facts.Holds(b, func(ft an.Fact) bool {
				return an.CmpNil(ft, true, func(x ssa.Value) bool {
					x = an.Strip(x, false)
					if x == v {
						return true
					}
					if ex, ok := x.(*ssa.Extract); ok && ex.Tuple == v {
						return true
					}
					return false
				})
			}) {
				return true
			}
		}
		return false
	}
	resNonNil := func(i int, b *ssa.BasicBlock) bool {
		for _, s := range sites[i] {
			v, ok := s.(ssa.Value)
			if !ok {
				continue
			}
			if facts.Holds(b, func(ft an.Fact) bool {
				return an.CmpNil(ft, false, func(x ssa.Value) bool {
					x = an.Strip(x, false)
					if ex, ok := x.(*ssa.Extract); ok && ex.Tuple == v {
						return true
					}
					return x == v
				})
			}) {
				return true
			}
		}
		return false
	}
	// adjacent mandatory pairs
	prev := -1
	for j, sj := range steps {
		// relative order for every step against all earlier ones
		for _, site := range sites[j] {
			must, may := ord.Before(site)
			_ = may
			if prev >= 0 && !sj.opt {
				ok := must&bit(prev) != 0
				allOK = c.Check("R-ORDER", sprintf("%s/order/%s<%s", name, steps[prev].name, sj.name), sprintf("%s: '%s' is performed on every path before '%s'", what, steps[prev].name, sj.name), ok, an.InstrPos(site), 2, "certainly before: %v", ok) && allOK
				if steps[prev].nilRes {
					okN := resNil(prev, site.Block())
					allOK = c.Check("R-GUARD", sprintf("%s/nil/%s@%s", name, steps[prev].name, sj.name), sprintf("%s: '%s' is reached only after '%s' succeeded (its error edge leaves the function)", what, sj.name, steps[prev].name), okN, an.InstrPos(site), 1, "facts: %s", factsString(facts.At(site.Block()))) && allOK
				}
			}
			if sj.opt && prev >= 0 {
				ok := must&bit(prev) != 0
				allOK = c.Check("R-ORDER", sprintf("%s/order/%s<%s", name, steps[prev].name, sj.name), sprintf("%s: guarded step '%s' runs only after '%s'", what, sj.name, steps[prev].name), ok, an.InstrPos(site), 2, "certainly before: %v", ok) && allOK
			}
			if sj.opt && j > 0 && steps[j-1].opt && j-1 != prev {
				ok := must&bit(j-1) != 0
				allOK = c.Check("R-ORDER", sprintf("%s/order/%s<%s", name, steps[j-1].name, sj.name), sprintf("%s: guarded step '%s' runs only after guarded step '%s'", what, sj.name, steps[j-1].name), ok, an.InstrPos(site), 2, "certainly before: %v", ok) && allOK
				if steps[j-1].nilRes {
					okN := resNil(j-1, site.Block())
					allOK = c.Check("R-GUARD", sprintf("%s/nil/%s@%s", name, steps[j-1].name, sj.name), sprintf("%s: '%s' is reached only after '%s' succeeded", what, sj.name, steps[j-1].name), okN, an.InstrPos(site), 1, "facts: %s", factsString(facts.At(site.Block()))) && allOK
				}
			}
			// no later step may already have happened (unless both sit in a loop)
			for k := j + 1; k < len(steps); k++ {
				if may&bit(k) != 0 && !an.InLoop(site) {
					allOK = c.Check("R-ORDER", sprintf("%s/not-after/%s!>%s", name, sj.name, steps[k].name), sprintf("%s: '%s' never runs after '%s'", what, sj.name, steps[k].name), false, an.InstrPos(site), 2, "'%s' may already have run", steps[k].name) && allOK
				}
			}
		}
		if !sj.opt {
			prev = j
		}
	}
	// success exits
	nsucc := 0
	var mand uint64
	for i, s := range steps {
		if !s.opt {
			mand |= bit(i)
		}
	}
	for i, e := range an.Exits(f) {
		isSucc := success(e)
		if !isSucc {
			// `return step()` - the exit hands on the result of a step that reports errors: it is the
			// successful exit exactly when that step succeeded (same as `if err := step(); err != nil { return err }; return nil`)
			for k, s := range steps {
				if s.nilRes && lastStepReturned(e, sites[k]) && !resNonNil(k, e.Ret.Block()) {
					isSucc = true
				}
			}
		}
		if !isSucc {
			continue
		}
		nsucc++
		must, may := ord.Before(e.Ret)
		ok := must&mand == mand
		var missing []string
		for k, s := range steps {
			if !s.opt && must&bit(k) == 0 {
				missing = append(missing, s.name)
			}
		}
		allOK = c.Check("R-ORDER", sprintf("%s/success-exit%d", name, i), what+": success is reported only after every mandatory step was performed", ok, an.InstrPos(e.Ret), len(steps), "steps not certainly performed: %v", missing) && allOK
		for k, s := range steps {
			if !s.nilRes {
				continue
			}
			if s.opt && may&bit(k) == 0 {
				continue
			}
			if s.opt {
				// if the guarded step ran it must have succeeded: its error edge leaves the function
				okE := errorEdgeLeaves(f, facts, sites[k])
				allOK = c.Check("R-GUARD", sprintf("%s/error-edge-returns/%s@success-exit%d", name, s.name, i), sprintf("%s: when the guarded step '%s' runs and fails, the function fails (the error edge returns and never reaches a successful exit)", what, s.name), okE, an.InstrPos(e.Ret), 1, "error edge leaves: %v", okE) && allOK
				continue
			}
			okN := resNil(k, e.Ret.Block()) || lastStepReturned(e, sites[k])
			allOK = c.Check("R-GUARD", sprintf("%s/nil/%s@success-exit%d", name, s.name, i), sprintf("%s: success is reported only if '%s' succeeded", what, s.name), okN, an.InstrPos(e.Ret), 1, "facts: %s", factsString(facts.At(e.Ret.Block()))) && allOK
		}
	}
	allOK = c.Check("R-COUNT", name+"/success-exits", what+": the function has a successful exit", nsucc >= 1, fpos(f), nsucc, "%d success exits", nsucc) && allOK
	return allOK
}

// lastStepReturned: the exit returns the step's own result (return f()).
func lastStepReturned(e an.Exit, sites []ssa.Instruction) bool {
	for _, v := range e.Vals {
		v = an.Strip(v, false)
		for _, s := range sites {
			if sv, ok := s.(ssa.Value); ok && v == sv {
				return true
			}
		}
	}
	return false
}

func successNilErr(e an.Exit) bool {
	return len(e.Vals) >= 1 && an.IsNil(e.Vals[len(e.Vals)-1])
}

// successNilOrStep: exits returning nil, or returning directly the result of a call to one of callees.
func successNilOrResultOf(callees ...string) func(an.Exit) bool {
	return func(e an.Exit) bool {
		if len(e.Vals) == 0 {
			return false
		}
		v := e.Vals[len(e.Vals)-1]
		if an.IsNil(v) {
			return true
		}
		if cl, _ := an.CallOf(an.Strip(v, false)); cl != nil && oneOf(an.Callee(cl), callees...) {
			return true
		}
		return false
	}
}

// guardedBy: the instruction's block is reached only with call `callee` having returned true.
func guardedByTrue(facts *an.Facts, in ssa.Instruction, callee string) bool {
	return facts.Holds(in.Block(), func(ft an.Fact) bool { return ft.Val && an.IsResultOf(ft.Cond, callee, -1) })
}

var _ = strings.TrimSpace
var _ *report.Ctx

// errorEdgeLeaves: blocks where the step's error result is known non-nil exist,
// never flow back into blocks without that knowledge, and end in returns.
func errorEdgeLeaves(f *ssa.Function, facts *an.Facts, sites []ssa.Instruction) bool {
	isRes := func(x ssa.Value) bool {
		x = an.Strip(x, false)
		for _, s := range sites {
			v, ok := s.(ssa.Value)
			if !ok {
				continue
			}
			if x == v {
				return true
			}
			if ex, ok := x.(*ssa.Extract); ok && ex.Tuple == v {
				return true
			}
		}
		return false
	}
	inErr := func(b *ssa.BasicBlock) bool {
		return facts.Holds(b, func(ft an.Fact) bool { return an.CmpNil(ft, false, isRes) })
	}
	n := 0
	for _, b := range f.Blocks {
		if !inErr(b) {
			continue
		}
		n++
		for _, s := range b.Succs {
			if !inErr(s) {
				return false
			}
		}
		if len(b.Succs) == 0 {
			if r, ok := b.Instrs[len(b.Instrs)-1].(*ssa.Return); ok {
				// must not return nil
				for _, e := range an.Exits(f) {
					if e.Ret == r && successNilErr(e) {
						return false
					}
				}
			}
		}
	}
	return n > 0
}
