package props

import (
	"go/token"
	"sort"
	"strings"

	"golang.org/x/tools/go/ssa"

	"verif/checker/internal/an"
	"verif/checker/internal/report"
)

type lockWait struct{ fn, lock, op string }

// blockingOpName classifies an instruction that can wait for another party ("" = cannot).
func blockingOpName(in ssa.Instruction) string {
	switch x := in.(type) {
	case *ssa.Select:
		if x.Blocking {
			return "select"
		}
	case *ssa.UnOp:
		if x.Op == token.ARROW {
			return "receive " + chanName(x.X)
		}
	case *ssa.Send:
		return "send " + chanName(x.Chan)
	case *ssa.Call:
		switch n := an.Callee(x); n {
		case "sync.WaitGroup.Wait", "time.Sleep", "os/exec.Cmd.Wait", "os.Process.Wait", "io.ReadAll", "io/ioutil.ReadAll", "io.Copy", "io.CopyN", "bytes.Buffer.ReadFrom":
			return n
		}
	}
	return ""
}

// lockHeldAcrossWaits lists, for every service-time function, the waits performed while the function itself
// holds a mutex (sync.Cond.Wait is not one: it releases its lock), and the calls of repository functions that
// wait, made while holding one.
func lockHeldAcrossWaits(c *report.Ctx) []lockWait {
	service := serviceReachable(c)
	var fns []*ssa.Function
	for _, f := range repoFuncs(c) {
		if service[f] && !strings.HasPrefix(an.FuncName(f), "L/testdata.") {
			fns = append(fns, f)
		}
	}
	waits := map[*ssa.Function]string{} // function -> one wait it can perform (transitively, static calls)
	for changed := true; changed; {
		changed = false
		for _, f := range fns {
			if waits[f] != "" {
				continue
			}
			an.AllInstrs(f, func(in ssa.Instruction) {
				if waits[f] != "" {
					return
				}
				if op := blockingOpName(in); op != "" {
					waits[f] = op
				} else if call, ok := in.(*ssa.Call); ok {
					if sc := call.Call.StaticCallee(); sc != nil && waits[sc] != "" {
						waits[f] = "via " + an.FuncName(sc)
					}
				}
				if waits[f] != "" {
					changed = true
				}
			})
		}
	}
	seen := map[lockWait]bool{}
	var out []lockWait
	for _, f := range fns {
		var held *an.Held
		an.AllInstrs(f, func(in ssa.Instruction) {
			op := blockingOpName(in)
			if op == "" {
				if call, ok := in.(*ssa.Call); ok {
					if sc := call.Call.StaticCallee(); sc != nil && waits[sc] != "" {
						op = "call " + an.FuncName(sc)
					}
				}
			}
			if op == "" {
				return
			}
			if held == nil {
				held = an.NewHeld(f)
			}
			for l := range held.At(in) {
				// name the lock by the field it lives in, not by the local variable that reaches it
				if i := strings.LastIndex(l, "."); i >= 0 {
					l = l[i+1:]
				}
				t := lockWait{an.FuncName(f), l, op}
				if !seen[t] {
					seen[t] = true
					out = append(out, t)
				}
			}
		})
	}
	sort.Slice(out, func(i, j int) bool {
		if out[i].fn != out[j].fn {
			return out[i].fn < out[j].fn
		}
		if out[i].lock != out[j].lock {
			return out[i].lock < out[j].lock
		}
		return out[i].op < out[j].op
	})
	return out
}

var _ = report.Discharged

// waitsUnderLock: the (function, mutex) pairs that by design hold the mutex across something that can wait.
var waitsUnderLock = map[string]string{
	"L/rapid.rapidContext.HandleInit|handlerExecutionMutex":            "handler serialisation: the mutex IS held for the whole handler (C04); a reset cancels the flows before it queues for it (C05)",
	"L/rapid.rapidContext.HandleInvoke|handlerExecutionMutex":          "handler serialisation",
	"L/rapid.rapidContext.HandleReset|handlerExecutionMutex":           "handler serialisation",
	"L/rapid.rapidContext.HandleShutdown|handlerExecutionMutex":        "handler serialisation",
	"L/rapidcore.Server.SendResponse|mutex":                            "the reply sink is one critical section (C02): id test, reply, mark; the watchdog does not depend on this mutex (C07)",
	"L/rapidcore.Server.SendErrorResponse|mutex":                       "the reply sink is one critical section",
	"L/rapi/rendering.InvokeRenderer.bufferInvokeRequest|requestMutex": "the event is read once, from the front end's in-memory reader, under the renderer's own mutex",
}

// checkNoNewWaitUnderLock (R-LOCK): no function holds a mutex across an operation that waits for another party
// (channel operation, blocking select, WaitGroup/process wait, sleep, reading a stream to its end) - directly or
// through static calls - except the pairs tabled above. A mutex held across a wait turns one slow party into a
// stall of everybody who needs that mutex.
func checkNoNewWaitUnderLock(c *report.Ctx) {
	all := lockHeldAcrossWaits(c)
	var bad []string
	seenAllowed := map[string]bool{}
	for _, t := range all {
		k := t.fn + "|" + t.lock
		if _, ok := waitsUnderLock[k]; ok {
			seenAllowed[k] = true
			continue
		}
		bad = append(bad, t.fn+" holds "+t.lock+" across "+t.op)
	}
	sort.Strings(bad)
	c.Check("R-LOCK", "no-wait-under-lock", "apart from the tabled critical sections no service-time function holds a mutex across a wait", len(bad) == 0 && len(seenAllowed) >= 4, token.NoPos, len(all), "lock-held-across-wait sites: %d (tabled pairs seen: %d); not tabled: %v", len(all), len(seenAllowed), bad)
	for k, why := range waitsUnderLock {
		if seenAllowed[k] {
			c.Note("mutex held across a wait by design: %s - %s", k, why)
		}
	}
}

// reacquirers: functions that by design take the same mutex more than once.
var reacquirers = map[string]string{
	"L/rapid.shutdownContext.clearExitedChannel": "snapshots the exit channels under the lock, waits WITHOUT it, then re-makes the map under it; runs only inside a shutdown, when nothing starts processes",
	"L/rapid.shutdownContext.shutdownAgents":     "re-makes the awaited-agents map under the lock, then adds each subscribed agent under it in the loop; the goroutines reading it are started afterwards",
}

// checkSingleAcquisition (R-LOCK): a function takes a given mutex at most once - one critical section per call.
// Splitting a critical section in two (lock, test, unlock ... lock, act, unlock) is what turns a test-and-set into
// a race; the two functions that do re-acquire a mutex are tabled with the reason it is safe there.
func checkSingleAcquisition(c *report.Ctx) {
	var bad []string
	var pos token.Pos
	n := 0
	for _, f := range repoFuncs(c) {
		if strings.HasPrefix(an.FuncName(f), "L/testdata.") {
			continue
		}
		cnt := map[string]int{}
		var first ssa.Instruction
		for _, o := range an.LockOps(f) {
			if o.Acquire {
				cnt[o.Path]++
				n++
				if cnt[o.Path] == 2 {
					first = o.In
				}
			}
		}
		for p, k := range cnt {
			if k > 1 {
				if _, ok := reacquirers[an.FuncName(f)]; ok {
					c.Note("re-acquisition by design: %s - %s", an.FuncName(f), reacquirers[an.FuncName(f)])
					continue
				}
				bad = append(bad, sprintf("%s takes %s %d times", an.FuncName(f), p, k))
				if pos == token.NoPos && first != nil {
					pos = an.InstrPos(first)
				}
			}
		}
	}
	sort.Strings(bad)
	c.Check("R-LOCK", "one-critical-section-per-call", "no function takes the same mutex twice (what is tested under the lock is acted upon under the same hold), apart from the tabled ones", len(bad) == 0 && n >= 40, pos, n, "lock acquisitions: %d; functions re-acquiring a mutex: %v", n, bad)
}
