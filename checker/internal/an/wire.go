package an

import (
	"fmt"
	"go/token"
	"sort"

	"golang.org/x/tools/go/ssa"
)

// Origins is the def-use chase behind the R-WIRE rules: it follows a value
// backwards through copies (phi, conversions, interface boxing), local
// variables (alloc + stores), closure captures (free variable -> binding),
// parameters (-> the arguments at every static call site, via Callers) and
// struct fields that the caller declares transparent, and reports the leaves:
//
//	"call:<callee>#i"   i-th result of a call
//	"const:<value>"
//	"param:<fn>.<name>" parameter of a function without known callers (or depth exhausted)
//	"field:<T>.<f>"     load of a struct field (not followed unless FollowField says so)
//	"global:<name>"
//	"op:<desc>"         anything else (arithmetic, index, ...)
type Wire struct {
	// Callers returns the static call sites of fn (all over the program).
	Callers func(fn *ssa.Function) []ssa.CallInstruction
	// FollowField, if non-nil and returning true, makes the chase continue
	// through every store to that field found by FieldStores.
	FollowField func(structName, field string) bool
	FieldStores func(structName, field string) []*ssa.Store
	// Through lists callees whose result is considered a transparent function
	// of one argument: callee -> argument index (e.g. strconv conversions).
	Through  map[string]int
	MaxDepth int
	// ConstArith makes arithmetic with a constant operand transparent (x/1e6, x+1).
	ConstArith bool
	// FollowReturns, if non-nil and true for a statically resolved callee, makes the
	// chase continue into that function's returned values.
	FollowReturns func(callee string) bool
}

func (w *Wire) Origins(v ssa.Value) []string {
	seen := map[ssa.Value]bool{}
	out := map[string]bool{}
	w.chase(v, 0, seen, out)
	var res []string
	for k := range out {
		res = append(res, k)
	}
	sort.Strings(res)
	return res
}

func (w *Wire) chase(v ssa.Value, depth int, seen map[ssa.Value]bool, out map[string]bool) {
	if v == nil || seen[v] {
		return
	}
	seen[v] = true
	max := w.MaxDepth
	if max == 0 {
		max = 12
	}
	if depth > max {
		out["depth-exhausted:"+Path(v)] = true
		return
	}
	switch x := v.(type) {
	case *ssa.Const:
		if x.Value == nil {
			out["const:nil"] = true
		} else {
			out["const:"+x.Value.ExactString()] = true
		}
	case *ssa.ChangeType:
		w.chase(x.X, depth, seen, out)
	case *ssa.Convert:
		w.chase(x.X, depth, seen, out)
	case *ssa.MakeInterface:
		w.chase(x.X, depth, seen, out)
	case *ssa.ChangeInterface:
		w.chase(x.X, depth, seen, out)
	case *ssa.TypeAssert:
		w.chase(x.X, depth, seen, out)
	case *ssa.Phi:
		for _, e := range x.Edges {
			w.chase(e, depth, seen, out)
		}
	case *ssa.Extract:
		if c, ok := x.Tuple.(*ssa.Call); ok {
			w.call(c, x.Index, depth, seen, out)
		} else {
			out["op:extract "+Path(x.Tuple)] = true
		}
	case *ssa.Call:
		w.call(x, 0, depth, seen, out)
	case *ssa.Parameter:
		fn := x.Parent()
		idx := -1
		for i, p := range fn.Params {
			if p == x {
				idx = i
			}
		}
		var sites []ssa.CallInstruction
		if w.Callers != nil {
			sites = w.Callers(fn)
		}
		if len(sites) == 0 || idx < 0 {
			out["param:"+FuncName(fn)+"."+x.Name()] = true
			return
		}
		for _, s := range sites {
			args := s.Common().Args
			if idx < len(args) {
				w.chase(args[idx], depth+1, seen, out)
			}
		}
	case *ssa.FreeVar:
		fn := x.Parent()
		idx := -1
		for i, fv := range fn.FreeVars {
			if fv == x {
				idx = i
			}
		}
		found := false
		if p := fn.Parent(); p != nil && idx >= 0 {
			for _, g := range WithAnon(p) {
				AllInstrs(g, func(in ssa.Instruction) {
					if mc, ok := in.(*ssa.MakeClosure); ok && mc.Fn == ssa.Value(fn) && idx < len(mc.Bindings) {
						found = true
						w.chase(mc.Bindings[idx], depth+1, seen, out)
					}
				})
			}
		}
		if !found {
			out["freevar:"+x.Name()] = true
		}
	case *ssa.Alloc:
		// value stored into the variable: every store to it
		n := 0
		for _, ref := range *x.Referrers() {
			if st, ok := ref.(*ssa.Store); ok && st.Addr == ssa.Value(x) {
				n++
				w.chase(st.Val, depth, seen, out)
			}
		}
		if n == 0 {
			out["alloc:"+x.Comment] = true
		}
	case *ssa.UnOp:
		if x.Op == token.MUL {
			switch a := x.X.(type) {
			case *ssa.Alloc:
				w.chase(a, depth, seen, out)
			case *ssa.FreeVar:
				// captured variable (pointer to the alloc)
				w.chase(a, depth, seen, out)
			case *ssa.Global:
				out["global:"+Path(a)] = true
			case *ssa.FieldAddr:
				fr, _ := AsField(a)
				if la, isLocal := a.X.(*ssa.Alloc); isLocal && !la.Heap && depth < 24 {
					// a field of a local struct variable: what was stored into that field of that variable
					if w.localField(la, a.Field, depth+1, seen, out, map[*ssa.Alloc]bool{}) {
						return
					}
				}
				if w.FollowField != nil && w.FollowField(fr.Struct, fr.Field) && w.FieldStores != nil {
					sts := w.FieldStores(fr.Struct, fr.Field)
					if len(sts) == 0 {
						out["field:"+fr.Struct+"."+fr.Field] = true
					}
					for _, st := range sts {
						w.chase(st.Val, depth+1, seen, out)
					}
				} else {
					out["field:"+fr.Struct+"."+fr.Field] = true
				}
			case *ssa.IndexAddr:
				out["op:index "+Path(a.X)] = true
			default:
				out["op:load "+Path(x.X)] = true
			}
		} else {
			out["op:"+x.Op.String()] = true
		}
	case *ssa.Field:
		fr, _ := AsField(x)
		out["field:"+fr.Struct+"."+fr.Field] = true
	case *ssa.BinOp:
		if w.ConstArith {
			if _, ok := x.Y.(*ssa.Const); ok {
				w.chase(x.X, depth, seen, out)
				return
			}
			if _, ok := x.X.(*ssa.Const); ok {
				w.chase(x.Y, depth, seen, out)
				return
			}
		}
		out["op:"+x.Op.String()+"("+Path(x.X)+","+Path(x.Y)+")"] = true
	case *ssa.Global:
		out["global:"+Path(x)] = true
	case *ssa.MakeClosure:
		out["closure:"+FuncName(x.Fn.(*ssa.Function))] = true
	case *ssa.Function:
		out["func:"+FuncName(x)] = true
	default:
		out[fmt.Sprintf("op:%T", v)] = true
	}
}

// localField chases what was stored into field idx of the local struct variable la: stores to that field, and
// whole-struct copies from another local.
func (w *Wire) localField(la *ssa.Alloc, idx int, depth int, seen map[ssa.Value]bool, out map[string]bool, visited map[*ssa.Alloc]bool) bool {
	if visited[la] || la.Referrers() == nil {
		return false
	}
	visited[la] = true
	found := false
	for _, ref := range *la.Referrers() {
		switch x := ref.(type) {
		case *ssa.FieldAddr:
			if x.X != ssa.Value(la) || x.Field != idx || x.Referrers() == nil {
				continue
			}
			for _, r2 := range *x.Referrers() {
				if st, ok := r2.(*ssa.Store); ok && st.Addr == ssa.Value(x) {
					found = true
					w.chase(st.Val, depth, seen, out)
				}
			}
		case *ssa.Store:
			if x.Addr != ssa.Value(la) {
				continue
			}
			if ld, ok := x.Val.(*ssa.UnOp); ok && ld.Op == token.MUL {
				if src, ok := ld.X.(*ssa.Alloc); ok && !src.Heap {
					if w.localField(src, idx, depth, seen, out, visited) {
						found = true
						continue
					}
				}
			}
			return false // the whole struct comes from somewhere else: not decided here
		}
	}
	return found
}

func (w *Wire) call(c *ssa.Call, idx int, depth int, seen map[ssa.Value]bool, out map[string]bool) {
	cal := Callee(c)
	if ai, ok := w.Through[cal]; ok && ai < len(c.Call.Args) {
		w.chase(c.Call.Args[ai], depth, seen, out)
		return
	}
	if w.FollowReturns != nil && w.FollowReturns(cal) {
		if sc := c.Call.StaticCallee(); sc != nil && len(sc.Blocks) > 0 {
			n := 0
			for _, e := range Exits(sc) {
				if idx < len(e.Vals) {
					n++
					w.chase(e.Vals[idx], depth+1, seen, out)
				}
			}
			if n > 0 {
				return
			}
		}
	}
	out[fmt.Sprintf("call:%s#%d", cal, idx)] = true
}
