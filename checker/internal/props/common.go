// Package props holds one file per property: anchors resolved through types,
// the obligations instantiated on them and the reference tables transcribed
// from the property statements.
package props

import (
	"fmt"
	"go/token"
	"go/types"
	"sort"
	"strings"

	"golang.org/x/tools/go/ssa"

	"verif/checker/internal/an"
	"verif/checker/internal/load"
	"verif/checker/internal/report"
)

// Prop couples the evidence texts of a property with its rule function.
type Prop struct {
	Spec report.Spec
	Run  func(c *report.Ctx)
}

// All is the registry, filled by the init functions of the cNN.go files.
var All = map[string]*Prop{}

func register(p *Prop) { All[p.Spec.ID] = p }

var trusted = []string{
	"go/types type checking and go/ssa construction (golang.org/x/tools v0.29.0) are faithful to the compiler",
	"the loaded build (linux, default tags, CGO off) is the build that ships; the repository has no build-tagged or generated Go files (asserted by the loader's package count and by the thorough tier's GOARCH=arm64 run)",
	"no reflection-driven dispatch, unsafe or assembly reaches the anchored constructs",
	"the reference tables in the checker are the property statements transcribed",
}

// fn resolves a function anchor or records it as unresolved.
func fn(c *report.Ctx, pkg, name string) *ssa.Function {
	f := c.P.Func(pkg, name)
	if f == nil || len(f.Blocks) == 0 {
		c.Unresolved("ANCHOR", pkg+"."+name, "function %s.%s not found in the loaded program (renamed, removed, or turned into a promoted method)", pkg, name)
		return nil
	}
	c.Analysed("functions", 1)
	return f
}

// pos of the first instruction matching, else function position
func fpos(f *ssa.Function) token.Pos {
	if f == nil {
		return token.NoPos
	}
	return f.Pos()
}

func in(s string, set ...string) bool {
	for _, x := range set {
		if s == x {
			return true
		}
	}
	return false
}

// structFields returns the fields of named struct pkg.name.
func structFields(c *report.Ctx, pkg, name string) []*types.Var {
	n := c.P.Named(pkg, name)
	if n == nil {
		c.Unresolved("ANCHOR", pkg+"."+name, "type %s.%s not found", pkg, name)
		return nil
	}
	st, ok := n.Underlying().(*types.Struct)
	if !ok {
		c.Unresolved("ANCHOR", pkg+"."+name, "type %s.%s is not a struct", pkg, name)
		return nil
	}
	var out []*types.Var
	for i := 0; i < st.NumFields(); i++ {
		out = append(out, st.Field(i))
	}
	return out
}

// methodsOf lists the methods declared on *T or T of named type pkg.name
// (not promoted ones), sorted by name.
func methodsOf(c *report.Ctx, pkg, name string) []*ssa.Function {
	n := c.P.Named(pkg, name)
	if n == nil {
		c.Unresolved("ANCHOR", pkg+"."+name, "type %s.%s not found", pkg, name)
		return nil
	}
	var out []*ssa.Function
	for i := 0; i < n.NumMethods(); i++ {
		m := n.Method(i)
		f := c.P.Prog.FuncValue(m)
		if f != nil && len(f.Blocks) > 0 {
			out = append(out, f)
		}
	}
	sort.Slice(out, func(i, j int) bool { return out[i].Name() < out[j].Name() })
	c.Analysed("functions", len(out))
	return out
}

// repoFuncs returns every function of the repository (non-test files).
func repoFuncs(c *report.Ctx) []*ssa.Function { return c.P.RepoFns }

// storesTo lists, over the whole repository, the functions storing to field
// struct.field (through FieldAddr), with one representative store each.
func storesTo(c *report.Ctx, structName, field string) map[*ssa.Function][]*ssa.Store {
	out := map[*ssa.Function][]*ssa.Store{}
	for _, f := range repoFuncs(c) {
		if st := an.Stores(f, structName, field); len(st) > 0 {
			out[f] = st
		}
	}
	return out
}

func fnNames(m map[*ssa.Function][]*ssa.Store) []string {
	var out []string
	for f := range m {
		out = append(out, an.FuncName(f))
	}
	sort.Strings(out)
	return out
}

// callersOf lists call sites anywhere in the repository whose callee is one of names.
type site struct {
	Fn   *ssa.Function
	Call ssa.CallInstruction
}

func callSites(c *report.Ctx, names ...string) []site {
	var out []site
	for _, f := range repoFuncs(c) {
		for _, call := range an.CallsTo(f, names...) {
			out = append(out, site{f, call})
		}
	}
	return out
}

func siteFns(ss []site) []string {
	seen := map[string]bool{}
	var out []string
	for _, s := range ss {
		n := an.FuncName(s.Fn)
		if !seen[n] {
			seen[n] = true
			out = append(out, n)
		}
	}
	sort.Strings(out)
	return out
}

func bit(i int) uint64 { return uint64(1) << uint(i) }

// isLoadOfRecvField: v loads field `field` of struct `structName` (any base).
func loadOf(structName, field string) func(ssa.Value) bool {
	return func(v ssa.Value) bool { return an.IsFieldLoad(an.Strip(v, true), structName, field) }
}

func fmtSet(m map[string]bool) string {
	var out []string
	for k := range m {
		out = append(out, k)
	}
	sort.Strings(out)
	return "{" + strings.Join(out, ", ") + "}"
}

func sprintf(f string, a ...any) string { return fmt.Sprintf(f, a...) }

// exitIsNil reports whether the idx-th result of exit e is the nil constant.
func exitIsNil(e an.Exit, idx int) bool {
	if idx >= len(e.Vals) {
		return false
	}
	return an.IsNil(e.Vals[idx])
}

var _ = load.Abbrev
