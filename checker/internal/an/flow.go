package an

import (
	"go/token"
	"go/types"
	"math"

	"golang.org/x/tools/go/ssa"
)

// ---------------------------------------------------------------------------
// Branch facts: which branch conditions are known on every path to a point.

// Fact says that condition Cond (an SSA boolean value, with negations
// stripped) evaluated to Val on every path reaching the point in question.
type Fact struct {
	Cond ssa.Value
	Val  bool
}

type factSet map[Fact]struct{}

// Facts computes, for every basic block of fn, the branch facts that hold on
// entry on all paths (forward must-dataflow; edge facts from If terminators).
type Facts struct {
	fn *ssa.Function
	in map[*ssa.BasicBlock]factSet // nil = TOP (unreached so far)
}

func normCond(v ssa.Value, val bool) (ssa.Value, bool) {
	for {
		u, ok := v.(*ssa.UnOp)
		if ok && u.Op == token.NOT {
			v, val = u.X, !val
			continue
		}
		return v, val
	}
}

// addFact records cond == val and what follows from it when cond is the value of a short-circuit expression
// (outside an if statement go/ssa materialises `a && b` as φ[false, b] and `a || b` as φ[true, b]):
// (a && b) == true gives a and b; (a || b) == false gives !a and !b.
func addFact(out factSet, cond ssa.Value, val bool, depth int) {
	c, v := normCond(cond, val)
	out[Fact{c, v}] = struct{}{}
	ph, ok := c.(*ssa.Phi)
	if !ok || depth > 4 || (ph.Comment != "&&" && ph.Comment != "||") {
		return
	}
	short := ph.Comment == "||" // the constant carried by the short-circuit edges
	if v == short {
		return // a disjunction of possibilities: nothing certain follows
	}
	for i, e := range ph.Edges {
		if k, isC := e.(*ssa.Const); isC {
			if b, isB := ConstBool(k); isB && b == short && i < len(ph.Block().Preds) {
				// the short-circuit edge was not taken: the test that guards it came out the other way
				p := ph.Block().Preds[i]
				if ifi, isIf := p.Instrs[len(p.Instrs)-1].(*ssa.If); isIf && len(p.Succs) == 2 {
					addFact(out, ifi.Cond, p.Succs[0] != ph.Block(), depth+1)
				}
				continue
			}
		}
		addFact(out, e, v, depth+1)
	}
}

func NewFacts(fn *ssa.Function) *Facts {
	f := &Facts{fn: fn, in: map[*ssa.BasicBlock]factSet{}}
	if len(fn.Blocks) == 0 {
		return f
	}
	f.in[fn.Blocks[0]] = factSet{}
	changed := true
	for changed {
		changed = false
		for _, b := range fn.Blocks {
			if b == fn.Blocks[0] {
				continue
			}
			var acc factSet
			first := true
			for _, p := range b.Preds {
				pin, ok := f.in[p]
				if !ok {
					continue // TOP: identity of intersection
				}
				out := factSet{}
				for k := range pin {
					out[k] = struct{}{}
				}
				if ifi, ok := p.Instrs[len(p.Instrs)-1].(*ssa.If); ok {
					// succs[0] = true branch, succs[1] = false branch
					if p.Succs[0] == b && p.Succs[1] != b {
						addFact(out, ifi.Cond, true, 0)
					} else if p.Succs[1] == b && p.Succs[0] != b {
						addFact(out, ifi.Cond, false, 0)
					}
				}
				if first {
					acc, first = out, false
				} else {
					for k := range acc {
						if _, ok := out[k]; !ok {
							delete(acc, k)
						}
					}
				}
			}
			if first {
				continue // no reached predecessor yet
			}
			old, had := f.in[b]
			if !had || len(old) != len(acc) {
				f.in[b] = acc
				changed = true
			}
		}
	}
	return f
}

// At returns the facts holding on entry to b (nil for unreachable blocks).
func (f *Facts) At(b *ssa.BasicBlock) []Fact {
	var out []Fact
	for k := range f.in[b] {
		out = append(out, k)
	}
	return out
}

// Holds reports whether some fact at block b satisfies pred.
func (f *Facts) Holds(b *ssa.BasicBlock, pred func(Fact) bool) bool {
	for k := range f.in[b] {
		if pred(k) {
			return true
		}
	}
	return false
}

// OnEdge returns the facts that hold whenever control passes from p to its successor b: the facts on entry to p
// and what the branch that ends p says about that edge.
func (f *Facts) OnEdge(p, b *ssa.BasicBlock) []Fact {
	out := factSet{}
	for k := range f.in[p] {
		out[k] = struct{}{}
	}
	if len(p.Instrs) > 0 && len(p.Succs) == 2 {
		if ifi, ok := p.Instrs[len(p.Instrs)-1].(*ssa.If); ok {
			if p.Succs[0] == b && p.Succs[1] != b {
				addFact(out, ifi.Cond, true, 0)
			} else if p.Succs[1] == b && p.Succs[0] != b {
				addFact(out, ifi.Cond, false, 0)
			}
		}
	}
	res := make([]Fact, 0, len(out))
	for k := range out {
		res = append(res, k)
	}
	return res
}

// JoinCase is one value a joined operand can stand for, with the facts known whenever it stands for it.
type JoinCase struct {
	Val   ssa.Value
	Facts []Fact
}

// JoinCases reads operand v of an instruction in block at per incoming edge: a φ stands for the value of edge i
// exactly when control entered its block over that edge, so what is known on that edge (and, as always, on entry
// to at) is known whenever that value is the one used. `k := A; if c { k = B }; use(k)` and the two results of an
// inlined helper are thereby read like `if c { use(B) } else { use(A) }`. A non-φ operand is its own single case.
// A φ that feeds itself (a loop-carried value) is returned as it is: its case says nothing, callers fail closed.
func (f *Facts) JoinCases(v ssa.Value, at *ssa.BasicBlock) []JoinCase {
	var out []JoinCase
	var walk func(x ssa.Value, known []Fact, onPath map[*ssa.Phi]bool, depth int)
	walk = func(x ssa.Value, known []Fact, onPath map[*ssa.Phi]bool, depth int) {
		ph, isPhi := x.(*ssa.Phi)
		if !isPhi || onPath[ph] || depth > 6 || len(ph.Edges) != len(ph.Block().Preds) {
			out = append(out, JoinCase{x, known})
			return
		}
		onPath[ph] = true
		for i, e := range ph.Edges {
			k := append(append([]Fact(nil), known...), f.OnEdge(ph.Block().Preds[i], ph.Block())...)
			walk(e, k, onPath, depth+1)
		}
		delete(onPath, ph)
	}
	walk(v, f.At(at), map[*ssa.Phi]bool{}, 0)
	return out
}

// Alternatives returns the fact sets under which b can be entered, one per way of getting there. Normally that is
// the one set At(b). Where b is guarded by a boolean variable that was assigned in several arms and tested after
// they joined (`ok = <cond>` in each arm, then `if ok { b }` - the test is on a φ of the arms' values), there is one
// set per arm: what held at the end of that arm plus what the arm's value being the tested outcome says. Arms
// whose value is the opposite constant cannot lead to b and are left out. The facts that hold at b on every path
// are part of every set.
func (f *Facts) Alternatives(b *ssa.BasicBlock) [][]Fact {
	base, ok := f.in[b]
	if !ok {
		return nil
	}
	var ph *ssa.Phi
	var want bool
	for k := range base {
		p, isPhi := k.Cond.(*ssa.Phi)
		if !isPhi || p.Comment == "&&" || p.Comment == "||" || len(p.Edges) != len(p.Block().Preds) {
			continue
		}
		if ph != nil && ph != p {
			return [][]Fact{f.At(b)} // two joined flags at once: not split
		}
		ph, want = p, k.Val
	}
	if ph == nil {
		return [][]Fact{f.At(b)}
	}
	var out [][]Fact
	jb := ph.Block()
	for i, e := range ph.Edges {
		p := jb.Preds[i]
		pin, reached := f.in[p]
		if !reached {
			continue
		}
		if k, isC := e.(*ssa.Const); isC {
			if v, isB := ConstBool(k); isB && v != want {
				continue
			}
		}
		set := factSet{}
		for k := range base {
			set[k] = struct{}{}
		}
		for k := range pin {
			set[k] = struct{}{}
		}
		if ifi, isIf := p.Instrs[len(p.Instrs)-1].(*ssa.If); isIf && len(p.Succs) == 2 && p.Succs[0] != p.Succs[1] {
			addFact(set, ifi.Cond, p.Succs[0] == jb, 0)
		}
		addFact(set, e, want, 0)
		var alt []Fact
		for k := range set {
			alt = append(alt, k)
		}
		out = append(out, alt)
	}
	return out
}

// Reachable reports whether b is reachable from the entry.
func (f *Facts) Reachable(b *ssa.BasicBlock) bool {
	_, ok := f.in[b]
	return ok
}

// ---- condition shape helpers ------------------------------------------------

// CmpNil matches facts meaning "x == nil" (wantNil) or "x != nil" where x
// satisfies isX. It understands both == and != with either operand order.
func CmpNil(f Fact, wantNil bool, isX func(ssa.Value) bool) bool {
	b, ok := f.Cond.(*ssa.BinOp)
	if !ok || (b.Op != token.EQL && b.Op != token.NEQ) {
		return false
	}
	var x ssa.Value
	if IsNil(b.Y) {
		x = b.X
	} else if IsNil(b.X) {
		x = b.Y
	} else {
		return false
	}
	if !isX(x) {
		return false
	}
	isNil := f.Val == (b.Op == token.EQL)
	return isNil == wantNil
}

// CmpEq matches facts meaning "x == y" (eq) or "x != y" (!eq), order-insensitive.
func CmpEq(f Fact, eq bool, isX, isY func(ssa.Value) bool) bool {
	b, ok := f.Cond.(*ssa.BinOp)
	if !ok || (b.Op != token.EQL && b.Op != token.NEQ) {
		return false
	}
	if !(isX(b.X) && isY(b.Y)) && !(isX(b.Y) && isY(b.X)) {
		return false
	}
	return (f.Val == (b.Op == token.EQL)) == eq
}

// Rel is a normalised ordering relation "X op Y".
type Rel struct {
	X, Y ssa.Value
	Op   token.Token // LSS, LEQ, GTR, GEQ, EQL, NEQ
}

// AsRel decodes a fact whose condition is a comparison into the relation that
// is known to be TRUE (negating the operator when the fact is false).
func AsRel(f Fact) (Rel, bool) {
	b, ok := f.Cond.(*ssa.BinOp)
	if !ok {
		return Rel{}, false
	}
	op := b.Op
	switch op {
	case token.LSS, token.LEQ, token.GTR, token.GEQ, token.EQL, token.NEQ:
	default:
		return Rel{}, false
	}
	if !f.Val {
		op = map[token.Token]token.Token{token.LSS: token.GEQ, token.LEQ: token.GTR, token.GTR: token.LEQ,
			token.GEQ: token.LSS, token.EQL: token.NEQ, token.NEQ: token.EQL}[op]
	}
	return Rel{b.X, b.Y, op}, true
}

// Flip returns the same relation with operands swapped.
func (r Rel) Flip() Rel {
	op := map[token.Token]token.Token{token.LSS: token.GTR, token.LEQ: token.GEQ, token.GTR: token.LSS,
		token.GEQ: token.LEQ, token.EQL: token.EQL, token.NEQ: token.NEQ}[r.Op]
	return Rel{r.Y, r.X, op}
}

// ---------------------------------------------------------------------------
// Event ordering: must-before / may-before over up to 64 event classes.

// Events classifies instructions into event classes (bit i of the result).
type Events func(ssa.Instruction) uint64

// Order holds, for each instruction, the set of events that have certainly
// (Must) or possibly (May) happened on paths from the function entry to just
// before that instruction.
type Order struct {
	fn      *ssa.Function
	ev      Events
	mustIn  map[*ssa.BasicBlock]uint64
	mayIn   map[*ssa.BasicBlock]uint64
	reached map[*ssa.BasicBlock]bool
}

func NewOrder(fn *ssa.Function, ev Events) *Order { return NewOrderPruned(fn, ev, nil) }

// NewOrderPruned is NewOrder on the CFG with the edges for which skip returns
// true removed (e.g. the error edges of tested calls, to reason about the
// paths on which those calls succeeded).
func NewOrderPruned(fn *ssa.Function, ev Events, skip func(from, to *ssa.BasicBlock) bool) *Order {
	o := &Order{fn: fn, ev: ev, mustIn: map[*ssa.BasicBlock]uint64{}, mayIn: map[*ssa.BasicBlock]uint64{}, reached: map[*ssa.BasicBlock]bool{}}
	if len(fn.Blocks) == 0 {
		return o
	}
	gen := map[*ssa.BasicBlock]uint64{}
	for _, b := range fn.Blocks {
		var g uint64
		for _, in := range b.Instrs {
			g |= ev(in)
		}
		gen[b] = g
	}
	entry := fn.Blocks[0]
	o.reached[entry] = true
	o.mustIn[entry] = 0
	o.mayIn[entry] = 0
	changed := true
	for changed {
		changed = false
		for _, b := range fn.Blocks {
			if b == entry {
				continue
			}
			must := ^uint64(0)
			may := uint64(0)
			any := false
			for _, p := range b.Preds {
				if !o.reached[p] {
					continue
				}
				if skip != nil && skip(p, b) {
					continue
				}
				any = true
				must &= o.mustIn[p] | gen[p]
				may |= o.mayIn[p] | gen[p]
			}
			if !any {
				continue
			}
			if !o.reached[b] || o.mustIn[b] != must || o.mayIn[b] != may {
				o.reached[b], o.mustIn[b], o.mayIn[b] = true, must, may
				changed = true
			}
		}
	}
	return o
}

// Before returns (must, may) event sets at the point just before instruction at.
func (o *Order) Before(at ssa.Instruction) (must, may uint64) {
	b := at.Block()
	must, may = o.mustIn[b], o.mayIn[b]
	for _, in := range b.Instrs {
		if in == at {
			break
		}
		e := o.ev(in)
		must |= e
		may |= e
	}
	return
}

// Reached reports whether the block of at is reachable.
func (o *Order) Reached(at ssa.Instruction) bool { return o.reached[at.Block()] }

// ---------------------------------------------------------------------------
// Must-follow: after instruction a, on every path to a normal exit (Return),
// an instruction of class B is executed. Paths ending in panic are ignored
// unless countPanics.

// After computes, for each instruction, the events that certainly happen on
// every path from just after it to a function exit.
type After struct {
	fn       *ssa.Function
	ev       Events
	mustOut  map[*ssa.BasicBlock]uint64 // at block exit
	exitSeen map[*ssa.BasicBlock]bool
}

func NewAfter(fn *ssa.Function, ev Events, countPanics bool) *After {
	a := &After{fn: fn, ev: ev, mustOut: map[*ssa.BasicBlock]uint64{}, exitSeen: map[*ssa.BasicBlock]bool{}}
	gen := map[*ssa.BasicBlock]uint64{}
	for _, b := range fn.Blocks {
		var g uint64
		for _, in := range b.Instrs {
			g |= ev(in)
		}
		gen[b] = g
	}
	// backward must: OUT[b] = AND over succs (gen[s] | OUT[s]); exits: OUT = 0.
	// Blocks ending in panic: if !countPanics they impose no constraint (TOP).
	const top = ^uint64(0)
	for _, b := range fn.Blocks {
		a.mustOut[b] = top
	}
	changed := true
	for changed {
		changed = false
		for i := len(fn.Blocks) - 1; i >= 0; i-- {
			b := fn.Blocks[i]
			var out uint64
			last := b.Instrs[len(b.Instrs)-1]
			switch last.(type) {
			case *ssa.Return:
				out = 0
			case *ssa.Panic:
				if countPanics {
					out = 0
				} else {
					out = top
				}
			default:
				out = top
				for _, s := range b.Succs {
					out &= gen[s] | a.mustOut[s]
				}
			}
			if out != a.mustOut[b] {
				a.mustOut[b] = out
				changed = true
			}
		}
	}
	return a
}

// Following returns the events that certainly happen after instruction at.
func (a *After) Following(at ssa.Instruction) uint64 {
	b := at.Block()
	res := a.mustOut[b]
	seen := false
	for _, in := range b.Instrs {
		if seen {
			res |= a.ev(in)
		}
		if in == at {
			seen = true
		}
	}
	return res
}

// ---------------------------------------------------------------------------
// Counting occurrences of an event over entry->exit paths.

// Many is the count reported for events inside a cycle.
const Many = math.MaxInt32

// Count returns the minimum and maximum number of instructions satisfying is
// along any path from entry to a Return (panicking paths excluded). It works on
// the SCC condensation of the CFG: events inside a cycle contribute 0 to min
// and Many to max.
func Count(fn *ssa.Function, is func(ssa.Instruction) bool) (min, max int) {
	if len(fn.Blocks) == 0 {
		return 0, 0
	}
	comp, comps, cyclic := sccs(fn)
	type mm struct {
		ok       bool
		min, max int
	}
	res := make([]mm, len(comps))
	add := func(a, b int) int {
		if a == Many || b == Many || a+b >= Many {
			return Many
		}
		return a + b
	}
	// Tarjan emits components in reverse topological order (sinks first).
	for ci, blocks := range comps {
		n := 0
		for _, b := range blocks {
			for _, in := range b.Instrs {
				if is(in) {
					n++
				}
			}
		}
		selfMin, selfMax := n, n
		if cyclic[ci] {
			selfMin = 0
			if n > 0 {
				selfMax = Many
			}
		}
		bestMin, bestMax, any := math.MaxInt32, -1, false
		for _, b := range blocks {
			switch b.Instrs[len(b.Instrs)-1].(type) {
			case *ssa.Return:
				any = true
				if 0 < bestMin {
					bestMin = 0
				}
				if 0 > bestMax {
					bestMax = 0
				}
			case *ssa.Panic:
			default:
				for _, s := range b.Succs {
					sc := comp[s]
					if sc == ci || !res[sc].ok {
						continue
					}
					any = true
					if res[sc].min < bestMin {
						bestMin = res[sc].min
					}
					if res[sc].max > bestMax {
						bestMax = res[sc].max
					}
				}
			}
		}
		if any {
			res[ci] = mm{true, add(selfMin, bestMin), add(selfMax, bestMax)}
		}
	}
	r := res[comp[fn.Blocks[0]]]
	if !r.ok {
		return 0, 0
	}
	return r.min, r.max
}

// sccs returns the component index of each block, the components in reverse
// topological order, and which components are cyclic.
func sccs(fn *ssa.Function) (map[*ssa.BasicBlock]int, [][]*ssa.BasicBlock, []bool) {
	index := 0
	idx := map[*ssa.BasicBlock]int{}
	low := map[*ssa.BasicBlock]int{}
	on := map[*ssa.BasicBlock]bool{}
	var stack []*ssa.BasicBlock
	comp := map[*ssa.BasicBlock]int{}
	var comps [][]*ssa.BasicBlock
	var cyclic []bool
	var strong func(v *ssa.BasicBlock)
	strong = func(v *ssa.BasicBlock) {
		index++
		idx[v], low[v] = index, index
		stack = append(stack, v)
		on[v] = true
		for _, w := range v.Succs {
			if idx[w] == 0 {
				strong(w)
				if low[w] < low[v] {
					low[v] = low[w]
				}
			} else if on[w] && idx[w] < low[v] {
				low[v] = idx[w]
			}
		}
		if low[v] == idx[v] {
			var c []*ssa.BasicBlock
			for {
				w := stack[len(stack)-1]
				stack = stack[:len(stack)-1]
				on[w] = false
				c = append(c, w)
				comp[w] = len(comps)
				if w == v {
					break
				}
			}
			cyc := len(c) > 1
			if !cyc {
				for _, s := range v.Succs {
					if s == v {
						cyc = true
					}
				}
			}
			comps = append(comps, c)
			cyclic = append(cyclic, cyc)
		}
	}
	// start from entry so unreachable blocks do not matter
	strong(fn.Blocks[0])
	for _, b := range fn.Blocks {
		if idx[b] == 0 {
			strong(b)
		}
	}
	return comp, comps, cyclic
}

func cyclicBlocks(fn *ssa.Function) map[*ssa.BasicBlock]bool {
	res := map[*ssa.BasicBlock]bool{}
	if len(fn.Blocks) == 0 {
		return res
	}
	_, comps, cyclic := sccs(fn)
	for i, c := range comps {
		if cyclic[i] {
			for _, b := range c {
				res[b] = true
			}
		}
	}
	return res
}

// InLoop reports whether the instruction sits in a CFG cycle of its function.
func InLoop(in ssa.Instruction) bool {
	return cyclicBlocks(in.Parent())[in.Block()]
}

// ---------------------------------------------------------------------------
// Lock regions.

// Held computes, per instruction, the set of lock paths (see Path) that are
// certainly held: acquired by X.Lock()/RLock() earlier on every path and not
// released by a non-deferred X.Unlock()/RUnlock() since.
type Held struct {
	fn     *ssa.Function
	in     map[*ssa.BasicBlock]map[string]bool
	Defers map[string]bool // locks released by a deferred Unlock (or, in the normal form, by the deferred unlock of an absorbed helper at that helper's exits)
	// AtExit: locks released by a deferred Unlock of this very function, i.e. held until it returns
	AtExit map[string]bool
}

func lockOp(in ssa.Instruction) (path string, acquire, release, deferred bool) {
	c, ok := in.(ssa.CallInstruction)
	if !ok {
		return
	}
	if _, isGo := in.(*ssa.Go); isGo {
		return
	}
	_, deferred = in.(*ssa.Defer)
	cc := c.Common()
	name := ""
	var recv ssa.Value
	if cc.IsInvoke() {
		name, recv = cc.Method.Name(), cc.Value
	} else if fn, ok := cc.Value.(*ssa.Function); ok && fn.Signature.Recv() != nil && len(cc.Args) > 0 {
		name, recv = fn.Name(), cc.Args[0]
	} else {
		return
	}
	switch name {
	case "Lock", "RLock":
		acquire = true
	case "Unlock", "RUnlock":
		release = true
	default:
		return
	}
	path = Path(recv)
	return
}

func NewHeld(fn *ssa.Function) *Held {
	h := &Held{fn: fn, in: map[*ssa.BasicBlock]map[string]bool{}, Defers: map[string]bool{}, AtExit: map[string]bool{}}
	if len(fn.Blocks) == 0 {
		return h
	}
	transfer := func(b *ssa.BasicBlock, s map[string]bool) map[string]bool {
		out := map[string]bool{}
		for k := range s {
			out[k] = true
		}
		for _, in := range b.Instrs {
			p, acq, rel, def := lockOp(in)
			if acq && !def {
				out[p] = true
			}
			if rel && !def {
				delete(out, p)
			}
			if rel && def {
				h.Defers[p] = true
			}
		}
		return out
	}
	AllInstrs(fn, func(in ssa.Instruction) {
		// a deferred unlock, or the deferred unlock of an absorbed helper placed at the helper's exits
		if p, _, rel, def := lockOp(in); rel && (def || DeferOrigin(in)) {
			h.Defers[p] = true
			if def {
				h.AtExit[p] = true
			}
		}
	})
	h.in[fn.Blocks[0]] = map[string]bool{}
	changed := true
	for changed {
		changed = false
		for _, b := range fn.Blocks {
			if b == fn.Blocks[0] {
				continue
			}
			var acc map[string]bool
			first := true
			for _, p := range b.Preds {
				pin, ok := h.in[p]
				if !ok {
					continue
				}
				out := transfer(p, pin)
				if first {
					acc, first = out, false
				} else {
					for k := range acc {
						if !out[k] {
							delete(acc, k)
						}
					}
				}
			}
			if first {
				continue
			}
			if old, ok := h.in[b]; !ok || len(old) != len(acc) {
				h.in[b] = acc
				changed = true
			}
		}
	}
	return h
}

// At returns the lock paths certainly held just before instruction at.
func (h *Held) At(at ssa.Instruction) map[string]bool {
	b := at.Block()
	cur := map[string]bool{}
	for k := range h.in[b] {
		cur[k] = true
	}
	for _, in := range b.Instrs {
		if in == at {
			break
		}
		p, acq, rel, def := lockOp(in)
		if acq && !def {
			cur[p] = true
		}
		if rel && !def {
			delete(cur, p)
		}
	}
	return cur
}

// LockOps lists the (path, kind) of every lock operation of fn in order.
func LockOps(fn *ssa.Function) []struct {
	In       ssa.Instruction
	Path     string
	Acquire  bool
	Deferred bool
} {
	var out []struct {
		In       ssa.Instruction
		Path     string
		Acquire  bool
		Deferred bool
	}
	AllInstrs(fn, func(in ssa.Instruction) {
		p, acq, rel, def := lockOp(in)
		if acq || rel {
			out = append(out, struct {
				In       ssa.Instruction
				Path     string
				Acquire  bool
				Deferred bool
			}{in, p, acq, def})
		}
	})
	return out
}

// LockOps1 classifies a single instruction.
func LockOps1(in ssa.Instruction) (r struct {
	Path                       string
	Acquire, Release, Deferred bool
}) {
	r.Path, r.Acquire, r.Release, r.Deferred = lockOp(in)
	return
}

// DeferOrigin reports whether in stands for a deferred call of an absorbed helper, placed at the helper's exits
// by the analysis normal form: it ran on the helper's panic paths too.
func DeferOrigin(in ssa.Instruction) bool { return ssa.VerifDeferOrigin[in] }

// ---------------------------------------------------------------------------
// Dominance helpers.

// InstrDominates reports whether a executes before b on every path to b
// (same function).
func InstrDominates(a, b ssa.Instruction) bool {
	ba, bb := a.Block(), b.Block()
	if ba == bb {
		for _, in := range ba.Instrs {
			if in == a {
				return true
			}
			if in == b {
				return false
			}
		}
		return false
	}
	return ba.Dominates(bb)
}

// MayHeld computes, per instruction, the lock paths that are possibly held
// (acquired on some path and not released by a non-deferred unlock since).
type MayHeld struct {
	in map[*ssa.BasicBlock]map[string]bool
}

func NewMayHeld(fn *ssa.Function) *MayHeld {
	h := &MayHeld{in: map[*ssa.BasicBlock]map[string]bool{}}
	if len(fn.Blocks) == 0 {
		return h
	}
	for _, b := range fn.Blocks {
		h.in[b] = map[string]bool{}
	}
	changed := true
	for changed {
		changed = false
		for _, b := range fn.Blocks {
			out := map[string]bool{}
			for k := range h.in[b] {
				out[k] = true
			}
			for _, in := range b.Instrs {
				p, acq, rel, def := lockOp(in)
				if acq && !def {
					out[p] = true
				}
				if rel && !def {
					delete(out, p)
				}
			}
			for _, s := range b.Succs {
				for k := range out {
					if !h.in[s][k] {
						h.in[s][k] = true
						changed = true
					}
				}
			}
		}
	}
	return h
}

// At returns the lock paths possibly held just before instruction at.
func (h *MayHeld) At(at ssa.Instruction) map[string]bool {
	b := at.Block()
	cur := map[string]bool{}
	for k := range h.in[b] {
		cur[k] = true
	}
	for _, in := range b.Instrs {
		if in == at {
			break
		}
		p, acq, rel, def := lockOp(in)
		if acq && !def {
			cur[p] = true
		}
		if rel && !def {
			delete(cur, p)
		}
	}
	return cur
}

// LenSign decodes a fact comparing len(x) with a constant into what it says
// about the length: zero (len(x) == 0) or nonzero (len(x) > 0). It knows that a
// length is never negative, so `len(x) > 0`, `len(x) != 0`, `!(len(x) == 0)`,
// `len(x) >= 1` all mean nonzero, and the complements mean zero. For a string x
// the comparison with the empty string says the same thing about its length
// (`x != ""` and `x > ""` are len(x) > 0; `x == ""` and `x <= ""` are
// len(x) == 0): it is decoded as the fact about len(x), with x itself reported.
func LenSign(f Fact) (x ssa.Value, zero, nonzero bool) {
	r, ok := AsRel(f)
	if !ok {
		return nil, false, false
	}
	if s, isC := ConstString(r.X); isC && s == "" {
		r = r.Flip()
	}
	if s, isC := ConstString(r.Y); isC && s == "" {
		_, alsoC := r.X.(*ssa.Const)
		if bt, isB := r.X.Type().Underlying().(*types.Basic); isB && bt.Info()&types.IsString != 0 && !alsoC {
			switch r.Op {
			case token.NEQ, token.GTR:
				return r.X, false, true
			case token.EQL, token.LEQ:
				return r.X, true, false
			}
		}
		return nil, false, false
	}
	if _, isLen := LenArg(r.X); !isLen {
		r = r.Flip()
	}
	arg, isLen := LenArg(r.X)
	n, isC := ConstInt(r.Y)
	if !isLen || !isC {
		return nil, false, false
	}
	switch {
	case r.Op == token.GTR && n == 0, r.Op == token.NEQ && n == 0, r.Op == token.GEQ && n == 1:
		return arg, false, true
	case r.Op == token.EQL && n == 0, r.Op == token.LEQ && n == 0, r.Op == token.LSS && n == 1:
		return arg, true, false
	}
	return nil, false, false
}
