#!/usr/bin/env python3
"""trymut.py FILE:LINE[:kind] ... : applies the listed mutants of corpus/MUTSWEEP.json (matched by file suffix, line and
optionally kind) one at a time and prints which checks fire ($RIECHECK_BIN or bin/riecheck)."""
import json, os, shutil, subprocess, sys, tempfile
HERE = os.path.abspath(os.path.join(os.path.dirname(os.path.abspath(__file__)), ".."))
BIN = os.environ.get("RIECHECK_BIN", os.path.join(HERE, "bin", "riecheck"))
ENV = dict(os.environ, GOFLAGS="-mod=mod", GOPROXY="off", GOSUMDB="off", GOTOOLCHAIN="local"); ENV.pop("GOWORK", None)
M = json.load(open(os.path.join(HERE, "corpus", "MUTSWEEP.json")))
for spec in sys.argv[1:]:
    parts = spec.split(":"); f, line = parts[0], int(parts[1]); kind = parts[2] if len(parts) > 2 else None
    for m in M:
        if not m["file"].endswith(f) or m["line"] != line or (kind and not m["kind"].startswith(kind)): continue
        scratch = tempfile.mkdtemp(prefix="rie-tm-")
        try:
            dst = os.path.join(scratch, "repo"); shutil.copytree("/repo", dst, ignore=shutil.ignore_patterns(".git"))
            p = os.path.join(dst, m["file"]); src = open(p, "rb").read()
            open(p, "wb").write(src[:m["start"]] + m["repl"].encode() + src[m["end"]:])
            pr = subprocess.run([BIN, "-property", "all", "-repo", dst, "-verif", HERE, "-no-evidence"], env=ENV, capture_output=True, text=True)
            fired = [l.split()[1] for l in pr.stdout.splitlines() if l.startswith("RESULT ") and not l.endswith("rc=0")]
            keys = sorted(set(l.strip()[9:110] for l in pr.stdout.splitlines() if l.strip().startswith("violated ")))
            print(m["file"], m["line"], m["kind"], "->", fired or "SURVIVES", keys[:3])
        finally:
            shutil.rmtree(scratch, ignore_errors=True)
