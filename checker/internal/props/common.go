// Package props holds one file per property: anchors resolved through types,
// the obligations instantiated on them and the reference tables transcribed
// from the property statements.
package props

import (
	"fmt"
	"go/token"
	"go/types"
	"sort"
	"strings"

	"golang.org/x/tools/go/ssa"

	"verif/checker/internal/an"
	"verif/checker/internal/load"
	"verif/checker/internal/report"
)

// Prop couples the evidence texts of a property with its rule function.
type Prop struct {
	Spec report.Spec
	Run  func(c *report.Ctx)
}

// All is the registry, filled by the init functions of the cNN.go files.
var All = map[string]*Prop{}

func register(p *Prop) {
	run, id := p.Run, p.Spec.ID
	if t := round5Text[id]; t != "" {
		p.Spec.Explanation += " Added after the fifth blind round (per-file seeds, DESIGN 10.12): " + t
	}
	p.Run = func(c *report.Ctx) {
		run(c)
		if rules := round5Rules[id]; len(rules) > 0 {
			c.Clause("rules added after the fifth blind round")
			for _, r := range rules {
				r(c)
			}
		}
	}
	All[id] = p
}

var trusted = []string{
	"go/types type checking and go/ssa construction (golang.org/x/tools v0.29.0) are faithful to the compiler",
	"the loaded build (linux, default tags, CGO off) is the build that ships; the repository has no build-tagged or generated Go files (asserted by the loader's package count and by the thorough tier's GOARCH=arm64 run)",
	"no reflection-driven dispatch, unsafe or assembly reaches the anchored constructs",
	"the reference tables in the checker are the property statements transcribed",
}

// closureRole names, for the anonymous functions the rules anchor on, a callee that only that closure of its
// parent calls. Closures are numbered in source order, so adding or removing an unrelated closure in the parent
// shifts the numbers; the role finds the right one regardless (the number is only the fall-back).
var closureRole = map[string]string{
	"L/rapidcore|(*Server).Invoke$1":            "time.After",
	"L/rapidcore|(*Server).Invoke$2":            "L/rapidcore.Server.Reserve",
	"L/rapidcore|(*Server).Reset$1":             "L/interop.SandboxContext.Reset",
	"L/rapidcore|(*Server).FastInvoke$1":        "L/rapidcore.Server.trySendDefaultErrorResponse",
	"L/rapidcore|(invokeContext).SendRequest$1": "L/interop.RapidContext.HandleInvoke",
	"L/rapid|doInvoke$1":                        "L/core.InvokeFlowSynchronization.InitializeBarriers",
	"L/core/directinvoke|asyncPayloadCopy$1":    "io.LimitReader",
}

// stripAnon cuts the closure suffix off a function name: "L/rapid.doInvoke$1$2" -> "L/rapid.doInvoke".
// Who-may tables name the enclosing declared function: closure numbers shift when an unrelated closure is added.
func stripAnon(name string) string {
	if i := strings.Index(name, "$"); i >= 0 {
		return name[:i]
	}
	return name
}

// fn resolves a function anchor or records it as unresolved.
func fn(c *report.Ctx, pkg, name string) *ssa.Function {
	if want, ok := closureRole[pkg+"|"+name]; ok {
		if parent := c.P.Func(pkg, name[:strings.Index(name, "$")]); parent != nil {
			var hits []*ssa.Function
			for _, a := range parent.AnonFuncs {
				if len(an.CallsTo(a, want)) > 0 {
					hits = append(hits, a)
				}
			}
			if len(hits) == 1 && len(hits[0].Blocks) > 0 {
				c.Analysed("functions", 1)
				return hits[0]
			}
		}
	}
	f := c.P.Func(pkg, name)
	if f == nil || len(f.Blocks) == 0 {
		// a handler type replaced by a function: NewXHandler returns http.HandlerFunc(closure) instead of &xHandler{..};
		// the closure (with the function it calls absorbed) is the handler's ServeHTTP
		if g := handlerFuncOfCtor(c, pkg, name); g != nil {
			c.Analysed("functions", 1)
			return g
		}
	}
	if f == nil || len(f.Blocks) == 0 {
		c.Unresolved("ANCHOR", pkg+"."+name, "function %s.%s not found in the loaded program (renamed, removed, or turned into a promoted method)", pkg, name)
		return nil
	}
	c.Analysed("functions", 1)
	return f
}

// pos of the first instruction matching, else function position
func fpos(f *ssa.Function) token.Pos {
	if f == nil {
		return token.NoPos
	}
	return f.Pos()
}

func oneOf(s string, set ...string) bool {
	for _, x := range set {
		if s == x {
			return true
		}
	}
	return false
}

// structFields returns the fields of named struct pkg.name.
func structFields(c *report.Ctx, pkg, name string) []*types.Var {
	n := c.P.Named(pkg, name)
	if n == nil {
		c.Unresolved("ANCHOR", pkg+"."+name, "type %s.%s not found", pkg, name)
		return nil
	}
	st, ok := n.Underlying().(*types.Struct)
	if !ok {
		c.Unresolved("ANCHOR", pkg+"."+name, "type %s.%s is not a struct", pkg, name)
		return nil
	}
	var out []*types.Var
	var add func(n types.Type, st *types.Struct, depth int)
	add = func(n types.Type, st *types.Struct, depth int) {
		for i := 0; i < st.NumFields(); i++ {
			f := st.Field(i)
			if f.Embedded() && depth < 4 {
				// an embedded helper struct the pinned tree does not have: its fields count as this struct's own
				et := f.Type()
				if p, ok := et.(*types.Pointer); ok {
					et = p.Elem()
				}
				if en, ok := et.(*types.Named); ok && en.Obj().Pkg() != nil && load.GlueStruct[load.CanonTypeName(en)] {
					if est, ok := en.Underlying().(*types.Struct); ok {
						add(en, est, depth+1)
						continue
					}
				}
			}
			if a := an.FieldName(n, f.Name()); a != f.Name() {
				f = types.NewField(f.Pos(), f.Pkg(), a, f.Type(), f.Embedded()) // a field recognised as renamed
			}
			out = append(out, f)
		}
	}
	add(n, st, 0)
	return out
}

// methodsOf lists the methods declared on *T or T of named type pkg.name
// (not promoted ones), sorted by name.
func methodsOf(c *report.Ctx, pkg, name string) []*ssa.Function {
	n := c.P.Named(pkg, name)
	if n == nil {
		c.Unresolved("ANCHOR", pkg+"."+name, "type %s.%s not found", pkg, name)
		return nil
	}
	var out []*ssa.Function
	for i := 0; i < n.NumMethods(); i++ {
		m := n.Method(i)
		f := c.P.Prog.FuncValue(m)
		if f != nil && len(f.Blocks) > 0 && !c.P.Absorbed[f] {
			out = append(out, f) // (helpers absorbed into their callers by the normal form are seen there)
		}
	}
	// methods promoted from an embedded helper struct the pinned tree does not have
	ms := c.P.Prog.MethodSets.MethodSet(types.NewPointer(n))
	for i := 0; i < ms.Len(); i++ {
		if sel := ms.At(i); len(sel.Index()) > 1 {
			// (only the methods the pinned type had: a NEW helper method of the embedded struct, promoted along, is no
			// operation of this type - it is absorbed into the methods that call it and read there)
			if f := c.P.Prog.MethodValue(sel); f != nil && load.PromoWrapper[f] && len(f.Blocks) > 0 && load.InBaseline(f) {
				out = append(out, f)
			}
		}
	}
	sort.Slice(out, func(i, j int) bool { return out[i].Name() < out[j].Name() })
	c.Analysed("functions", len(out))
	return out
}

// repoFuncs returns every function of the repository (non-test files).
func repoFuncs(c *report.Ctx) []*ssa.Function { return c.P.RepoFns }

// storesTo lists, over the whole repository, the functions storing to field
// struct.field (through FieldAddr), with one representative store each.
func storesTo(c *report.Ctx, structName, field string) map[*ssa.Function][]*ssa.Store {
	out := map[*ssa.Function][]*ssa.Store{}
	for _, f := range repoFuncs(c) {
		if st := an.Stores(f, structName, field); len(st) > 0 {
			out[f] = st
		}
	}
	return out
}

func fnNames(m map[*ssa.Function][]*ssa.Store) []string {
	var out []string
	for f := range m {
		out = append(out, an.FuncName(f))
	}
	sort.Strings(out)
	return out
}

// callersOf lists call sites anywhere in the repository whose callee is one of names.
type site struct {
	Fn   *ssa.Function
	Call ssa.CallInstruction
}

func callSites(c *report.Ctx, names ...string) []site {
	var out []site
	for _, f := range repoFuncs(c) {
		for _, call := range an.CallsTo(f, names...) {
			out = append(out, site{f, call})
		}
	}
	return out
}

func siteFns(ss []site) []string {
	seen := map[string]bool{}
	var out []string
	for _, s := range ss {
		n := an.FuncName(s.Fn)
		if !seen[n] {
			seen[n] = true
			out = append(out, n)
		}
	}
	sort.Strings(out)
	return out
}

func bit(i int) uint64 { return uint64(1) << uint(i) }

// isLoadOfRecvField: v loads field `field` of struct `structName` (any base).
func loadOf(structName, field string) func(ssa.Value) bool {
	return func(v ssa.Value) bool { return an.IsFieldLoad(an.Strip(v, true), structName, field) }
}

func fmtSet(m map[string]bool) string {
	var out []string
	for k := range m {
		out = append(out, k)
	}
	sort.Strings(out)
	return "{" + strings.Join(out, ", ") + "}"
}

func sprintf(f string, a ...any) string { return fmt.Sprintf(f, a...) }

// exitIsNil reports whether the idx-th result of exit e is the nil constant.
func exitIsNil(e an.Exit, idx int) bool {
	if idx >= len(e.Vals) {
		return false
	}
	return an.IsNil(e.Vals[idx])
}

var _ = load.Abbrev

// ---------------------------------------------------------------------------
// Service-time reachability: functions reachable (VTA call graph) from the
// roots that run while the emulator serves: every `go` statement's target and
// every HTTP handler (ServeHTTP methods and func(ResponseWriter,*Request)
// literals/functions). Start-up code reachable only from main is outside.

type rootInfo struct {
	Fn   *ssa.Function
	Kind string // "go" | "http" | "main"
	Site token.Pos
	From *ssa.Function
}

var reachCache = map[*load.Program]map[*ssa.Function]bool{}
var rootsCache = map[*load.Program][]rootInfo{}

func isHTTPHandlerSig(sig *types.Signature) bool {
	if sig.Params().Len() != 2 || sig.Results().Len() != 0 {
		return false
	}
	return sig.Params().At(0).Type().String() == "net/http.ResponseWriter" && sig.Params().At(1).Type().String() == "*net/http.Request"
}

func serviceRoots(c *report.Ctx) []rootInfo {
	if r, ok := rootsCache[c.P]; ok {
		return r
	}
	var roots []rootInfo
	cg := c.P.CallGraph()
	for _, f := range repoFuncs(c) {
		if isHTTPHandlerSig(f.Signature) && !strings.HasPrefix(an.FuncName(f), "L/testdata.") {
			roots = append(roots, rootInfo{Fn: f, Kind: "http", Site: f.Pos(), From: f})
		}
		an.AllInstrs(f, func(in ssa.Instruction) {
			g, ok := in.(*ssa.Go)
			if !ok {
				return
			}
			n := cg.Nodes[f]
			found := false
			if n != nil {
				for _, e := range n.Out {
					if e.Site == g && e.Callee.Func != nil {
						roots = append(roots, rootInfo{Fn: e.Callee.Func, Kind: "go", Site: g.Pos(), From: f})
						found = true
					}
				}
			}
			if !found {
				if sc := g.Common().StaticCallee(); sc != nil {
					roots = append(roots, rootInfo{Fn: sc, Kind: "go", Site: g.Pos(), From: f})
				}
			}
		})
	}
	rootsCache[c.P] = roots
	return roots
}

// reachableFrom computes the functions reachable from fns in the VTA call graph.
func reachableFrom(c *report.Ctx, fns ...*ssa.Function) map[*ssa.Function]bool {
	cg := c.P.CallGraph()
	seen := map[*ssa.Function]bool{}
	var stack []*ssa.Function
	for _, f := range fns {
		if f != nil && !seen[f] {
			seen[f] = true
			stack = append(stack, f)
		}
	}
	for len(stack) > 0 {
		f := stack[len(stack)-1]
		stack = stack[:len(stack)-1]
		n := cg.Nodes[f]
		if n == nil {
			continue
		}
		for _, e := range n.Out {
			if g := e.Callee.Func; g != nil && !seen[g] {
				seen[g] = true
				stack = append(stack, g)
			}
		}
		for _, a := range f.AnonFuncs {
			// closures created here may be invoked through values the graph resolves; keep them only if called
			_ = a
		}
	}
	return seen
}

func serviceReachable(c *report.Ctx) map[*ssa.Function]bool {
	if r, ok := reachCache[c.P]; ok {
		return r
	}
	var fns []*ssa.Function
	for _, r := range serviceRoots(c) {
		fns = append(fns, r.Fn)
	}
	res := reachableFrom(c, fns...)
	reachCache[c.P] = res
	c.Analysed("service roots (go statements + HTTP handlers)", len(fns))
	return res
}

// ---------------------------------------------------------------------------
// R-WIRE support.

var callerIdx = map[*load.Program]map[*ssa.Function][]ssa.CallInstruction{}

func callersIndex(c *report.Ctx) map[*ssa.Function][]ssa.CallInstruction {
	if m, ok := callerIdx[c.P]; ok {
		return m
	}
	m := map[*ssa.Function][]ssa.CallInstruction{}
	for _, f := range repoFuncs(c) {
		an.AllInstrs(f, func(in ssa.Instruction) {
			if call, ok := in.(ssa.CallInstruction); ok {
				if sc := call.Common().StaticCallee(); sc != nil {
					m[sc] = append(m[sc], call)
				} else if !call.Common().IsInvoke() {
					// a local closure called through the variable (or captured variable) that holds it
					if mc, ok := chanRoot(call.Common().Value).(*ssa.MakeClosure); ok {
						if g, ok := mc.Fn.(*ssa.Function); ok {
							m[g] = append(m[g], call)
						}
					}
				}
			}
		})
	}
	callerIdx[c.P] = m
	return m
}

func newWire(c *report.Ctx, followFields map[string]bool, through map[string]int) *an.Wire {
	idx := callersIndex(c)
	return &an.Wire{
		Callers:     func(f *ssa.Function) []ssa.CallInstruction { return idx[f] },
		FollowField: func(s, f string) bool { return followFields[s+"."+f] },
		FieldStores: func(s, f string) []*ssa.Store {
			var out []*ssa.Store
			for _, sts := range storesTo(c, s, f) {
				out = append(out, sts...)
			}
			return out
		},
		Through: through,
	}
}

// handlerFuncOfCtor: name is "(*xHandler).ServeHTTP" and the type is gone; if NewXHandler exists and returns a
// function value converted to http.HandlerFunc, that function is returned.
func handlerFuncOfCtor(c *report.Ctx, pkg, name string) *ssa.Function {
	if !strings.HasPrefix(name, "(*") || !strings.HasSuffix(name, ").ServeHTTP") {
		return nil
	}
	t := name[2 : len(name)-len(").ServeHTTP")]
	if t == "" || c.P.Named(pkg, t) != nil {
		return nil
	}
	ctor := c.P.Func(pkg, "New"+strings.ToUpper(t[:1])+t[1:])
	if ctor == nil {
		return nil
	}
	var got *ssa.Function
	n := 0
	for _, e := range an.Exits(ctor) {
		if len(e.Vals) != 1 {
			continue
		}
		n++
		switch x := an.Strip(e.Vals[0], true).(type) {
		case *ssa.MakeClosure:
			got, _ = x.Fn.(*ssa.Function)
		case *ssa.Function:
			got = x
		}
	}
	if n != 1 || got == nil || len(got.Blocks) == 0 {
		return nil
	}
	if sig := got.Signature; sig.Params().Len() != 2 {
		return nil
	}
	return got
}

// servingMethodOfCtor: ctor returns an http.Handler; when every return hands out a value of one and the same
// concrete repository type converted to the interface, the function that serves a request is that type's ServeHTTP
// method. It is returned only if it hands the request on to some http.Handler (a middleware), else nil.
func servingMethodOfCtor(c *report.Ctx, ctor *ssa.Function) *ssa.Function {
	var got *ssa.Function
	n := 0
	for _, e := range an.Exits(ctor) {
		if len(e.Vals) != 1 {
			return nil
		}
		n++
		v := e.Vals[0]
		for {
			if ci, ok := v.(*ssa.ChangeInterface); ok {
				v = ci.X
				continue
			}
			break
		}
		mi, ok := v.(*ssa.MakeInterface)
		if !ok {
			return nil
		}
		sel := c.P.Prog.MethodSets.MethodSet(mi.X.Type()).Lookup(nil, "ServeHTTP")
		if sel == nil {
			return nil
		}
		m := c.P.Prog.MethodValue(sel)
		if m == nil || len(m.Blocks) == 0 || (got != nil && got != m) {
			return nil
		}
		got = m
	}
	if n == 0 || got == nil || got.Signature.Params().Len() != 2 || len(an.CallsTo(got, "net/http.Handler.ServeHTTP")) == 0 {
		return nil
	}
	return got
}
