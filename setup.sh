#!/bin/sh
# Builds the checker binary from the vendored sources; needs no network and no module cache.
set -e
cd "$(dirname "$0")/checker"
unset GOWORK
export GOFLAGS=-mod=vendor GOPROXY=off GOSUMDB=off GOTOOLCHAIN=local CGO_ENABLED=0
mkdir -p ../bin
go build -o ../bin/riecheck ./cmd/riecheck
echo "built $(cd .. && pwd)/bin/riecheck"
# source rewriters behind the generated negatives of the self-test (selftest/ALL/neg-gen-*.gen): thorough tier only
for t in renlocals revfuncs flipifs outline; do go build -o ../bin/$t ./cmd/$t; done
