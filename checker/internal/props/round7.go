package props

// Rules added from the mutation sweep (DESIGN 10.14): conditions that the blind rounds had not reached and that
// the repository's own tests do not notice either.

import (
	"go/token"
	"sort"
	"strings"

	"golang.org/x/tools/go/ssa"

	"verif/checker/internal/an"
	"verif/checker/internal/report"
)

func init() {
	add := func(id string, fs ...func(*report.Ctx)) { round5Rules[id] = append(round5Rules[id], fs...) }
	add("C05", checkFailureFlags)
	add("C06", checkFailureFlags, checkExitClassification, checkInitErrorCachedOrForwarded, checkInitFailuresHandled)
	add("C07", checkRuntimeAPIServed, checkInitFailuresHandled, checkBuilderSettersStore)
	add("C15", checkExitClassification)
	add("C12", checkRuntimeAPIServed)
	add("C09", checkBuilderSettersStore)
}

// storeUnder lists, for the constant stores to field of structName in f, the facts of their blocks.
type flagStore struct {
	st    *ssa.Store
	val   bool
	facts []an.Fact
}

func flagStores(f *ssa.Function, structName, field string) []flagStore {
	facts := an.NewFacts(f)
	var out []flagStore
	for _, st := range an.Stores(f, structName, field) {
		if b, ok := an.ConstBool(st.Val); ok {
			out = append(out, flagStore{st, b, facts.At(st.Block())})
		}
	}
	return out
}

func anyFact(fs []an.Fact, pred func(an.Fact) bool) bool {
	for _, f := range fs {
		if pred(f) {
			return true
		}
	}
	return false
}

// checkFailureFlags: a failed invocation or init asks for a reset exactly when the documented conditions hold, and
// says "a reset is already under way" exactly when it was interrupted by one.
func checkFailureFlags(c *report.Ctx) {
	isResetErr := func(want bool) func(an.Fact) bool {
		return func(ft an.Fact) bool {
			return an.CmpEq(ft, want, func(v ssa.Value) bool { _, isP := v.(*ssa.Parameter); return isP }, func(v ssa.Value) bool { return an.GlobalOf(v) == "L/rapid.errResetReceived" })
		}
	}
	callIs := func(callee string, want bool) func(an.Fact) bool {
		return func(ft an.Fact) bool {
			cl, _ := an.CallOf(ft.Cond)
			return cl != nil && strings.HasSuffix(an.Callee(cl), callee) && ft.Val == want
		}
	}
	if f := fn(c, "L/rapid", "handleInvokeError"); f != nil {
		T := "L/interop.InvokeFailure"
		var bad []string
		n := 0
		for _, s := range flagStores(f, T, "RequestReset") {
			n++
			switch s.val {
			case false:
				if !anyFact(s.facts, callIs("extensions.AreEnabled", false)) {
					bad = append(bad, "RequestReset=false not under !extensions.AreEnabled()")
				}
			case true:
				if !anyFact(s.facts, callIs("extensions.AreEnabled", true)) || !anyFact(s.facts, isResetErr(false)) {
					bad = append(bad, "RequestReset=true not under extensions enabled and err != errResetReceived")
				}
			}
		}
		for _, s := range flagStores(f, T, "ResetReceived") {
			n++
			if !s.val || !anyFact(s.facts, isResetErr(true)) {
				bad = append(bad, "ResetReceived not set under err == errResetReceived")
			}
		}
		c.Check("R-GUARD", an.FuncName(f)+"/reset-flags", "a failed invocation requests a reset when extensions are enabled and it was not itself interrupted by a reset; it reports 'reset received' exactly for errResetReceived; with extensions disabled it requests none", len(bad) == 0 && n == 3, fpos(f), n, "flag stores: %d; %v", n, bad)
	}
	if f := fn(c, "L/rapid", "handleInitError"); f != nil {
		T := "L/interop.InitFailure"
		var bad []string
		n := 0
		noExt := callIs("rapidContext.HasActiveExtensions", false)
		notStandalone := func(ft an.Fact) bool {
			return !ft.Val && an.IsFieldLoad(ft.Cond, rapidCtxT, "standaloneMode")
		}
		for _, s := range flagStores(f, T, "RequestReset") {
			n++
			both := anyFact(s.facts, noExt) && anyFact(s.facts, notStandalone)
			if s.val == both {
				bad = append(bad, sprintf("RequestReset=%v under (no extensions and not standalone)=%v", s.val, both))
			}
			if anyFact(s.facts, isResetErr(true)) {
				bad = append(bad, "RequestReset set on the reset-received path")
			}
		}
		for _, s := range flagStores(f, T, "ResetReceived") {
			n++
			if !s.val || !anyFact(s.facts, isResetErr(true)) {
				bad = append(bad, "ResetReceived not set under err == errResetReceived")
			}
		}
		// the failure is handed over, and its acknowledgement awaited, on every path
		nsend, okSend, _ := beforeEveryReturn(f, func(in ssa.Instruction) bool { _, isS := in.(*ssa.Send); return isS })
		c.Check("R-GUARD", an.FuncName(f)+"/reset-flags", "a failed init requests a reset unless there are no extensions and the emulator is not standalone; it reports 'reset received' exactly for errResetReceived; the failure is handed over on every path", len(bad) == 0 && n == 3 && okSend && nsend >= 1, fpos(f), n, "flag stores: %d; hand-over on every path: %v; %v", n, okSend, bad)
	}
}

// checkExitClassification: an unexpected exit is recorded as Runtime.ExitError when the process is this
// generation's runtime and as Extension.Crash otherwise, and only when no shutdown is in progress.
func checkExitClassification(c *report.Ctx) {
	f := fn(c, "L/rapid", "(*rapidContext).watchEvents")
	if f == nil {
		return
	}
	facts := an.NewFacts(f)
	isRuntimeName := func(want bool) func(an.Fact) bool {
		return func(ft an.Fact) bool {
			bo, ok := ft.Cond.(*ssa.BinOp)
			if !ok || (bo.Op != token.EQL && bo.Op != token.NEQ) {
				return false
			}
			isSprintf := func(v ssa.Value) bool { cl, _ := an.CallOf(v); return cl != nil && an.Callee(cl) == "fmt.Sprintf" }
			if !isSprintf(bo.X) && !isSprintf(bo.Y) {
				return false
			}
			eq := (bo.Op == token.EQL) == ft.Val
			return eq == want
		}
	}
	notShutting := func(ft an.Fact) bool {
		cl, _ := an.CallOf(ft.Cond)
		return cl != nil && strings.HasSuffix(an.Callee(cl), "shutdownContext.isShuttingDown") && !ft.Val
	}
	want := map[string]bool{"Runtime.ExitError": true, "Extension.Crash": false}
	n := 0
	var bad []string
	pos := fpos(f)
	for _, call := range an.CallsTo(f, "L/appctx.StoreFirstFatalError") {
		s, ok := an.ConstString(call.Common().Args[1])
		if !ok {
			continue
		}
		isRt, known := want[s]
		if !known {
			bad = append(bad, "records "+s)
			continue
		}
		n++
		if !facts.Holds(call.Block(), isRuntimeName(isRt)) || !facts.Holds(call.Block(), notShutting) {
			bad = append(bad, s+" not under (process is the runtime)="+sprintf("%v", isRt)+" and !isShuttingDown()")
			pos = an.InstrPos(call)
		}
	}
	sort.Strings(bad)
	c.Check("R-GUARD", an.FuncName(f)+"/exit-classification", "an unexpected exit is recorded as Runtime.ExitError exactly when the exited process is this generation's runtime, as Extension.Crash otherwise, and never while a shutdown is in progress", len(bad) == 0 && n == 2, pos, n, "recordings: %d; %v", n, bad)
}

// checkRuntimeAPIServed: the Runtime API server is served once it listens.
func checkRuntimeAPIServed(c *report.Ctx) {
	f := fn(c, "L/rapid", "startRuntimeAPI")
	if f == nil {
		return
	}
	n, ok, where := beforeEveryReturn(f, isPlainCallTo("L/rapi.Server.Serve"))
	listen := an.CallsTo(f, "L/rapi.Server.Listen")
	if ok && len(listen) == 1 {
		for _, s := range an.CallsTo(f, "L/rapi.Server.Serve") {
			if !an.InstrDominates(listen[0], s) {
				ok = false
			}
		}
	}
	if where == token.NoPos {
		where = fpos(f)
	}
	c.Check("R-ORDER", an.FuncName(f)+"/listens-then-serves", "the Runtime API server is bound and then served on every path (without Serve no runtime or extension is ever answered)", ok && len(listen) == 1, where, n, "Listen calls: %d; Serve calls: %d, after Listen on every path: %v", len(listen), n, ok)
}

// checkInitErrorCachedOrForwarded: an init error reported by the runtime is forwarded to the waiting caller during
// a suppressed init and cached for the next invocation otherwise.
func checkInitErrorCachedOrForwarded(c *report.Ctx) {
	f := fn(c, rapidcP, "(*Server).SendInitErrorResponse")
	if f == nil {
		return
	}
	facts := an.NewFacts(f)
	invoking := func(want bool) func(an.Fact) bool {
		return func(ft an.Fact) bool {
			bo, ok := ft.Cond.(*ssa.BinOp)
			if !ok || (bo.Op != token.EQL && bo.Op != token.NEQ) {
				return false
			}
			if !an.IsResultOf(bo.X, srvT+".getRapidPhase", -1) && !an.IsResultOf(bo.Y, srvT+".getRapidPhase", -1) {
				return false
			}
			return ((bo.Op == token.EQL) == ft.Val) == want
		}
	}
	okF, okC := false, false
	for _, call := range an.CallsTo(f, srvT+".SendErrorResponse") {
		okF = facts.Holds(call.Block(), invoking(true))
	}
	cache := an.CallsTo(f, srvT+".setCachedInitErrorResponse")
	for _, call := range cache {
		_, isP := an.Strip(call.Common().Args[1], false).(*ssa.Parameter)
		okC = facts.Holds(call.Block(), invoking(false)) && isP
	}
	// every exit of the non-invoking path has cached
	for _, e := range an.Exits(f) {
		if facts.Holds(e.Ret.Block(), invoking(false)) {
			if len(cache) != 1 || !an.InstrDominates(cache[0], e.Ret) {
				okC = false
			}
		}
	}
	c.Check("R-GUARD", an.FuncName(f)+"/cached-or-forwarded", "the runtime's init error is forwarded as the invocation's error response while an invocation is in its suppressed init, and cached (the response itself) for the next invocation otherwise, on every path", okF && okC, fpos(f), 2, "forwarded under phase == invoking: %v; cached on every other path: %v", okF, okC)
}

// checkInitFailuresHandled: whichever step of handleInit fails, the failure is reported and init ends there.
func checkInitFailuresHandled(c *report.Ctx) {
	f := fn(c, "L/rapid", "handleInit")
	if f == nil {
		return
	}
	steps := []string{"L/rapid.rapidContext.acceptInitRequestForInitCaching", "L/rapid.setupEventsWatcher", "L/rapid.doRuntimeDomainInit"}
	isHandle := isPlainCallTo("L/rapid.handleInitError")
	isSuccess := func(in ssa.Instruction) bool {
		s, ok := in.(*ssa.Send)
		return ok && strings.HasSuffix(s.Chan.Type().String(), "interop.InitSuccess")
	}
	n := 0
	var bad []string
	pos := fpos(f)
	for _, g := range an.WithAnon(f) {
		for _, callee := range steps {
			for _, call := range an.CallsTo(g, callee) {
				// the error result and its test
				var errv ssa.Value
				if v := call.Value(); v != nil {
					if isErrorType(v.Type()) {
						errv = v
					} else {
						for _, r := range *v.Referrers() {
							if ex, ok := r.(*ssa.Extract); ok && isErrorType(ex.Type()) {
								errv = ex
							}
						}
					}
				}
				if errv == nil {
					continue
				}
				for _, r := range *errv.Referrers() {
					bo, ok := r.(*ssa.BinOp)
					if !ok || (bo.Op != token.NEQ && bo.Op != token.EQL) {
						continue
					}
					for _, r2 := range *bo.Referrers() {
						iff, ok := r2.(*ssa.If)
						if !ok {
							continue
						}
						n++
						errEdge := iff.Block().Succs[0]
						if bo.Op == token.EQL {
							errEdge = iff.Block().Succs[1]
						}
						// on the error edge: handleInitError before any return, and no success message
						if returnReachableAvoiding(errEdge, isHandle) {
							bad = append(bad, strings.TrimPrefix(callee, "L/rapid.")+": a return without handleInitError")
							pos = an.InstrPos(iff)
						}
						reachSuccess := false
						seen := map[*ssa.BasicBlock]bool{}
						var walk func(b *ssa.BasicBlock)
						walk = func(b *ssa.BasicBlock) {
							if seen[b] {
								return
							}
							seen[b] = true
							for _, in := range b.Instrs {
								if isSuccess(in) {
									reachSuccess = true
								}
							}
							for _, s := range b.Succs {
								walk(s)
							}
						}
						walk(errEdge)
						if reachSuccess {
							bad = append(bad, strings.TrimPrefix(callee, "L/rapid.")+": the success message is reachable after the failure")
							pos = an.InstrPos(iff)
						}
					}
				}
			}
		}
	}
	sort.Strings(bad)
	c.Check("R-ORDER", an.FuncName(f)+"/failures-reported", "when accepting the request, starting the events watcher or initialising the runtime domain fails, handleInit reports the failure and returns without announcing success", len(bad) == 0 && n >= 3, pos, n, "error tests of the three steps: %d; %v", n, bad)
}

// checkBuilderSettersStore: every setter of the sandbox builder stores what it is given.
func checkBuilderSettersStore(c *report.Ctx) {
	n := 0
	var bad []string
	pos := token.NoPos
	for _, f := range methodsOf(c, rapidcP, "SandboxBuilder") {
		if !strings.HasPrefix(f.Name(), "Set") || len(f.Params) < 2 || oneOf(f.Name(), "SetExtensionsFlag", "SetRuntimeAPIAddress") {
			continue
		}
		n++
		// every parameter is stored into a field (of the builder or its sandbox) on every path
		for _, p := range f.Params[1:] {
			p := p
			_, ok, _ := beforeEveryReturn(f, func(in ssa.Instruction) bool {
				st, isSt := in.(*ssa.Store)
				if !isSt || an.Strip(st.Val, false) != ssa.Value(p) {
					return false
				}
				_, isF := an.AsField(st.Addr)
				return isF
			})
			if !ok {
				bad = append(bad, f.Name()+"("+p.Name()+")")
				pos = fpos(f)
			}
		}
	}
	sort.Strings(bad)
	c.Check("R-WIRE", "L/rapidcore.SandboxBuilder/setters-store", "each Set... method of the sandbox builder stores its argument on every path (supervisor, interop server, handler, init-caching flag, ... reach the sandbox that Create builds)", len(bad) == 0 && n >= 8, pos, n, "setters: %d; not storing: %v", n, bad)
}
