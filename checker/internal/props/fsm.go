package props

import (
	"go/token"
	"go/types"
	"sort"
	"strings"

	"golang.org/x/tools/go/ssa"

	"verif/checker/internal/an"
	"verif/checker/internal/report"
)

// fsmSpec describes one instance of the state-object pattern.
type fsmSpec struct {
	Owner     string // "Runtime"           (type in L/core)
	Iface     string // "RuntimeState"
	Base      string // "disallowEveryTransitionByDefault"
	Ctor      string // "NewRuntime"
	OwnerRef  string // name of the state structs' back pointer field: "runtime" / "agent"
	SetState  string // "setStateUnsafe"
	Current   string // "currentState"
	Skip      []string
	Reference map[string]map[string]string // state type -> method -> canonical cell (absent = REFUSE)
	Initial   string                       // expected initial state type
}

type fsmModel struct {
	fieldToType map[string]string            // owner field -> concrete state type name
	typeToField map[string]string            // inverse
	flowWiring  map[string]map[string]string // state type -> its field -> "param:<name>" | "owner"
	initial     string
	cells       map[string]map[string]string // state type -> method -> extracted canonical cell
	methods     []string
	states      []string
}

const coreP = "L/core"

// extractFSM reads the constructor wiring and every (state, method) cell.
func extractFSM(c *report.Ctx, s fsmSpec) *fsmModel {
	m := &fsmModel{fieldToType: map[string]string{}, typeToField: map[string]string{}, flowWiring: map[string]map[string]string{}, cells: map[string]map[string]string{}}
	ownerT := coreP + "." + s.Owner
	iface := c.P.Named(coreP, s.Iface)
	base := c.P.Named(coreP, s.Base)
	ctor := fn(c, coreP, s.Ctor)
	if iface == nil || base == nil || ctor == nil {
		if iface == nil {
			c.Unresolved("ANCHOR", coreP+"."+s.Iface, "state interface not found")
		}
		if base == nil {
			c.Unresolved("ANCHOR", coreP+"."+s.Base, "disallow-everything base type not found")
		}
		return nil
	}
	it := iface.Underlying().(*types.Interface)
	for i := 0; i < it.NumMethods(); i++ {
		n := it.Method(i).Name()
		if !oneOf(n, s.Skip...) {
			m.methods = append(m.methods, n)
		}
	}
	sort.Strings(m.methods)

	// ---- constructor wiring: owner.<Field> = MakeInterface(new StateType)
	for _, st := range an.Stores(ctor, ownerT, "") {
		fr, _ := an.AsField(st.Addr)
		mi, ok := st.Val.(*ssa.MakeInterface)
		if !ok || an.TypeName(mi.Type()) != coreP+"."+s.Iface {
			continue
		}
		tn := strings.TrimPrefix(an.TypeName(mi.X.Type()), coreP+".")
		m.fieldToType[fr.Field] = tn
		m.typeToField[tn] = fr.Field
		// composite literal field inits of that state object
		if alloc, ok := mi.X.(*ssa.Alloc); ok {
			w := map[string]string{}
			for _, ref := range *alloc.Referrers() {
				fa, ok := ref.(*ssa.FieldAddr)
				if !ok {
					continue
				}
				ffr, _ := an.AsField(fa)
				for _, r2 := range *fa.Referrers() {
					if s2, ok := r2.(*ssa.Store); ok && s2.Addr == fa {
						switch v := s2.Val.(type) {
						case *ssa.Parameter:
							w[ffr.Field] = "param:" + v.Name()
						case *ssa.Alloc:
							w[ffr.Field] = "owner"
						default:
							w[ffr.Field] = an.Path(s2.Val)
						}
					}
				}
			}
			m.flowWiring[tn] = w
		}
	}
	// initial state: setStateUnsafe(owner, load owner.<Field>)
	for _, call := range an.CallsTo(ctor, ownerT+"."+s.SetState) {
		args := call.Common().Args
		if len(args) == 2 {
			if fr, ok := an.AsField(args[1]); ok {
				m.initial = m.fieldToType[fr.Field]
			}
		}
	}

	// ---- concrete state types: the ones the constructor installs (only those can
	// ever become current: currentState has setStateUnsafe as its single writer, fed
	// from the owner's fields), plus any other struct type in L/core that implements
	// the interface AND holds a back pointer to this owner (an uninstalled new state).
	seenT := map[string]bool{}
	for tn := range m.typeToField {
		seenT[tn] = true
		m.states = append(m.states, tn)
	}
	pkg := c.P.Pkg(coreP)
	for _, mem := range pkg.Members {
		tm, ok := mem.(*ssa.Type)
		if !ok {
			continue
		}
		named, ok := tm.Type().(*types.Named)
		if !ok || named == base || types.IsInterface(named) || seenT[named.Obj().Name()] {
			continue
		}
		st, isStruct := named.Underlying().(*types.Struct)
		if !isStruct || !types.Implements(types.NewPointer(named), it) {
			continue
		}
		if strings.HasSuffix(c.P.Fset.Position(named.Obj().Pos()).Filename, "_test.go") {
			continue
		}
		for i := 0; i < st.NumFields(); i++ {
			if an.TypeName(st.Field(i).Type()) == ownerT {
				m.states = append(m.states, named.Obj().Name())
				break
			}
		}
	}
	sort.Strings(m.states)

	// ---- cells
	for _, stName := range m.states {
		named := c.P.Named(coreP, stName)
		m.cells[stName] = map[string]string{}
		ms := c.P.Prog.MethodSets.MethodSet(types.NewPointer(named))
		for _, meth := range m.methods {
			sel := ms.Lookup(pkg.Pkg, meth)
			if sel == nil {
				m.cells[stName][meth] = "MISSING"
				continue
			}
			fobj := sel.Obj().(*types.Func)
			recvT := fobj.Type().(*types.Signature).Recv().Type()
			if an.TypeName(recvT) == coreP+"."+s.Base {
				m.cells[stName][meth] = "REFUSE"
				continue
			}
			f := c.P.Prog.FuncValue(fobj)
			if f == nil || len(f.Blocks) == 0 {
				m.cells[stName][meth] = "NOBODY"
				continue
			}
			c.Analysed("state methods analysed", 1)
			m.cells[stName][meth] = extractCell(c, s, m, f)
		}
	}
	return m
}

// extractCell renders the ordered effect list and the result kinds of one
// overriding state method:  "e1;e2;... -> k1|k2".
func extractCell(c *report.Ctx, s fsmSpec, m *fsmModel, f *ssa.Function) string {
	ownerT := coreP + "." + s.Owner
	type eff struct {
		in   ssa.Instruction
		name string
		loop bool
	}
	var effs []eff
	cyc := map[*ssa.BasicBlock]bool{}
	for _, b := range f.Blocks {
		for _, in := range b.Instrs {
			if an.InLoop(in) {
				cyc[b] = true
			}
			break
		}
	}
	an.AllInstrs(f, func(in ssa.Instruction) {
		name := ""
		switch x := in.(type) {
		case ssa.CallInstruction:
			cal := an.Callee(x)
			args := x.Common().Args
			switch {
			case cal == ownerT+"."+s.SetState && len(args) == 2:
				if fr, ok := an.AsField(args[1]); ok && fr.Struct == ownerT {
					tn := m.fieldToType[fr.Field]
					if tn == "" {
						tn = "?" + fr.Field
					}
					name = "set(" + tn + ")"
				} else {
					name = "set(?" + an.Path(args[1]) + ")"
				}
			case strings.HasPrefix(cal, coreP+".InitFlowSynchronization."):
				name = "init." + strings.TrimPrefix(cal, coreP+".InitFlowSynchronization.")
				if strings.HasSuffix(cal, ".CancelWithError") && len(args) == 1 {
					name += "(" + describeErrArg(args[0]) + ")"
				}
			case strings.HasPrefix(cal, coreP+".InvokeFlowSynchronization."):
				name = "invoke." + strings.TrimPrefix(cal, coreP+".InvokeFlowSynchronization.")
			case cal == coreP+".Suspendable.SuspendUnsafe":
				name = "park"
			case cal == coreP+".ValidateInternalAgentEvent", cal == coreP+".ValidateExternalAgentEvent":
				// pure; that a subscription is recorded only for a validated event is checked in C13 (R-GUARD .../validated)
			case cal == coreP+".MapErrorToAgentInfoErrorType", cal == "builtin.len":
				// pure
			default:
				name = "call " + cal
			}
			if _, isGo := in.(*ssa.Go); isGo && name != "" {
				name = "go " + name
			}
			if _, isD := in.(*ssa.Defer); isD && name != "" {
				name = "defer " + name
			}
		case *ssa.Store:
			if fr, ok := an.AsField(x.Addr); ok {
				if fr.Struct == ownerT && fr.Field == "errorType" {
					name = "errorType=" + describeErrTypeVal(x.Val)
				} else if _, isAlloc := fr.Base.(*ssa.Alloc); !isAlloc {
					name = "store " + strings.TrimPrefix(fr.Struct, coreP+".") + "." + fr.Field
				}
			} else if _, isAlloc := x.Addr.(*ssa.Alloc); !isAlloc {
				name = "store " + an.Path(x.Addr)
			}
		case *ssa.MapUpdate:
			name = "mapupdate " + an.Path(x.Map)
			if fr, ok := an.AsField(x.Map); ok && fr.Field == "events" && (fr.Struct == coreP+".InternalAgent" || fr.Struct == coreP+".ExternalAgent") {
				name = "subscribe"
			}
		case *ssa.Send:
			name = "send"
		case *ssa.Panic:
			name = "panic"
		}
		if name != "" {
			effs = append(effs, eff{in, name, cyc[in.Block()]})
		}
	})
	// order: control-flow order (a before b when b can follow a but a cannot follow b); effects that
	// can each follow the other (same loop) or neither keep their order of discovery. Block numbering
	// plays no role, so the listing does not depend on how the compiler laid the blocks out.
	{
		reach := map[*ssa.BasicBlock]map[*ssa.BasicBlock]bool{}
		reachFrom := func(b *ssa.BasicBlock) map[*ssa.BasicBlock]bool {
			if r, ok := reach[b]; ok {
				return r
			}
			r := map[*ssa.BasicBlock]bool{}
			var walk func(x *ssa.BasicBlock)
			walk = func(x *ssa.BasicBlock) {
				for _, s := range x.Succs {
					if !r[s] {
						r[s] = true
						walk(s)
					}
				}
			}
			walk(b)
			reach[b] = r
			return r
		}
		follows := func(a, b ssa.Instruction) bool { // b can execute after a
			if a.Block() == b.Block() {
				for _, in := range a.Block().Instrs {
					if in == a {
						return true
					}
					if in == b {
						break
					}
				}
				return reachFrom(a.Block())[a.Block()]
			}
			return reachFrom(a.Block())[b.Block()]
		}
		before := func(a, b ssa.Instruction) bool { return follows(a, b) && !follows(b, a) }
		var sorted []eff
		rest := append([]eff(nil), effs...)
		for len(rest) > 0 {
			pick := 0
			for i := range rest {
				first := true
				for j := range rest {
					if i != j && before(rest[j].in, rest[i].in) {
						first = false
					}
				}
				if first {
					pick = i
					break
				}
			}
			sorted = append(sorted, rest[pick])
			rest = append(rest[:pick], rest[pick+1:]...)
		}
		effs = sorted
	}
	// chain check: every non-loop effect must precede the next on all paths
	chainOK := true
	evIdx := map[ssa.Instruction]int{}
	for i, e := range effs {
		evIdx[e.in] = i
	}
	ord := an.NewOrder(f, func(in ssa.Instruction) uint64 {
		if i, ok := evIdx[in]; ok && i < 64 {
			return bit(i)
		}
		return 0
	})
	for j := range effs {
		must, _ := ord.Before(effs[j].in)
		for i := 0; i < j; i++ {
			if effs[i].loop {
				continue
			}
			if must&bit(i) == 0 {
				chainOK = false
			}
		}
	}
	var names []string
	for _, e := range effs {
		n := e.name
		if e.loop {
			n += "*"
		}
		names = append(names, n)
	}
	// result kinds
	kinds := map[string]bool{}
	allMask := uint64(0)
	for i, e := range effs {
		if !e.loop {
			allMask |= bit(i)
		}
	}
	nilAfterAll := true
	for _, e := range an.Exits(f) {
		if len(e.Vals) != 1 {
			kinds["?"] = true
			continue
		}
		// a return shared by several failing branches returns a join of their errors: each is classified
		// (a join that may also be nil stays what it is)
		vals := []ssa.Value{e.Vals[0]}
		if leaves := an.PhiLeaves(e.Vals[0]); len(leaves) > 1 {
			anyNil := false
			for _, l := range leaves {
				if an.IsNil(l) {
					anyNil = true
				}
			}
			if !anyNil {
				vals = leaves
			}
		}
		for _, v := range vals {
			switch {
			case an.IsNil(v):
				kinds["nil"] = true
				if must, _ := ord.Before(e.Ret); must&allMask != allMask {
					nilAfterAll = false
				}
			case an.GlobalOf(v) != "":
				kinds[strings.TrimPrefix(an.GlobalOf(v), coreP+".")] = true
			default:
				if call, _ := an.CallOf(an.Strip(v, false)); call != nil {
					cal := an.Callee(call)
					if strings.Contains(cal, "FlowSynchronization.") {
						kinds["flowerr"] = true
					} else if cal == coreP+".ValidateInternalAgentEvent" || cal == coreP+".ValidateExternalAgentEvent" {
						kinds["subscribeerr"] = true
					} else {
						kinds["result of "+cal] = true
					}
				} else {
					kinds["other:"+an.Path(v)] = true
				}
			}
		}
	}
	var ks []string
	for k := range kinds {
		ks = append(ks, k)
	}
	sort.Strings(ks)
	cell := strings.Join(names, ";") + " -> " + strings.Join(ks, "|")
	if !chainOK {
		cell += " [NOT-A-CHAIN: some effect is not preceded by all earlier effects on every path]"
	}
	if !nilAfterAll {
		cell += " [EARLY-SUCCESS: nil is returned on a path that skips an effect]"
	}
	return cell
}

func describeErrArg(v ssa.Value) string {
	v = an.Strip(v, false)
	if g := an.GlobalOf(v); g != "" {
		return g
	}
	// composite literal value: load of alloc
	if u, ok := v.(*ssa.UnOp); ok && u.Op == token.MUL {
		if a, ok := u.X.(*ssa.Alloc); ok {
			return an.TypeName(a.Type())
		}
	}
	return an.TypeName(v.Type())
}

func describeErrTypeVal(v ssa.Value) string {
	v = an.Strip(v, true)
	if p, ok := v.(*ssa.Parameter); ok {
		return "param:" + p.Name()
	}
	if call, _ := an.CallOf(v); call != nil {
		return an.Callee(call) + "()"
	}
	return an.Path(v)
}

// checkFSM compares the extracted automaton with the reference, and checks
// the base type, the wrappers and the single-writer rules.
func checkFSM(c *report.Ctx, s fsmSpec, m *fsmModel) {
	if m == nil {
		return
	}
	ownerT := coreP + "." + s.Owner
	// state set = reference state set
	refStates := map[string]bool{}
	for st := range s.Reference {
		refStates[st] = true
	}
	var extra, missing []string
	for _, st := range m.states {
		if !refStates[st] {
			extra = append(extra, st)
		}
	}
	for st := range refStates {
		if !oneOf(st, m.states...) {
			missing = append(missing, st)
		}
	}
	sort.Strings(missing)
	c.Check("R-FSM", ownerT+"/state-set", "the set of state types implementing "+s.Iface+" is the documented one", len(extra) == 0 && len(missing) == 0, fpos(c.P.Func(coreP, s.Ctor)), len(m.states), "states: %v; undocumented: %v; missing: %v", m.states, extra, missing)
	// every state type is installed by the constructor in exactly one field
	for _, st := range m.states {
		f, ok := m.typeToField[st]
		c.Check("R-FSM", ownerT+"/wiring/"+st, "the constructor installs one "+st+" object in the owner (set(<field>) resolves to it)", ok, fpos(c.P.Func(coreP, s.Ctor)), 1, "field %q; literal fields: %v", f, m.flowWiring[st])
	}
	c.Check("R-FSM", ownerT+"/initial-state", "the automaton starts in "+s.Initial, m.initial == s.Initial, fpos(c.P.Func(coreP, s.Ctor)), 1, "initial state: %s", m.initial)
	// cells
	ncell := 0
	for _, st := range m.states {
		for _, meth := range m.methods {
			want := "REFUSE"
			if r, ok := s.Reference[st]; ok {
				if w, ok := r[meth]; ok {
					want = w
				}
			}
			got := m.cells[st][meth]
			ncell++
			var pos token.Pos
			if named := c.P.Named(coreP, st); named != nil {
				pos = named.Obj().Pos()
				if f := c.P.Func(coreP, "(*"+st+")."+meth); f != nil {
					pos = f.Pos()
				}
			}
			c.Check("R-FSM", sprintf("%s/cell/%s.%s", ownerT, st, meth), sprintf("in state %s, call %s behaves as documented: %s", st, meth, want), got == want, pos, 1, "extracted: %s", got)
		}
	}
	c.Analysed("automaton cells", ncell)
	// base type: every method is exactly `return ErrNotAllowed`
	base := c.P.Named(coreP, s.Base)
	for _, meth := range m.methods {
		f := c.P.Func(coreP, "(*"+s.Base+")."+meth)
		if f == nil {
			c.Check("R-FSM", sprintf("%s.%s/refuses", coreP+"."+s.Base, meth), "the base type refuses the call", false, base.Obj().Pos(), 0, "method not declared on the base type")
			continue
		}
		ninstr := 0
		an.AllInstrs(f, func(in ssa.Instruction) {
			switch in.(type) {
			case *ssa.Return, *ssa.UnOp:
			default:
				ninstr++
			}
		})
		ex := an.Exits(f)
		ok := ninstr == 0 && len(ex) == 1 && len(ex[0].Vals) == 1 && an.IsGlobalLoad(ex[0].Vals[0], coreP+".ErrNotAllowed")
		c.Check("R-NOEFFECT", sprintf("%s.%s/refuses", coreP+"."+s.Base, meth), "a refused call consists of 'return ErrNotAllowed' and nothing else (state and barriers untouched)", ok, f.Pos(), 1+ninstr, "%d other instructions, %d exits", ninstr, len(ex))
	}
	// ErrNotAllowed is never reassigned
	nst := 0
	for _, f := range repoFuncs(c) {
		if f.Name() == "init" {
			continue
		}
		nst += len(an.GlobalStores(f, coreP+".ErrNotAllowed"))
	}
	c.Check("R-WHO", coreP+".ErrNotAllowed/never-reassigned", "ErrNotAllowed is assigned only by its initialiser", nst == 0, token.NoPos, 1, "%d stores outside init", nst)

	// currentState: written only by setStateUnsafe
	w := storesTo(c, ownerT, s.Current)
	okW := len(w) == 1
	for f := range w {
		if an.FuncName(f) != ownerT+"."+s.SetState {
			okW = false
		}
	}
	c.Check("R-WHO", ownerT+"."+s.Current+"/single-writer", "the current state is written only by "+s.SetState, okW, fpos(c.P.Func(coreP, s.Ctor)), len(w), "writers: %v", fnNames(w))
	// setStateUnsafe: called only from state methods, SetState, the constructor
	var badCallers []string
	sites := callSites(c, ownerT+"."+s.SetState)
	for _, st := range sites {
		n := an.FuncName(st.Fn)
		okc := n == ownerT+".SetState" || n == coreP+"."+s.Ctor
		if recv := st.Fn.Signature.Recv(); recv != nil {
			rn := strings.TrimPrefix(an.TypeName(recv.Type()), coreP+".")
			if oneOf(rn, m.states...) {
				okc = true
			}
		}
		if !okc {
			badCallers = append(badCallers, n)
		}
	}
	c.Check("R-WHO", ownerT+"."+s.SetState+"/callers", s.SetState+" is called only by state methods, SetState and the constructor", len(badCallers) == 0, fpos(c.P.Func(coreP, s.Ctor)), len(sites), "other callers: %v", badCallers)
	// SetState (forced transition): only test helpers
	var forced []string
	fs := callSites(c, ownerT+".SetState")
	for _, st := range fs {
		n := an.FuncName(st.Fn)
		if !strings.HasPrefix(n, "L/testdata.") {
			forced = append(forced, n)
		}
	}
	c.Check("R-WHO", ownerT+".SetState/test-only", "the forced transition SetState is used only by the test-helper package lambda/testdata", len(forced) == 0, token.NoPos, 1+len(fs), "non-test callers: %v", forced)

	// wrappers: lock, defer unlock, delegate to currentState.<same method>
	for _, meth := range m.methods {
		f := c.P.Func(coreP, "(*"+s.Owner+")."+meth)
		if f == nil {
			c.Check("R-LOCK", sprintf("%s.%s/wrapper", ownerT, meth), "the owner exposes the call through a locking wrapper", false, token.NoPos, 0, "no wrapper method")
			continue
		}
		held := an.NewHeld(f)
		lockPath := f.Params[0].Name() + ".ManagedThread"
		var deleg []ssa.CallInstruction
		an.AllInstrs(f, func(in ssa.Instruction) {
			if call, ok := in.(ssa.CallInstruction); ok && an.Callee(call) == coreP+"."+s.Iface+"."+meth {
				deleg = append(deleg, call)
			}
		})
		ok := len(deleg) == 1
		detail := sprintf("%d delegations", len(deleg))
		if ok {
			d := deleg[0]
			recvOK := an.IsFieldLoad(d.Common().Value, ownerT, s.Current)
			ok = recvOK && held.At(d)[lockPath] && held.Defers[lockPath]
			detail = sprintf("receiver is %s.%s: %v; lock held: %v; released by defer: %v", s.Owner, s.Current, recvOK, held.At(d)[lockPath], held.Defers[lockPath])
			// other interface calls on the state (would run a second transition)
			n := 0
			an.AllInstrs(f, func(in ssa.Instruction) {
				if call, ok := in.(ssa.CallInstruction); ok && strings.HasPrefix(an.Callee(call), coreP+"."+s.Iface+".") {
					n++
				}
			})
			if n != 1 {
				ok = false
				detail += sprintf("; %d state calls", n)
			}
		}
		c.Check("R-LOCK", sprintf("%s.%s/wrapper", ownerT, meth), "the wrapper takes the owner's lock, releases it by defer and delegates exactly once to currentState."+meth, ok, f.Pos(), 1, "%s", detail)
	}
	// SuspendUnsafe callers hold the lock by construction: only state methods call it
	var parkers []string
	for _, st := range callSites(c, coreP+".Suspendable.SuspendUnsafe") {
		n := an.FuncName(st.Fn)
		okp := false
		if recv := st.Fn.Signature.Recv(); recv != nil {
			rn := strings.TrimPrefix(an.TypeName(recv.Type()), coreP+".")
			if strings.HasSuffix(rn, "State") || rn == "ExternalAgent" || rn == "InternalAgent" {
				okp = true
			}
		}
		if !okp {
			parkers = append(parkers, n)
		}
	}
	c.Check("R-WHO", coreP+".Suspendable.SuspendUnsafe/callers", "threads are parked only from state methods (entered through the locking wrappers)", len(parkers) == 0, token.NoPos, 1, "other callers: %v", parkers)
}

// checkStateNames: Name() of each state returns the expected constant.
func checkStateNames(c *report.Ctx, owner string, states []string, want map[string]string) {
	for _, st := range states {
		f := c.P.Func(coreP, "(*"+st+").Name")
		if f == nil {
			c.Check("R-CONST", sprintf("%s/name/%s", owner, st), "state reports its name", false, token.NoPos, 0, "no Name method")
			continue
		}
		ex := an.Exits(f)
		got := ""
		if len(ex) == 1 && len(ex[0].Vals) == 1 {
			got, _ = an.ConstString(ex[0].Vals[0])
		}
		c.Check("R-CONST", sprintf("%s/name/%s", owner, st), sprintf("state %s reports the name %q (status lines and the internal state description show the true state)", st, want[st]), got == want[st] && got != "", f.Pos(), 1, "Name() returns %q", got)
	}
}
