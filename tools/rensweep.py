#!/usr/bin/env python3
"""Renames ONE declaration at a time (checker/cmd/renone: unexported fields, functions/methods, struct types) in a
scratch copy of /repo and runs every check on the result. Each variant is the same program, so every check must
stay silent. A discovery aid for the rename recognition of the analysis normal form, not a check.
usage: rensweep.py [-j N] [field|func|type ...]   Writes corpus/RENSWEEP.json and prints the alarms."""
import json, os, shutil, subprocess, sys, tempfile, concurrent.futures as cf
HERE = os.path.abspath(os.path.join(os.path.dirname(os.path.abspath(__file__)), ".."))
BIN = os.environ.get("RIECHECK_BIN", os.path.join(HERE, "bin", "riecheck"))
ENV = dict(os.environ, GOFLAGS="-mod=mod", GOPROXY="off", GOSUMDB="off", GOTOOLCHAIN="local"); ENV.pop("GOWORK", None)
args = sys.argv[1:]; jobs = 8
if args and args[0] == "-j": jobs = int(args[1]); args = args[2:]
kinds = args or ["field", "func", "type"]
tool = os.path.join(tempfile.gettempdir(), "rie-gen-renone")
subprocess.run(["go", "build", "-o", tool, "./cmd/renone"], cwd=os.path.join(HERE, "checker"), env=ENV, check=True)
items = []
for k in kinds:
    n = int(subprocess.run([tool, "/repo", k, "count"], env=ENV, capture_output=True, text=True).stdout.strip())
    items += [(k, i) for i in range(n)]
def run(it):
    kind, i = it
    scratch = tempfile.mkdtemp(prefix="rie-ren-")
    try:
        dst = os.path.join(scratch, "repo")
        shutil.copytree("/repo", dst, ignore=shutil.ignore_patterns(".git"))
        pr = subprocess.run([tool, dst, kind, str(i)], env=ENV, capture_output=True, text=True)
        if pr.returncode != 0: return it, {"error": "renone: " + pr.stderr[-200:]}
        what = pr.stdout.strip()
        b = subprocess.run(["go", "vet", "./..."], cwd=dst, env=ENV, capture_output=True, text=True)
        if b.returncode != 0: return it, {"what": what, "error": "does not build: " + (b.stdout + b.stderr)[-300:]}
        pr = subprocess.run([BIN, "-property", "all", "-repo", dst, "-verif", HERE, "-no-evidence"], env=ENV, capture_output=True, text=True)
        fired, cur, keys = [], [], {}
        for l in pr.stdout.splitlines():
            ls = l.strip()
            if ls.startswith(("violated ", "UNRESOLVED", "ERROR")): cur.append(ls[:200])
            if l.startswith("RESULT "):
                p, rc = l.split()[1], int(l.split()[2][3:])
                if rc != 0: fired.append(p); keys[p] = cur[:3]
                cur = []
        return it, {"what": what, "fired": fired, "keys": keys}
    finally:
        shutil.rmtree(scratch, ignore_errors=True)
out, bad = {}, 0
with cf.ThreadPoolExecutor(max_workers=jobs) as ex:
    for it, r in ex.map(run, items):
        out["%s-%03d" % it] = r
        if r.get("error") or r.get("fired"):
            bad += 1
            print("%s-%03d" % it, r.get("what", ""), r.get("error", ""), ",".join(r.get("fired", [])), flush=True)
            for p, ks in r.get("keys", {}).items():
                for k in ks[:2]: print("      ", p, k[:170], flush=True)
json.dump(out, open(os.path.join(HERE, "corpus", "RENSWEEP.json"), "w"), indent=1, sort_keys=True)
print("variants %d; alarms or broken: %d" % (len(out), bad))
