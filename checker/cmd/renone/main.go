// renone renames ONE declared identifier of a scratch copy of the repository, in place and everywhere it is used
// (test files included): `renone REPO field|func|type K` renames the K-th candidate (sorted by package and name)
// to <name>X; `renone REPO kind count` prints the number of candidates. Candidates: unexported struct fields;
// unexported functions and methods (and exported plain functions) whose name no interface of the repository
// declares; unexported named struct types. The result is the same program. It is a self-test aid for the
// checker's recognition of renamed declarations, not a check.
package main

import (
	"fmt"
	"go/ast"
	"go/token"
	"go/types"
	"os"
	"sort"
	"strconv"
	"strings"

	"golang.org/x/tools/go/packages"
)

func main() {
	root, kind, karg := os.Args[1], os.Args[2], os.Args[3]
	fset := token.NewFileSet()
	cfg := &packages.Config{Mode: packages.LoadSyntax, Dir: root, Fset: fset, Tests: true}
	pkgs, err := packages.Load(cfg, "./...")
	if err != nil {
		fmt.Fprintln(os.Stderr, err)
		os.Exit(2)
	}
	ifaceMethods := map[string]bool{"String": true, "Error": true, "ServeHTTP": true, "Write": true, "Read": true, "Close": true, "Header": true, "WriteHeader": true, "Flush": true, "Len": true, "Less": true, "Swap": true}
	for _, p := range pkgs {
		for _, o := range p.TypesInfo.Defs {
			if tn, ok := o.(*types.TypeName); ok {
				if it, ok := tn.Type().Underlying().(*types.Interface); ok {
					for i := 0; i < it.NumMethods(); i++ {
						ifaceMethods[it.Method(i).Name()] = true
					}
				}
			}
		}
	}
	type candT struct {
		key string
		pos token.Position
	}
	seen := map[string]bool{}
	var cands []candT
	for _, p := range pkgs {
		if !strings.HasPrefix(p.PkgPath, "go.amzn.com") {
			continue
		}
		for id, o := range p.TypesInfo.Defs {
			if o == nil || id.Name == "_" {
				continue
			}
			pos := fset.Position(id.Pos())
			if strings.HasSuffix(pos.Filename, "_test.go") || strings.Contains(pos.Filename, "/testdata/") || strings.Contains(pos.Filename, "/mocks") {
				continue
			}
			ok := false
			switch x := o.(type) {
			case *types.Var:
				ok = kind == "field" && x.IsField() && !x.Exported() && !x.Embedded()
			case *types.Func:
				sig := x.Type().(*types.Signature)
				if kind == "func" && x.Name() != "main" && x.Name() != "init" && !ifaceMethods[x.Name()] {
					ok = !x.Exported() || sig.Recv() == nil
				}
			case *types.TypeName:
				_, isStruct := x.Type().Underlying().(*types.Struct)
				ok = kind == "type" && !x.Exported() && isStruct && x.Parent() == x.Pkg().Scope()
			}
			if !ok {
				continue
			}
			key := fmt.Sprintf("%s:%d:%d", pos.Filename, pos.Line, pos.Column)
			if !seen[key] {
				seen[key] = true
				cands = append(cands, candT{key, pos})
			}
		}
	}
	sort.Slice(cands, func(i, j int) bool { return cands[i].key < cands[j].key })
	if karg == "count" {
		fmt.Println(len(cands))
		return
	}
	k, _ := strconv.Atoi(karg)
	if k < 0 || k >= len(cands) {
		os.Exit(3)
	}
	target := cands[k].pos
	// the object(s) declared at that position (one per package variant)
	edits := map[string]map[int]int{}
	name := ""
	for _, p := range pkgs {
		var objs []types.Object
		for id, o := range p.TypesInfo.Defs {
			if o != nil && fset.Position(id.Pos()) == target {
				objs = append(objs, o)
				name = id.Name
			}
		}
		if len(objs) == 0 {
			continue
		}
		isT := func(o types.Object) bool {
			for _, t := range objs {
				if o == t {
					return true
				}
			}
			return false
		}
		for _, f := range p.Syntax {
			fname := fset.Position(f.Pos()).Filename
			ast.Inspect(f, func(n ast.Node) bool {
				id, ok := n.(*ast.Ident)
				if !ok {
					return true
				}
				o := p.TypesInfo.Defs[id]
				if o == nil {
					o = p.TypesInfo.Uses[id]
				}
				if o != nil && isT(o) {
					if edits[fname] == nil {
						edits[fname] = map[int]int{}
					}
					edits[fname][fset.Position(id.Pos()).Offset] = fset.Position(id.End()).Offset
				}
				return true
			})
		}
	}
	// uses from other packages (exported functions): objects are distinct per importing package load; match by position
	for _, p := range pkgs {
		for _, f := range p.Syntax {
			fname := fset.Position(f.Pos()).Filename
			ast.Inspect(f, func(n ast.Node) bool {
				id, ok := n.(*ast.Ident)
				if !ok {
					return true
				}
				if o := p.TypesInfo.Uses[id]; o != nil && o.Pos().IsValid() && fset.Position(o.Pos()) == target {
					if edits[fname] == nil {
						edits[fname] = map[int]int{}
					}
					edits[fname][fset.Position(id.Pos()).Offset] = fset.Position(id.End()).Offset
				}
				return true
			})
		}
	}
	for fname, es := range edits {
		src, err := os.ReadFile(fname)
		if err != nil {
			panic(err)
		}
		var offs []int
		for o := range es {
			offs = append(offs, o)
		}
		sort.Sort(sort.Reverse(sort.IntSlice(offs)))
		for _, o := range offs {
			e := es[o]
			src = append(src[:e:e], append([]byte("X"), src[e:]...)...)
		}
		if err := os.WriteFile(fname, src, 0o644); err != nil {
			panic(err)
		}
	}
	rel := strings.TrimPrefix(target.Filename, root+"/")
	fmt.Printf("renamed %s %s (%s:%d) to %sX in %d files\n", kind, name, rel, target.Line, name, len(edits))
}
