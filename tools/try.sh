#!/bin/bash
# try.sh DIFF PROP... : apply DIFF to a scratch copy of /repo and run the given checks (binary: $RIECHECK_BIN or bin/riecheck)
set -u
HERE=$(cd "$(dirname "$0")/.." && pwd)
BIN=${RIECHECK_BIN:-$HERE/bin/riecheck}
D=$(mktemp -d ${TMPDIR:-/tmp}/rie-try-XXXXXX)
trap 'rm -rf "$D"' EXIT
rsync -a --exclude .git /repo/ "$D/repo/"
diff=$(realpath "$1"); shift
( cd "$D/repo" && git apply --whitespace=nowarn "$diff" ) || { echo "patch does not apply"; exit 3; }
for p in "$@"; do
  if [ -n "${BRIEF:-}" ]; then
    "$BIN" -property "$p" -repo "$D/repo" -verif "$HERE" -no-evidence 2>&1 | grep -A3 "^  violated \|^UNRESOLVED\|^ERROR" | grep -v "^--\|^VIOLATION" | cut -c1-${COLS:-300}
  else
    ${DUMP:+env RIECHECK_DUMP=1} "$BIN" -property "$p" -repo "$D/repo" -verif "$HERE" -no-evidence 2>&1 | grep -v "^DUMP discharged" | cut -c1-${COLS:-400}
  fi
done
